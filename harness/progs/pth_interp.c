/* C16: interpreter of the program-description language of lean/MythVerif/Model/PthProg.lean
 * (namespace Flat) against the POSIX threads API.  The SAME source is built twice: a plain link
 * (system pthreads; also used with LD_PRELOAD=libmyth-dl) and a link with @src/myth-ld.opts against
 * the ld-wrapped MassiveThreads library.  It contains no MassiveThreads-specific code.
 *
 * usage: pth_interp <description file>
 * output: optional `E <first error>` line, then
 *   R acc=<main acc> g=<counters> gate=<gates> d=<dcalls>,<dnull>,<dsum> once=<runs>
 * which is exactly what Flat.result prints for the same description.
 */
#define _GNU_SOURCE
#include <errno.h>
#include <pthread.h>
#include <sched.h>
#include <stdarg.h>
#include <stdio.h>
#include <stdlib.h>
#include <string.h>
#include <time.h>
#include <unistd.h>

enum { MAXT = 96, MAXOPS = 400, MAXC = 24, MAXM = 12, MAXS = 6, MAXG = 12, MAXQ = 4, MAXB = 6, MAXO = 4, MAXK = 24, QRING = 16 };
enum { O_LIT, O_ADD, O_TADD, O_RD, O_SPAWN, O_JOIN, O_JOINN, O_DETACH, O_SDETACH, O_POST, O_AWAIT, O_PUT, O_GET, O_BAR,
       O_ONCE, O_KCREATE, O_KDELETE, O_KSET, O_KGET, O_YIELD, O_NSLEEP, O_USLEEP, O_SLEEP0, O_SELF, O_CHK, O_FIN, O_NSLEEPBAD, O_KMAX };
static const char * opnames[] = { "lit", "add", "tadd", "rd", "spawn", "join", "joinn", "detach", "sdetach", "post", "await",
                                  "put", "get", "bar", "once", "kcreate", "kdelete", "kset", "kget", "yield", "nsleep",
                                  "usleep", "sleep0", "self", "chk", "fin", "nsleepbad", "kmax", 0 };
typedef struct { int code; long a, b, c; } Op;
typedef struct { int nops; Op ops[MAXOPS]; int exitmode; } Th;

static Th th[MAXT]; static int nth;
static pthread_t tid[MAXT]; static pthread_t selfrec[MAXT]; static pthread_t mainself;
/* counters and their locks */
static long cnt[MAXC]; static int ncnt; static char lockkind[MAXC]; static int lockidx[MAXC];
#define MI PTHREAD_MUTEX_INITIALIZER
#define CI PTHREAD_COND_INITIALIZER
static pthread_mutex_t mx_static[MAXM] = { MI, MI, MI, MI, MI, MI, MI, MI, MI, MI, MI, MI };
static pthread_mutex_t mx_dyn[MAXM]; static int mxkind[MAXM]; static int nmx;
static pthread_spinlock_t sp[MAXS]; static int nsp;
/* gates */
static long gate[MAXG]; static int ngate; static int gatekind[MAXG];
static pthread_mutex_t gm_static[MAXG] = { MI, MI, MI, MI, MI, MI, MI, MI, MI, MI, MI, MI };
static pthread_cond_t gc_static[MAXG] = { CI, CI, CI, CI, CI, CI, CI, CI, CI, CI, CI, CI };
static pthread_mutex_t gm_dyn[MAXG]; static pthread_cond_t gc_dyn[MAXG];
/* bounded buffers */
static int nq; static int qcap[MAXQ]; static long qring[MAXQ][QRING]; static int qhead[MAXQ], qlen[MAXQ];
static pthread_mutex_t qm[MAXQ] = { MI, MI, MI, MI };
static pthread_cond_t qnf[MAXQ] = { CI, CI, CI, CI }, qne[MAXQ] = { CI, CI, CI, CI };
/* barriers */
static int nbar; static pthread_barrier_t bar[MAXB]; static int barcount[MAXB], barcounter[MAXB];
/* once */
static int nonce; static pthread_once_t oc[MAXO] = { PTHREAD_ONCE_INIT, PTHREAD_ONCE_INIT, PTHREAD_ONCE_INIT, PTHREAD_ONCE_INIT };
static int oncecounter[MAXO]; static long oncek[MAXO]; static volatile long onceruns[MAXO];
/* keys */
static int nkeys; static pthread_key_t keys[MAXK];
static volatile long dcalls, dnull, dsum;
/* result */
static pthread_mutex_t finmx = MI; static int fins; static long main_acc;
static volatile int nerr; static char firsterr[200];
static int has_detached;

static void err(const char * fmt, ...) {
  if (__sync_fetch_and_add(&nerr, 1) == 0) {
    va_list ap; va_start(ap, fmt); vsnprintf(firsterr, sizeof firsterr, fmt, ap); va_end(ap);
  }
}
#define CK(call) do { int rc_ = (call); if (rc_ != 0) err("%s returned %d", #call, rc_); } while (0)

static pthread_mutex_t * mxp(int i) { return mxkind[i] == 0 ? &mx_static[i] : &mx_dyn[i]; }
static pthread_mutex_t * gmp(int g) { return gatekind[g] == 0 ? &gm_static[g] : &gm_dyn[g]; }
static pthread_cond_t * gcp(int g) { return gatekind[g] == 0 ? &gc_static[g] : &gc_dyn[g]; }

static void lock_counter(int c, int try) {
  int rc;
  if (lockkind[c] == 'm') {
    pthread_mutex_t * m = mxp(lockidx[c]);
    if (try) { while ((rc = pthread_mutex_trylock(m)) == EBUSY) sched_yield(); if (rc) err("pthread_mutex_trylock returned %d", rc); }
    else CK(pthread_mutex_lock(m));
  } else {
    pthread_spinlock_t * s = &sp[lockidx[c]];
    if (try) { while ((rc = pthread_spin_trylock(s)) == EBUSY) sched_yield(); if (rc) err("pthread_spin_trylock returned %d", rc); }
    else CK(pthread_spin_lock(s));
  }
}
static void unlock_counter(int c) {
  if (lockkind[c] == 'm') CK(pthread_mutex_unlock(mxp(lockidx[c]))); else CK(pthread_spin_unlock(&sp[lockidx[c]]));
}
static void locked_add(int c, long k, int try) { lock_counter(c, try); cnt[c] += k; unlock_counter(c); }

static void print_result(void) {
  char buf[2048]; int n = 0;
  if (nerr) printf("E %s\n", firsterr);
  n += snprintf(buf + n, sizeof buf - n, "R acc=%ld g=", main_acc);
  for (int i = 0; i < ncnt; i++) n += snprintf(buf + n, sizeof buf - n, "%s%ld", i ? "," : "", cnt[i]);
  n += snprintf(buf + n, sizeof buf - n, " gate=");
  for (int i = 0; i < ngate; i++) n += snprintf(buf + n, sizeof buf - n, "%s%ld", i ? "," : "", gate[i]);
  n += snprintf(buf + n, sizeof buf - n, " d=%ld,%ld,%ld once=", dcalls, dnull, dsum);
  for (int i = 0; i < nonce; i++) n += snprintf(buf + n, sizeof buf - n, "%s%ld", i ? "," : "", onceruns[i]);
  printf("%s\n", buf);
  fflush(stdout);
}

/* destructors */
static void dtor_sum(void * v) {
  __sync_fetch_and_add(&dcalls, 1);
  if (!v) __sync_fetch_and_add(&dnull, 1);
  __sync_fetch_and_add(&dsum, (long)v);
}
#define DTOR_RESTORE(i) static void dtor_restore##i(void * v) { dtor_sum(v); if ((long)v > 1) CK(pthread_setspecific(keys[i], (void *)((long)v - 1))); }
DTOR_RESTORE(0) DTOR_RESTORE(1) DTOR_RESTORE(2) DTOR_RESTORE(3)
static void (*restore_fns[4])(void *) = { dtor_restore0, dtor_restore1, dtor_restore2, dtor_restore3 };

static void once_body(int o) { onceruns[o]++; locked_add(oncecounter[o], oncek[o], 0); }
static void once0(void) { once_body(0); } static void once1(void) { once_body(1); }
static void once2(void) { once_body(2); } static void once3(void) { once_body(3); }
static void (*once_fns[MAXO])(void) = { once0, once1, once2, once3 };

static void * thread_main(void * arg);

static long run_ops(int id) {
  long acc = 0;
  Th * t = &th[id];
  for (int i = 0; i < t->nops; i++) {
    Op * o = &t->ops[i];
    switch (o->code) {
    case O_LIT: acc += o->a; break;
    case O_ADD: locked_add((int)o->a, o->b, 0); break;
    case O_TADD: locked_add((int)o->a, o->b, 1); break;
    case O_RD: lock_counter((int)o->a, 0); acc += cnt[o->a]; unlock_counter((int)o->a); break;
    case O_SPAWN: {
      int u = (int)o->a, m = (int)o->b;
      if (m == 0) { CK(pthread_create(&tid[u], 0, thread_main, (void *)(long)u)); break; }
      pthread_attr_t at; memset(&at, 0xAA, sizeof at);
      CK(pthread_attr_init(&at));
      if (m == 2) CK(pthread_attr_setdetachstate(&at, PTHREAD_CREATE_JOINABLE));
      if (m == 3) CK(pthread_attr_setstacksize(&at, (size_t)(256 + 64 * (u % 5)) * 1024));
      if (m == 4) CK(pthread_attr_setdetachstate(&at, PTHREAD_CREATE_DETACHED));
      CK(pthread_create(&tid[u], &at, thread_main, (void *)(long)u));
      CK(pthread_attr_destroy(&at));
      break; }
    case O_JOIN: { void * rv = (void *)-7777; CK(pthread_join(tid[o->a], &rv)); acc += (long)rv; break; }
    case O_JOINN: CK(pthread_join(tid[o->a], 0)); break;
    case O_DETACH: CK(pthread_detach(tid[o->a])); break;
    case O_SDETACH: CK(pthread_detach(pthread_self())); break;
    case O_POST: {
      int g = (int)o->a;
      CK(pthread_mutex_lock(gmp(g))); gate[g] += o->b;
      if (o->c) CK(pthread_cond_broadcast(gcp(g))); else CK(pthread_cond_signal(gcp(g)));
      CK(pthread_mutex_unlock(gmp(g))); break; }
    case O_AWAIT: {
      int g = (int)o->a;
      CK(pthread_mutex_lock(gmp(g)));
      while (gate[g] < o->b) CK(pthread_cond_wait(gcp(g), gmp(g)));
      CK(pthread_mutex_unlock(gmp(g))); break; }
    case O_PUT: {
      int q = (int)o->a;
      CK(pthread_mutex_lock(&qm[q]));
      while (qlen[q] == qcap[q]) CK(pthread_cond_wait(&qnf[q], &qm[q]));
      qring[q][(qhead[q] + qlen[q]) % QRING] = o->b; qlen[q]++;
      CK(pthread_cond_signal(&qne[q]));
      CK(pthread_mutex_unlock(&qm[q])); break; }
    case O_GET: {
      int q = (int)o->a; long v;
      CK(pthread_mutex_lock(&qm[q]));
      while (qlen[q] == 0) CK(pthread_cond_wait(&qne[q], &qm[q]));
      v = qring[q][qhead[q]]; qhead[q] = (qhead[q] + 1) % QRING; qlen[q]--;
      CK(pthread_cond_signal(&qnf[q]));
      CK(pthread_mutex_unlock(&qm[q]));
      locked_add((int)o->b, v, 0); break; }
    case O_BAR: {
      int b = (int)o->a;
      int rc = pthread_barrier_wait(&bar[b]);
      if (rc == PTHREAD_BARRIER_SERIAL_THREAD) locked_add(barcounter[b], 1, 0);
      else if (rc != 0) err("pthread_barrier_wait returned %d", rc);
      break; }
    case O_ONCE: CK(pthread_once(&oc[o->a], once_fns[o->a])); acc += onceruns[o->a]; break;
    case O_KCREATE: {
      int k = (int)o->a;
      void (*d)(void *) = o->b == 0 ? 0 : o->b == 1 ? dtor_sum : restore_fns[k % 4];
      CK(pthread_key_create(&keys[k], d)); break; }
    case O_KDELETE: CK(pthread_key_delete(keys[o->a])); break;
    case O_KSET: CK(pthread_setspecific(keys[o->a], (void *)o->b)); break;
    case O_KGET: acc += (long)pthread_getspecific(keys[o->a]); break;
    case O_YIELD: acc += sched_yield(); break;
    case O_NSLEEP: { struct timespec ts = { 0, o->a * 1000 }, rem = { 0, 0 }; acc += nanosleep(&ts, &rem); break; }
    case O_USLEEP: acc += usleep((useconds_t)o->a); break;
    case O_SLEEP0: acc += sleep(0); break;
    case O_SELF: acc += pthread_equal(pthread_self(), pthread_self()) != 0; break;
    case O_CHK: acc += 2 * (pthread_equal(pthread_self(), tid[id]) != 0) + (pthread_equal(tid[id], mainself) == 0); break;
    case O_NSLEEPBAD: {
      struct timespec ts = { 0, 2000000000L }; errno = 0;
      int rc = nanosleep(&ts, 0);
      acc += (rc == -1 && errno == EINVAL) ? 1 : 100 + rc; break; }
    case O_KMAX: {
      /* create keys until it fails, then delete them again */
      static pthread_key_t tmp[2048]; int n = 0, rc = 0;
      while (n < 2048 && (rc = pthread_key_create(&tmp[n], 0)) == 0) n++;
      for (int j = 0; j < n; j++) CK(pthread_key_delete(tmp[j]));
      acc += (rc == EAGAIN && n > 0) ? 1 : 100 + rc; break; }
    case O_FIN:
      CK(pthread_mutex_lock(&finmx));
      if (++fins == o->a) print_result();
      CK(pthread_mutex_unlock(&finmx));
      break;
    }
  }
  return acc;
}

static void __attribute__((noinline)) nested_exit(int depth, long acc) {
  volatile char pad[64]; pad[0] = (char)depth;
  if (depth > 0) nested_exit(depth - 1, acc + pad[0] - depth);
  pthread_exit((void *)acc);
}

static void * thread_main(void * arg) {
  int id = (int)(long)arg;
  selfrec[id] = pthread_self();
  long acc = run_ops(id);
  if (th[id].exitmode == 1) pthread_exit((void *)acc);
  if (th[id].exitmode == 2) nested_exit(3, acc);
  return (void *)acc;
}

static int opcode(const char * s) { for (int i = 0; opnames[i]; i++) if (!strcmp(opnames[i], s)) return i; return -1; }
static void die(const char * m, const char * x) { fprintf(stderr, "pth_interp: %s %s\n", m, x); exit(2); }

static void parse(const char * path) {
  FILE * f = fopen(path, "r");
  if (!f) die("cannot open", path);
  static char line[16384];
  while (fgets(line, sizeof line, f)) {
    char * save = 0; char * w = strtok_r(line, " \n", &save);
    if (!w || !strcmp(w, "end")) continue;
    if (!strcmp(w, "family")) continue;
    if (!strcmp(w, "counters")) {
      while ((w = strtok_r(0, " \n", &save))) { if (ncnt >= MAXC) die("too many", "counters"); lockkind[ncnt] = w[0]; lockidx[ncnt] = atoi(w + 1); ncnt++; }
    } else if (!strcmp(w, "mutexes")) {
      while ((w = strtok_r(0, " \n", &save))) { if (nmx >= MAXM) die("too many", "mutexes"); mxkind[nmx++] = atoi(w); }
    } else if (!strcmp(w, "spins")) {
      w = strtok_r(0, " \n", &save); nsp = w ? atoi(w) : 0; if (nsp > MAXS) die("too many", "spins");
    } else if (!strcmp(w, "gates")) {
      while ((w = strtok_r(0, " \n", &save))) { if (ngate >= MAXG) die("too many", "gates"); gatekind[ngate++] = atoi(w); }
    } else if (!strcmp(w, "queues")) {
      while ((w = strtok_r(0, " \n", &save))) { if (nq >= MAXQ) die("too many", "queues"); qcap[nq] = atoi(w); if (qcap[nq] > QRING) die("queue capacity", w); nq++; }
    } else if (!strcmp(w, "barriers")) {
      while ((w = strtok_r(0, " \n", &save))) { if (nbar >= MAXB) die("too many", "barriers"); sscanf(w, "%d:%d", &barcount[nbar], &barcounter[nbar]); nbar++; }
    } else if (!strcmp(w, "onces")) {
      while ((w = strtok_r(0, " \n", &save))) { if (nonce >= MAXO) die("too many", "onces"); sscanf(w, "%d:%ld", &oncecounter[nonce], &oncek[nonce]); nonce++; }
    } else if (!strcmp(w, "keys")) {
      w = strtok_r(0, " \n", &save); nkeys = w ? atoi(w) : 0; if (nkeys > MAXK) die("too many", "keys");
    } else if (!strcmp(w, "thread")) {
      w = strtok_r(0, " \n", &save); int id = atoi(w);
      if (id != nth || nth >= MAXT) die("bad thread id", w);
      w = strtok_r(0, " \n", &save); th[id].exitmode = atoi(w);
      while ((w = strtok_r(0, " \n", &save))) {
        Th * t = &th[id]; if (t->nops >= MAXOPS) die("too many ops", w);
        Op * o = &t->ops[t->nops++]; char name[32]; o->a = o->b = o->c = 0;
        char * c1 = strchr(w, ':'); size_t nl = c1 ? (size_t)(c1 - w) : strlen(w); if (nl >= sizeof name) die("bad op", w);
        memcpy(name, w, nl); name[nl] = 0; o->code = opcode(name); if (o->code < 0) die("unknown op", w);
        if (c1) { o->a = strtol(c1 + 1, &c1, 10); if (*c1 == ':') { o->b = strtol(c1 + 1, &c1, 10); if (*c1 == ':') o->c = strtol(c1 + 1, &c1, 10); } }
        if (o->code == O_DETACH || o->code == O_SDETACH || (o->code == O_SPAWN && o->b == 4)) has_detached = 1;
      }
      nth++;
    } else die("unknown line", w);
  }
  fclose(f);
}

int main(int argc, char ** argv) {
  if (argc < 2) die("usage:", "pth_interp <description>");
  parse(argv[1]);
  mainself = pthread_self();
  tid[0] = mainself;
  for (int i = 0; i < nmx; i++) {
    if (mxkind[i] == 1) { memset(&mx_dyn[i], 0xAA, sizeof mx_dyn[i]); CK(pthread_mutex_init(&mx_dyn[i], 0)); }
    if (mxkind[i] == 2) {
      pthread_mutexattr_t ma; memset(&mx_dyn[i], 0x55, sizeof mx_dyn[i]);
      CK(pthread_mutexattr_init(&ma)); CK(pthread_mutex_init(&mx_dyn[i], &ma)); CK(pthread_mutexattr_destroy(&ma));
    }
  }
  for (int i = 0; i < nsp; i++) { memset((void *)&sp[i], 0xAA, sizeof sp[i]); CK(pthread_spin_init(&sp[i], PTHREAD_PROCESS_PRIVATE)); }
  for (int i = 0; i < ngate; i++) if (gatekind[i]) {
    memset(&gm_dyn[i], 0xAA, sizeof gm_dyn[i]); memset(&gc_dyn[i], 0xAA, sizeof gc_dyn[i]);
    CK(pthread_mutex_init(&gm_dyn[i], 0)); CK(pthread_cond_init(&gc_dyn[i], 0));
  }
  for (int i = 0; i < nbar; i++) { memset(&bar[i], 0xAA, sizeof bar[i]); CK(pthread_barrier_init(&bar[i], 0, (unsigned)barcount[i])); }
  long acc = run_ops(0);
  main_acc = acc;
  if (th[0].exitmode == 3) pthread_exit(0);        /* main_exit family: the last `fin' prints */
  if (!has_detached) {
    for (int i = 0; i < nmx; i++) if (mxkind[i]) CK(pthread_mutex_destroy(&mx_dyn[i]));
    for (int i = 0; i < nsp; i++) CK(pthread_spin_destroy(&sp[i]));
    for (int i = 0; i < ngate; i++) if (gatekind[i]) { CK(pthread_cond_destroy(&gc_dyn[i])); CK(pthread_mutex_destroy(&gm_dyn[i])); }
    for (int i = 0; i < nbar; i++) CK(pthread_barrier_destroy(&bar[i]));
  }
  print_result();
  return 0;
}
