/* C14 whole-library program: K concurrent callers x M calls of myth_once (or pthread_once when
 * built with -DONCE_PTHREAD against the ld-wrapped library) on NC once-controls, run under the
 * schedule controller.  Init routines yield, lock a mutex that a helper thread holds for a while,
 * and create + join a thread.
 * usage: once_prog W K M NC PSEED      (schedule from CTL_* environment)
 * output: RESULT ok|fail <detail>
 *
 * Oracle (exactly the property): per control the routine's execution counter is 1 once anybody has
 * returned (never > 1), the `done' flag written at the very end of the routine is seen set by
 * every caller right after its call returns, a later call of the same thread returns without
 * running the routine; the controller gives the deadlock verdict.
 */
#ifdef ONCE_PTHREAD
/* the whole link is wrapped (-Wl,--wrap=pthread_*): the controller itself must keep using the
 * system's pthread primitives */
#include <pthread.h>
int __real_pthread_mutex_lock(pthread_mutex_t *);
int __real_pthread_mutex_unlock(pthread_mutex_t *);
int __real_pthread_cond_wait(pthread_cond_t *, pthread_mutex_t *);
int __real_pthread_cond_timedwait(pthread_cond_t *, pthread_mutex_t *, const struct timespec *);
int __real_pthread_cond_broadcast(pthread_cond_t *);
int __wrap_pthread_once(pthread_once_t *, void (*)(void));
#define pthread_mutex_lock __real_pthread_mutex_lock
#define pthread_mutex_unlock __real_pthread_mutex_unlock
#define pthread_cond_wait __real_pthread_cond_wait
#define pthread_cond_timedwait __real_pthread_cond_timedwait
#define pthread_cond_broadcast __real_pthread_cond_broadcast
#endif
#include "schedctl.h"

#define MAXK 8
#define MAXC 3
#ifdef ONCE_PTHREAD
static pthread_once_t oc[MAXC] = { PTHREAD_ONCE_INIT, PTHREAD_ONCE_INIT, PTHREAD_ONCE_INIT };
#define ONCE_CALL(c, f) __wrap_pthread_once(&oc[c], (f))
#else
static myth_once_t oc[MAXC];                 /* zero-initialised static storage */
#define ONCE_CALL(c, f) myth_once(&oc[c], (f))
#endif
static volatile int execs[MAXC];             /* times the routine was entered */
static volatile int inside[MAXC];            /* callers currently inside the routine */
static volatile int done_flag[MAXC];         /* written last thing in the routine */
static volatile long calls_returned[MAXC];
static myth_mutex_t hm[MAXC];                /* held for a while by helper threads */
static volatile int child_ran[MAXC];
static volatile int bad; static char badmsg[240];
static int K, M, NC; static uint64_t pseed;
static int kind_of[MAXC];

static uint64_t mix(uint64_t z) { z += 0x9E3779B97F4A7C15ULL; z = (z ^ (z >> 30)) * 0xBF58476D1CE4E5B9ULL; z = (z ^ (z >> 27)) * 0x94D049BB133111EBULL; return z ^ (z >> 31); }

#define FAIL(...) do { if (!bad) { bad = 1; snprintf(badmsg, sizeof badmsg, __VA_ARGS__); } } while (0)

/* ---- controller glue: a wait-loop iteration that did not see `completed' is a busy-wait ---- */
static const void * wl_th[64]; static int wl_n;   /* threads currently inside a once wait loop */
static int wl_find(const void * th) { for (int i = 0; i < wl_n; i++) if (wl_th[i] == th) return i; return -1; }
static void once_hook(int pt, const void * a, const void * b, long v) {
  if (ctl_active) {
    /* only the token holder mutates wl_* (non-holders block inside ctl_hook before logging), but a
       non-holder's first contact comes through here too: keep the bookkeeping after ctl_hook */
    if (pt == MYTH_VP_ONCE_WAIT_READ && v != myth_once_state_completed) {
      ctl_hook(-pt, a, b, v);
      const void * me = (const void *)myth_self();
      if (wl_find(me) < 0 && wl_n < 64) wl_th[wl_n++] = me;
      return;
    }
    if (pt == MYTH_VP_ONCE_WAIT_READ) {
      ctl_hook(pt, a, b, v);
      int i = wl_find((const void *)myth_self());
      if (i >= 0) wl_th[i] = wl_th[--wl_n];
      return;
    }
    /* the yield of a thread that is inside a wait loop (YIELD_CB, and whatever other point the
       library reports on behalf of that thread while it switches) is part of the busy-wait */
    if (pt > 0 && b && wl_find(b) >= 0) { ctl_hook(-pt, a, b, v); return; }
  }
  ctl_hook(pt, a, b, v);
}

/* ---- init routines ---- */
static void * child_body(void * arg) {
  long c = (long)arg;
  ctl_name_thread(200 + (int)c);
  myth_yield();
  child_ran[c] = 1;
  return (void *)(c + 7);
}

static void routine_body(int c) {
  if (++inside[c] != 1) FAIL("control %d: two callers inside the init routine", c);
  if (++execs[c] != 1) FAIL("control %d: init routine entered %d times", c, execs[c]);
  if (done_flag[c]) FAIL("control %d: init routine entered after it completed", c);
  ctl_note("once_rstep o%d", c + 1);
  switch (kind_of[c]) {
  case 0:           /* yields */
    for (int i = 0; i < 3; i++) { myth_yield(); ctl_note("once_rstep o%d", c + 1); }
    break;
  case 1:           /* blocks on a mutex another thread holds for a while */
    myth_mutex_lock(&hm[c]);
    ctl_note("once_rstep o%d", c + 1);
    myth_yield();
    myth_mutex_unlock(&hm[c]);
    ctl_note("once_rstep o%d", c + 1);
    break;
  default: {        /* creates and joins a thread */
    myth_thread_t ch = myth_create(child_body, (void *)(long)c);
    ctl_note("once_rstep o%d", c + 1);
    void * r = 0;
    myth_join(ch, &r);
    if ((long)r != c + 7 || !child_ran[c]) FAIL("control %d: child of the init routine was not joined properly", c);
    ctl_note("once_rstep o%d", c + 1);
    break; }
  }
  inside[c]--;
  done_flag[c] = 1;
  ctl_note("once_rend o%d", c + 1);
}
static void routine0(void) { routine_body(0); }
static void routine1(void) { routine_body(1); }
static void routine2(void) { routine_body(2); }
static void (*routines[MAXC])(void) = { routine0, routine1, routine2 };

/* ---- threads ---- */
static void * helper(void * arg) {          /* holds hm[c] across a few yields */
  long c = (long)arg;
  ctl_name_thread(100 + (int)c);
  myth_mutex_lock(&hm[c]);
  for (int i = 0; i < 4; i++) myth_yield();
  myth_mutex_unlock(&hm[c]);
  return 0;
}

static void * caller(void * arg) {
  long id = (long)arg;
  ctl_name_thread((int)id);
  uint64_t r = mix(pseed * 1000 + id);
  int mine[MAXC] = { 0, 0, 0 };              /* my calls that returned, per control */
  for (int i = 0; i < M; i++) {
    r = mix(r);
    int c = (int)((r >> 8) % NC);
    if ((r >> 20) % 3 == 0) myth_yield();
    int e0 = execs[c];
    int was_done = done_flag[c];
    int rc = ONCE_CALL(c, routines[c]);
    /* right after the return: */
    int f = done_flag[c], e = execs[c];
    ctl_note("once_ret o%d", c + 1);
    if (rc != 0) FAIL("once returned %d", rc);
    if (!f) FAIL("caller %ld returned from once on control %d before the init routine completed", id, c);
    if (e != 1) FAIL("caller %ld: execution counter of control %d is %d after return", id, c, e);
    if ((mine[c] > 0 || was_done) && e != e0) FAIL("caller %ld: a later call on control %d ran the routine again", id, c);
    mine[c]++;
    calls_returned[c]++;
    if ((r >> 24) % 4 == 0) myth_yield();
  }
  return (void *)(id + 100);
}

int main(int argc, char ** argv) {
  int W = argc > 1 ? atoi(argv[1]) : 2;
  K = argc > 2 ? atoi(argv[2]) : 4; M = argc > 3 ? atoi(argv[3]) : 2; NC = argc > 4 ? atoi(argv[4]) : 2;
  pseed = argc > 5 ? strtoull(argv[5], 0, 10) : 1;
  if (K > MAXK) K = MAXK; if (NC > MAXC) NC = MAXC; if (NC < 1) NC = 1;
  myth_globalattr_t ga; myth_globalattr_init(&ga); myth_globalattr_set_n_workers(&ga, W);
  myth_init_ex(&ga);
  ctl_init(W);
  if (ctl_log) setvbuf(ctl_log, 0, _IOLBF, 0);      /* keep the trace and the schedule if the library crashes */
  if (ctl_sched_out) setvbuf(ctl_sched_out, 0, _IOLBF, 0);
  g_myth_verif_hook = once_hook;
  for (int i = 0; i < NC; i++) {
    kind_of[i] = (int)((pseed + i) % 3);
    myth_mutex_init(&hm[i], 0);
    ctl_name_obj_kind(&oc[i], i + 1, "once");
  }
  ctl_name_thread(0);
  ctl_activate();
  myth_thread_t hth[MAXC]; int nh = 0; long hc[MAXC];
  for (long i = 0; i < NC; i++) if (kind_of[i] == 1) { hc[nh] = i; hth[nh++] = myth_create(helper, (void *)i); }
  myth_thread_t th[MAXK];
  for (long i = 0; i < K; i++) th[i] = myth_create(caller, (void *)(i + 1));
  for (long i = 0; i < K; i++) { void * r; myth_join(th[i], &r); if ((long)r != i + 101) FAIL("join value of caller %ld is %ld", i + 1, (long)r); }
  for (int i = 0; i < nh; i++) myth_join(hth[i], 0);
  ctl_deactivate();
  for (int i = 0; i < NC; i++) {
    if (calls_returned[i] > 0 && (execs[i] != 1 || !done_flag[i] || inside[i] != 0))
      FAIL("control %d: %ld calls returned, execs %d done %d inside %d", i, calls_returned[i], execs[i], done_flag[i], inside[i]);
    if (calls_returned[i] == 0 && execs[i] != 0) FAIL("control %d: routine ran without a call returning", i);
  }
  if (bad) printf("RESULT fail %s\n", badmsg); else printf("RESULT ok events=%ld switches=%ld preemptions=%ld\n", ctl_events, ctl_switches, ctl_preempt);
  fflush(stdout);
  myth_fini();
  return bad ? 1 : 0;
}
