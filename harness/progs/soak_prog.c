/* C13 bounded-memory soak: one worker, N create/reap cycles rotating through all reaping modes
 * (join, tryjoin loop, timedjoin, detach after finish, detach before finish, detach-state
 * attribute, self-detach with NULL id).  A light hook records every descriptor / stack block
 * handed out: the number of DISTINCT blocks must stay bounded by the peak number of live threads
 * (here <= 3), and the resident set must not grow with N.
 * usage: soak_prog N     output: RESULT ok|fail ...
 */
#include <stdio.h>
#include <stdlib.h>
#include <string.h>
#include <errno.h>
#include <time.h>
#include <unistd.h>
#include "myth/myth.h"
#include "myth_verif.h"
extern void (*g_myth_verif_hook)(int, const void *, const void *, long);

#define HSZ 65536
static const void * seen[2][HSZ]; static long distinct[2], gets[2], frees[2];
static void note(int k, const void * p) {
  unsigned long h = ((unsigned long)p >> 4) * 0x9E3779B97F4A7C15UL >> 48;
  for (;;) { if (!seen[k][h]) { seen[k][h] = p; distinct[k]++; return; } if (seen[k][h] == p) return; h = (h + 1) % HSZ; }
}
static void hook(int pt, const void * a, const void * b, long v) {
  (void)a; (void)v;
  if (pt == MYTH_VP_DESC_GET) { gets[0]++; note(0, b); }
  else if (pt == MYTH_VP_STACK_GET) { gets[1]++; note(1, b); }
  else if (pt == MYTH_VP_DESC_FREE) frees[0]++;
  else if (pt == MYTH_VP_STACK_FREE) frees[1]++;
}
static long rss_kb(void) { long a, b; FILE * f = fopen("/proc/self/statm", "r"); if (!f) return 0; if (fscanf(f, "%ld %ld", &a, &b) != 2) b = 0; fclose(f); return b * (sysconf(_SC_PAGESIZE) / 1024); }
static volatile long ran, selfdet;
static void * f(void * a) { ran++; if ((long)a == -1) { myth_detach(myth_self()); selfdet++; } return a; }

int main(int argc, char ** argv) {
  long N = argc > 1 ? atol(argv[1]) : 20000;
  myth_globalattr_t ga; myth_globalattr_init(&ga); myth_globalattr_set_n_workers(&ga, 1);
  myth_init_ex(&ga);
  g_myth_verif_hook = hook;
  long bad = 0; char msg[200] = "";
  long rss0 = 0;
  for (long i = 0; i < N; i++) {
    if (i == N / 10) rss0 = rss_kb();               /* after warm-up */
    int mode = (int)(i % 7);
    myth_thread_t th; void * v = 0; myth_thread_attr_t attr;
    switch (mode) {
    case 0: th = myth_create(f, (void *)i); myth_join(th, &v); if ((long)v != i) bad = 1; break;
    case 1: th = myth_create(f, (void *)i); { int e; while ((e = myth_tryjoin(th, &v)) == EBUSY) myth_yield(); if (e || (long)v != i) bad = 2; } break;
    case 2: th = myth_create(f, (void *)i); { struct timespec ts; clock_gettime(CLOCK_REALTIME, &ts); ts.tv_sec += 100; if (myth_timedjoin(th, &v, &ts) || (long)v != i) bad = 3; } break;
    case 3: th = myth_create(f, (void *)i); myth_yield(); myth_detach(th); break;
    case 4: myth_thread_attr_init(&attr); attr.child_first = 0; myth_create_ex(&th, &attr, f, (void *)i); myth_detach(th); myth_yield(); break;
    case 5: myth_thread_attr_init(&attr); myth_thread_attr_setdetachstate(&attr, 1); myth_thread_attr_setstacksize(&attr, 0); myth_create_ex(&th, &attr, f, (void *)i); myth_yield(); break;
    case 6: myth_create_ex(0, 0, f, (void *)-1L); myth_yield(); break;
    }
    if (bad && !msg[0]) snprintf(msg, sizeof msg, "cycle %ld mode %d: wrong join result (code %ld)", i, mode, bad);
  }
  for (int i = 0; i < 100; i++) myth_yield();
  long rss1 = rss_kb();
  g_myth_verif_hook = 0;
  if (!bad && ran != N) { bad = 1; snprintf(msg, sizeof msg, "%ld threads ran, expected %ld", ran, N); }
  if (!bad && (gets[0] != N || frees[0] != N)) { bad = 1; snprintf(msg, sizeof msg, "descriptors: %ld obtained, %ld released over %ld create/reap cycles (a reaping mode leaks its record)", gets[0], frees[0], N); }
  if (!bad && (gets[1] != N || frees[1] != N)) { bad = 1; snprintf(msg, sizeof msg, "stacks: %ld obtained, %ld released over %ld cycles", gets[1], frees[1], N); }
  if (!bad && (distinct[0] > 8 || distinct[1] > 8)) { bad = 1; snprintf(msg, sizeof msg, "unbounded memory: %ld distinct descriptor blocks and %ld distinct stack blocks for at most 3 simultaneously live threads", distinct[0], distinct[1]); }
  if (!bad && rss1 - rss0 > 8192) { bad = 1; snprintf(msg, sizeof msg, "resident set grew by %ld KB over %ld cycles", rss1 - rss0, N - N / 10); }
  if (bad) printf("RESULT fail %s\n", msg);
  else printf("RESULT ok cycles=%ld distinct_desc=%ld distinct_stack=%ld rss_growth_kb=%ld\n", N, distinct[0], distinct[1], rss1 - rss0);
  fflush(stdout);
  myth_fini();
  return bad ? 1 : 0;
}
