/* C08 whole-library program: hand-off through uncondition variables with sequence numbers, run
 * under the schedule controller.
 * usage: uncond_prog W MODE NP N PSEED      (schedule from CTL_* environment)
 *   MODE 0: NP independent producer/consumer pairs, each over a one-word buffer
 *           (value | full bit | sleeping bit) and ONE uncondition variable on which either side may
 *           block — the protocol of tests/myth_uncond_signal.c: waiter and signaler roles alternate;
 *   MODE 1: NP producers, one consumer over a counter word (count | consumer-waiting bit) and one
 *           variable — the protocol of tests/myth_uncond_bounded_buf.c: one waiter, changing signalers.
 *   N items per producer (at most about 50 rendezvous per run).
 * output: RESULT ok|fail <detail>
 *
 * Legal use (include/myth/myth.h): the waiter marks itself atomically (CAS) and calls
 * myth_uncond_wait with nothing in between (no yield: with one worker the signaler can therefore
 * never spin on u->th == 0, which it could not survive); the thread whose CAS clears the mark is the
 * one and only signaler of that rendezvous.
 *
 * Oracle (exactly the property, on what the program itself can see): per variable
 *   resumes <= claims <= announcements <= claims + 1 at every step (one resume per signal, no
 *   resume without a signal), a waiter returns from wait only after its own mark was claimed,
 *   values arrive in order and complete, every thread finishes (nobody left asleep);
 *   deadlock verdict from the controller.
 */
#include "schedctl.h"

#define MAXV 3
#define MAXP 4
static myth_uncond_t uv[MAXV];
static volatile long word[MAXV];                  /* the user-level protocol word */
static volatile long ann_cnt[MAXV], claim_cnt[MAXV], res_cnt[MAXV], sigret_cnt[MAXV];
static volatile long early_cnt, late_cnt, spin_seen;
static volatile int bad; static char badmsg[240];
static int MODE, NP, N; static uint64_t pseed;

static uint64_t mix(uint64_t z) { z += 0x9E3779B97F4A7C15ULL; z = (z ^ (z >> 30)) * 0xBF58476D1CE4E5B9ULL; z = (z ^ (z >> 27)) * 0x94D049BB133111EBULL; return z ^ (z >> 31); }
#define FAIL(...) do { if (!bad) { bad = 1; snprintf(badmsg, sizeof badmsg, __VA_ARGS__); } } while (0)

static void check_counts(int v, const char * where) {
  long a = ann_cnt[v], c = claim_cnt[v], r = res_cnt[v];
  if (!(r <= c && c <= a && a <= c + 1))
    FAIL("variable %d at %s: announcements %ld claims %ld resumes %ld", v, where, a, c, r);
}

/* waiter side: called right after the CAS that set the mark succeeded */
static void do_wait(int v) {
  long my = ++ann_cnt[v];
  check_counts(v, "announce");
  ctl_note("uc_announce o%d", v + 1);
  myth_uncond_wait(&uv[v]);
  ++res_cnt[v];
  ctl_note("uc_resumed o%d", v + 1);
  if (claim_cnt[v] < my) FAIL("variable %d: waiter resumed from its %ld-th wait without a signal (claims %ld)", v, my, claim_cnt[v]);
  if (res_cnt[v] != my) FAIL("variable %d: %ld-th wait returned but resume counter is %ld", v, my, res_cnt[v]);
  check_counts(v, "resume");
}

/* signaler side: called right after the CAS that cleared the mark succeeded */
static void do_signal(int v) {
  ++claim_cnt[v];
  check_counts(v, "claim");
  ctl_note("uc_claim o%d", v + 1);
  myth_uncond_signal(&uv[v]);
  ++sigret_cnt[v];
  ctl_note("uc_sigret o%d", v + 1);
  check_counts(v, "signal return");
}

/* ---- MODE 0: one-word buffer, either side may block (tests/myth_uncond_signal.c) ---- */
enum { st_full = 1, st_sleeping = 2 };

static void put(int v, long x) {
  for (;;) {
    long o = word[v];
    if (o & st_full) {
      if (o & st_sleeping) { FAIL("variable %d: producer found the buffer full with the sleeping bit set", v); return; }
      if (__sync_bool_compare_and_swap(&word[v], o, o | st_sleeping)) do_wait(v);
    } else {
      if (__sync_bool_compare_and_swap(&word[v], o, (x << 2) | st_full)) {
        if (o & st_sleeping) do_signal(v);
        return;
      }
    }
    if (bad) return;
  }
}

static long get(int v) {
  for (;;) {
    long o = word[v];
    if (o & st_full) {
      if (__sync_bool_compare_and_swap(&word[v], o, 0)) {
        if (o & st_sleeping) do_signal(v);
        return o >> 2;
      }
    } else {
      if (o & st_sleeping) { FAIL("variable %d: consumer found the buffer empty with the sleeping bit set", v); return -1; }
      if (__sync_bool_compare_and_swap(&word[v], o, o | st_sleeping)) do_wait(v);
    }
    if (bad) return -1;
  }
}

typedef struct { int v; int role; int tag; int nprod; } targ_t;

static void * pair_body(void * a_) {
  targ_t * a = a_;
  ctl_name_thread(a->tag);
  uint64_t r = mix(pseed * 1000 + a->tag);
  for (long i = 0; i < N && !bad; i++) {
    r = mix(r);
    if (r % 3 == 0) myth_yield();                 /* vary who is ahead */
    if (a->role == 0) put(a->v, i + 1);
    else { long x = get(a->v); if (x != i + 1 && !bad) FAIL("variable %d: consumer got %ld, expected %ld", a->v, x, i + 1); }
    if ((r >> 8) % 5 == 0) myth_yield();
  }
  return (void *)(long)(a->tag + 100);
}

/* ---- MODE 1: counter word, one consumer blocks, producers signal (tests/myth_uncond_bounded_buf.c) ---- */
static volatile long produced_total, consumed_total;

static void * mp_producer(void * a_) {
  targ_t * a = a_;
  ctl_name_thread(a->tag);
  uint64_t r = mix(pseed * 1000 + a->tag);
  for (long i = 0; i < N && !bad; i++) {
    r = mix(r);
    if (r % 2 == 0) myth_yield();
    for (;;) {
      long o = word[a->v];
      long cw = o & 1, cnt = o >> 1;
      if (__sync_bool_compare_and_swap(&word[a->v], o, (cnt + 1) << 1)) {   /* adds an item, clears the mark */
        produced_total++;
        if (cw) do_signal(a->v);
        break;
      }
    }
  }
  return (void *)(long)(a->tag + 100);
}

static void * mp_consumer(void * a_) {
  targ_t * a = a_;
  ctl_name_thread(a->tag);
  uint64_t r = mix(pseed * 1000 + a->tag);
  long want = (long)N * a->nprod;
  for (long i = 0; i < want && !bad; ) {
    long o = word[a->v];
    long cw = o & 1, cnt = o >> 1;
    if (cw) { FAIL("variable %d: consumer runs with its own waiting bit set", a->v); break; }
    if (cnt > 0) {
      if (__sync_bool_compare_and_swap(&word[a->v], o, (cnt - 1) << 1)) {
        consumed_total++; i++;
      }
    } else {
      if (__sync_bool_compare_and_swap(&word[a->v], o, o | 1)) do_wait(a->v);
    }
  }
  return (void *)(long)(a->tag + 100);
}

/* count early (the signaler had to spin on u->th == 0) and late signals; and make the early case
   frequent: on every other entry into the context switch of a wait, the waiter's worker first offers
   the token to the others (an unlogged idle-spin mark), so that a signaler on another worker gets
   to claim and spin while the waiter has not yet published itself */
static uint64_t hold_rng;
static void uc_hook(int pt, const void * a, const void * b, long v) {
  if (ctl_active && pt == MYTH_VP_BLOCK_BEGIN && (const char *)a >= (const char *)uv && (const char *)a < (const char *)(uv + MAXV)) {
    hold_rng = mix(hold_rng + pseed);
    if (hold_rng & 1) ctl_hook(-MYTH_VP_SCHED_IDLE, 0, 0, 0);
  }
  ctl_hook(pt, a, b, v);
  if (!ctl_active) return;
  if (pt == -MYTH_VP_UC_SIG_READ) spin_seen = 1;      /* approximate when several variables spin at once */
  else if (pt == MYTH_VP_UC_SIG_READ) { if (spin_seen) early_cnt++; else late_cnt++; spin_seen = 0; }
}

int main(int argc, char ** argv) {
  int W = argc > 1 ? atoi(argv[1]) : 2;
  MODE = argc > 2 ? atoi(argv[2]) : 0; NP = argc > 3 ? atoi(argv[3]) : 1; N = argc > 4 ? atoi(argv[4]) : 6;
  pseed = argc > 5 ? strtoull(argv[5], 0, 10) : 1;
  if (NP < 1) NP = 1;
  if (MODE == 0 && NP > MAXV) NP = MAXV;
  if (MODE == 1 && NP > MAXP) NP = MAXP;
  myth_globalattr_t ga; myth_globalattr_init(&ga); myth_globalattr_set_n_workers(&ga, W);
  myth_init_ex(&ga);
  ctl_init(W);
  if (ctl_log) setvbuf(ctl_log, 0, _IOLBF, 0);      /* keep the trace and the schedule if the library crashes */
  if (ctl_sched_out) setvbuf(ctl_sched_out, 0, _IOLBF, 0);
  g_myth_verif_hook = uc_hook;
  int nv = MODE == 0 ? NP : 1;
  for (int i = 0; i < nv; i++) { memset(&uv[i], 0x5a, sizeof uv[i]); myth_uncond_init(&uv[i]); ctl_name_obj_kind(&uv[i], i + 1, "uncond"); }
  ctl_name_thread(0);
  ctl_activate();
  static targ_t ta[2 * MAXV + MAXP + 1]; myth_thread_t th[2 * MAXV + MAXP + 1]; int nt = 0;
  if (MODE == 0) {
    for (int i = 0; i < NP; i++) {
      /* the creation order decides who runs first on one worker: alternate */
      int first = (int)((pseed + i) & 1);
      for (int k = 0; k < 2; k++) {
        int role = k ^ first;
        ta[nt].v = i; ta[nt].role = role; ta[nt].tag = 1 + 2 * i + role; ta[nt].nprod = 1;
        th[nt] = myth_create(pair_body, &ta[nt]); nt++;
      }
    }
  } else {
    int cons_first = (pseed % 4) != 0;   /* a created thread runs at once: the consumer then blocks first */
    if (cons_first) { ta[nt].v = 0; ta[nt].role = 1; ta[nt].tag = NP + 1; ta[nt].nprod = NP; th[nt] = myth_create(mp_consumer, &ta[nt]); nt++; }
    for (int i = 0; i < NP; i++) { ta[nt].v = 0; ta[nt].role = 0; ta[nt].tag = 1 + i; ta[nt].nprod = NP; th[nt] = myth_create(mp_producer, &ta[nt]); nt++; }
    if (!cons_first) { ta[nt].v = 0; ta[nt].role = 1; ta[nt].tag = NP + 1; ta[nt].nprod = NP; th[nt] = myth_create(mp_consumer, &ta[nt]); nt++; }
  }
  for (int i = 0; i < nt; i++) { void * r; myth_join(th[i], &r); if ((long)r != ta[i].tag + 100) FAIL("join value of thread %d is %ld", ta[i].tag, (long)r); }
  ctl_deactivate();
  long rdv = 0;
  for (int i = 0; i < nv; i++) {
    if (!(ann_cnt[i] == claim_cnt[i] && claim_cnt[i] == res_cnt[i] && res_cnt[i] == sigret_cnt[i]))
      FAIL("variable %d at the end: announcements %ld claims %ld resumes %ld signal returns %ld", i, ann_cnt[i], claim_cnt[i], res_cnt[i], sigret_cnt[i]);
    if (uv[i].th != 0) FAIL("variable %d: u->th not empty at the end", i);
    rdv += res_cnt[i];
  }
  if (MODE == 1 && (produced_total != (long)N * NP || consumed_total != produced_total)) FAIL("produced %ld consumed %ld", produced_total, consumed_total);
  if (bad) printf("RESULT fail %s\n", badmsg);
  else printf("RESULT ok events=%ld switches=%ld preemptions=%ld rendezvous=%ld early=%ld late=%ld\n", ctl_events, ctl_switches, ctl_preempt, rdv, early_cnt, late_cnt);
  fflush(stdout);
  myth_fini();
  return bad ? 1 : 0;
}
