/* C05 whole-library program under the schedule controller.
 * usage: cond_prog W MODE A B C PSEED
 *   MODE 0: bounded buffer, A producers, B consumers, capacity C, each producer makes 3 items
 *           (mutex o1, cond notfull o2, cond notempty o3; signal)
 *   MODE 1: gate: A waiters wait for a flag; opener sets it and broadcasts (B rounds)
 *   MODE 2: turnstile: A threads take turns in order, broadcast after each turn (B laps)
 *   MODE 3: tokens: A takers wait for a token, B givers add C tokens each and signal AFTER unlocking
 *           (legal: the signal then races with other signals and with takers entering wait)
 * output: RESULT ok|fail <detail>
 */
#include "schedctl.h"

static myth_mutex_t mx; static myth_cond_t c1, c2;
static volatile int bad; static char badmsg[200];
static volatile int occ;
static int A, B, C; static uint64_t pseed;
#define FAIL(...) do { if (!bad) { bad = 1; snprintf(badmsg, sizeof badmsg, __VA_ARGS__); } } while (0)
static void enter(void) { if (++occ != 1) FAIL("mutex not held exclusively after lock/wait (occupancy %d)", occ); }
static void leave(void) { occ--; }
static uint64_t mix(uint64_t z) { z += 0x9E3779B97F4A7C15ULL; z = (z ^ (z >> 30)) * 0xBF58476D1CE4E5B9ULL; z = (z ^ (z >> 27)) * 0x94D049BB133111EBULL; return z ^ (z >> 31); }

/* ---- mode 0 ---- */
static int buf[16], nbuf; static long produced, consumed, sum_in, sum_out; static int items_per = 3;
static void * producer(void * a) {
  long id = (long)a; ctl_name_thread((int)id);
  for (int i = 0; i < items_per; i++) {
    myth_mutex_lock(&mx); enter();
    while (nbuf == C) { leave(); myth_cond_wait(&c1, &mx); enter(); }
    int v = (int)(id * 100 + i); buf[nbuf++] = v; produced++; sum_in += v;
    myth_cond_signal(&c2);
    leave(); myth_mutex_unlock(&mx);
    if (mix(pseed + id * 7 + i) % 3 == 0) myth_yield();
  }
  return 0;
}
static long cons_quota[32];
static void * consumer2(void * a) {
  long id = (long)a; ctl_name_thread((int)id);
  for (long i = 0; i < cons_quota[id]; i++) {
    myth_mutex_lock(&mx); enter();
    while (nbuf == 0) { leave(); myth_cond_wait(&c2, &mx); enter(); }
    int v = buf[--nbuf]; consumed++; sum_out += v;
    myth_cond_signal(&c1);
    leave(); myth_mutex_unlock(&mx);
    if (mix(pseed + id * 13 + i) % 3 == 0) myth_yield();
  }
  return 0;
}
/* ---- mode 1 ---- */
static volatile int gate_round; static volatile long passed;
static void * gate_waiter(void * a) {
  long id = (long)a; ctl_name_thread((int)id);
  for (int r = 1; r <= B; r++) {
    myth_mutex_lock(&mx); enter();
    while (gate_round < r) { leave(); myth_cond_wait(&c1, &mx); enter(); if (occ != 1) FAIL("occupancy"); }
    passed++;
    leave(); myth_mutex_unlock(&mx);
  }
  return 0;
}
static void * gate_opener(void * a) {
  long id = (long)a; ctl_name_thread((int)id);
  for (int r = 1; r <= B; r++) {
    if (mix(pseed + r) % 2) myth_yield();
    myth_mutex_lock(&mx); enter();
    gate_round = r;
    myth_cond_broadcast(&c1);
    leave(); myth_mutex_unlock(&mx);
  }
  return 0;
}
/* ---- mode 2 ---- */
static volatile long turn;
static void * turn_taker(void * a) {
  long id = (long)a; ctl_name_thread((int)id);
  for (int lap = 0; lap < B; lap++) {
    myth_mutex_lock(&mx); enter();
    while (turn % A != id - 1) { leave(); myth_cond_wait(&c1, &mx); enter(); }
    turn++;
    myth_cond_broadcast(&c1);
    leave(); myth_mutex_unlock(&mx);
  }
  return 0;
}

/* ---- mode 3 ---- */
static volatile long tokens, taken; static long take_quota[32];
static void * taker(void * a) {
  long id = (long)a; ctl_name_thread((int)id);
  for (long i = 0; i < take_quota[id]; i++) {
    myth_mutex_lock(&mx); enter();
    while (tokens == 0) { leave(); myth_cond_wait(&c1, &mx); enter(); }
    tokens--; taken++;
    leave(); myth_mutex_unlock(&mx);
  }
  return 0;
}
static void * giver(void * a) {
  long id = (long)a; ctl_name_thread((int)id);
  for (int i = 0; i < C; i++) {
    myth_mutex_lock(&mx); enter();
    tokens++;
    leave(); myth_mutex_unlock(&mx);
    myth_cond_signal(&c1);                 /* outside the mutex */
    if (mix(pseed + id * 5 + i) % 3 == 0) myth_yield();
  }
  return 0;
}

int main(int argc, char ** argv) {
  int W = argc > 1 ? atoi(argv[1]) : 2; int mode = argc > 2 ? atoi(argv[2]) : 0;
  A = argc > 3 ? atoi(argv[3]) : 2; B = argc > 4 ? atoi(argv[4]) : 2; C = argc > 5 ? atoi(argv[5]) : 1;
  pseed = argc > 6 ? strtoull(argv[6], 0, 10) : 1;
  myth_globalattr_t ga; myth_globalattr_init(&ga); myth_globalattr_set_n_workers(&ga, W);
  myth_init_ex(&ga);
  ctl_init(W);
  memset(&mx, 0x5a, sizeof mx); memset(&c1, 0x5a, sizeof c1); memset(&c2, 0x5a, sizeof c2);   /* init must not rely on zero-filled memory */
  myth_mutex_init(&mx, 0); myth_cond_init(&c1, 0); myth_cond_init(&c2, 0);
  ctl_name_obj_kind(&mx, 1, "mutex");
  ctl_name_obj_kind(&c1, 2, "cond o1"); ctl_name_obj_kind(&c2, 3, "cond o1");
  ctl_name_thread(0);
  ctl_activate();
  myth_thread_t th[32]; int n = 0;
  if (mode == 0) {
    long total = (long)A * items_per;
    for (int j = 0; j < B; j++) cons_quota[A + 1 + j] = total / B + (j < total % B ? 1 : 0);
    for (long i = 0; i < A; i++) th[n++] = myth_create(producer, (void *)(i + 1));
    for (long j = 0; j < B; j++) th[n++] = myth_create(consumer2, (void *)(A + 1 + j));
  } else if (mode == 1) {
    for (long i = 0; i < A; i++) th[n++] = myth_create(gate_waiter, (void *)(i + 1));
    th[n++] = myth_create(gate_opener, (void *)(long)(A + 1));
  } else if (mode == 3) {
    long total = (long)B * C;
    for (int j = 0; j < A; j++) take_quota[j + 1] = total / A + (j < total % A ? 1 : 0);
    for (long i = 0; i < A; i++) th[n++] = myth_create(taker, (void *)(i + 1));
    for (long j = 0; j < B; j++) th[n++] = myth_create(giver, (void *)(long)(A + 1 + j));
  } else {
    for (long i = 0; i < A; i++) th[n++] = myth_create(turn_taker, (void *)(i + 1));
  }
  for (int i = 0; i < n; i++) myth_join(th[i], 0);
  ctl_deactivate();
  if (mode == 0) {
    if (produced != (long)A * items_per || consumed != produced || sum_in != sum_out || nbuf != 0)
      FAIL("bounded buffer: produced %ld consumed %ld sum_in %ld sum_out %ld left %d", produced, consumed, sum_in, sum_out, nbuf);
  } else if (mode == 1) {
    if (passed != (long)A * B) FAIL("gate: %ld passages, expected %d", passed, A * B);
  } else if (mode == 3) {
    if (taken != (long)B * C || tokens != 0) FAIL("tokens: taken %ld left %ld expected %d", taken, tokens, B * C);
  } else {
    if (turn != (long)A * B) FAIL("turnstile: turn %ld expected %d", turn, A * B);
  }
  if (occ != 0) FAIL("occupancy %d at end", occ);
  if (bad) printf("RESULT fail %s\n", badmsg); else printf("RESULT ok events=%ld switches=%ld preemptions=%ld\n", ctl_events, ctl_switches, ctl_preempt);
  fflush(stdout);
  myth_fini();
  return bad ? 1 : 0;
}
