/* C09 whole-library program under the schedule controller: single-slot mailbox over a felock.
 * usage: felock_prog W P C K PSEED   (P producers x K items each, C consumers sharing the P*K items,
 *        some participants also take the plain lock/unlock around a private counter)
 * oracle: every item consumed exactly once, all participants return; deadlock verdict otherwise.
 */
#include "schedctl.h"

static myth_felock_t fe; static volatile long slot; static volatile int occ;
static volatile int bad; static char badmsg[200];
static int P, C, K; static uint64_t pseed;
static volatile int consumed_cnt[4096]; static volatile long n_consumed, n_produced, plain_counter;
static long quota[64];
#define FAIL(...) do { if (!bad) { bad = 1; snprintf(badmsg, sizeof badmsg, __VA_ARGS__); } } while (0)
static uint64_t mix(uint64_t z) { z += 0x9E3779B97F4A7C15ULL; z = (z ^ (z >> 30)) * 0xBF58476D1CE4E5B9ULL; z = (z ^ (z >> 27)) * 0x94D049BB133111EBULL; return z ^ (z >> 31); }

static void plain(long id, int i) {
  if (mix(pseed + id * 31 + i) % 4 == 0) {
    myth_felock_lock(&fe);
    if (++occ != 1) FAIL("felock not exclusive in plain lock (occupancy %d)", occ);
    plain_counter++;
    occ--;
    myth_felock_unlock(&fe);
  }
}
static void * producer(void * a) {
  long id = (long)a; ctl_name_thread((int)id);
  for (int i = 0; i < K; i++) {
    plain(id, i);
    myth_felock_wait_and_lock(&fe, 0);
    if (++occ != 1) FAIL("felock not exclusive after wait_and_lock(0) (occupancy %d)", occ);
    if (myth_felock_status(&fe) != 0) FAIL("wait_and_lock(0) returned with status %d", myth_felock_status(&fe));
    long item = id * 100 + i + 1;
    slot = item; n_produced++;
    ctl_note("put o1 %ld", item);
    occ--;
    myth_felock_mark_and_signal(&fe, 1);
    if (mix(pseed + id * 7 + i) % 3 == 0) myth_yield();
  }
  return 0;
}
static void * consumer(void * a) {
  long id = (long)a; ctl_name_thread((int)id);
  for (long i = 0; i < quota[id]; i++) {
    plain(id, (int)i);
    myth_felock_wait_and_lock(&fe, 1);
    if (++occ != 1) FAIL("felock not exclusive after wait_and_lock(1) (occupancy %d)", occ);
    if (myth_felock_status(&fe) != 1) FAIL("wait_and_lock(1) returned with status %d", myth_felock_status(&fe));
    long item = slot; slot = 0;
    if (item <= 0 || item >= 4096) FAIL("consumer got invalid item %ld", item);
    else if (++consumed_cnt[item] != 1) FAIL("item %ld consumed %d times", item, consumed_cnt[item]);
    n_consumed++;
    ctl_note("take o1 %ld", item);
    occ--;
    myth_felock_mark_and_signal(&fe, 0);
    if (mix(pseed + id * 13 + i) % 3 == 0) myth_yield();
  }
  return 0;
}

int main(int argc, char ** argv) {
  int W = argc > 1 ? atoi(argv[1]) : 2;
  P = argc > 2 ? atoi(argv[2]) : 2; C = argc > 3 ? atoi(argv[3]) : 2; K = argc > 4 ? atoi(argv[4]) : 3;
  pseed = argc > 5 ? strtoull(argv[5], 0, 10) : 1;
  myth_globalattr_t ga; myth_globalattr_init(&ga); myth_globalattr_set_n_workers(&ga, W);
  myth_init_ex(&ga);
  ctl_init(W);
  memset(&fe, 0x5a, sizeof fe);            /* an initialisation must not rely on zero-filled memory */
  myth_felock_init(&fe, 0);
  ctl_name_obj_sz(&fe.cond[0], 2, 0, sizeof(fe.cond[0]));
  ctl_name_obj_sz(&fe.cond[1], 3, 0, sizeof(fe.cond[1]));
  ctl_name_obj_sz(fe.mutex, 1, "felock o2 o3", sizeof(fe.mutex[0]));
  if (ctl_log) fprintf(ctl_log, "obj o1 mutex\nobj o2 cond o1\nobj o3 cond o1\n");
  ctl_name_thread(0);
  ctl_activate();
  long total = (long)P * K;
  for (int j = 0; j < C; j++) quota[P + 1 + j] = total / C + (j < total % C ? 1 : 0);
  myth_thread_t th[64]; int n = 0;
  for (long i = 0; i < P; i++) th[n++] = myth_create(producer, (void *)(i + 1));
  for (long j = 0; j < C; j++) th[n++] = myth_create(consumer, (void *)(long)(P + 1 + j));
  for (int i = 0; i < n; i++) myth_join(th[i], 0);
  ctl_deactivate();
  if (n_produced != total || n_consumed != total) FAIL("produced %ld consumed %ld expected %ld", n_produced, n_consumed, total);
  for (long p = 1; p <= P; p++) for (int i = 0; i < K; i++) if (consumed_cnt[p * 100 + i + 1] != 1) FAIL("item %ld consumed %d times", p * 100 + i + 1, consumed_cnt[p * 100 + i + 1]);
  if (bad) printf("RESULT fail %s\n", badmsg); else printf("RESULT ok events=%ld switches=%ld preemptions=%ld\n", ctl_events, ctl_switches, ctl_preempt);
  fflush(stdout);
  myth_fini();
  return bad ? 1 : 0;
}
