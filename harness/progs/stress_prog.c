/* Free-running (no controller, hook pointer NULL) fork-join stress with real parallelism, used by
 * the violation search of C01 / C12 / C13 for changes that only manifest as data races between
 * workers (which the sequentially consistent controller cannot exhibit).
 * usage: stress_prog W SECONDS PSEED      (MYTH workers W, runs for about SECONDS)
 * Every node of a random fork-join tree keeps live values in callee-saved registers and on its
 * stack, a thread-specific token and its own identity across create / join / yield; children
 * are created child-first and parent-first, with default and custom stack sizes, joined late.
 * output: RESULT ok|fail <detail>   (a crash or a hang caught by the watchdog is reported by the caller)
 */
#include <stdio.h>
#include <stdlib.h>
#include <string.h>
#include <stdint.h>
#include <time.h>
#include <unistd.h>
#include <pthread.h>
#include "myth/myth.h"

static volatile int bad; static char badmsg[200];
static volatile long joins, nodes;
static myth_key_t key;
static uint64_t pseed;
static volatile int stop;
#define FAIL(...) do { if (!bad) { bad = 1; snprintf(badmsg, sizeof badmsg, __VA_ARGS__); } } while (0)
static uint64_t mix(uint64_t z) { z += 0x9E3779B97F4A7C15ULL; z = (z ^ (z >> 30)) * 0xBF58476D1CE4E5B9ULL; z = (z ^ (z >> 27)) * 0x94D049BB133111EBULL; return z ^ (z >> 31); }

typedef struct { uint64_t id; int depth; } arg_t;

static void * node(void * a_) {
  arg_t a = *(arg_t *)a_;
  volatile uint64_t canary[24];
  uint64_t r = mix(a.id ^ pseed);
  for (int i = 0; i < 24; i++) canary[i] = a.id * 31 + i;
  myth_thread_t me = myth_self();
  myth_setspecific(key, (void *)(uintptr_t)(a.id | 1));
  __sync_fetch_and_add(&nodes, 1);
  long sum = 1;
  if (a.depth > 0 && !stop) {
    arg_t ca[3]; myth_thread_t th[3]; int n = 1 + (int)(r % 3);
    for (int c = 0; c < n; c++) {
      r = mix(r);
      ca[c].id = a.id * 4 + c + 1; ca[c].depth = a.depth - 1;
      myth_thread_attr_t at; myth_thread_attr_init(&at);
      at.child_first = (int)(r & 1);
      if ((r >> 1) % 4 == 0) myth_thread_attr_setstacksize(&at, (size_t[]){ 20480, 10000, 65536, 40961 }[(r >> 3) % 4]);
      else myth_thread_attr_setstacksize(&at, 0);
      myth_create_ex(&th[c], (r >> 5) % 3 ? &at : 0, node, &ca[c]);
      if ((r >> 7) % 4 == 0) myth_yield();
    }
    for (int c = 0; c < n; c++) {
      void * v = 0; myth_join(th[c], &v);
      __sync_fetch_and_add(&joins, 1);
      if (((uintptr_t)v >> 32) != (uint32_t)ca[c].id) FAIL("join of node %lu returned %lx (another thread's record?)", (unsigned long)ca[c].id, (unsigned long)(uintptr_t)v);
      sum += (long)((uintptr_t)v & 0xffffffffu);
    }
  }
  for (int i = 0; i < 24; i++) if (canary[i] != a.id * 31 + i) FAIL("stack of node %lu corrupted", (unsigned long)a.id);
  if (myth_self() != me) FAIL("myth_self() of node %lu changed across joins", (unsigned long)a.id);
  if ((uintptr_t)myth_getspecific(key) != (a.id | 1)) FAIL("thread-specific value of node %lu changed (record shared with another thread?)", (unsigned long)a.id);
  return (void *)(uintptr_t)(((uint64_t)(uint32_t)a.id << 32) | (uint32_t)sum);
}

static void * watchdog(void * x) {
  long secs = (long)x; long last = -1; int still = 0;
  for (;;) {
    sleep(1);
    if (joins + nodes == last) { if (++still > 20 + secs) { printf("RESULT fail no progress for %d s (hang) after %ld joins\n", still, joins); fflush(stdout); _exit(1); } }
    else { still = 0; last = joins + nodes; }
  }
  return 0;
}

int main(int argc, char ** argv) {
  int W = argc > 1 ? atoi(argv[1]) : 8; long secs = argc > 2 ? atol(argv[2]) : 3;
  pseed = argc > 3 ? strtoull(argv[3], 0, 10) : 1;
  pthread_t wd; pthread_create(&wd, 0, watchdog, (void *)secs);
  myth_globalattr_t ga; myth_globalattr_init(&ga); myth_globalattr_set_n_workers(&ga, W);
  myth_init_ex(&ga);
  myth_key_create(&key, 0);
  time_t t0 = time(0); long rounds = 0;
  while (!bad && time(0) - t0 < secs) {
    arg_t ra[8]; myth_thread_t th[8];
    for (int i = 0; i < 8; i++) { ra[i].id = (uint64_t)(rounds * 8 + i + 1) << 12; ra[i].depth = 4; th[i] = myth_create(node, &ra[i]); }
    for (int i = 0; i < 8; i++) { void * v; myth_join(th[i], &v); if (((uintptr_t)v >> 32) != (uint32_t)ra[i].id) FAIL("root join returned %lx", (unsigned long)(uintptr_t)v); }
    rounds++;
  }
  if (bad) printf("RESULT fail %s\n", badmsg); else printf("RESULT ok rounds=%ld nodes=%ld joins=%ld\n", rounds, nodes, joins);
  fflush(stdout);
  _exit(bad ? 1 : 0);
}
