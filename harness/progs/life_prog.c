/* C01 / C12 / C13 whole-library program under the schedule controller: a random fork-join tree
 * in which every child is created in a random mode and reaped in a random mode.
 * usage: life_prog W DEPTH FANOUT PSEED
 * creation modes: 0 default (NULL attr) | 1 attr child_first=1 | 2 attr child_first=0 (parent-first)
 *                 3 attr custom stack size (1 page .. 64 KiB) | 4 attr initialised over 0xAA-poisoned memory
 *                 5 attr with detach state set (created detached) | 6 NULL id pointer (+ detaches itself)
 * reap modes:     0 join at once | 1 join after all siblings were created | 2 tryjoin loop with yields
 *                 3 timedjoin (far deadline) | 4 detach at once | 5 detach after some yields
 * exit modes:     return | myth_exit from a nested frame
 * oracle: every tag's start function ran exactly once, join values are right, cells written by a
 * child are visible to the joiner, stack canaries intact after every resumption; RESULT line.
 */
#include "schedctl.h"
#include <errno.h>

#define MAXT 400
static volatile int ran[MAXT]; static volatile long cell[MAXT];
static volatile int finished_detached, created_detached;
static volatile int bad; static char badmsg[200];
static int DEPTH, FANOUT; static uint64_t pseed;
static volatile int next_tag = 1;
#define FAIL(...) do { if (!bad) { bad = 1; snprintf(badmsg, sizeof badmsg, __VA_ARGS__); } } while (0)
static uint64_t mix(uint64_t z) { z += 0x9E3779B97F4A7C15ULL; z = (z ^ (z >> 30)) * 0xBF58476D1CE4E5B9ULL; z = (z ^ (z >> 27)) * 0x94D049BB133111EBULL; return z ^ (z >> 31); }

typedef struct { int tag, depth, cmode, detached_self, small_stack; } targ_t;
static targ_t targs[MAXT];

static myth_key_t tls_key[2];
static void * body(void * a);
static void __attribute__((noinline)) nested_exit(int n, long v) { volatile char pad[64]; pad[0] = (char)n; if (n > 0) nested_exit(n - 1, v); else myth_exit((void *)v); (void)pad; }

static void * body(void * a) {
  targ_t * me = a; int tag = me->tag;
  ctl_name_thread(tag);
  ctl_note("start %d", tag);
  ran[tag]++;
  /* thread-specific data starts empty in every thread, also on a recycled record and whichever creation
     order started it (C10: "a thread that never stored reads NULL") */
  for (int i = 0; i < 2 && !me->small_stack; i++) {
    if (myth_getspecific(tls_key[i]) != 0) FAIL("thread %d starts with a value under key %d that it never stored (%p)", tag, (int)tls_key[i], myth_getspecific(tls_key[i]));
    myth_setspecific(tls_key[i], (void *)(long)(tag * 2 + i + 1));
  }
  volatile unsigned long canary[32];
  for (int i = 0; i < 32; i++) canary[i] = 0xC0FFEE00UL + tag * 64 + i;
  if (me->detached_self) myth_detach(myth_self());
  uint64_t r = mix(pseed * 7919 + tag);
  int nch = me->depth > 0 ? (int)(r % (FANOUT + 1)) : 0;
  myth_thread_t th[8]; int ctag[8], rmode[8], cdet[8];
  for (int c = 0; c < nch && c < 8; c++) {
    r = mix(r);
    if (next_tag >= MAXT - 1) { nch = c; break; }
    int ct = next_tag++;
    ctag[c] = ct;
    int cmode = (int)(r % 7), rm = (int)((r >> 8) % 6);
    targs[ct].tag = ct; targs[ct].depth = me->depth - 1; targs[ct].cmode = cmode; targs[ct].detached_self = 0;
    myth_thread_attr_t attr; myth_thread_attr_t * ap = &attr;
    memset(&attr, 0xAA, sizeof attr);
    myth_thread_attr_init(&attr);
    cdet[c] = 0;
    switch (cmode) {
      case 0: ap = 0; break;
      case 1: attr.child_first = 1; break;
      case 2: attr.child_first = 0; break;
      case 3: {   /* custom stack sizes: page multiples and sizes that are not (rounded up by the library) */
        static const size_t szs[] = { 4096, 8192, 16384, 65536, 10000, 5000, 100000, 12289, 40961 };
        myth_thread_attr_setstacksize(&attr, szs[(r >> 16) % 9]);
        targs[ct].small_stack = szs[(r >> 16) % 9] < 16384;   /* no room there for the trace printer under the TLS teardown */
        break; }
      case 4: break;                         /* attr as initialised over poisoned memory */
      case 5: myth_thread_attr_setdetachstate(&attr, 1); cdet[c] = 1; break;
      case 6: break;
    }
    if (cmode == 6) { targs[ct].detached_self = 1; cdet[c] = 1; }
    if (cdet[c]) __sync_fetch_and_add(&created_detached, 1);
    ctl_note("new %d det %d", ct, cmode == 5 ? 1 : 0);
    if (cmode == 6) {
      myth_create_ex(0, ap, body, &targs[ct]);
      th[c] = 0;
    } else {
      myth_create_ex(&th[c], ap, body, &targs[ct]);
      /* name the child before anybody can join it (it may not have run yet, or the parent may have been stolen) */
      if (ran[ct] == 0) ctl_name_thread_ptr((const void *)th[c], ct);
    }
    rmode[c] = cdet[c] ? -1 : rm;
    if (rmode[c] == 0) {
      void * v; myth_join(th[c], &v);
      if ((long)v != ct + 1000) FAIL("join of thread %d returned %ld", ct, (long)v);
      if (ran[ct] != 1 || cell[ct] != ct * 7L) FAIL("after join: thread %d ran %d times, cell %ld", ct, ran[ct], cell[ct]);
    } else if (rmode[c] == 4) {
      myth_detach(th[c]); __sync_fetch_and_add(&created_detached, 1); cdet[c] = 1;
    }
    for (int i = 0; i < 32; i++) if (canary[i] != 0xC0FFEE00UL + tag * 64 + i) FAIL("stack canary of thread %d corrupted after create", tag);
  }
  for (int c = 0; c < nch && c < 8; c++) {
    int ct = ctag[c]; void * v = 0;
    if (rmode[c] == 1) { myth_join(th[c], &v); }
    else if (rmode[c] == 2) { int e; int n = 0; while ((e = myth_tryjoin(th[c], &v)) == EBUSY) { myth_yield(); ctl_spin(); if (++n > 100000) { FAIL("tryjoin never succeeds"); break; } } if (e != 0 && e != EBUSY) FAIL("tryjoin returned %d", e); }
    else if (rmode[c] == 3) {
      struct timespec ts; clock_gettime(CLOCK_REALTIME, &ts);
      if (ct & 1) ts.tv_sec += 3600; else { ts.tv_sec = (time_t)((~(unsigned long)0) >> 1); ts.tv_nsec = 999999999; }   /* "no deadline" */
      int e = myth_timedjoin(th[c], &v, &ts);
      if (e) FAIL("timedjoin with a %s deadline returned %d", (ct & 1) ? "far" : "never-expiring (tv_sec = LONG_MAX)", e);
    }
    else if (rmode[c] == 5) { myth_yield(); myth_yield(); myth_detach(th[c]); __sync_fetch_and_add(&created_detached, 1); continue; }
    else continue;
    if ((long)v != ct + 1000) FAIL("join(mode %d) of thread %d returned %ld", rmode[c], ct, (long)v);
    if (ran[ct] != 1 || cell[ct] != ct * 7L) FAIL("after join: thread %d ran %d times, cell %ld (writes not visible?)", ct, ran[ct], cell[ct]);
    for (int i = 0; i < 32; i++) if (canary[i] != 0xC0FFEE00UL + tag * 64 + i) FAIL("stack canary of thread %d corrupted after join", tag);
  }
  for (int i = 0; i < 2 && !me->small_stack; i++)
    if (myth_getspecific(tls_key[i]) != (void *)(long)(tag * 2 + i + 1)) FAIL("thread %d lost its value under key %d", tag, (int)tls_key[i]);
  cell[tag] = tag * 7L;
  for (int i = 0; i < 32; i++) if (canary[i] != 0xC0FFEE00UL + tag * 64 + i) FAIL("stack canary of thread %d corrupted at exit", tag);
  /* detached threads announce completion last */
  int det_me = me->detached_self || me->cmode == 5;
  if (det_me) __sync_fetch_and_add(&finished_detached, 1);
  if ((mix(r) & 3) == 0) nested_exit(3, tag + 1000);
  return (void *)(long)(tag + 1000);
}

static volatile int detached_by_parent_done;

int main(int argc, char ** argv) {
  int W = argc > 1 ? atoi(argv[1]) : 2;
  DEPTH = argc > 2 ? atoi(argv[2]) : 2; FANOUT = argc > 3 ? atoi(argv[3]) : 2;
  pseed = argc > 4 ? strtoull(argv[4], 0, 10) : 1;
  myth_globalattr_t ga; myth_globalattr_init(&ga); myth_globalattr_set_n_workers(&ga, W);
  myth_init_ex(&ga);
  { myth_key_t k; for (int i = 0; i < 40; i++) { myth_key_create(&k, 0); if (i == 3) tls_key[0] = k; if (i == 37) tls_key[1] = k; } }
  ctl_init(W);
  ctl_name_thread(0);
  ctl_activate();
  targs[0].tag = 0; targs[0].depth = DEPTH; targs[0].cmode = 0;
  /* the root body runs in the main thread's own context as tag 0's child 1 */
  int rt = next_tag++;
  targs[rt].tag = rt; targs[rt].depth = DEPTH; targs[rt].cmode = 0;
  ctl_note("new %d det 0", rt);
  myth_thread_t root; myth_create_ex(&root, 0, body, &targs[rt]);
  if (ran[rt] == 0) ctl_name_thread_ptr((const void *)root, rt);
  void * v; myth_join(root, &v);
  if ((long)v != rt + 1000) FAIL("root join value %ld", (long)v);
  /* wait for threads nobody joins (detached by attribute / by themselves / by their parent) */
  int n = 0;
  for (;;) {
    int all = 1;
    for (int t = 1; t < next_tag; t++) if (ran[t] != 1 || cell[t] != t * 7L) all = 0;
    if (all) break;
    myth_yield(); ctl_spin();
    if (++n > 20000) { for (int t = 1; t < next_tag; t++) if (ran[t] != 1 || cell[t] != t * 7L) FAIL("thread %d never ran to completion (ran %d cell %ld, mode %d)", t, ran[t], cell[t], targs[t].cmode); break; }
  }
  for (int i = 0; i < 50; i++) { myth_yield(); ctl_spin(); }   /* let detached finishers complete their release */
  ctl_deactivate();
  for (int t = 1; t < next_tag; t++) if (ran[t] != 1) FAIL("thread %d ran %d times", t, ran[t]);
  if (bad) printf("RESULT fail %s\n", badmsg); else printf("RESULT ok threads=%d events=%ld switches=%ld preemptions=%ld\n", next_tag - 1, ctl_events, ctl_switches, ctl_preempt);
  fflush(stdout);
  myth_fini();
  return bad ? 1 : 0;
}
