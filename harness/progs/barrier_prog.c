/* C06 whole-library program: N participants x R consecutive rounds of myth_barrier_wait on one
 * barrier initialised for N, run under the schedule controller.
 * usage: barrier_prog W N R PSEED [MODE NOISE]     (schedule from CTL_* environment)
 *   MODE 0 (default): under the schedule controller, R <= 8.
 *   MODE 1: free running on W real workers (no controller), R up to 65536 rounds, plus NOISE extra
 *           threads that do nothing but yield until the participants are done (so that a yielding or
 *           blocked participant really is switched out and may be stolen by another worker).
 * Oracle (the property, applied to the real code):
 *   - a participant returning from its k-th wait must see arrivals[k] == N (everybody has entered
 *     its k-th wait; arrivals[k] is bumped by each participant just before it calls wait);
 *   - every return value is 0 or MYTH_BARRIER_SERIAL_THREAD, exactly one SERIAL per round;
 *   - every participant returns from every round (otherwise the controller's deadlock verdict).
 * Between rounds a participant either re-enters at once (a racer: it can be in round k+1 while the
 * others are still being released from round k) or yields once or twice, chosen from PSEED.
 * output: RESULT ok|fail <detail>
 */
#include "schedctl.h"

#define MAXN 8
#define MAXR 8
#define MAXFREE 65536
static myth_barrier_t bar;
static volatile long arrivals[MAXFREE], returned[MAXFREE], serials[MAXFREE];
static int mode, noise; static volatile int all_done;
static volatile int bad; static char badmsg[200];
static int N, R; static uint64_t pseed;

static uint64_t mix(uint64_t z) { z += 0x9E3779B97F4A7C15ULL; z = (z ^ (z >> 30)) * 0xBF58476D1CE4E5B9ULL; z = (z ^ (z >> 27)) * 0x94D049BB133111EBULL; return z ^ (z >> 31); }

/* schedctl.h's name table does not (yet) know the sleep-stack points 120..123 and prints them as
 * "PT?": announce the name on a line of its own right before the controller logs the event.
 * (The caller holds the token here, so the two lines are adjacent.)  Numeric ids on purpose: the
 * program also builds against a library without these hooks. */
static void bar_hook(int pt, const void * a, const void * b, long v) {
  int ap = pt < 0 ? -pt : pt;
  if (ctl_active && ap >= 120 && ap <= 123) {
    static const char * nm[4] = { "STK_PUSH_READ", "STK_PUSH_CAS", "STK_POP_READ", "STK_POP_CAS" };
    pthread_mutex_lock(&ctl_mu);
    if (ctl_log) fprintf(ctl_log, "ptname %s\n", nm[ap - 120]);
    pthread_mutex_unlock(&ctl_mu);
  }
  ctl_hook(pt, a, b, v);
}

static void fail(const char * fmt, long a, long b, long c) {
  if (!bad) { bad = 1; snprintf(badmsg, sizeof badmsg, fmt, a, b, c); }
}

static void * body(void * arg) {
  long id = (long)arg;
  if (!mode) ctl_name_thread((int)id);
  uint64_t r = mix(pseed * 1000 + id);
  for (int k = 0; k < R; k++) {
    r = mix(r);
    __sync_fetch_and_add(&arrivals[k], 1);
    if (!mode) ctl_note("enter o1 %d", k);
    int ret = myth_barrier_wait(&bar);
    long seen = arrivals[k];
    if (!mode) ctl_note("pass o1 %d %d", k, ret);
    if (seen != N) fail("participant %ld returned from round %ld with only %ld arrivals", id, k, seen);
    if (ret == MYTH_BARRIER_SERIAL_THREAD) __sync_fetch_and_add(&serials[k], 1);
    else if (ret != 0) fail("participant %ld round %ld: wait returned %ld", id, k, ret);
    __sync_fetch_and_add(&returned[k], 1);
    int gap = (int)(r % 4);          /* 0,1: racer re-enters immediately; 2: one yield; 3: two yields */
    if (gap >= 2) myth_yield();
    if (gap == 3) myth_yield();
  }
  return (void *)(id + 100);
}

static void * noise_body(void * arg) {
  (void)arg;
  while (!all_done) myth_yield();
  return 0;
}

int main(int argc, char ** argv) {
  int W = argc > 1 ? atoi(argv[1]) : 2;
  mode = argc > 5 ? atoi(argv[5]) : 0; noise = argc > 6 ? atoi(argv[6]) : 0;
  N = argc > 2 ? atoi(argv[2]) : 3; R = argc > 3 ? atoi(argv[3]) : 3;
  pseed = argc > 4 ? strtoull(argv[4], 0, 10) : 1;
  if (N < 1) N = 1; if (N > MAXN) N = MAXN; if (R > (mode ? MAXFREE : MAXR)) R = (mode ? MAXFREE : MAXR);
  if (noise > 16) noise = 16;
  myth_globalattr_t ga; myth_globalattr_init(&ga); myth_globalattr_set_n_workers(&ga, W);
  myth_init_ex(&ga);
  if (!mode) {
    ctl_init(W);
    g_myth_verif_hook = bar_hook;
  }
  memset(&bar, 0x5a, sizeof bar);          /* an initialisation must not rely on zero-filled memory */
  myth_barrier_init(&bar, 0, N);
  if (!mode) {
    { char kind[32]; snprintf(kind, sizeof kind, "barrier %d", N); ctl_name_obj_kind(&bar, 1, kind); }
    ctl_name_thread(0);
    ctl_activate();
  }
  myth_thread_t th[MAXN], nth[16];
  for (long i = 0; i < noise && mode; i++) nth[i] = myth_create(noise_body, 0);
  for (long i = 0; i < N; i++) th[i] = myth_create(body, (void *)(i + 1));
  for (long i = 0; i < N; i++) { void * r; myth_join(th[i], &r); if ((long)r != i + 101) fail("join value of participant %ld is %ld", i + 1, (long)r, 0); }
  all_done = 1;
  for (long i = 0; i < noise && mode; i++) myth_join(nth[i], 0);
  if (!mode) ctl_deactivate();
  for (int k = 0; k < R; k++) {
    if (returned[k] != N) fail("round %ld: %ld of %ld participants returned", k, returned[k], N);
    if (serials[k] != 1) fail("round %ld: %ld participants got the serial-thread indicator (N=%ld)", k, serials[k], N);
  }
  if (bad) printf("RESULT fail %s\n", badmsg); else printf("RESULT ok events=%ld switches=%ld preemptions=%ld\n", ctl_events, ctl_switches, ctl_preempt);
  fflush(stdout);
  if (!bad) myth_barrier_destroy(&bar);
  myth_fini();
  return bad ? 1 : 0;
}
