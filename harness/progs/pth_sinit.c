/* C16, layer 2: K threads hit statically initialised pthread mutexes simultaneously, through the
 * ld-wrapped library (link with @src/myth-ld.opts, -DMYTH_WRAP=MYTH_WRAP_LD).
 *
 * usage: pth_sinit W K R PSEED MODE
 *   MODE 0: free-running stress (no controller): R rounds, every round a fresh never-used mutex,
 *           the K threads leave a spin barrier and immediately lock / trylock it;
 *   MODE 1: the same under the token-passing schedule controller (CTL_* environment); the trace is
 *           replayed on the model MythVerif.SInit by `drv_pth sinit`.
 * output: RESULT ok|fail <detail>
 *
 * Oracle (the property's): per mutex the lock-protected counter is exactly K, nobody is ever inside
 * the critical section together with somebody else, no hang (deadlock verdict / timeout); after
 * the run the first word of every used mutex is myth_mutex_magic_no.
 *
 * The MYTH_VP_SINIT_* points (ids 180..185) have no name in harness/schedctl.h; the hook below
 * passes them on with the id folded into the value: v' = (id - 179) * 10^10 + (v + 1)
 * (other unnamed points keep their small values, so v' >= 10^10 identifies these six).
 */
#include <pthread.h>
/* the whole link is wrapped: the controller itself must keep using the system's primitives */
int __real_pthread_mutex_lock(pthread_mutex_t *);
int __real_pthread_mutex_unlock(pthread_mutex_t *);
int __real_pthread_cond_wait(pthread_cond_t *, pthread_mutex_t *);
int __real_pthread_cond_timedwait(pthread_cond_t *, pthread_mutex_t *, const struct timespec *);
int __real_pthread_cond_broadcast(pthread_cond_t *);
int __wrap_pthread_mutex_lock(pthread_mutex_t *);
int __wrap_pthread_mutex_trylock(pthread_mutex_t *);
int __wrap_pthread_mutex_unlock(pthread_mutex_t *);
#define pthread_mutex_lock __real_pthread_mutex_lock
#define pthread_mutex_unlock __real_pthread_mutex_unlock
#define pthread_cond_wait __real_pthread_cond_wait
#define pthread_cond_timedwait __real_pthread_cond_timedwait
#define pthread_cond_broadcast __real_pthread_cond_broadcast
#include <errno.h>
#include "schedctl.h"

#define MAXK 16
#define MAXR 4096
#define SI PTHREAD_MUTEX_INITIALIZER
/* the first 8 carry the initialiser macro, the rest is zero-filled static storage */
static pthread_mutex_t sm[MAXR] = { SI, SI, SI, SI, SI, SI, SI, SI };
static volatile long counter[MAXR];
static volatile int inside[MAXR];
static volatile long arrived[MAXR];
static volatile int bad; static char badmsg[240];
static int K, R, mode; static uint64_t pseed;

static uint64_t mix(uint64_t z) { z += 0x9E3779B97F4A7C15ULL; z = (z ^ (z >> 30)) * 0xBF58476D1CE4E5B9ULL; z = (z ^ (z >> 27)) * 0x94D049BB133111EBULL; return z ^ (z >> 31); }
#define FAIL(...) do { if (!bad) { bad = 1; snprintf(badmsg, sizeof badmsg, __VA_ARGS__); } } while (0)

/* threads currently inside one of this program's own busy-wait loops (spin barrier, trylock
   loop): everything the library reports on their behalf while they yield is part of the busy-wait
   (a SPIN for the controller's deadlock verdict and its delay strategy) */
static const void * bw_th[64]; static int bw_n;
static int bw_find(const void * th) { for (int i = 0; i < bw_n; i++) if (bw_th[i] == th) return i; return -1; }

static void sinit_hook(int pt, const void * a, const void * b, long v) {
  int ap = pt < 0 ? -pt : pt;
  if (ap >= MYTH_VP_SINIT_READ && ap <= MYTH_VP_SINIT_WAITED) {
    long enc = (long)(ap - MYTH_VP_SINIT_READ + 1) * 10000000000L + (v + 1);
    ctl_hook(pt, a, b, enc);
    return;
  }
  if (ctl_active && pt > 0 && bw_n > 0 && ((a && bw_find(a) >= 0) || (b && bw_find(b) >= 0))) { ctl_hook(-pt, a, b, v); return; }
  ctl_hook(pt, a, b, v);
}

/* one iteration of a busy-wait loop of the program */
static void pause_spin(void) {
  if (!mode) { myth_yield(); return; }
  const void * me = (const void *)myth_self();
  ctl_spin();
  if (bw_find(me) < 0 && bw_n < 64) bw_th[bw_n++] = me;
  myth_yield();
  int i = bw_find(me);
  if (i >= 0) bw_th[i] = bw_th[--bw_n];
}

static void wait_all(int r) {
  __sync_fetch_and_add(&arrived[r], 1);
  while (arrived[r] < K) pause_spin();
}

static void * user(void * arg) {
  long id = (long)arg;
  if (mode) ctl_name_thread((int)id);
  uint64_t rnd = mix(pseed * 977 + id);
  for (int r = 0; r < R; r++) {
    rnd = mix(rnd);
    wait_all(r);
    int how = (int)((rnd >> 8) % 3);
    if (how == 0) {
      int rc;
      rc = __wrap_pthread_mutex_trylock(&sm[r]);
      if (mode) {                       /* under the controller: one attempt, then block (a trylock loop would count as progress forever) */
        if (rc == EBUSY) rc = __wrap_pthread_mutex_lock(&sm[r]);
      } else {
        while (rc == EBUSY) { pause_spin(); rc = __wrap_pthread_mutex_trylock(&sm[r]); }
      }
      if (rc) FAIL("pthread_mutex_trylock / lock returned %d", rc);
    } else {
      int rc = __wrap_pthread_mutex_lock(&sm[r]);
      if (rc) FAIL("pthread_mutex_lock returned %d", rc);
    }
    if (++inside[r] != 1) FAIL("round %d: two threads inside the critical section of a statically initialised mutex", r);
    long c = counter[r];
    if ((rnd >> 16) % 2) myth_yield();
    counter[r] = c + 1;
    inside[r]--;
    int rc = __wrap_pthread_mutex_unlock(&sm[r]);
    if (rc) FAIL("pthread_mutex_unlock returned %d", rc);
  }
  return (void *)(id + 100);
}

int main(int argc, char ** argv) {
  int W = argc > 1 ? atoi(argv[1]) : 2;
  K = argc > 2 ? atoi(argv[2]) : 4; R = argc > 3 ? atoi(argv[3]) : 2;
  pseed = argc > 4 ? strtoull(argv[4], 0, 10) : 1;
  mode = argc > 5 ? atoi(argv[5]) : 0;
  if (K > MAXK) K = MAXK; if (R > MAXR) R = MAXR; if (R < 1) R = 1;
  myth_globalattr_t ga; myth_globalattr_init(&ga); myth_globalattr_set_n_workers(&ga, W);
  myth_init_ex(&ga);
  if (mode) {
    ctl_init(W);
    g_myth_verif_hook = sinit_hook;
    for (int r = 0; r < R; r++) ctl_name_obj_kind(&sm[r], r + 1, "sinit");
    ctl_name_thread(0);
    ctl_activate();
  }
  myth_thread_t th[MAXK];
  for (long i = 0; i < K; i++) th[i] = myth_create(user, (void *)(i + 1));
  for (long i = 0; i < K; i++) { void * rv; myth_join(th[i], &rv); if ((long)rv != i + 101) FAIL("join value of thread %ld is %ld", i + 1, (long)rv); }
  if (mode) ctl_deactivate();
  for (int r = 0; r < R; r++) {
    if (counter[r] != K) FAIL("round %d: lock-protected counter is %ld, expected %d", r, counter[r], K);
    if (*(int *)&sm[r] != myth_mutex_magic_no) FAIL("round %d: magic word is %d after use", r, *(int *)&sm[r]);
    if (((myth_mutex_t *)&sm[r])->state != 0) FAIL("round %d: state word is %ld after the last unlock", r, ((myth_mutex_t *)&sm[r])->state);
  }
  if (bad) printf("RESULT fail %s\n", badmsg);
  else printf("RESULT ok events=%ld switches=%ld preemptions=%ld\n", ctl_events, ctl_switches, ctl_preempt);
  fflush(stdout);
  myth_fini();
  return bad ? 1 : 0;
}
