/* C04 whole-library program: K threads x M rounds of lock / trylock / timedlock / unlock on
 * NM mutexes with an occupancy witness, run under the schedule controller.
 * usage: mutex_prog W K M NM PSEED      (schedule from CTL_* environment)
 * output: RESULT ok|fail <detail>
 */
#include "schedctl.h"
#include <errno.h>

#define MAXK 16
#define MAXM 4
static myth_mutex_t mx[MAXM];
static volatile int occ[MAXM];
static volatile long acquired[MAXM], released[MAXM];
static volatile int bad; static char badmsg[200];
static int K, M, NM; static uint64_t pseed;

static uint64_t mix(uint64_t z) { z += 0x9E3779B97F4A7C15ULL; z = (z ^ (z >> 30)) * 0xBF58476D1CE4E5B9ULL; z = (z ^ (z >> 27)) * 0x94D049BB133111EBULL; return z ^ (z >> 31); }

static void * body(void * arg) {
  long id = (long)arg;
  ctl_name_thread((int)id);
  uint64_t r = mix(pseed * 1000 + id);
  for (int i = 0; i < M; i++) {
    r = mix(r);
    int m = (int)((r >> 8) % NM);
    int kind = (int)(r % 8);           /* 0-4 lock, 5-6 trylock, 7 timedlock (deadline far away) */
    int got = 0;
    if (kind <= 4) { myth_mutex_lock(&mx[m]); got = 1; }
    else if (kind <= 6) { int e = myth_mutex_trylock(&mx[m]); got = (e == 0); if (e != 0 && e != EBUSY) { bad = 1; snprintf(badmsg, sizeof badmsg, "trylock returned %d", e); } }
    else { struct timespec ts; clock_gettime(CLOCK_REALTIME, &ts); ts.tv_sec += 3600; int e = myth_mutex_timedlock(&mx[m], &ts); got = (e == 0); if (e != 0) { bad = 1; snprintf(badmsg, sizeof badmsg, "timedlock with far deadline returned %d", e); } }
    if (got) {
      ctl_note("acq o%d", m + 1);
      if (++occ[m] != 1) { bad = 1; snprintf(badmsg, sizeof badmsg, "mutual exclusion broken on mutex %d: occupancy %d (thread %ld)", m, occ[m], id); }
      acquired[m]++;
      if ((r >> 20) % 3 == 0) myth_yield();
      if (occ[m] != 1) { bad = 1; snprintf(badmsg, sizeof badmsg, "mutual exclusion broken on mutex %d after yield: occupancy %d (thread %ld)", m, occ[m], id); }
      occ[m]--;
      released[m]++;
      ctl_note("rel o%d", m + 1);
      myth_mutex_unlock(&mx[m]);
    } else {
      ctl_note("busy o%d", m + 1);
      if ((r >> 24) % 2 == 0) myth_yield();
    }
  }
  return (void *)(id + 100);
}

int main(int argc, char ** argv) {
  int W = argc > 1 ? atoi(argv[1]) : 2;
  K = argc > 2 ? atoi(argv[2]) : 3; M = argc > 3 ? atoi(argv[3]) : 4; NM = argc > 4 ? atoi(argv[4]) : 1;
  pseed = argc > 5 ? strtoull(argv[5], 0, 10) : 1;
  if (K > MAXK) K = MAXK; if (NM > MAXM) NM = MAXM;
  myth_globalattr_t ga; myth_globalattr_init(&ga); myth_globalattr_set_n_workers(&ga, W);
  myth_init_ex(&ga);
  ctl_init(W);
  for (int i = 0; i < NM; i++) { memset(&mx[i], 0x5a, sizeof mx[i]); myth_mutex_init(&mx[i], 0); ctl_name_obj_kind(&mx[i], i + 1, "mutex"); }
  ctl_name_thread(0);
  ctl_activate();
  myth_thread_t th[MAXK];
  for (long i = 0; i < K; i++) th[i] = myth_create(body, (void *)(i + 1));
  for (long i = 0; i < K; i++) { void * r; myth_join(th[i], &r); if ((long)r != i + 101) { bad = 1; snprintf(badmsg, sizeof badmsg, "join value of thread %ld is %ld", i + 1, (long)r); } }
  ctl_deactivate();
  for (int i = 0; i < NM; i++) if (acquired[i] != released[i] || occ[i] != 0) { bad = 1; snprintf(badmsg, sizeof badmsg, "mutex %d: acquired %ld released %ld occ %d", i, acquired[i], released[i], occ[i]); }
  if (bad) printf("RESULT fail %s\n", badmsg); else printf("RESULT ok events=%ld switches=%ld preemptions=%ld\n", ctl_events, ctl_switches, ctl_preempt);
  fflush(stdout);
  myth_fini();
  return bad ? 1 : 0;
}
