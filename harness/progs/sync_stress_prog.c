/* Free-running (no controller, hook pointer NULL) stress of one synchronisation primitive with real
 * parallelism and the property's own oracle; used next to the controlled schedules by C04, C05, C07, C08,
 * C09 and C14 for changes that only manifest between two instrumented points or need a thread to be
 * stolen while parked (the sequentially consistent, point-granular controller cannot exhibit those).
 *
 * usage: sync_stress_prog KIND W N ROUNDS PSEED NOISE
 *   KIND  mutex | cond | cond2 (notify after unlock) | jc | uncond | once | felock | yieldfair
 *   W workers, N participants (meaning per kind), ROUNDS iterations, NOISE bystander threads that only yield.
 * output: RESULT ok | RESULT fail <detail>      (a hang is the caller's timeout)
 */
#include <stdio.h>
#include <stdlib.h>
#include <string.h>
#include <stdint.h>
#include <errno.h>
#include <time.h>
#include "myth/myth.h"

static volatile int bad; static char badmsg[240];
#define FAIL(...) do { if (!__sync_lock_test_and_set(&bad, 1)) snprintf(badmsg, sizeof badmsg, __VA_ARGS__); } while (0)
static uint64_t mix(uint64_t z) { z += 0x9E3779B97F4A7C15ULL; z = (z ^ (z >> 30)) * 0xBF58476D1CE4E5B9ULL; z = (z ^ (z >> 27)) * 0x94D049BB133111EBULL; return z ^ (z >> 31); }
static int N, ROUNDS, NOISE; static uint64_t pseed;
static volatile int all_done;
static void * noise_body(void * a) { (void)a; while (!all_done) myth_yield(); return 0; }
static void burn(uint64_t r) { volatile unsigned i; for (i = 0; i < (unsigned)(r % 40); i++) ; }

/* ---------------- mutex: exclusion, counts, trylock / timedlock never sleep forever ---------------- */
static myth_mutex_t mx; static volatile int occ; static volatile long mcount;
static void * mutex_body(void * a) {
  long id = (long)a; uint64_t r = mix(pseed + id);
  for (int i = 0; i < ROUNDS && !bad; i++) {
    r = mix(r);
    int how = (int)(r % 8), rc;
    if (how == 0) { while ((rc = myth_mutex_trylock(&mx)) == EBUSY) myth_yield(); }
    else if (how == 1) {
      struct timespec ts; clock_gettime(CLOCK_REALTIME, &ts); ts.tv_sec += 30;
      rc = myth_mutex_timedlock(&mx, &ts);
    } else rc = myth_mutex_lock(&mx);
    if (rc) { FAIL("mutex: acquisition %d of thread %ld returned %d", i, id, rc); break; }
    if (__sync_add_and_fetch(&occ, 1) != 1) FAIL("mutex: two threads inside the critical section");
    long c = mcount; burn(r >> 8); if ((r >> 16) % 16 == 0) myth_yield(); mcount = c + 1;
    __sync_sub_and_fetch(&occ, 1);
    rc = myth_mutex_unlock(&mx);
    if (rc) FAIL("mutex: unlock returned %d", rc);
    if ((r >> 24) % 4 == 0) myth_yield();
  }
  return 0;
}

/* ---------------- cond: bounded buffer, nothing lost, nothing duplicated ---------------- */
#define QCAP 4
static myth_mutex_t qm; static myth_cond_t qne, qnf; static long q[QCAP]; static int qh, ql;
static volatile long csum, psum, cgot; static int notify_after_unlock;
static void * cond_prod(void * a) {
  long id = (long)a; uint64_t r = mix(pseed * 3 + id);
  for (int i = 0; i < ROUNDS && !bad; i++) {
    long v = id * 1000003L + i + 1; r = mix(r);
    myth_mutex_lock(&qm);
    while (ql == QCAP) myth_cond_wait(&qnf, &qm);
    q[(qh + ql) % QCAP] = v; ql++;
    __sync_fetch_and_add(&psum, v);
    if (notify_after_unlock) {          /* "lock; change the predicate; unlock; notify" */
      myth_mutex_unlock(&qm);
      if ((id + i) % 2) myth_cond_signal(&qne); else myth_cond_broadcast(&qne);
    } else {
      if (r % 3) myth_cond_signal(&qne); else myth_cond_broadcast(&qne);
      myth_mutex_unlock(&qm);
    }
    if ((r >> 8) % 4 == 0) myth_yield();
  }
  return 0;
}
static void * cond_cons(void * a) {
  long quota = (long)a; uint64_t r = mix(pseed * 5 + quota);
  for (long i = 0; i < quota && !bad; i++) {
    r = mix(r);
    myth_mutex_lock(&qm);
    while (ql == 0) myth_cond_wait(&qne, &qm);
    long v = q[qh]; qh = (qh + 1) % QCAP; ql--;
    if (notify_after_unlock) {
      myth_mutex_unlock(&qm);
      if ((quota + i) % 2) myth_cond_signal(&qnf); else myth_cond_broadcast(&qnf);
    } else {
      if (r % 3) myth_cond_signal(&qnf); else myth_cond_broadcast(&qnf);
      myth_mutex_unlock(&qm);
    }
    if (v <= 0) FAIL("cond: consumer got the invalid value %ld", v);
    __sync_fetch_and_add(&csum, v); __sync_fetch_and_add(&cgot, 1);
    if ((r >> 8) % 4 == 0) myth_yield();
  }
  return 0;
}

/* ---------------- join counter: no waiter released before the N-th decrement, all released after ---------------- */
static myth_join_counter_t jc; static volatile long jdecs; static volatile int jround;
typedef struct { long id; } jarg;
static void * jc_dec(void * a) { long id = (long)a; burn(mix(pseed + id + jround)); if (id % 3 == 0) myth_yield(); __sync_fetch_and_add(&jdecs, 1); myth_join_counter_dec(&jc); return 0; }
static void * jc_wait(void * a) {
  long id = (long)a; burn(mix(pseed * 7 + id + jround)); if (id % 2 == 0) myth_yield();
  myth_join_counter_wait(&jc);
  long d = jdecs;
  if (d != N) FAIL("join counter: waiter %ld released in round %d after %ld of %d decrements", id, jround, d, N);
  return 0;
}

/* ---------------- uncond: single-producer single-consumer hand-off, in order, exactly once ---------------- */
static myth_uncond_t uc_item, uc_free; static volatile long uslot; static volatile int ufull;   /* protected by the protocol flags below */
static volatile int w_item, w_free;     /* "I am going to wait" announcements */
static void * uncond_cons(void * a) {
  (void)a;
  for (long i = 1; i <= ROUNDS && !bad; i++) {
    /* wait until full */
    while (!__sync_bool_compare_and_swap(&ufull, 1, 1)) {
      if (__sync_bool_compare_and_swap(&w_item, 0, 1)) {
        if (ufull) { if (__sync_bool_compare_and_swap(&w_item, 1, 0)) continue; }   /* became full meanwhile and nobody claimed us: retry */
        myth_uncond_wait(&uc_item);
      }
    }
    long v = uslot;
    if (v != i) { FAIL("uncond: consumer expected item %ld, found %ld", i, v); break; }
    __sync_lock_test_and_set(&ufull, 0);
    if (__sync_bool_compare_and_swap(&w_free, 1, 0)) myth_uncond_signal(&uc_free);
  }
  return 0;
}
static void * uncond_prod(void * a) {
  (void)a;
  for (long i = 1; i <= ROUNDS && !bad; i++) {
    while (!__sync_bool_compare_and_swap(&ufull, 0, 0)) {
      if (__sync_bool_compare_and_swap(&w_free, 0, 1)) {
        if (!ufull) { if (__sync_bool_compare_and_swap(&w_free, 1, 0)) continue; }
        myth_uncond_wait(&uc_free);
      }
    }
    uslot = i;
    __sync_lock_test_and_set(&ufull, 1);
    if (__sync_bool_compare_and_swap(&w_item, 1, 0)) myth_uncond_signal(&uc_item);
    if (i % 5 == 0) myth_yield();
  }
  return 0;
}

/* ---------------- once: exactly one run per control, nobody returns before it completed ---------------- */
#define MAXONCE 4096
static myth_once_t oc[MAXONCE]; static volatile int oruns[MAXONCE], odone[MAXONCE]; static volatile long ogate[MAXONCE];
static volatile int ocur;
static void once_fn(void) { int k = ocur; __sync_fetch_and_add(&oruns[k], 1); myth_yield(); burn(mix(pseed + k) >> 3); odone[k] = 1; }
static void * once_body(void * a) {
  long id = (long)a;
  for (int k = 0; k < ROUNDS && k < MAXONCE && !bad; k++) {
    __sync_fetch_and_add(&ogate[k], 1);
    while (ogate[k] < N) { if (bad) return 0; myth_yield(); }     /* all N leave the gate together */
    if (id == 0) ocur = k;                                          /* (only one control is contended at a time) */
    while (ocur != k) myth_yield();
    int rc = myth_once(&oc[k], once_fn);
    if (rc) FAIL("once: myth_once returned %d", rc);
    if (!odone[k]) FAIL("once: caller %ld returned from control %d before the routine completed", id, k);
    if (oruns[k] != 1) FAIL("once: routine of control %d ran %d times", k, oruns[k]);
    /* wait for everybody before the next control is armed (ocur must stay k while anybody may still call) */
    __sync_fetch_and_add(&ogate[k], 1);
    while (ogate[k] < 2 * N) { if (bad) return 0; myth_yield(); }
  }
  return 0;
}

/* ---------------- felock: single-slot mailbox ---------------- */
static myth_felock_t fe; static volatile long fslot; static volatile long fsum_p, fsum_c; static volatile int focc;
static void * fe_prod(void * a) {
  long id = (long)a;
  for (int i = 0; i < ROUNDS && !bad; i++) {
    long v = id * 1000003L + i + 1;
    myth_felock_wait_and_lock(&fe, 0);
    if (__sync_add_and_fetch(&focc, 1) != 1) FAIL("felock: not exclusive after wait_and_lock(0)");
    if (myth_felock_status(&fe) != 0) FAIL("felock: wait_and_lock(0) returned with status %d", myth_felock_status(&fe));
    fslot = v; __sync_fetch_and_add(&fsum_p, v);
    __sync_sub_and_fetch(&focc, 1);
    myth_felock_mark_and_signal(&fe, 1);
    if (i % 7 == 0) myth_yield();
  }
  return 0;
}
static void * fe_cons(void * a) {
  long quota = (long)a;
  for (long i = 0; i < quota && !bad; i++) {
    myth_felock_wait_and_lock(&fe, 1);
    if (__sync_add_and_fetch(&focc, 1) != 1) FAIL("felock: not exclusive after wait_and_lock(1)");
    if (myth_felock_status(&fe) != 1) FAIL("felock: wait_and_lock(1) returned with status %d", myth_felock_status(&fe));
    long v = fslot; fslot = 0;
    if (v <= 0) FAIL("felock: consumer found the slot empty (item taken twice?)");
    __sync_fetch_and_add(&fsum_c, v);
    __sync_sub_and_fetch(&focc, 1);
    myth_felock_mark_and_signal(&fe, 0);
    if (i % 5 == 0) myth_yield();
  }
  return 0;
}

/* ---------------- yield: a yielding thread goes behind the other runnable threads of its worker ---------------- */
static volatile int yf_flag; static volatile long yf_yields; static int yf_setter_yields;
static void * yf_setter(void * a) { (void)a; for (int i = 0; i < yf_setter_yields; i++) myth_yield(); yf_flag = 1; return 0; }
static void * yf_waiter(void * a) {
  (void)a;
  while (!yf_flag) {
    if (__sync_add_and_fetch(&yf_yields, 1) > 2000000L) { FAIL("yield: the pollers yielded 2000000 times and a runnable thread of the same worker was never resumed (it only had to yield %d times and set a flag)", yf_setter_yields); break; }
    myth_yield();
  }
  return 0;
}

int main(int argc, char ** argv) {
  const char * kind = argc > 1 ? argv[1] : "mutex";
  int W = argc > 2 ? atoi(argv[2]) : 4;
  N = argc > 3 ? atoi(argv[3]) : 4; ROUNDS = argc > 4 ? atoi(argv[4]) : 1000;
  pseed = argc > 5 ? strtoull(argv[5], 0, 10) : 1; NOISE = argc > 6 ? atoi(argv[6]) : 0;
  if (N < 1) N = 1; if (N > 32) N = 32; if (NOISE > 16) NOISE = 16;
  myth_globalattr_t ga; myth_globalattr_init(&ga); myth_globalattr_set_n_workers(&ga, W);
  myth_init_ex(&ga);
  myth_thread_t th[80], nth[16]; int n = 0;
  for (int i = 0; i < NOISE; i++) nth[i] = myth_create(noise_body, 0);
  if (!strcmp(kind, "mutex")) {
    myth_mutex_init(&mx, 0);
    for (long i = 0; i < N; i++) th[n++] = myth_create(mutex_body, (void *)(i + 1));
    for (int i = 0; i < n; i++) myth_join(th[i], 0);
    if (!bad && mcount != (long)N * ROUNDS) FAIL("mutex: lock-protected counter is %ld, expected %ld", mcount, (long)N * ROUNDS);
  } else if (!strcmp(kind, "cond") || !strcmp(kind, "cond2")) {
    notify_after_unlock = !strcmp(kind, "cond2");
    myth_mutex_init(&qm, 0); myth_cond_init(&qne, 0); myth_cond_init(&qnf, 0);
    int P = (N + 1) / 2, C = N - P; if (C < 1) C = 1;
    long total = (long)P * ROUNDS;
    for (long i = 0; i < P; i++) th[n++] = myth_create(cond_prod, (void *)(i + 1));
    for (long j = 0; j < C; j++) th[n++] = myth_create(cond_cons, (void *)(total / C + (j < total % C ? 1 : 0)));
    for (int i = 0; i < n; i++) myth_join(th[i], 0);
    if (!bad && (cgot != total || csum != psum)) FAIL("cond: %ld items consumed of %ld, sums %ld vs %ld", cgot, total, csum, psum);
  } else if (!strcmp(kind, "jc")) {
    for (jround = 0; jround < ROUNDS && !bad; jround++) {
      jdecs = 0; n = 0;
      myth_join_counter_init(&jc, 0, N);
      int nw = 1 + (int)(mix(pseed + jround) % 4);
      for (long i = 0; i < nw; i++) th[n++] = myth_create(jc_wait, (void *)(i + 1));
      for (long i = 0; i < N; i++) th[n++] = myth_create(jc_dec, (void *)(i + 1));
      if (jround % 2) th[n++] = myth_create(jc_wait, (void *)99L);       /* a late waiter */
      for (int i = 0; i < n; i++) myth_join(th[i], 0);
    }
  } else if (!strcmp(kind, "uncond")) {
    myth_uncond_init(&uc_item); myth_uncond_init(&uc_free);
    th[n++] = myth_create(uncond_cons, 0); th[n++] = myth_create(uncond_prod, 0);
    for (int i = 0; i < n; i++) myth_join(th[i], 0);
  } else if (!strcmp(kind, "once")) {
    for (long i = 0; i < N; i++) th[n++] = myth_create(once_body, (void *)i);
    for (int i = 0; i < n; i++) myth_join(th[i], 0);
  } else if (!strcmp(kind, "yieldfair")) {
    /* ROUNDS = how often the setter yields before it sets the flag; N pollers; repeated a few times */
    for (int rep = 0; rep < 20 && !bad; rep++) {
      yf_flag = 0; yf_yields = 0; yf_setter_yields = 1 + (ROUNDS + rep) % 7; n = 0;
      th[n++] = myth_create(yf_setter, 0);
      for (long i = 0; i < N; i++) th[n++] = myth_create(yf_waiter, 0);
      for (int i = 0; i < n; i++) myth_join(th[i], 0);
    }
  } else if (!strcmp(kind, "felock")) {
    myth_felock_init(&fe, 0);
    int P = (N + 1) / 2, C = N - P; if (C < 1) C = 1;
    long total = (long)P * ROUNDS;
    for (long i = 0; i < P; i++) th[n++] = myth_create(fe_prod, (void *)(i + 1));
    for (long j = 0; j < C; j++) th[n++] = myth_create(fe_cons, (void *)(total / C + (j < total % C ? 1 : 0)));
    for (int i = 0; i < n; i++) myth_join(th[i], 0);
    if (!bad && fsum_c != fsum_p) FAIL("felock: consumed sum %ld differs from produced sum %ld", fsum_c, fsum_p);
  } else { printf("RESULT fail unknown kind\n"); return 2; }
  all_done = 1;
  for (int i = 0; i < NOISE; i++) myth_join(nth[i], 0);
  if (bad) printf("RESULT fail %s\n", badmsg); else printf("RESULT ok\n");
  fflush(stdout);
  myth_fini();
  return bad ? 1 : 0;
}
