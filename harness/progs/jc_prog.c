/* C07 whole-library program: a two-level dependency DAG on join counters, run under the schedule
 * controller.
 *   level 0: N "producer" nodes; each marks itself done and decrements counter A (initialised N)
 *   level 1: NW nodes wait on A, check that all N producers are done, mark themselves done and
 *            decrement counter B (initialised NW)            [only if TWO != 0]
 *   level 2: NW2 nodes wait on B and check that all NW level-1 nodes (hence all N producers) are done
 *   main   : after joining everything waits on A and B once more (a wait issued afterwards).
 * Nodes are created in an order shuffled from PSEED and yield 0..2 times first, so waiters arrive
 * before, between and after the decrements; the controller adds the interleavings inside the
 * operations (in particular a waiter announcing itself concurrently with the final decrement).
 * usage: jc_prog W N NW TWO NW2 PSEED      (schedule from CTL_* environment)
 * Oracle (the property, applied to the real code): a wait returned => the number of decrement
 * calls started on that counter equals its N at that moment (done_[c] is bumped before the call);
 * wait/dec return 0; every waiter returns (else the controller's deadlock verdict); none left.
 * output: RESULT ok|fail <detail>
 */
#include "schedctl.h"

#define MAXT 40
static myth_join_counter_t jc[2];
static long init_n[2];
static volatile long done_[2];       /* decrements announced (bumped right before the dec call) */
static volatile long waits_ret[2];   /* waits that returned */
static volatile int bad; static char badmsg[200];
static uint64_t pseed;
static int two;

static uint64_t mix(uint64_t z) { z += 0x9E3779B97F4A7C15ULL; z = (z ^ (z >> 30)) * 0xBF58476D1CE4E5B9ULL; z = (z ^ (z >> 27)) * 0x94D049BB133111EBULL; return z ^ (z >> 31); }

static void fail(const char * fmt, long a, long b, long c) {
  if (!bad) { bad = 1; snprintf(badmsg, sizeof badmsg, fmt, a, b, c); }
}

static void do_dec(int c, long id) {
  __sync_fetch_and_add(&done_[c], 1);
  ctl_note("dec o%d", c + 1);
  int r = myth_join_counter_dec(&jc[c]);
  if (r != 0) fail("node %ld: dec on counter %ld returned %ld", id, c, r);
}

static void do_wait(int c, long id) {
  ctl_note("wait o%d", c + 1);
  int r = myth_join_counter_wait(&jc[c]);
  long seen = done_[c];
  ctl_note("waited o%d %ld", c + 1, seen);
  if (r != 0) fail("node %ld: wait on counter %ld returned %ld", id, c, r);
  if (seen != init_n[c]) fail("node %ld: wait on counter %ld returned after only %ld decrements", id, c, seen);
  __sync_fetch_and_add(&waits_ret[c], 1);
}

typedef struct { long id; int kind; } node_t;   /* kind 0: producer, 1: level-1, 2: level-2 */
static node_t nodes[MAXT];

static void * body(void * arg) {
  node_t * nd = arg;
  ctl_name_thread((int)nd->id);
  uint64_t r = mix(pseed * 1000 + nd->id);
  for (int y = (int)(r % 3); y > 0; y--) myth_yield();
  if (nd->kind == 0) do_dec(0, nd->id);
  else if (nd->kind == 1) {
    do_wait(0, nd->id);
    if (two) {
      if ((r >> 8) % 2) myth_yield();
      do_dec(1, nd->id);
    }
  } else {
    do_wait(1, nd->id);
    if (done_[0] != init_n[0]) fail("node %ld: level-2 node ran with only %ld of %ld producers done", nd->id, done_[0], init_n[0]);
  }
  return (void *)(nd->id + 100);
}

int main(int argc, char ** argv) {
  int W = argc > 1 ? atoi(argv[1]) : 2;
  int N = argc > 2 ? atoi(argv[2]) : 2, NW = argc > 3 ? atoi(argv[3]) : 2;
  two = argc > 4 ? atoi(argv[4]) : 0;
  int NW2 = argc > 5 ? atoi(argv[5]) : 0;
  pseed = argc > 6 ? strtoull(argv[6], 0, 10) : 1;
  if (N < 0) N = 0; if (N > 16) N = 16; if (NW > 8) NW = 8; if (NW2 > 8) NW2 = 8; if (!two) NW2 = 0;
  myth_globalattr_t ga; myth_globalattr_init(&ga); myth_globalattr_set_n_workers(&ga, W);
  myth_init_ex(&ga);
  ctl_init(W);
  init_n[0] = N; init_n[1] = NW;
  for (int c = 0; c < (two ? 2 : 1); c++) {
    char kind[32];
    memset(&jc[c], 0x5a, sizeof jc[c]);      /* init must not rely on zero-filled memory */
    myth_join_counter_init(&jc[c], 0, init_n[c]);
    snprintf(kind, sizeof kind, "jc %ld", init_n[c]);
    ctl_name_obj_kind(&jc[c], c + 1, kind);
  }
  ctl_name_thread(0);
  int nt = 0;
  for (int i = 0; i < N; i++) nodes[nt++].kind = 0;
  for (int i = 0; i < NW; i++) nodes[nt++].kind = 1;
  for (int i = 0; i < NW2; i++) nodes[nt++].kind = 2;
  /* creation order shuffled from PSEED */
  uint64_t r = mix(pseed);
  for (int i = nt - 1; i > 0; i--) { r = mix(r); int j = (int)(r % (i + 1)); node_t t = nodes[i]; nodes[i] = nodes[j]; nodes[j] = t; }
  for (int i = 0; i < nt; i++) nodes[i].id = i + 1;
  ctl_activate();
  myth_thread_t th[MAXT];
  for (int i = 0; i < nt; i++) th[i] = myth_create(body, &nodes[i]);
  for (int i = 0; i < nt; i++) { void * rv; myth_join(th[i], &rv); if ((long)rv != nodes[i].id + 100) fail("join value of node %ld is %ld", nodes[i].id, (long)rv, 0); }
  /* a wait issued after everything: must return (immediately) */
  do_wait(0, 0);
  if (two) do_wait(1, 0);
  ctl_deactivate();
  if (waits_ret[0] != NW + 1) fail("counter A: %ld of %ld waits returned", waits_ret[0], NW + 1, 0);
  if (two && waits_ret[1] != NW2 + 1) fail("counter B: %ld of %ld waits returned", waits_ret[1], NW2 + 1, 0);
  if (done_[0] != N) fail("counter A: %ld decrements for N=%ld", done_[0], N, 0);
  if (bad) printf("RESULT fail %s\n", badmsg); else printf("RESULT ok events=%ld switches=%ld preemptions=%ld\n", ctl_events, ctl_switches, ctl_preempt);
  fflush(stdout);
  myth_fini();
  return bad ? 1 : 0;
}
