/* C16, layer 3: threads created from a pthread_attr_t with PTHREAD_CREATE_DETACHED must not leak
 * (nobody can join them: the thread has to release its own descriptor and stack).  Plain POSIX
 * program, built once for the system library / LD_PRELOAD and once with @myth-ld.opts.
 * usage: pth_detach N [default|sized]
 * output: D count=<threads that ran> growth_kb=<RSS growth between thread N/4 and the end>
 */
#define _GNU_SOURCE
#include <pthread.h>
#include <stdio.h>
#include <stdlib.h>
#include <string.h>
#include <unistd.h>

static pthread_mutex_t m = PTHREAD_MUTEX_INITIALIZER;
static pthread_cond_t c = PTHREAD_COND_INITIALIZER;
static long done, sum;

static void * body(void * arg) {
  volatile char pad[2048]; pad[0] = 1; pad[2047] = 2;      /* touch the stack */
  pthread_mutex_lock(&m);
  done++; sum += (long)arg + pad[0] + pad[2047] - 3;
  pthread_cond_signal(&c);
  pthread_mutex_unlock(&m);
  return 0;
}

static long rss_kb(void) {
  FILE * f = fopen("/proc/self/statm", "r"); long sz = 0, rss = 0;
  if (f) { if (fscanf(f, "%ld %ld", &sz, &rss) != 2) rss = 0; fclose(f); }
  return rss * (sysconf(_SC_PAGESIZE) / 1024);
}

int main(int argc, char ** argv) {
  long n = argc > 1 ? atol(argv[1]) : 10000;
  int sized = argc > 2 && !strcmp(argv[2], "sized");
  pthread_attr_t at;
  if (pthread_attr_init(&at)) return 2;
  if (pthread_attr_setdetachstate(&at, PTHREAD_CREATE_DETACHED)) return 2;
  if (sized && pthread_attr_setstacksize(&at, 128 * 1024)) return 2;
  long base = 0;
  for (long i = 0; i < n; i++) {
    pthread_t t;
    int rc = pthread_create(&t, &at, body, (void *)i);
    if (rc) { printf("D create failed rc=%d at %ld\n", rc, i); return 1; }
    /* at most 32 outstanding threads */
    pthread_mutex_lock(&m);
    while (i + 1 - done > 32) pthread_cond_wait(&c, &m);
    pthread_mutex_unlock(&m);
    if (i == n / 4) base = rss_kb();
  }
  pthread_mutex_lock(&m);
  while (done < n) pthread_cond_wait(&c, &m);
  pthread_mutex_unlock(&m);
  usleep(20000);
  long g = rss_kb() - base;
  printf("D count=%ld sum_ok=%d growth_kb=%ld\n", done, sum == n * (n - 1) / 2, g < 0 ? 0 : g);
  pthread_attr_destroy(&at);
  return 0;
}
