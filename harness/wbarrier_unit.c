/* C15: the workers' start/stop barrier, src/myth_internal_barrier.c compiled as it is in /repo
 * (the real_pthread_* indirections mapped onto the system's functions).
 *   wbinit GP G0 G1 N      fill the barrier's phase / counters with the given leftovers (a previous
 *                          library lifetime, or garbage), call myth_internal_barrier_init(b, N),
 *                          print the fields:           wb n=.. phase=.. cur=..,..
 *   wbrounds N R           the SAME object as the last wbinit (re-initialised by that call): N OS
 *                          threads pass R rounds; each checks right after every wait that all N
 *                          arrived in that round; prints the fields and rounds=R ok | EARLY ...
 * A hang is the caller's timeout.  One line of output per input line. */
#include <stdio.h>
#include <stdlib.h>
#include <string.h>
#include <pthread.h>
#define real_pthread_mutex_init pthread_mutex_init
#define real_pthread_mutex_destroy pthread_mutex_destroy
#define real_pthread_mutex_lock pthread_mutex_lock
#define real_pthread_mutex_unlock pthread_mutex_unlock
#define real_pthread_cond_init pthread_cond_init
#define real_pthread_cond_destroy pthread_cond_destroy
#define real_pthread_cond_wait pthread_cond_wait
#define real_pthread_cond_broadcast pthread_cond_broadcast
#define MYTH_REAL_H_ 1
#include "myth_internal_barrier.c"

static myth_internal_barrier_t B;     /* static, reused across "lifetimes" like g_worker_barrier */
static int N, R;
static volatile long arrived[4096];
static volatile int early;
static volatile long early_round, early_seen;

static void * worker(void * arg) {
  long id = (long)arg;
  for (int k = 0; k < R; k++) {
    if ((id + k) % 3 == 0) sched_yield();
    __sync_fetch_and_add(&arrived[k], 1);
    myth_internal_barrier_wait(&B);
    long a = arrived[k];
    if (a != N && !early) { early = 1; early_round = k; early_seen = a; }
  }
  return 0;
}

int main(void) {
  char line[256];
  int inited = 0;
  while (fgets(line, sizeof line, stdin)) {
    char op[32]; long a = 0, b = 0, c = 0, d = 0;
    int n = sscanf(line, "%31s %ld %ld %ld %ld", op, &a, &b, &c, &d);
    if (n >= 5 && !strcmp(op, "wbinit")) {
      if (inited) myth_internal_barrier_destroy(&B);
      B.n_threads = -77; B.phase = (int)a; B.cur[0] = (int)b; B.cur[1] = (int)c;
      myth_internal_barrier_init(&B, (int)d);
      inited = 1;
      printf("wb n=%d phase=%d cur=%d,%d\n", B.n_threads, B.phase, B.cur[0], B.cur[1]);
    } else if (n >= 3 && !strcmp(op, "wbrounds") && inited) {
      N = (int)a; R = (int)b; if (R > 4096) R = 4096;
      memset((void *)arrived, 0, sizeof arrived); early = 0;
      pthread_t th[64];
      for (long i = 0; i < N; i++) pthread_create(&th[i], 0, worker, (void *)i);
      for (long i = 0; i < N; i++) pthread_join(th[i], 0);
      if (early) printf("wb EARLY a worker passed round %ld when %ld of %d had arrived\n", early_round, early_seen, N);
      else printf("wb n=%d phase=%d cur=%d,%d rounds=%d ok\n", B.n_threads, B.phase, B.cur[0], B.cur[1], R);
    } else printf("bad-op\n");
    fflush(stdout);
  }
  return 0;
}
