/* Concurrent key create/delete harness (C10): thread A runs a script; at A's N-th free-list CAS
 * point (the MYTH_VERIF hook just before the CAS) a second OS thread B runs its own script to
 * completion -- or, if it blocks (a lock held by A), A resumes after a timeout and B finishes
 * later.  Invocations (S) and responses (E) are logged in real-time order:  <who> <op> <arg> S | <who> <op> <arg> E <result>
 * stdin:  A: c 0 | A: d 3 | @N B: c 1 ; d 0 ; ...
 */
#include <stdio.h>
#include <stdlib.h>
#include <string.h>
#include <pthread.h>
#include <time.h>
#include "myth_tls_func.h"

static myth_tls_key_allocator_t * ka;
static pthread_mutex_t mu = PTHREAD_MUTEX_INITIALIZER;
static pthread_cond_t cv = PTHREAD_COND_INITIALIZER;
static __thread int in_b;
static int cas_count;
#define MAXI 64
static struct { int at; char ops[512]; int done; } intf[MAXI];
static int n_intf;
static void dummy(void * v) { (void)v; }

static void do_op(const char * who, char op, long arg) {
  /* invocation and response are logged separately (in real-time order under mu) so that the
     oracle can reason about overlapping operations */
  pthread_mutex_lock(&mu); printf("%s %c %ld S\n", who, op, arg); fflush(stdout); pthread_mutex_unlock(&mu);
  if (op == 'c') {
    int k = myth_tls_key_allocator_alloc(ka, arg < 0 ? 0 : dummy);
    pthread_mutex_lock(&mu); printf("%s c %ld E %d\n", who, arg, k); fflush(stdout); pthread_mutex_unlock(&mu);
  } else if (op == 'd') {
    myth_tls_destructor_fun_t f = myth_tls_key_allocator_dealloc(ka, (int)arg);
    pthread_mutex_lock(&mu); printf("%s d %ld E %d\n", who, arg, f == (myth_tls_destructor_fun_t)-1 ? 22 : 0);
    fflush(stdout); pthread_mutex_unlock(&mu);
  }
}

static void * b_main(void * a) {
  int i = (int)(long)a;
  char buf[512]; strcpy(buf, intf[i].ops);
  char who[16]; snprintf(who, sizeof who, "B%d", i);
  in_b = 1;
  for (char * tok = strtok(buf, ";"); tok; tok = strtok(0, ";")) {
    char op; long arg;
    if (sscanf(tok, " %c %ld", &op, &arg) == 2) do_op(who, op, arg);
  }
  pthread_mutex_lock(&mu); intf[i].done = 1; pthread_cond_broadcast(&cv); pthread_mutex_unlock(&mu);
  return 0;
}

static void hook(int pt, const void * a, const void * b, long v) {
  (void)a; (void)b; (void)v;
  if (in_b) return;
  if (pt != MYTH_VP_TLS_KEY_CAS_ALLOC && pt != MYTH_VP_TLS_KEY_CAS_DEALLOC) return;
  int c = ++cas_count;
  for (int i = 0; i < n_intf; i++) if (intf[i].at == c) {
    pthread_t th; pthread_create(&th, 0, b_main, (void *)(long)i); pthread_detach(th);
    struct timespec ts; clock_gettime(CLOCK_REALTIME, &ts);
    ts.tv_nsec += 150000000; if (ts.tv_nsec >= 1000000000) { ts.tv_sec++; ts.tv_nsec -= 1000000000; }
    pthread_mutex_lock(&mu);
    while (!intf[i].done) if (pthread_cond_timedwait(&cv, &mu, &ts)) break;
    if (!intf[i].done) { printf("B blocked\n"); fflush(stdout); }
    pthread_mutex_unlock(&mu);
  }
}

int main(void) {
  static char lines[256][600]; int nl = 0;
  while (nl < 256 && fgets(lines[nl], 600, stdin)) nl++;
  ka = malloc(sizeof(*ka)); memset(ka, 0, sizeof(*ka));
  myth_tls_key_allocator_init(ka);
  for (int i = 0; i < nl; i++) if (lines[i][0] == '@' && n_intf < MAXI) {
    char * p = strstr(lines[i], "B:");
    if (!p) continue;
    intf[n_intf].at = atoi(lines[i] + 1);
    strncpy(intf[n_intf].ops, p + 2, 511);
    n_intf++;
  }
  g_myth_verif_hook = hook;
  for (int i = 0; i < nl; i++) if (lines[i][0] == 'A') {
    char op; long arg;
    if (sscanf(lines[i], "A: %c %ld", &op, &arg) == 2) do_op("A", op, arg);
  }
  /* let blocked interferers finish */
  pthread_mutex_lock(&mu);
  for (int i = 0; i < n_intf; i++) {
    struct timespec ts; clock_gettime(CLOCK_REALTIME, &ts); ts.tv_sec += 2;
    while (intf[i].at <= cas_count && !intf[i].done) if (pthread_cond_timedwait(&cv, &mu, &ts)) break;
  }
  printf("end\n");
  pthread_mutex_unlock(&mu);
  return 0;
}
