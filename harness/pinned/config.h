/* src/config.h.  Generated from config.h.in by configure.  */
/* src/config.h.in.  Generated from configure.ac by autoheader.  */

/* global symbol modifier (foo) */
#define GLOBAL_SYM_MODIFIER GLOBAL_SYM_MODIFIER_NO_UNDERSCORE_WITH_PLT

/* Define to 1 if you have the `accept4' function. */
#define HAVE_ACCEPT4 1

/* if set, aligned_alloc is declared in stdlib.h */
#define HAVE_ALIGNED_ALLOC 1

/* if set, sysv_abi attribute is available */
#define HAVE_ATTR_SYSV_ABI 1

/* Define to 1 if you have the <dlfcn.h> header file. */
#define HAVE_DLFCN_H 1

/* Define to 1 if you have the <inttypes.h> header file. */
#define HAVE_INTTYPES_H 1

/* Define to 1 if you have the `pthread' library (-lpthread). */
#define HAVE_LIBPTHREAD 1

/* Define to 1 if you have the `rt' library (-lrt). */
#define HAVE_LIBRT 1

/* Define to 1 if you have the <link.h> header file. */
#define HAVE_LINK_H 1

/* Define to 1 if you have the <malloc.h> header file. */
#define HAVE_MALLOC_H 1

/* if set, memalign is declared in stdlib.h */
#define HAVE_MEMALIGN 1

/* pthread_attr_setaffinity_np etc. */
#define HAVE_PTHREAD_AFFINITY_NP /**/

/* pthread_getattr_default_np etc. */
#define HAVE_PTHREAD_ATTR_NP /**/

/* Define to 1 if you have the `pthread_attr_setaffinity_np' function. */
#define HAVE_PTHREAD_ATTR_SETAFFINITY_NP 1

/* if set, pthread_barrier is declared in pthread.h */
#define HAVE_PTHREAD_BARRIER 1

/* pthread_getconcurrency etc. */
#define HAVE_PTHREAD_CONCURRENCY /**/

/* pthread_condattr_getclock etc. */
#define HAVE_PTHREAD_CONDATTR_CLOCK /**/

/* Define to 1 if you have the `pthread_condattr_getclock' function. */
#define HAVE_PTHREAD_CONDATTR_GETCLOCK 1

/* Define to 1 if you have the `pthread_getattr_default_np' function. */
#define HAVE_PTHREAD_GETATTR_DEFAULT_NP 1

/* Define to 1 if you have the `pthread_getconcurrency' function. */
#define HAVE_PTHREAD_GETCONCURRENCY 1

/* Define to 1 if you have the `pthread_getcpuclockid' function. */
#define HAVE_PTHREAD_GETCPUCLOCKID 1

/* Define to 1 if you have the `pthread_getname_np' function. */
#define HAVE_PTHREAD_GETNAME_NP 1

/* pthread_tryjoin_np etc. */
#define HAVE_PTHREAD_JOIN_NP /**/

/* Define to 1 if you have the `pthread_mutexattr_getrobust' function. */
#define HAVE_PTHREAD_MUTEXATTR_GETROBUST 1

/* pthread_mutexattr_getrobust etc. */
#define HAVE_PTHREAD_MUTEXATTR_ROBUST /**/

/* Define to 1 if you have the `pthread_mutex_consistent' function. */
#define HAVE_PTHREAD_MUTEX_CONSISTENT 1

/* Define to 1 if you have the `pthread_mutex_timedlock' function. */
#define HAVE_PTHREAD_MUTEX_TIMEDLOCK 1

/* pthread_getname_np etc. */
#define HAVE_PTHREAD_NAME_NP /**/

/* Define to 1 if you have the `pthread_setschedprio' function. */
#define HAVE_PTHREAD_SETSCHEDPRIO 1

/* Define to 1 if you have the `pthread_sigqueue' function. */
#define HAVE_PTHREAD_SIGQUEUE 1

/* pthread_spin_init etc. */
#define HAVE_PTHREAD_SPIN /**/

/* Define to 1 if you have the `pthread_spin_init' function. */
#define HAVE_PTHREAD_SPIN_INIT 1

/* Define to 1 if you have the `pthread_tryjoin_np' function. */
#define HAVE_PTHREAD_TRYJOIN_NP 1

/* if set, pthread_yield is declared in pthread.h */
/* #undef HAVE_PTHREAD_YIELD */

/* if set, pvalloc is declared in stdlib.h */
#define HAVE_PVALLOC 1

/* Define to 1 if you have the `sched_getaffinity' function. */
#define HAVE_SCHED_GETAFFINITY 1

/* Define to 1 if you have the <sqlite3.h> header file. */
#define HAVE_SQLITE3_H 1

/* Define to 1 if you have the <stdint.h> header file. */
#define HAVE_STDINT_H 1

/* Define to 1 if you have the <stdio.h> header file. */
#define HAVE_STDIO_H 1

/* Define to 1 if you have the <stdlib.h> header file. */
#define HAVE_STDLIB_H 1

/* Define to 1 if you have the <strings.h> header file. */
#define HAVE_STRINGS_H 1

/* Define to 1 if you have the <string.h> header file. */
#define HAVE_STRING_H 1

/* Define to 1 if you have the `sysconf' function. */
#define HAVE_SYSCONF 1

/* Define to 1 if you have the <sys/stat.h> header file. */
#define HAVE_SYS_STAT_H 1

/* Define to 1 if you have the <sys/types.h> header file. */
#define HAVE_SYS_TYPES_H 1

/* Define to 1 if you have the <unistd.h> header file. */
#define HAVE_UNISTD_H 1

/* Define to the sub-directory where libtool stores uninstalled libraries. */
#define LT_OBJDIR ".libs/"

/* if 1, child first by default */
#define MYTH_CHILD_FIRST 1

/* if 1, bind workers by default */
#define MYTH_DEFAULT_BIND_WORKERS 1

/* Default guard size */
#define MYTH_DEF_GUARD_SIZE 4096

/* Default stack size */
#define MYTH_DEF_STACK_SIZE 131072

/* if 1, enable eco-mode */
#define MYTH_ECO_MODE 0

/* if 1, enable eco-mode */
#define MYTH_ECO_TEIAN_STEAL 0

/* use ucontext if set, otherwise assembly context */
#define MYTH_FORCE_UCONTEXT 0

/* Scheduler stack size */
#define MYTH_SCHED_STACK_SIZE 1048576

/* Define to 1 if your C compiler doesn't accept -c and -o together. */
/* #undef NO_MINUS_C_MINUS_O */

/* Name of package */
#define PACKAGE "massivethreads"

/* Define to the address where bug reports for this package should be sent. */
#define PACKAGE_BUGREPORT "massivethreads@eidos.ic.i.u-tokyo.ac.jp"

/* Define to the full name of this package. */
#define PACKAGE_NAME "massivethreads"

/* Define to the full name and version of this package. */
#define PACKAGE_STRING "massivethreads 0.97"

/* Define to the one symbol short name of this package. */
#define PACKAGE_TARNAME "massivethreads"

/* Define to the home page for this package. */
#define PACKAGE_URL "https://github.com/massivethreads/massivethreads/"

/* Define to the version of this package. */
#define PACKAGE_VERSION "0.97"

/* the number of args pthread_setname_arity takes; it takes thread id and name
   on Linux but only name on Macintosh (older pthreads?) */
#define PTHREAD_SETNAME_ARITY 2

/* The size of `int', as computed by sizeof. */
#define SIZEOF_INT 4

/* The size of `void*', as computed by sizeof. */
#define SIZEOF_VOIDP 8

/* Define to 1 if all of the C90 standard headers exist (not just the ones
   required in a freestanding environment). This macro is provided for
   backward compatibility; new code need not use it. */
#define STDC_HEADERS 1

/* Version number of package */
#define VERSION "0.97"
