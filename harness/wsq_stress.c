/* Free-running stress of ONE real work-stealing queue (C02), real OS threads, no controller, hook pointer
 * NULL: the owner pushes / pops / puts (= yield) tagged dummy descriptors while thieves take them and pass
 * them straight back (myth_queue_take / myth_queue_trypass) and a peeker peeks.  The controlled harness
 * (wsq_conc.c) can only preempt at instrumented points; this one exhibits what needs two participants
 * inside an uninstrumented window (e.g. a value read before the lock was obtained).
 *
 * usage: wsq_stress NTHIEVES TOKENS MILLISECONDS SEED
 * Oracle (the property): whoever obtains a token (pop / take) must be its only holder, a token is either in
 * the queue or held, and when everybody has stopped and handed back, the owner pops every token exactly once.
 * output: RESULT ok moves=<n> | RESULT fail <detail>.   A hang is the caller's timeout.
 */
#include <stdio.h>
#include <stdlib.h>
#include <string.h>
#include <stdint.h>
#include <pthread.h>
#include <sched.h>
#include <time.h>
#include "myth_thread.h"
#include "myth_worker.h"
#include "myth_wsqueue_func.h"

#define MAXTOK 512
static struct myth_thread * th;
static myth_thread_queue_t q;
static volatile int holders[MAXTOK + 1];
static volatile int stop, bad; static char badmsg[200];
static volatile long moves;
static int T;
#define FAIL(...) do { if (!__sync_lock_test_and_set(&bad, 1)) snprintf(badmsg, sizeof badmsg, __VA_ARGS__); stop = 1; } while (0)

static long tag_of(myth_thread_t p) { long i = p - th; return (i >= 1 && i <= T) ? i : -1; }
static void got(myth_thread_t p, const char * how) {
  long t = tag_of(p);
  if (t < 0) { FAIL("%s returned a pointer that is no token (%p)", how, (void *)p); return; }
  int h = __sync_add_and_fetch(&holders[t], 1);
  if (h != 1) FAIL("%s returned token %ld which is already held by somebody (resumed by two workers at once)", how, t);
  __sync_fetch_and_add(&moves, 1);
}
static void release(myth_thread_t p) { __sync_sub_and_fetch(&holders[tag_of(p)], 1); }

static void * thief(void * a) {
  uint64_t r = (uint64_t)(uintptr_t)a * 0x9E3779B97F4A7C15ULL + 1;
  while (!stop) {
    myth_thread_t p = myth_queue_take(q);
    if (!p) { r = r * 6364136223846793005ULL + 1; if ((r >> 60) == 0) sched_yield(); continue; }
    got(p, "take");
    if (bad) return 0;
    release(p);
    int tries = 0;
    while (!myth_queue_trypass(q, p)) { if (++tries > 100000000) { FAIL("trypass never succeeds"); return 0; } }
  }
  return 0;
}
static void * peeker(void * a) {
  (void)a;
  while (!stop) { myth_thread_t p = myth_queue_peek(q); if (p && tag_of(p) < 0) FAIL("peek returned a pointer that is no token"); sched_yield(); }
  return 0;
}

int main(int argc, char ** argv) {
  int nthieves = argc > 1 ? atoi(argv[1]) : 3;
  T = argc > 2 ? atoi(argv[2]) : 32; if (T > MAXTOK) T = MAXTOK; if (T < 1) T = 1;
  long ms = argc > 3 ? atol(argv[3]) : 300;
  uint64_t r = argc > 4 ? strtoull(argv[4], 0, 10) : 1;
  th = calloc(MAXTOK + 2, sizeof(struct myth_thread));
  g_envs = calloc(1, sizeof(*g_envs));
  q = &g_envs[0].runnable_q;
  myth_queue_init(q);
  for (int i = 1; i <= T; i++) myth_queue_push(q, &th[i]);
  pthread_t pt[16]; int n = 0;
  if (nthieves > 14) nthieves = 14;
  for (long i = 0; i < nthieves; i++) pthread_create(&pt[n++], 0, thief, (void *)(i + 1));
  pthread_create(&pt[n++], 0, peeker, 0);
  struct timespec t0, t1; clock_gettime(CLOCK_MONOTONIC, &t0);
  long it = 0;
  while (!stop) {
    r = r * 6364136223846793005ULL + 1442695040888963407ULL;
    myth_thread_t p = myth_queue_pop(q);
    if (p) {
      got(p, "pop");
      if (bad) break;
      release(p);
      if ((r >> 33) & 1) myth_queue_push(q, p); else myth_queue_put(q, p);       /* put = what a yield does */
    }
    if ((++it & 1023) == 0) {
      clock_gettime(CLOCK_MONOTONIC, &t1);
      if ((t1.tv_sec - t0.tv_sec) * 1000 + (t1.tv_nsec - t0.tv_nsec) / 1000000 >= ms) stop = 1;
    }
  }
  stop = 1;
  for (int i = 0; i < n; i++) pthread_join(pt[i], 0);
  if (!bad) {
    static int seen[MAXTOK + 1];
    myth_thread_t p;
    long guard = 0;
    while ((p = myth_queue_pop(q)) != 0 && guard++ < 4 * MAXTOK) { long t = tag_of(p); if (t < 0) { FAIL("final pop returned a pointer that is no token"); break; } seen[t]++; }
    for (int i = 1; i <= T && !bad; i++)
      if (seen[i] != 1) FAIL("token %d was made runnable and is %s at the end (%d copies in the queue)", i, seen[i] == 0 ? "LOST: neither held nor in the queue" : "DUPLICATED", seen[i]);
  }
  if (bad) printf("RESULT fail %s\n", badmsg); else printf("RESULT ok moves=%ld\n", moves);
  return bad ? 1 : 0;
}
