/* harness/ctx_probe.c -- C03 oracle on the REAL library (linked with the objects built from /repo's
 * current sources by check/common.py build_lib at -O0 and -O2).
 *
 * User-level threads load per-thread, per-operation patterns into rbx, rbp, r12-r15 (assembly
 * routine ctxp_regs_across), keep a large pattern array and a small near-the-switch array on their
 * stacks, go through every kind of context switch the library has, and verify after every
 * resumption: the six registers, both arrays, the stack pointer alignment.  Thread entry
 * alignment is sampled by an assembly trampoline (child-first and parent-first entry paths);
 * alignment inside the context-switch callbacks (which run on the TARGET stack) is sampled by the
 * MYTH_VP_CTX_CALLBACK verification point through an assembly trampoline.
 *
 *   usage: ctx_probe <seed> <rounds>        (MYTH_NUM_WORKERS selects the worker count)
 *   output: one `kind` line per switch kind, one `callback` line per callback, `entry` lines,
 *           up to 16 `FAIL` lines, `result PASS|FAIL`; exit 0 / 3.
 */
#ifdef CTXP_BENCH
/* ============================================================================================
 * Bench mode (-DCTXP_BENCH, no library): the four templates, re-emitted by the translator from
 * the PARSED instruction lists (ctx_templates.h), are executed on the CPU from fully controlled
 * register / memory states; drv_x86 executes the same lists through the Lean semantics.
 *   in  <S> <K> <label> <ret0> <ret1> <16 regs before S> <16 regs before K> <n> <addr val>*n
 *   out <pc0> <16 regs at the landing> <pc1> <16 regs after the restore half> <val>*n
 * (label / return addresses are code addresses the model cannot know: they are read back from
 *  the memory the run produced and handed to the model as parameters.)
 * ============================================================================================ */
#include <stdio.h>
#include <stdlib.h>
#include <string.h>
#include <stdint.h>
#include "ctx_templates.h"

typedef struct bench {
  uint64_t in0[16], out0[16], in1[16], out1[16];   /* 0, 128, 256, 384 */
  uint64_t c_rsp;                                  /* 512 */
  uint64_t ctxA, ctxB;                             /* 520, 528 */
  uint64_t stackA[512], stackB[512];
} bench;
bench *ctxp_bench_cur;
uint64_t ctxp_bench_rax;

#define LD(off, r, k) "  mov " #off "+" #k "(%rax),%" #r "\n"
#define ST(off, r, k) "  mov %" #r "," #off "+" #k "(%rax)\n"
#define LOAD_ALL(off) \
  "  mov ctxp_bench_cur(%rip),%rax\n" \
  LD(off, rcx, 8) LD(off, rdx, 16) LD(off, rbx, 24) LD(off, rbp, 40) LD(off, rsi, 48) LD(off, rdi, 56) \
  LD(off, r8, 64) LD(off, r9, 72) LD(off, r10, 80) LD(off, r11, 88) LD(off, r12, 96) LD(off, r13, 104) \
  LD(off, r14, 112) LD(off, r15, 120) LD(off, rsp, 32) LD(off, rax, 0)
#define DUMP_ALL(off) \
  "  mov %rax,ctxp_bench_rax(%rip)\n" \
  "  mov ctxp_bench_cur(%rip),%rax\n" \
  ST(off, rcx, 8) ST(off, rdx, 16) ST(off, rbx, 24) ST(off, rsp, 32) ST(off, rbp, 40) ST(off, rsi, 48) \
  ST(off, rdi, 56) ST(off, r8, 64) ST(off, r9, 72) ST(off, r10, 80) ST(off, r11, 88) ST(off, r12, 96) \
  ST(off, r13, 104) ST(off, r14, 112) ST(off, r15, 120) \
  "  mov ctxp_bench_rax(%rip),%rcx\n" ST(off, rcx, 0)

/* void NAME(bench *b): run template TS (suspend) from b->in0; its switch half jumps through
   b->ctxB to the landing 77:, where the registers are dumped (out0), reloaded from b->in1 and
   template TK (resume) jumps back through b->ctxA into TS's restore half; fall through to 88: */
#define BENCH(NAME, TS, TK) \
  ".globl " NAME "\n.type " NAME ",@function\n" NAME ":\n" \
  "  push %rbp\n  push %rbx\n  push %r12\n  push %r13\n  push %r14\n  push %r15\n" \
  "  mov %rdi,ctxp_bench_cur(%rip)\n" \
  "  mov %rsp,512(%rdi)\n" \
  "  lea 77f(%rip),%rax\n  mov 528(%rdi),%rcx\n  mov %rax,(%rcx)\n" \
  LOAD_ALL(0) \
  TS \
  "88:\n" \
  DUMP_ALL(384) \
  "  mov ctxp_bench_cur(%rip),%rax\n  mov 512(%rax),%rsp\n" \
  "  pop %r15\n  pop %r14\n  pop %r13\n  pop %r12\n  pop %rbx\n  pop %rbp\n  ret\n" \
  "77:\n" \
  DUMP_ALL(128) \
  LOAD_ALL(256) \
  TK \
  "  ud2\n"

__asm__(
  ".text\n"
  ".globl ctxp_bench_cb\n.type ctxp_bench_cb,@function\n"
  "ctxp_bench_cb:\n"
  "  movq $0x777,-8(%rsp)\n  movq $0x888,-64(%rsp)\n"
  "  mov $0x1000,%eax\n  mov $0x1001,%ecx\n  mov $0x1002,%edx\n  mov $0x1006,%esi\n  mov $0x1007,%edi\n"
  "  mov $0x1008,%r8d\n  mov $0x1009,%r9d\n  mov $0x100a,%r10d\n  mov $0x100b,%r11d\n"
  "  ret\n"
  BENCH("ctxp_bench_0", CTX_TMPL_swap, CTX_TMPL_set)
  BENCH("ctxp_bench_1", CTX_TMPL_swap, CTX_TMPL_setWc)
  BENCH("ctxp_bench_2", CTX_TMPL_swapWc, CTX_TMPL_set)
  BENCH("ctxp_bench_3", CTX_TMPL_swapWc, CTX_TMPL_setWc)
);
void ctxp_bench_0(bench *), ctxp_bench_1(bench *), ctxp_bench_2(bench *), ctxp_bench_3(bench *);

static uint64_t bs;
static uint64_t rnd(void) {
  uint64_t z = (bs += 0x9E3779B97F4A7C15ULL);
  z = (z ^ (z >> 30)) * 0xBF58476D1CE4E5B9ULL; z = (z ^ (z >> 27)) * 0x94D049BB133111EBULL;
  return z ^ (z >> 31);
}

int main(int argc, char **argv) {
  static bench b;
  static const char *sname[4] = { "swap", "swap", "swapWc", "swapWc" }, *kname[4] = { "set", "setWc", "set", "setWc" };
  static const int sfrom[4] = { CTX_FROM_swap, CTX_FROM_swap, CTX_FROM_swapWc, CTX_FROM_swapWc };
  static const int sto[4] = { CTX_TO_swap, CTX_TO_swap, CTX_TO_swapWc, CTX_TO_swapWc };
  static const int kto[4] = { CTX_TO_set, CTX_TO_setWc, CTX_TO_set, CTX_TO_setWc };
  static const int scall[4] = { CTX_HASCALL_swap, CTX_HASCALL_swap, CTX_HASCALL_swapWc, CTX_HASCALL_swapWc };
  static const int kcall[4] = { CTX_HASCALL_set, CTX_HASCALL_setWc, CTX_HASCALL_set, CTX_HASCALL_setWc };
  void (*fn[4])(bench *) = { ctxp_bench_0, ctxp_bench_1, ctxp_bench_2, ctxp_bench_3 };
  int n, it, i, c;
  if (argc < 3) return 2;
  bs = strtoull(argv[1], 0, 0) * 1000003ULL + 17;
  n = atoi(argv[2]);
  for (it = 0; it < n; it++) {
    uint64_t *addr[160], init[160];
    int na = 0;
    uint64_t *rsp0, *fakeT, *T;
    c = it & 3;
    for (i = 0; i < 512; i++) { b.stackA[i] = rnd(); b.stackB[i] = rnd(); }
    for (i = 0; i < 16; i++) { b.in0[i] = rnd(); b.in1[i] = rnd(); b.out0[i] = b.out1[i] = 0; }
    rsp0 = &b.stackA[400 - (rnd() % 3)];          /* 8-aligned, not necessarily 16-aligned */
    fakeT = &b.stackB[300 - (rnd() % 3)];
    b.in0[4] = (uint64_t)rsp0;
    b.in0[sfrom[c]] = (uint64_t)&b.ctxA;
    b.in0[sto[c]] = (uint64_t)&b.ctxB;
    b.in1[4] = (uint64_t)&b.stackB[64];
    b.in1[kto[c]] = (uint64_t)&b.ctxA;
    b.ctxA = rnd();
    b.ctxB = (uint64_t)fakeT;
    /* the observed window: both context words, 56 words around the suspended thread's rsp
       (frame, red zone, the resumer's callback frame below it), 40 words around the fake target */
    addr[na++] = &b.ctxA; addr[na++] = &b.ctxB;
    for (i = -48; i < 8; i++) addr[na++] = rsp0 + i;
    for (i = -24; i < 16; i++) addr[na++] = fakeT + i;
    for (i = 0; i < na; i++) init[i] = *addr[i];
    fn[c](&b);
    T = (uint64_t *)b.ctxA;                        /* saved rsp */
    /* *fakeT was written by the bench prologue (landing address) before the template ran */
    for (i = 0; i < na; i++) if (addr[i] == fakeT) init[i] = *fakeT;
    printf("in %s %s %llu %llu %llu", sname[c], kname[c],
           (unsigned long long)(T >= b.stackA && T < b.stackA + 512 ? *T : 0),
           (unsigned long long)(scall[c] ? fakeT[-1] : 0),
           (unsigned long long)(kcall[c] && T >= b.stackA + 1 && T < b.stackA + 512 ? T[-1] : 0));
    for (i = 0; i < 16; i++) printf(" %llu", (unsigned long long)b.in0[i]);
    for (i = 0; i < 16; i++) printf(" %llu", (unsigned long long)b.in1[i]);
    printf(" %d", na);
    for (i = 0; i < na; i++) printf(" %llu %llu", (unsigned long long)(uintptr_t)addr[i], (unsigned long long)init[i]);
    printf("\nout %llu", (unsigned long long)*fakeT);
    for (i = 0; i < 16; i++) printf(" %llu", (unsigned long long)b.out0[i]);
    printf(" %llu", (unsigned long long)(T >= b.stackA && T < b.stackA + 512 ? *T : 0));
    for (i = 0; i < 16; i++) printf(" %llu", (unsigned long long)b.out1[i]);
    for (i = 0; i < na; i++) printf(" %llu", (unsigned long long)*addr[i]);
    printf("\n");
  }
  return 0;
}
#else /* !CTXP_BENCH: the probe on the real library */
#define _GNU_SOURCE
#include <stdio.h>
#include <stdlib.h>
#include <string.h>
#include <stdint.h>
#include <unistd.h>
#include <signal.h>
#include "myth/myth.h"
#include "myth_verif.h"

/* ------------------------------------------------------------------------------------------ */
/* assembly helpers                                                                            */
/* ------------------------------------------------------------------------------------------ */
__asm__(
    ".text\n"
    /* void ctxp_regs_across(void (*op)(void*), void *arg, const uint64_t pat[6], uint64_t out[8]) */
    ".globl ctxp_regs_across\n"
    ".type ctxp_regs_across,@function\n"
    "ctxp_regs_across:\n"
    "  push %rbp\n  push %rbx\n  push %r12\n  push %r13\n  push %r14\n  push %r15\n"
    "  sub $24,%rsp\n"                 /* entry rsp = 8 mod 16; 6 pushes + 24 -> 0 mod 16 */
    "  mov %rcx,(%rsp)\n"
    "  mov %rsp,8(%rsp)\n"             /* a stack local holding its own address */
    "  mov 0(%rdx),%rbx\n  mov 8(%rdx),%rbp\n  mov 16(%rdx),%r12\n"
    "  mov 24(%rdx),%r13\n  mov 32(%rdx),%r14\n  mov 40(%rdx),%r15\n"
    "  mov %rdi,%rax\n  mov %rsi,%rdi\n"
    "  call *%rax\n"
    "  mov (%rsp),%rcx\n"
    "  mov %rbx,0(%rcx)\n  mov %rbp,8(%rcx)\n  mov %r12,16(%rcx)\n"
    "  mov %r13,24(%rcx)\n  mov %r14,32(%rcx)\n  mov %r15,40(%rcx)\n"
    "  mov %rsp,48(%rcx)\n"            /* out[6] = rsp after the call returned */
    "  mov 8(%rsp),%rax\n  mov %rax,56(%rcx)\n" /* out[7] = the stack local (must equal out[6]) */
    "  add $24,%rsp\n"
    "  pop %r15\n  pop %r14\n  pop %r13\n  pop %r12\n  pop %rbx\n  pop %rbp\n"
    "  ret\n"
    ".size ctxp_regs_across,.-ctxp_regs_across\n"
    /* uint64_t ctxp_entry_rsp(void): rsp as a called function sees it at entry */
    ".globl ctxp_entry_rsp\n"
    ".type ctxp_entry_rsp,@function\n"
    "ctxp_entry_rsp:\n  mov %rsp,%rax\n  ret\n"
    ".size ctxp_entry_rsp,.-ctxp_entry_rsp\n"
    /* thread entry: void *ctxp_thread_tramp(void *arg) -> ctxp_thread_main(arg, entry rsp) */
    ".globl ctxp_thread_tramp\n"
    ".type ctxp_thread_tramp,@function\n"
    "ctxp_thread_tramp:\n  mov %rsp,%rsi\n  jmp ctxp_thread_main\n"
    ".size ctxp_thread_tramp,.-ctxp_thread_tramp\n"
    /* hook: (pt, a, b, v) -> ctxp_hook_c(pt, a, b, v, entry rsp) */
    ".globl ctxp_hook_tramp\n"
    ".type ctxp_hook_tramp,@function\n"
    "ctxp_hook_tramp:\n  mov %rsp,%r8\n  jmp ctxp_hook_c\n"
    ".size ctxp_hook_tramp,.-ctxp_hook_tramp\n"
);
void ctxp_regs_across(void (*op)(void *), void *arg, const uint64_t pat[6], uint64_t out[8]);
uint64_t ctxp_entry_rsp(void);
void *ctxp_thread_tramp(void *arg);
void ctxp_hook_tramp(int pt, const void *a, const void *b, long v);

/* ------------------------------------------------------------------------------------------ */
/* bookkeeping                                                                                 */
/* ------------------------------------------------------------------------------------------ */
enum { K_CREATE_CF, K_CREATE_PF, K_YIELD, K_YIELD_LOCAL, K_JOIN, K_LOCK, K_UNLOCK, K_BARRIER,
       K_COND_WAIT, K_COND_BCAST, K_UNCOND_WAIT, K_UNCOND_SIGNAL, K_JC_WAIT, K_JC_DEC,
       K_FELOCK_WAIT, K_FELOCK_SIGNAL, K_N };
static const char *kind_name[K_N] = {
  "create_child_first", "create_parent_first", "yield", "yield_local", "join", "mutex_lock",
  "mutex_unlock", "barrier_wait", "cond_wait", "cond_broadcast", "uncond_wait", "uncond_signal",
  "join_counter_wait", "join_counter_dec", "felock_wait_and_lock", "felock_mark_and_signal" };
static const char *cb_name[] = { "?", "create_1", "yield_ex_1", "join_2", "join_3", "entry_point_1",
  "entry_point_2", "block_on_queue_cb", "block_on_stack_cb", "uncond_wait_cb",
  "startpoint_init_ex_1", "startpoint_exit_ex_1" };
#define CB_N 12

typedef struct { long ops, migrated, regfail, stackfail, alignfail; } kstat;
static kstat g_stat[K_N];
static long g_cb_calls[CB_N], g_cb_misaligned[CB_N];
static long g_entry_n[3], g_entry_mis[3];          /* 0 child-first, 1 parent-first */
static long g_fail_total, g_next_id = 1;
static char g_fail_msg[16][256];
static uint64_t g_seed;

#define AADD(x, n) __atomic_add_fetch(&(x), (n), __ATOMIC_RELAXED)

static uint64_t mix(uint64_t a, uint64_t b, uint64_t c) {
  uint64_t z = g_seed * 0x9E3779B97F4A7C15ULL + a * 0xBF58476D1CE4E5B9ULL + b * 0x94D049BB133111EBULL + c * 0xD6E8FEB86659FD93ULL;
  z ^= z >> 30; z *= 0xBF58476D1CE4E5B9ULL; z ^= z >> 27; z *= 0x94D049BB133111EBULL; z ^= z >> 31;
  return z | 1;
}

static void fail(int kind, const char *what, long tid, uint64_t seq, int idx, uint64_t exp, uint64_t got,
                 int w0, int w1) {
  long n = AADD(g_fail_total, 1) - 1;
  if (n < 16)
    snprintf(g_fail_msg[n], sizeof g_fail_msg[n],
             "FAIL kind=%s what=%s thread=%ld seq=%llu idx=%d expected=%016llx got=%016llx worker_before=%d worker_after=%d",
             kind >= 0 ? kind_name[kind] : "-", what, tid, (unsigned long long)seq, idx,
             (unsigned long long)exp, (unsigned long long)got, w0, w1);
}

/* the hook: sample alignment inside the context-switch callbacks (they run on the target stack) */
__attribute__((used)) void ctxp_hook_c(int pt, const void *a, const void *b, long v, uint64_t entry_rsp) {
  (void)a; (void)b;
#ifdef MYTH_VP_HAVE_CTX_CALLBACK
  if (pt == MYTH_VP_CTX_CALLBACK && v > 0 && v < CB_N) {
    AADD(g_cb_calls[v], 1);
    if ((entry_rsp & 15) != 8) {           /* ABI: rsp + 8 = 0 mod 16 at function entry */
      if (AADD(g_cb_misaligned[v], 1) == 1)
        fail(-1, cb_name[v], -1, 0, -1, 8, entry_rsp & 15, -1, -1);
    }
  }
#else
  (void)pt; (void)v; (void)entry_rsp;
#endif
}

/* ------------------------------------------------------------------------------------------ */
/* per-thread context and the checked call                                                     */
/* ------------------------------------------------------------------------------------------ */
#define ARRN 2048
typedef struct tctx {
  long id;
  uint64_t seq;
  volatile uint64_t *arr;
} tctx;

static void fill_arr(tctx *t) { int i; for (i = 0; i < ARRN; i++) t->arr[i] = mix(t->id, 0x5151, i); }
static int check_arr(tctx *t, int kind, int w0, int w1) {
  int i, bad = 0;
  for (i = 0; i < ARRN; i++) {
    uint64_t e = mix(t->id, 0x5151, i);
    if (t->arr[i] != e) { if (!bad) fail(kind, "stack_array", t->id, t->seq, i, e, t->arr[i], w0, w1); bad = 1; }
  }
  return bad;
}

/* a crash inside the library is attributed to the switch kind the crashing worker was in */
static __thread volatile int tl_kind = -1;
static void on_crash(int sig) {
  static volatile int once;
  char buf[160];
  int k = tl_kind, n;
  if (__atomic_exchange_n(&once, 1, __ATOMIC_SEQ_CST)) { for (;;) pause(); }
  n = snprintf(buf, sizeof buf, "CRASH signal=%d kind=%s\n", sig, (k >= 0 && k < K_N) ? kind_name[k] : "outside_checked_call");
  if (write(1, buf, n) < 0) _exit(4);
  _exit(4);
}

static __attribute__((noinline)) void check_across(tctx *t, int kind, void (*op)(void *), void *arg) {
  uint64_t pat[6], out[8];
  volatile uint64_t near_[16];
  int i, w0, w1, bad;
  uint64_t seq = ++t->seq;
  for (i = 0; i < 6; i++) pat[i] = mix(t->id, seq, i);
  for (i = 0; i < 16; i++) near_[i] = mix(t->id, seq, 100 + i);
  w0 = myth_get_worker_num();
  tl_kind = kind;
  ctxp_regs_across(op, arg, pat, out);
  tl_kind = -1;
  w1 = myth_get_worker_num();
  AADD(g_stat[kind].ops, 1);
  if (w0 != w1) AADD(g_stat[kind].migrated, 1);
  bad = 0;
  for (i = 0; i < 6; i++)
    if (out[i] != pat[i]) { if (!bad) fail(kind, "register", t->id, seq, i, pat[i], out[i], w0, w1); bad = 1; }
  if (bad) AADD(g_stat[kind].regfail, 1);
  bad = 0;
  for (i = 0; i < 16; i++)
    if (near_[i] != mix(t->id, seq, 100 + i)) { if (!bad) fail(kind, "near_stack", t->id, seq, i, mix(t->id, seq, 100 + i), near_[i], w0, w1); bad = 1; }
  if (out[6] != out[7]) { fail(kind, "rsp_after_resume", t->id, seq, 0, out[7], out[6], w0, w1); bad = 1; }
  bad |= check_arr(t, kind, w0, w1);
  if (bad) AADD(g_stat[kind].stackfail, 1);
  bad = 0;
  if ((out[6] & 15) != 0) { fail(kind, "rsp_alignment_after_resume", t->id, seq, 0, 0, out[6] & 15, w0, w1); bad = 1; }
  { uint64_t e = ctxp_entry_rsp();   /* a function called after the resumption */
    if ((e & 15) != 8) { fail(kind, "callee_alignment_after_resume", t->id, seq, 0, 8, e & 15, w0, w1); bad = 1; } }
  if (bad) AADD(g_stat[kind].alignfail, 1);
}

/* ------------------------------------------------------------------------------------------ */
/* thread start                                                                                */
/* ------------------------------------------------------------------------------------------ */
typedef struct targ {
  void (*body)(tctx *, void *);
  void *barg;
  int entry_kind;       /* 0 child-first, 1 parent-first */
} targ;

__attribute__((used)) void *ctxp_thread_main(void *arg, uint64_t entry_rsp) {
  targ *a = arg;
  volatile uint64_t arr[ARRN];
  tctx t;
  AADD(g_entry_n[a->entry_kind], 1);
  if ((entry_rsp & 15) != 8) {
    if (AADD(g_entry_mis[a->entry_kind], 1) == 1)
      fail(-1, a->entry_kind ? "entry_alignment_parent_first" : "entry_alignment_child_first", -1, 0, -1, 8,
           entry_rsp & 15, -1, -1);
  }
  t.id = AADD(g_next_id, 1);
  t.seq = 0;
  t.arr = arr;
  fill_arr(&t);
  a->body(&t, a->barg);
  if (check_arr(&t, -1, -1, -1)) AADD(g_stat[K_YIELD].stackfail, 1);
  return (void *)(uintptr_t)t.id;
}

typedef struct creq { myth_thread_t th; targ ta; } creq;
static int g_default_child_first;      /* does an attribute-less creation run the child first? (read after init) */

static void op_create(void *p) {
  creq *c = p;
  myth_thread_attr_t attr;
  memset(&attr, 0, sizeof attr);
  myth_thread_attr_init(&attr);
  attr.child_first = c->ta.entry_kind == 0;
  attr.custom_data_size = 0; attr.custom_data = 0;
  /* every other child-first creation goes through the attribute-less path (attr == NULL: the stack
     comes from the default pool, whose top is base + default size - 16, not page rounded) */
  static volatile long n_cf;
  int plain = c->ta.entry_kind == 0 && g_default_child_first && (__sync_fetch_and_add(&n_cf, 1) & 1);
  if (myth_create_ex(&c->th, plain ? 0 : &attr, ctxp_thread_tramp, &c->ta) != 0) { fprintf(stderr, "myth_create_ex failed\n"); exit(2); }
}
static void op_join(void *p) { creq *c = p; void *r = 0; if (myth_join(c->th, &r) != 0) { fprintf(stderr, "myth_join failed\n"); exit(2); } }
static void op_yield(void *p) { (void)p; myth_yield(); }
static void op_yield_local(void *p) { (void)p; myth_yield_ex(myth_yield_option_local_only); }
static void op_lock(void *p) { myth_mutex_lock(p); }
static void op_unlock(void *p) { myth_mutex_unlock(p); }
static void op_barrier(void *p) { myth_barrier_wait(p); }
typedef struct cv { myth_mutex_t m; myth_cond_t c; volatile int flag; } cv;
static void op_cond_wait(void *p) { cv *x = p; myth_cond_wait(&x->c, &x->m); }
static void op_cond_bcast(void *p) { cv *x = p; myth_cond_broadcast(&x->c); }
static void op_uncond_wait(void *p) { myth_uncond_wait(p); }
static void op_uncond_signal(void *p) { myth_uncond_signal(p); }
static void op_jc_wait(void *p) { myth_join_counter_wait(p); }
static void op_jc_dec(void *p) { myth_join_counter_dec(p); }
static void op_fe_wait1(void *p) { myth_felock_wait_and_lock(p, 1); }
static void op_fe_signal0(void *p) { myth_felock_mark_and_signal(p, 0); }
static void op_fe_signal1(void *p) { myth_felock_mark_and_signal(p, 1); }

static void spawn(tctx *t, creq *c, void (*body)(tctx *, void *), void *barg, int parent_first) {
  c->ta.body = body; c->ta.barg = barg; c->ta.entry_kind = parent_first ? 1 : 0;
  check_across(t, parent_first ? K_CREATE_PF : K_CREATE_CF, op_create, c);
}
static void join(tctx *t, creq *c) { check_across(t, K_JOIN, op_join, c); }

static void spin(unsigned n) { volatile unsigned i; for (i = 0; i < n; i++) ; }

/* ------------------------------------------------------------------------------------------ */
/* scenarios                                                                                   */
/* ------------------------------------------------------------------------------------------ */
/* 1. fork-join tree mixing child-first / parent-first creation: create, join (blocking into the
      next thread or into the scheduler), finish with a waiting joiner, finish into the next
      thread / the scheduler, work stealing when there are several workers */
typedef struct tree { int depth; uint64_t bits; } tree;
static void body_tree(tctx *t, void *p) {
  tree *tr = p;
  if (tr->depth == 0) {
    spin(200 + (unsigned)(mix(t->id, 7, 7) % 3000));
    check_across(t, K_YIELD, op_yield, 0);
    return;
  }
  {
    creq c[2]; tree sub[2]; int i;
    for (i = 0; i < 2; i++) {
      sub[i].depth = tr->depth - 1;
      sub[i].bits = mix(tr->bits, tr->depth, i);
      spawn(t, &c[i], body_tree, &sub[i], (int)((sub[i].bits >> 7) & 1));
    }
    if ((tr->bits >> 9) & 1) check_across(t, K_YIELD_LOCAL, op_yield_local, 0);
    for (i = 0; i < 2; i++) join(t, &c[i]);
  }
}

/* 2. yield ring */
static void body_yielder(tctx *t, void *p) {
  int n = *(int *)p, i;
  for (i = 0; i < n; i++) {
    check_across(t, (i & 1) ? K_YIELD : K_YIELD_LOCAL, (i & 1) ? op_yield : op_yield_local, 0);
    if ((i & 3) == 3) spin(100);
  }
}
static void sc_yield(tctx *t, int nthreads, int nyields) {
  creq c[16]; int i;
  if (nthreads > 16) nthreads = 16;
  for (i = 0; i < nthreads; i++) spawn(t, &c[i], body_yielder, &nyields, 1);
  for (i = 0; i < nthreads; i++) check_across(t, K_YIELD_LOCAL, op_yield_local, 0);
  for (i = 0; i < nthreads; i++) join(t, &c[i]);
}

/* 3. mutex: the holder keeps the lock while child-first contenders run straight into it */
typedef struct mx { myth_mutex_t m; volatile long counter; } mx;
static void body_contender(tctx *t, void *p) {
  mx *x = p;
  check_across(t, K_LOCK, op_lock, &x->m);
  x->counter++;
  check_across(t, K_YIELD_LOCAL, op_yield_local, 0);   /* switch while holding the lock */
  check_across(t, K_UNLOCK, op_unlock, &x->m);
}
static void sc_mutex(tctx *t, int n) {
  mx x; creq c[16]; int i;
  if (n > 16) n = 16;
  myth_mutex_init(&x.m, 0); x.counter = 0;
  check_across(t, K_LOCK, op_lock, &x.m);
  for (i = 0; i < n; i++) spawn(t, &c[i], body_contender, &x, 0);
  check_across(t, K_YIELD, op_yield, 0);
  check_across(t, K_UNLOCK, op_unlock, &x.m);
  for (i = 0; i < n; i++) join(t, &c[i]);
  if (x.counter != n) { fprintf(stderr, "mutex scenario: counter %ld != %d\n", x.counter, n); exit(2); }
  myth_mutex_destroy(&x.m);
}

/* 4. barrier */
typedef struct bar { myth_barrier_t b; int rounds; } bar;
static void body_barrier(tctx *t, void *p) {
  bar *b = p; int i;
  for (i = 0; i < b->rounds; i++) check_across(t, K_BARRIER, op_barrier, &b->b);
}
static void sc_barrier(tctx *t, int n, int rounds) {
  bar b; creq c[16]; int i;
  if (n > 16) n = 16;
  myth_barrier_init(&b.b, 0, n); b.rounds = rounds;
  for (i = 0; i < n; i++) spawn(t, &c[i], body_barrier, &b, i & 1);
  for (i = 0; i < n; i++) join(t, &c[i]);
  myth_barrier_destroy(&b.b);
}

/* 5. condition variable */
static void body_cond_waiter(tctx *t, void *p) {
  cv *x = p;
  check_across(t, K_LOCK, op_lock, &x->m);
  while (!x->flag) check_across(t, K_COND_WAIT, op_cond_wait, x);
  check_across(t, K_UNLOCK, op_unlock, &x->m);
}
static void sc_cond(tctx *t, int n) {
  cv x; creq c[16]; int i;
  if (n > 16) n = 16;
  myth_mutex_init(&x.m, 0); myth_cond_init(&x.c, 0); x.flag = 0;
  for (i = 0; i < n; i++) spawn(t, &c[i], body_cond_waiter, &x, 0);
  check_across(t, K_LOCK, op_lock, &x.m);
  x.flag = 1;
  check_across(t, K_COND_BCAST, op_cond_bcast, &x);
  check_across(t, K_UNLOCK, op_unlock, &x.m);
  for (i = 0; i < n; i++) join(t, &c[i]);
  myth_cond_destroy(&x.c); myth_mutex_destroy(&x.m);
}

/* 6. uncond */
static void body_uncond_waiter(tctx *t, void *p) { check_across(t, K_UNCOND_WAIT, op_uncond_wait, p); }
static void sc_uncond(tctx *t) {
  myth_uncond_t u; creq c;
  myth_uncond_init(&u);
  spawn(t, &c, body_uncond_waiter, &u, 0);       /* child-first: the waiter waits before we continue */
  check_across(t, K_UNCOND_SIGNAL, op_uncond_signal, &u);
  join(t, &c);
  myth_uncond_destroy(&u);
}

/* 7. join counter */
static void body_jc_waiter(tctx *t, void *p) { check_across(t, K_JC_WAIT, op_jc_wait, p); }
static void sc_jc(tctx *t, int n) {
  myth_join_counter_t jc; creq c[2]; int i;
  myth_join_counter_init(&jc, 0, n);
  spawn(t, &c[0], body_jc_waiter, &jc, 0);
  spawn(t, &c[1], body_jc_waiter, &jc, 0);
  for (i = 0; i < n; i++) check_across(t, K_JC_DEC, op_jc_dec, &jc);
  join(t, &c[0]); join(t, &c[1]);
}

/* 8. full/empty lock */
static void body_fe_waiter(tctx *t, void *p) {
  check_across(t, K_FELOCK_WAIT, op_fe_wait1, p);
  check_across(t, K_FELOCK_SIGNAL, op_fe_signal0, p);
}
static void sc_felock(tctx *t) {
  myth_felock_t fe; creq c;
  myth_felock_init(&fe, 0);
  spawn(t, &c, body_fe_waiter, &fe, 0);
  myth_felock_lock(&fe);
  check_across(t, K_FELOCK_SIGNAL, op_fe_signal1, &fe);
  join(t, &c);
  myth_felock_destroy(&fe);
}

typedef struct rootarg { int rounds; } rootarg;
static void body_root(tctx *t, void *p) {
  rootarg *ra = p; int r;
  for (r = 0; r < ra->rounds; r++) {
    tree tr; tr.depth = 4 + (int)(mix(r, 1, 1) % 3); tr.bits = mix(r, 2, 2);
    body_tree(t, &tr);
    sc_yield(t, 2 + (int)(mix(r, 3, 3) % 6), 6 + (int)(mix(r, 4, 4) % 10));
    sc_mutex(t, 1 + (int)(mix(r, 5, 5) % 6));
    sc_barrier(t, 2 + (int)(mix(r, 6, 6) % 5), 1 + (int)(mix(r, 7, 7) % 4));
    sc_cond(t, 1 + (int)(mix(r, 8, 8) % 5));
    sc_uncond(t);
    sc_jc(t, 1 + (int)(mix(r, 9, 9) % 4));
    sc_felock(t);
  }
}

int main(int argc, char **argv) {
  int rounds, k, i, nw;
  rootarg ra;
  if (argc < 3) { fprintf(stderr, "usage: ctx_probe <seed> <rounds>\n"); return 2; }
  g_seed = strtoull(argv[1], 0, 0);
  rounds = atoi(argv[2]);
  alarm(170);                               /* a stuck run is a harness error, never a verdict */
  {
    static char altstack[1 << 16];
    stack_t ss; struct sigaction sa;
    ss.ss_sp = altstack; ss.ss_size = sizeof altstack; ss.ss_flags = 0;
    sigaltstack(&ss, 0);                    /* main worker only; other workers run the handler on the faulting stack */
    memset(&sa, 0, sizeof sa);
    sa.sa_handler = on_crash; sa.sa_flags = SA_ONSTACK;
    sigaction(SIGSEGV, &sa, 0); sigaction(SIGBUS, &sa, 0); sigaction(SIGILL, &sa, 0); sigaction(SIGFPE, &sa, 0);
    setvbuf(stdout, 0, _IOFBF, 1 << 16);
  }
#ifdef MYTH_VERIF
  g_myth_verif_hook = ctxp_hook_tramp;
#endif
  myth_init();
  nw = myth_get_num_workers();
  { myth_thread_attr_t da; myth_thread_attr_init(&da); g_default_child_first = da.child_first != 0; }
  {
    /* the main thread is itself a user-level thread (on the process stack): run half of the
       rounds directly in it and half in a created root thread */
    volatile uint64_t arr[ARRN];
    tctx t; creq c;
    t.id = AADD(g_next_id, 1); t.seq = 0; t.arr = arr;
    fill_arr(&t);
    ra.rounds = (rounds + 1) / 2;
    spawn(&t, &c, body_root, &ra, 1);
    body_root(&t, &ra);
    join(&t, &c);
    if (check_arr(&t, -1, -1, -1)) AADD(g_stat[K_YIELD].stackfail, 1);
  }
  myth_fini();
  printf("config workers=%d seed=%llu rounds=%d hooks=%d\n", nw, (unsigned long long)g_seed, rounds,
#ifdef MYTH_VP_HAVE_CTX_CALLBACK
         1
#else
         0
#endif
  );
  for (k = 0; k < K_N; k++)
    printf("kind %s ops=%ld migrated=%ld regfail=%ld stackfail=%ld alignfail=%ld %s\n", kind_name[k], g_stat[k].ops,
           g_stat[k].migrated, g_stat[k].regfail, g_stat[k].stackfail, g_stat[k].alignfail,
           (g_stat[k].regfail | g_stat[k].stackfail | g_stat[k].alignfail) ? "FAIL" : "pass");
  for (k = 1; k < CB_N; k++)
    printf("callback %s calls=%ld misaligned=%ld %s\n", cb_name[k], g_cb_calls[k], g_cb_misaligned[k],
           g_cb_misaligned[k] ? "FAIL" : "pass");
  printf("entry child_first n=%ld misaligned=%ld %s\n", g_entry_n[0], g_entry_mis[0], g_entry_mis[0] ? "FAIL" : "pass");
  printf("entry parent_first n=%ld misaligned=%ld %s\n", g_entry_n[1], g_entry_mis[1], g_entry_mis[1] ? "FAIL" : "pass");
  for (i = 0; i < 16 && i < g_fail_total; i++) puts(g_fail_msg[i]);
  printf("failures %ld\n", g_fail_total);
  printf("result %s\n", g_fail_total ? "FAIL" : "PASS");
  return g_fail_total ? 3 : 0;
}
#endif /* CTXP_BENCH */
