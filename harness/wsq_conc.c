/* Concurrent unit harness for the work-stealing queue (C02).
 *
 * OS threads (participant 0 = owner, 1..3 = thieves / passers / peekers) run op scripts on ONE real
 * queue (g_envs[0].runnable_q, real inline functions of src/myth_wsqueue_func.h and the wsapi
 * functions of src/myth_if_native.c) under a token-passing schedule controller driven through
 * g_myth_verif_hook: exactly one participant runs at a time; at every MYTH_VERIF_POINT (= after
 * every shared access) the holder logs the event and the strategy decides who runs next.
 * Fence events are logged but are no schedule points.  A participant spinning on the queue lock
 * yields the token and is not scheduled again before the lock is released.
 *
 * stdin (scenario):   prefill <npush> <nput>        (owner ops run before the others start)
 *                     p0 push 5 pop put 7 clear ...
 *                     p1 take wtake 1 trypass 9 peek wpeek ...      (wtake A: 0 decline, 1 accept, 2 NULL callback)
 * argv:  random <seed> <nruns> <preemption-bound|-1>
 *        dfs <preemption-bound> <maxruns>
 *        replay <i,j,k,...> <bound>    (indices chosen at the branching schedule points; same bound as the run that produced them)
 * stdout per run:  RUN n / C p op arg / E p point value tag / F p strength / R p value / END n /
 *                  RES n sched=<i,j,..> preempts=<k> locked=<0|1> ins=<tags> ret=<tags> left=<tags>
 * Exit 2 on deadlock / watchdog / malformed scenario (a harness error, never a verdict).
 */
#include <stdio.h>
#include <stdlib.h>
#include <string.h>
#include <stdint.h>
#include <pthread.h>
#include <time.h>
#include "myth_thread.h"
#include "myth_worker.h"
#include "myth_wsqueue_func.h"

#define MAXP 4
#define MAXOPS 64
#define MAXEV 200000
#define MAXCH 4096
#define NTAG 4096

enum { OP_PUSH, OP_POP, OP_PUT, OP_CLEAR, OP_TAKE, OP_WTAKE, OP_TRYPASS, OP_PEEK, OP_WPEEK };
static const char * opname[] = { "push", "pop", "put", "clear", "take", "wtake", "trypass", "peek", "wpeek" };
typedef struct { int kind; long arg; } op_t;
static op_t script[MAXP][MAXOPS];
static int nops[MAXP];
static int nparts = 1;
static int prefill_push, prefill_put;

static struct myth_thread * th;
static myth_thread_queue_t q;

static long tag_of(const void * p) {
  if (!p) return 0;
  long i = (struct myth_thread *)p - th;
  if (i <= 0 || i >= NTAG) return -1;
  return i;
}

/* ---------------- event log ---------------- */
typedef struct { char kind; int part; const char * name; long v; long tag; } ev_t;
static ev_t * evs;
static int nev;
static void logev(char kind, int part, const char * name, long v, long tag) {
  if (nev >= MAXEV) { fprintf(stderr, "wsq_conc: event log overflow (livelock?)\n"); exit(2); }
  evs[nev].kind = kind; evs[nev].part = part; evs[nev].name = name; evs[nev].v = v; evs[nev].tag = tag; nev++;
}

static const char * ptname(int pt) {
  switch (pt) {
  case MYTH_VP_SPIN_CAS: return "cas"; case MYTH_VP_SPIN_UNLOCK: return "unl";
  case MYTH_VP_WSQ_PU0: return "pu0"; case MYTH_VP_WSQ_PUB: return "pub"; case MYTH_VP_WSQ_PUM: return "pum";
  case MYTH_VP_WSQ_PUS: return "pus"; case MYTH_VP_WSQ_PUV: return "puv"; case MYTH_VP_WSQ_PU1: return "pu1";
  case MYTH_VP_WSQ_PU2: return "pu2";
  case MYTH_VP_WSQ_PQ: return "pq"; case MYTH_VP_WSQ_PO1: return "po1"; case MYTH_VP_WSQ_PO2: return "po2";
  case MYTH_VP_WSQ_PO3: return "po3"; case MYTH_VP_WSQ_PO4: return "po4"; case MYTH_VP_WSQ_PO5: return "po5";
  case MYTH_VP_WSQ_PO5B: return "po5b"; case MYTH_VP_WSQ_PO5C: return "po5c"; case MYTH_VP_WSQ_PO5D: return "po5d";
  case MYTH_VP_WSQ_PO7: return "po7"; case MYTH_VP_WSQ_PO8: return "po8";
  case MYTH_VP_WSQ_PT1: return "pt1"; case MYTH_VP_WSQ_PT2: return "pt2"; case MYTH_VP_WSQ_PT3: return "pt3";
  case MYTH_VP_WSQ_PT4: return "pt4"; case MYTH_VP_WSQ_PT5: return "pt5"; case MYTH_VP_WSQ_PT7: return "pt7";
  case MYTH_VP_WSQ_PT8: return "pt8";
  case MYTH_VP_WSQ_CL1: return "cl1"; case MYTH_VP_WSQ_CL2: return "cl2";
  case MYTH_VP_WSQ_TQ0: return "tq0"; case MYTH_VP_WSQ_TQ1: return "tq1"; case MYTH_VP_WSQ_TK1: return "tk1";
  case MYTH_VP_WSQ_TK2: return "tk2"; case MYTH_VP_WSQ_TK3: return "tk3"; case MYTH_VP_WSQ_TK5: return "tk5";
  case MYTH_VP_WSQ_WQ0: return "wq0"; case MYTH_VP_WSQ_WQ1: return "wq1"; case MYTH_VP_WSQ_WK1: return "wk1";
  case MYTH_VP_WSQ_WK2: return "wk2"; case MYTH_VP_WSQ_WK3: return "wk3"; case MYTH_VP_WSQ_WKD: return "wkd";
  case MYTH_VP_WSQ_WK4: return "wk4"; case MYTH_VP_WSQ_WK5: return "wk5";
  case MYTH_VP_WSQ_TP1: return "tp1"; case MYTH_VP_WSQ_TP2: return "tp2"; case MYTH_VP_WSQ_TP3: return "tp3";
  case MYTH_VP_WSQ_KQ0: return "kq0"; case MYTH_VP_WSQ_KQ1: return "kq1"; case MYTH_VP_WSQ_PK1: return "pk1";
  case MYTH_VP_WSQ_PK2: return "pk2"; case MYTH_VP_WSQ_PK3: return "pk3";
  case MYTH_VP_WSQ_VQ0: return "vq0"; case MYTH_VP_WSQ_VQ1: return "vq1"; case MYTH_VP_WSQ_VC0: return "vc0";
  case MYTH_VP_WSQ_VC1: return "vc1"; case MYTH_VP_WSQ_VK1: return "vk1"; case MYTH_VP_WSQ_VK2: return "vk2";
  case MYTH_VP_WSQ_VK3: return "vk3"; case MYTH_VP_WSQ_VK4: return "vk4"; case MYTH_VP_WSQ_VK5: return "vk5";
  case MYTH_VP_WSQ_VR: return "vr";
  default: return 0;
  }
}

/* ---------------- controller ---------------- */
static pthread_mutex_t mu = PTHREAD_MUTEX_INITIALIZER;
static pthread_cond_t cv = PTHREAD_COND_INITIALIZER;          /* main waits here */
static pthread_cond_t cvp[MAXP] = { PTHREAD_COND_INITIALIZER, PTHREAD_COND_INITIALIZER, PTHREAD_COND_INITIALIZER, PTHREAD_COND_INITIALIZER };
#define H_NONE (-1)
#define H_DONE (-2)
static int holder = H_NONE;
static volatile int active;
static int solo;
static int finished[MAXP], spinning[MAXP], parked[MAXP], curop[MAXP];
static __thread int me = -1;
static long vspin_count;

enum { ST_RANDOM, ST_DFS, ST_REPLAY };
static int strategy;
static uint64_t rng;
static int bound = -1, preempts;
static int choices[MAXCH], noptsv[MAXCH], nchoices;
static int replayv[MAXCH], nreplay;

static uint64_t splitmix(void) {
  rng += 0x9E3779B97F4A7C15ULL;
  uint64_t z = rng;
  z = (z ^ (z >> 30)) * 0xBF58476D1CE4E5B9ULL;
  z = (z ^ (z >> 27)) * 0x94D049BB133111EBULL;
  return z ^ (z >> 31);
}

static void die(const char * msg) {
  fprintf(stderr, "wsq_conc: %s (events so far %d)\n", msg, nev);
  exit(2);
}

/* pick the next runner.  cur = current holder if it may continue, else -1.  Called with mu held. */
static int choose(int cur) {
  int opts[MAXP], n = 0;
  if (cur >= 0) opts[n++] = cur;
  for (int i = 0; i < nparts; i++)
    if (i != cur && !finished[i] && !spinning[i] && parked[i]) opts[n++] = i;
  if (n == 0) return -1;
  int cnt = n;
  if (cur >= 0 && bound >= 0 && preempts >= bound) cnt = 1;   /* no more preemptions */
  int pick = 0;
  if (cnt > 1) {
    if (nchoices < nreplay) {
      pick = replayv[nchoices];
      if (pick < 0 || pick >= cnt) die("replay index out of range (schedule does not fit this build)");
    } else if (strategy == ST_RANDOM) {
      pick = (int)(splitmix() % (uint64_t)cnt);
    } else pick = 0;
    if (nchoices >= MAXCH) die("too many schedule points");
    choices[nchoices] = pick; noptsv[nchoices] = cnt; nchoices++;
  }
  if (cur >= 0 && pick != 0) preempts++;
  return opts[pick];
}

static void hand_over(int next) {
  /* mu held; I am the holder */
  if (next == me) return;
  holder = next;
  parked[me] = 1;
  pthread_cond_signal(&cvp[next]);
  while (holder != me) pthread_cond_wait(&cvp[me], &mu);
  parked[me] = 0;
}

static void sched_point(int forced) {
  pthread_mutex_lock(&mu);
  int next = choose(forced ? -1 : me);
  if (next < 0) die("deadlock: every unfinished participant spins on the queue lock");
  hand_over(next);
  pthread_mutex_unlock(&mu);
}

static void hook(int pt, const void * a, const void * b, long v) {
  if (!active || me < 0) return;
  if (pt == MYTH_VP_FENCE_R || pt == MYTH_VP_FENCE_W || pt == MYTH_VP_FENCE_RW) {
    logev('F', me, 0, v, 0);
    return;
  }
  if (pt < 0) {
    int id = -pt;
    if (id == MYTH_VP_SPIN_WAIT) {
      if (a != (const void *)&q->lock) return;
      if (solo) die("prefill spins on the lock");
      spinning[me] = 1;
      sched_point(1);
    } else if (id == MYTH_VP_WSQ_VSPIN) {
      if (++vspin_count > 1000000) die("seqlock read loop does not terminate");
    }
    return;
  }
  if (pt == MYTH_VP_SPIN_CAS || pt == MYTH_VP_SPIN_UNLOCK) {
    if (a != (const void *)&q->lock) return;
  } else if (a != (const void *)q) return;
  const char * nm = ptname(pt);
  if (!nm) return;
  logev('E', me, nm, v, tag_of(b));
  if (pt == MYTH_VP_SPIN_CAS && v == 1) spinning[me] = 0;
  if (pt == MYTH_VP_SPIN_UNLOCK) for (int i = 0; i < MAXP; i++) spinning[i] = 0;
  if (solo) return;
  /* the first read of a two-read quick check is logged but is no schedule point */
  if (pt == MYTH_VP_WSQ_TQ0 || pt == MYTH_VP_WSQ_WQ0 || pt == MYTH_VP_WSQ_KQ0 || pt == MYTH_VP_WSQ_VQ0) return;
  if (pt == MYTH_VP_SPIN_CAS && v == 0) {
    /* failed CAS: inside myth_spin_lock_body the SPIN mark follows and yields; a failed trylock returns
       to the caller, except in wsapi peek where `goto start` is a busy-wait loop */
    if (curop[me] == OP_WPEEK) { spinning[me] = 1; sched_point(1); }
    return;
  }
  sched_point(0);
}

static int decide_yes(myth_thread_t t, void * u) { (void)t; (void)u; return 1; }
static int decide_no(myth_thread_t t, void * u) { (void)t; (void)u; return 0; }

static long inserted[NTAG], ninserted;
static long returned[NTAG], nreturned;

static void run_op(int p, op_t * o) {
  curop[p] = o->kind;
  logev('C', p, opname[o->kind], o->arg, 0);
  long r = 0;
  switch (o->kind) {
  case OP_PUSH: myth_queue_push(q, &th[o->arg]); inserted[ninserted++] = o->arg; break;
  case OP_PUT: myth_queue_put(q, &th[o->arg]); inserted[ninserted++] = o->arg; break;
  case OP_CLEAR: myth_queue_clear(q); break;
  case OP_POP: r = tag_of(myth_queue_pop(q)); if (r) returned[nreturned++] = r; break;
  case OP_TAKE: r = tag_of(myth_queue_take(q)); if (r) returned[nreturned++] = r; break;
  case OP_WTAKE:
    r = tag_of(myth_wsapi_runqueue_take(0, o->arg == 2 ? 0 : (o->arg ? decide_yes : decide_no), 0));
    if (r) returned[nreturned++] = r;
    break;
  case OP_TRYPASS: r = myth_queue_trypass(q, &th[o->arg]); if (r) inserted[ninserted++] = o->arg; break;
  case OP_PEEK: r = tag_of(myth_queue_peek(q)); break;
  case OP_WPEEK: { size_t sz = 0; r = tag_of(myth_wsapi_runqueue_peek(0, 0, &sz)); break; }
  }
  logev('R', p, 0, r, 0);
}

static void * part_main(void * arg) {
  int p = (int)(long)arg;
  me = p;
  pthread_mutex_lock(&mu);
  parked[p] = 1;
  pthread_cond_signal(&cv);
  while (holder != p) pthread_cond_wait(&cvp[p], &mu);
  parked[p] = 0;
  pthread_mutex_unlock(&mu);
  for (int i = 0; i < nops[p]; i++) run_op(p, &script[p][i]);
  pthread_mutex_lock(&mu);
  finished[p] = 1;
  int next = choose(-1);
  if (next < 0) {
    int all = 1;
    for (int i = 0; i < nparts; i++) if (!finished[i]) all = 0;
    if (!all) die("deadlock: a participant finished and all others spin on the queue lock");
    holder = H_DONE;
    pthread_cond_signal(&cv);
  } else { holder = next; pthread_cond_signal(&cvp[next]); }
  pthread_mutex_unlock(&mu);
  me = -1;
  return 0;
}

static void fresh_queue(void) {
  if (q->ptr) myth_free_with_size(q->ptr, 0);
  memset(q, 0, sizeof(*q));
  myth_queue_init(q);
}

static void one_run(int runid) {
  fresh_queue();
  nev = 0; nchoices = 0; preempts = 0; ninserted = 0; nreturned = 0; vspin_count = 0;
  holder = H_NONE;
  for (int i = 0; i < MAXP; i++) finished[i] = spinning[i] = parked[i] = 0;
  /* prefill by the owner, controller in solo mode (events logged, no switching) */
  me = 0; solo = 1; active = 1;
  for (int i = 0; i < prefill_push; i++) { op_t o = { OP_PUSH, 1000 + i }; run_op(0, &o); }
  for (int i = 0; i < prefill_put; i++) { op_t o = { OP_PUT, 2000 + i }; run_op(0, &o); }
  solo = 0; me = -1;
  pthread_t tid[MAXP];
  for (int p = 0; p < nparts; p++) pthread_create(&tid[p], 0, part_main, (void *)(long)p);
  pthread_mutex_lock(&mu);
  struct timespec ts;
  clock_gettime(CLOCK_REALTIME, &ts); ts.tv_sec += 20;
  for (;;) {
    int all = 1;
    for (int p = 0; p < nparts; p++) if (!parked[p]) all = 0;
    if (all) break;
    if (pthread_cond_timedwait(&cv, &mu, &ts)) die("watchdog: participants did not start");
  }
  int first = choose(-1);
  if (first < 0) die("no participant");
  holder = first;
  pthread_cond_signal(&cvp[first]);
  while (holder != H_DONE)
    if (pthread_cond_timedwait(&cv, &mu, &ts)) die("watchdog: run did not finish within 20 s");
  pthread_mutex_unlock(&mu);
  for (int p = 0; p < nparts; p++) pthread_join(tid[p], 0);
  active = 0;
  /* emit */
  printf("RUN %d\n", runid);
  for (int i = 0; i < nev; i++) {
    ev_t * e = &evs[i];
    if (e->kind == 'C') printf("C %d %s %ld\n", e->part, e->name, e->v);
    else if (e->kind == 'E') printf("E %d %s %ld %ld\n", e->part, e->name, e->v, e->tag);
    else if (e->kind == 'F') printf("F %d %ld\n", e->part, e->v);
    else printf("R %d %ld\n", e->part, e->v);
  }
  printf("END %d\n", runid);
  printf("RES %d sched=", runid);
  for (int i = 0; i < nchoices; i++) printf("%s%d", i ? "," : "", choices[i]);
  printf(" bound=%d preempts=%d locked=%d ins=", bound, preempts, q->lock.locked);
  for (int i = 0; i < ninserted; i++) printf("%s%ld", i ? "," : "", inserted[i]);
  printf(" ret=");
  for (int i = 0; i < nreturned; i++) printf("%s%ld", i ? "," : "", returned[i]);
  printf(" left=");
  for (int i = q->base, k = 0; i < q->top; i++, k++) printf("%s%ld", k ? "," : "", tag_of(q->ptr[i]));
  printf(" top=%d base=%d\n", q->top, q->base);
}

static int parse_scenario(void) {
  char line[1024];
  while (fgets(line, sizeof line, stdin)) {
    char * tok = strtok(line, " \t\n");
    if (!tok) continue;
    if (!strcmp(tok, "prefill")) {
      char * a = strtok(0, " \t\n"), * b = strtok(0, " \t\n");
      if (!a || !b) return 0;
      prefill_push = atoi(a); prefill_put = atoi(b);
      continue;
    }
    if (tok[0] != 'p') return 0;
    int p = atoi(tok + 1);
    if (p < 0 || p >= MAXP) return 0;
    if (p + 1 > nparts) nparts = p + 1;
    while ((tok = strtok(0, " \t\n"))) {
      int k = -1;
      for (int i = 0; i < 9; i++) if (!strcmp(tok, opname[i])) k = i;
      if (k < 0 || nops[p] >= MAXOPS) return 0;
      long arg = 0;
      if (k == OP_PUSH || k == OP_PUT || k == OP_TRYPASS || k == OP_WTAKE) {
        tok = strtok(0, " \t\n");
        if (!tok) return 0;
        arg = atol(tok);
        if (k != OP_WTAKE && (arg <= 0 || arg >= 1000)) return 0;
      }
      if ((p == 0) != (k <= OP_CLEAR)) return 0;      /* owner ops only for p0 */
      script[p][nops[p]].kind = k; script[p][nops[p]].arg = arg; nops[p]++;
    }
  }
  return 1;
}

int main(int argc, char ** argv) {
  setvbuf(stdout, 0, _IOFBF, 1 << 20);
  th = calloc(NTAG, sizeof(struct myth_thread));
  evs = calloc(MAXEV, sizeof(ev_t));
  g_envs = calloc(1, sizeof(*g_envs));
  q = &g_envs[0].runnable_q;
  myth_queue_init(q);
  if (q->size != MYTH_VERIF_QUEUE_SIZE) die("queue size hook not effective");
  if (!parse_scenario()) die("malformed scenario");
  g_myth_verif_hook = hook;
  if (argc >= 5 && !strcmp(argv[1], "random")) {
    strategy = ST_RANDOM;
    uint64_t seed = strtoull(argv[2], 0, 10);
    int nruns = atoi(argv[3]);
    bound = atoi(argv[4]);
    for (int r = 0; r < nruns; r++) {
      rng = seed * 1000003ULL + (uint64_t)r * 7919ULL + 17;
      nreplay = 0;
      one_run(r);
    }
  } else if (argc >= 4 && !strcmp(argv[1], "dfs")) {
    strategy = ST_DFS;
    bound = atoi(argv[2]);
    int maxruns = atoi(argv[3]);
    nreplay = 0;
    int r = 0;
    for (; r < maxruns; r++) {
      one_run(r);
      int i = nchoices - 1;
      while (i >= 0 && choices[i] + 1 >= noptsv[i]) i--;
      if (i < 0) { r++; printf("DFS exhausted runs=%d\n", r); fflush(stdout); return 0; }
      for (int j = 0; j < i; j++) replayv[j] = choices[j];
      replayv[i] = choices[i] + 1;
      nreplay = i + 1;
    }
    printf("DFS budget runs=%d\n", r);
  } else if (argc >= 3 && !strcmp(argv[1], "replay")) {
    strategy = ST_REPLAY;
    bound = argc >= 4 ? atoi(argv[3]) : -1;
    nreplay = 0;
    char * s = argv[2];
    for (char * tok = strtok(s, ","); tok; tok = strtok(0, ",")) replayv[nreplay++] = atoi(tok);
    one_run(0);
  } else die("usage: wsq_conc random <seed> <nruns> <bound> | dfs <bound> <maxruns> | replay <i,j,...>");
  fflush(stdout);
  return 0;
}
