/* Sequential unit harness for the work-stealing queue (C02): drives the REAL inline functions of
 * src/myth_wsqueue_func.h and the two queue functions of src/myth_if_native.c
 * (myth_wsapi_runqueue_take / _peek on g_envs[0].runnable_q) with the line protocol of
 * `drv_wsq seq <size>`.  Compile with -DMYTH_VERIF_QUEUE_SIZE=<size> (the hook in myth_config.h).
 *   push T | pop | take | wtake A | peek | wpeek | trypass T | pass T | put T | clear | dump | reset
 * Elements are real `struct myth_thread` objects; tag = index into a private array.
 */
#include <stdio.h>
#include <stdlib.h>
#include <string.h>
#include "myth_thread.h"
#include "myth_worker.h"
#include "myth_wsqueue_func.h"

#define NTAG 4096
static struct myth_thread * th;      /* th[tag] */
static myth_thread_queue_t q;

static long tag_of(const void * p) {
  if (!p) return 0;
  long i = (struct myth_thread *)p - th;
  if (i <= 0 || i >= NTAG) return -1;
  return i;
}
static int decide_yes(myth_thread_t t, void * u) { (void)t; (void)u; return 1; }
static int decide_no(myth_thread_t t, void * u) { (void)t; (void)u; return 0; }

static void state(const char * res) {
  printf("%s top=%d base=%d wc=%ld\n", res, q->top, q->base, tag_of((const void *)q->wc.ptr));
}
static void fresh(void) {
  if (q->ptr) myth_free_with_size(q->ptr, 0);
  memset(q, 0, sizeof(*q));
  myth_queue_init(q);
}

int main(void) {
  char line[256], buf[64];
  th = calloc(NTAG, sizeof(struct myth_thread));
  g_envs = calloc(1, sizeof(*g_envs));
  q = &g_envs[0].runnable_q;
  myth_queue_init(q);
  if (q->size != MYTH_VERIF_QUEUE_SIZE) { fprintf(stderr, "queue size hook not effective\n"); return 3; }
  while (fgets(line, sizeof line, stdin)) {
    char op[32]; long a = 0;
    int n = sscanf(line, "%31s %ld", op, &a);
    if (n < 1) continue;
    if (n >= 2 && (a <= 0 || a >= NTAG) && strcmp(op, "wtake")) { printf("bad-op\n"); continue; }
    if (!strcmp(op, "push")) { myth_queue_push(q, &th[a]); state("-"); }
    else if (!strcmp(op, "pop")) { snprintf(buf, sizeof buf, "%ld", tag_of(myth_queue_pop(q))); state(buf); }
    else if (!strcmp(op, "take")) { snprintf(buf, sizeof buf, "%ld", tag_of(myth_queue_take(q))); state(buf); }
    else if (!strcmp(op, "wtake")) {
      myth_thread_t r = myth_wsapi_runqueue_take(0, a == 2 ? 0 : (a ? decide_yes : decide_no), 0);
      snprintf(buf, sizeof buf, "%ld", tag_of(r)); state(buf);
    }
    else if (!strcmp(op, "peek")) { snprintf(buf, sizeof buf, "%ld", tag_of(myth_queue_peek(q))); state(buf); }
    else if (!strcmp(op, "wpeek")) {
      size_t sz = 0;
      snprintf(buf, sizeof buf, "%ld", tag_of(myth_wsapi_runqueue_peek(0, 0, &sz))); state(buf);
    }
    else if (!strcmp(op, "trypass")) { state(myth_queue_trypass(q, &th[a]) ? "ok1" : "ok0"); }
    else if (!strcmp(op, "pass")) { myth_queue_pass(q, &th[a]); state("-"); }
    else if (!strcmp(op, "put")) { myth_queue_put(q, &th[a]); state("-"); }
    else if (!strcmp(op, "clear")) { myth_queue_clear(q); state("-"); }
    else if (!strcmp(op, "dump")) {
      printf("slots");
      for (int i = q->base; i < q->top; i++) printf(" %ld", tag_of(q->ptr[i]));
      printf("\n");
    }
    else if (!strcmp(op, "reset")) { fresh(); state("reset"); }
    else printf("bad-op\n");
    fflush(stdout);
  }
  return 0;
}
