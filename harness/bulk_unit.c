/* Harness for C17 (bulk fork-join helpers), linked with the library built from the current
 * sources (-DMYTH_VERIF).  Reads op lines on stdin (the line protocol of `drv_bulk`):
 *
 *   bulk various|many N IDS RES ATTRS FSTRIDE ASTRIDE ISTRIDE RSTRIDE ATSTRIDE FK
 *
 * and calls the REAL myth_create_join_various_ex / myth_create_join_many_ex on freshly
 * allocated strided arrays that are surrounded (and interleaved) by guard bytes 0xA5.
 * Output, one line per op:
 *
 *   <events in the order they happened> | ids=<slots ok> | res=<slots ok> | guard=<bad bytes>
 *        ro=<input arrays unchanged> ret=<return value> done=<calls completed at return>
 *
 * events: sp:a:c:b / at:OFF|- / lf:I:FOFF:AOFF / jn:a:c:b from the MYTH_VP_BULK_* hook points,
 * cl:K:AOFF logged by the test functions themselves (hook-free).  The ids= / res= / guard= /
 * ro= / done= parts are computed without the hooks.
 *
 *   bulk_unit info          prints the sizes the generator needs
 *   bulk_unit [yield]       `yield`: the test functions call myth_yield() (several workers)
 * ATTRS: 0 NULL, 1 default attributes, 2 per-item stack sizes, 3 per-item child_first
 */
#include <stdio.h>
#include <stdlib.h>
#include <string.h>
#include <stdint.h>
#include <sys/resource.h>
#include <myth/myth.h>
#include "myth_verif.h"

#define GUARD 64
#define FILL 0xA5
#define MAXEV (1 << 17)
#define MAXCALL (1 << 14)
#define NFN 4

typedef struct { int type; long a, b, c; } ev_t;
static ev_t evs[MAXEV];
static volatile long nev;
typedef struct { int k; long aoff; myth_thread_t self; void * ret; } call_t;
static call_t calls[MAXCALL];
static volatile long ncalls, completed;
static int yield_mode;
static char * args_base, * funcs_base, * attrs_base;
static const void * many_slot;

enum { EV_SP, EV_AT, EV_LF, EV_JN, EV_CL };

static void logev(int type, long a, long b, long c) {
  long i = __sync_fetch_and_add(&nev, 1);
  if (i < MAXEV) { evs[i].type = type; evs[i].a = a; evs[i].b = b; evs[i].c = c; }
}

static void hook(int pt, const void * a, const void * b, long v) {
  switch (pt) {
  case MYTH_VP_BULK_LEAF: {
    long foff;
    if (funcs_base) foff = (const char *)a - funcs_base;
    else { if (!many_slot) many_slot = a; foff = (const char *)a - (const char *)many_slot; }
    logev(EV_LF, v, foff, (const char *)b - args_base);
    break;
  }
  case MYTH_VP_BULK_SPLIT: logev(EV_SP, (long)a, v, (long)b); break;
  case MYTH_VP_BULK_ATTR: logev(EV_AT, a ? (const char *)a - attrs_base : -1, 0, 0); break;
  case MYTH_VP_BULK_JOINED: logev(EV_JN, (long)a, v, (long)b); break;
  default: break;
  }
}

static void * body(int k, void * arg) {
  long aoff = (char *)arg - args_base;
  long seq = __sync_fetch_and_add(&ncalls, 1);
  logev(EV_CL, k, aoff, 0);
  long v = *(volatile long *)arg;
  if (yield_mode) {
    int j, y = (int)((aoff / 8 + k + seq) % 3);
    for (j = 0; j < y; j++) myth_yield();
  }
  void * ret = (void *)(((seq + 1) << 24) | ((long)k << 20) | (v & 0xfffff));
  if (seq < MAXCALL) {
    calls[seq].k = k; calls[seq].aoff = aoff; calls[seq].self = myth_self(); calls[seq].ret = ret;
  }
  __sync_fetch_and_add(&completed, 1);
  return ret;
}
static void * fn0(void * a) { return body(0, a); }
static void * fn1(void * a) { return body(1, a); }
static void * fn2(void * a) { return body(2, a); }
static void * fn3(void * a) { return body(3, a); }
static myth_func_t fns[NFN] = { fn0, fn1, fn2, fn3 };
static int fn_of_slot(long j) { return (int)((j * 5 + 2) % 4); }

typedef struct { char * raw, * base, * copy; size_t rawsz; } buf_t;

static buf_t mkbuf(long n, size_t stride, size_t elem) {
  buf_t b;
  size_t span = n > 0 ? (size_t)(n - 1) * stride + elem : 0;
  if (span < 64) span = 64;
  b.rawsz = GUARD + span + GUARD;
  b.raw = malloc(b.rawsz);
  memset(b.raw, FILL, b.rawsz);
  b.base = b.raw + GUARD;
  b.copy = 0;
  return b;
}
static void snap(buf_t * b) { b->copy = malloc(b->rawsz); memcpy(b->copy, b->raw, b->rawsz); }
static int unchanged(buf_t * b) { return memcmp(b->raw, b->copy, b->rawsz) == 0; }
static void freebuf(buf_t * b) { free(b->raw); free(b->copy); }

/* bytes of an output array that are outside every expected slot and no longer FILL */
static long guard_bad(buf_t * b, long n, size_t stride, size_t elem) {
  long bad = 0;
  size_t i;
  for (i = 0; i < b->rawsz; i++) {
    long off = (long)i - GUARD;
    int in_slot = 0;
    if (n > 0 && off >= 0) {
      if (stride == 0) in_slot = (size_t)off < elem;
      else {
        size_t q = (size_t)off / stride;
        in_slot = q < (size_t)n && (size_t)off - q * stride < elem;
        if (!in_slot && q > 0 && q - 1 < (size_t)n && (size_t)off - (q - 1) * stride < elem) in_slot = 1;
      }
    }
    if (!in_slot && (unsigned char)b->raw[i] != FILL) bad++;
  }
  return bad;
}

static void do_bulk(const char * kind, long n, int use_ids, int use_res, int attr_mode,
                    size_t fs, size_t as, size_t is, size_t rs, size_t ats, int fk) {
  int many = !strcmp(kind, "many");
  long i;
  buf_t bf = mkbuf(n, fs, sizeof(myth_func_t));
  buf_t ba = mkbuf(n, as, sizeof(long));
  buf_t bi = mkbuf(n, is, sizeof(myth_thread_t));
  buf_t br = mkbuf(n, rs, sizeof(void *));
  buf_t bt = mkbuf(n, ats, sizeof(myth_thread_attr_t));
  /* inputs */
  {
    long nslots = n > 0 ? (fs == 0 ? 1 : n) : 1;
    for (i = 0; i < nslots; i++) { myth_func_t f = fns[fn_of_slot(i)]; memcpy(bf.base + i * fs, &f, sizeof f); }
    nslots = n > 0 ? (as == 0 ? 1 : n) : 1;
    for (i = 0; i < nslots; i++) { long v = i; memcpy(ba.base + i * as, &v, sizeof v); }
    if (attr_mode) {
      nslots = n > 0 ? (ats == 0 ? 1 : n) : 1;
      for (i = 0; i < nslots; i++) {
        myth_thread_attr_t at;
        static const size_t stk[4] = { 0, 65536, 131072, 32768 };
        memset(&at, 0, sizeof at);
        myth_thread_attr_init(&at);
        if (attr_mode == 2) at.stacksize = stk[i % 4];
        if (attr_mode == 3) at.child_first = (int)(i % 2);
        memcpy(bt.base + i * ats, &at, sizeof at);
      }
    }
  }
  snap(&bf); snap(&ba); snap(&bt);
  nev = 0; ncalls = 0; completed = 0; many_slot = 0;
  args_base = ba.base; attrs_base = bt.base; funcs_base = many ? 0 : bf.base;
  int ret;
  if (many)
    ret = myth_create_join_many_ex(use_ids ? (myth_thread_t *)bi.base : 0,
                                   attr_mode ? (myth_thread_attr_t *)bt.base : 0,
                                   fns[fk % NFN], ba.base, use_res ? br.base : 0,
                                   is, ats, as, rs, n);
  else
    ret = myth_create_join_various_ex(use_ids ? (myth_thread_t *)bi.base : 0,
                                      attr_mode ? (myth_thread_attr_t *)bt.base : 0,
                                      (myth_func_t *)bf.base, ba.base, use_res ? br.base : 0,
                                      is, ats, fs, as, rs, n);
  long done = completed;            /* read at return, before anything else runs */
  long nc = ncalls, ne = nev;
  if (ne > MAXEV || nc > MAXCALL) { fprintf(stderr, "bulk_unit: log overflow\n"); exit(3); }
  /* events */
  for (i = 0; i < ne; i++) {
    ev_t * e = &evs[i];
    switch (e->type) {
    case EV_SP: printf("sp:%ld:%ld:%ld ", e->a, e->b, e->c); break;
    case EV_AT: if (e->a < 0) printf("at:- "); else printf("at:%ld ", e->a); break;
    case EV_LF: printf("lf:%ld:%ld:%ld ", e->a, e->b, e->c); break;
    case EV_JN: printf("jn:%ld:%ld:%ld ", e->a, e->b, e->c); break;
    case EV_CL: printf("cl:%ld:%ld ", e->a, e->b); break;
    }
  }
  /* ids: slot i is ok if it holds the id of a thread that ran a call with item i's
     (function, argument); res: the value returned by such a call, no value in two slots */
  printf("| ids=");
  {
    int first = 1;
    long nslots = n > 0 ? (is == 0 ? 1 : n) : 0;
    for (i = 0; use_ids && i < nslots; i++) {
      myth_thread_t v; long c; int ok = 0;
      memcpy(&v, bi.base + i * is, sizeof v);
      for (c = 0; c < nc && !ok; c++) {
        int kexp = many ? fk % NFN : fn_of_slot(fs == 0 ? 0 : i);
        if (is == 0) ok = calls[c].self == v;     /* shared slot: any item's thread */
        else ok = calls[c].self == v && calls[c].k == kexp && calls[c].aoff == (long)(i * as);
      }
      if (ok) { printf("%s%ld", first ? "" : ",", (long)(i * is)); first = 0; }
    }
  }
  printf(" | res=");
  long resdup = 0;
  {
    int first = 1;
    long nslots = n > 0 ? (rs == 0 ? 1 : n) : 0, j;
    for (i = 0; use_res && i < nslots; i++) {
      void * v; long c; int ok = 0;
      memcpy(&v, br.base + i * rs, sizeof v);
      for (c = 0; c < nc && !ok; c++) {
        int kexp = many ? fk % NFN : fn_of_slot(fs == 0 ? 0 : i);
        if (rs == 0) ok = calls[c].ret == v;
        else ok = calls[c].ret == v && calls[c].k == kexp && calls[c].aoff == (long)(i * as);
      }
      if (ok) { printf("%s%ld", first ? "" : ",", (long)(i * rs)); first = 0; }
      for (j = 0; j < i; j++) { void * w; memcpy(&w, br.base + j * rs, sizeof w); if (w == v) resdup++; }
    }
  }
  long bad = guard_bad(&bi, use_ids ? n : 0, is, sizeof(myth_thread_t))
           + guard_bad(&br, use_res ? n : 0, rs, sizeof(void *)) + resdup;
  int ro = unchanged(&bf) && unchanged(&ba) && unchanged(&bt);
  printf(" | guard=%ld ro=%d ret=%d done=%ld\n", bad, ro, ret, done);
  fflush(stdout);
  freebuf(&bf); freebuf(&ba); freebuf(&bi); freebuf(&br); freebuf(&bt);
}

int main(int argc, char ** argv) {
  char line[512];
  struct rlimit rl = { 6000000000UL, 6000000000UL };
  setrlimit(RLIMIT_AS, &rl);
  if (argc > 1 && !strcmp(argv[1], "info")) {
    printf("attr=%zu tid=%zu func=%zu\n", sizeof(myth_thread_attr_t), sizeof(myth_thread_t), sizeof(myth_func_t));
    return 0;
  }
  yield_mode = argc > 1 && !strcmp(argv[1], "yield");
  g_myth_verif_hook = hook;
  myth_init();
  while (fgets(line, sizeof line, stdin)) {
    char op[16], kind[16];
    long n, ids, res, attrs, fs, as, is, rs, ats, fk;
    int k = sscanf(line, "%15s %15s %ld %ld %ld %ld %ld %ld %ld %ld %ld %ld", op, kind, &n, &ids, &res,
                   &attrs, &fs, &as, &is, &rs, &ats, &fk);
    if (k < 1) continue;
    if (k == 12 && !strcmp(op, "bulk") && n >= 0 && n < MAXCALL)
      do_bulk(kind, n, (int)ids, (int)res, (int)attrs, fs, as, is, rs, ats, (int)fk);
    else { printf("bad-op\n"); fflush(stdout); }
  }
  myth_fini();
  return 0;
}
