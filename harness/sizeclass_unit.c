/* size-class macros of src/myth_misc_func.h behind the line protocol of `drv_alloc sizeclass` */
#include <stdio.h>
#include <string.h>
#include "myth_config.h"
#include "myth_misc.h"
#include "myth_misc_func.h"
int main(void) {
  char line[128];
  while (fgets(line, sizeof line, stdin)) {
    char op[16]; unsigned long a = 0, b = 0;
    int n = sscanf(line, "%15s %lu %lu", op, &a, &b);
    if (n == 2 && !strcmp(op, "idx")) {
      size_t s = a; int i = MYTH_MALLOC_SIZE_TO_INDEX(s);
      printf("%d %lu\n", i, (unsigned long)MYTH_MALLOC_INDEX_TO_RSIZE(i));
    } else if (n == 3 && !strcmp(op, "stack")) {
      size_t sz = b; sz += 0xFFF; sz &= ~(size_t)0xFFF;          /* as get_new_myth_thread_struct_stack */
      printf("%lu %lu\n", (unsigned long)sz, (unsigned long)(sz - sizeof(void *) * 2));
    } else printf("bad-op\n");
  }
  return 0;
}
