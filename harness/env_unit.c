/* Unit harness for the configuration readers (C15): runs the REAL code of
 *   src/myth_init_func.h   (myth_globalattr_default_*),
 *   src/myth_bind_worker.c (myth_parse_cpu_list and helpers, myth_get_available_cpus,
 *                           myth_get_worker_cpu) -- #included, so the statics are visible,
 *   src/myth_worker_func.h (myth_env_get_first_busy, myth_random)
 * on the line protocol of `drv_env`.  Strings travel hex-encoded: `-` = variable unset,
 * `=<hex>` = set to these bytes (`=` alone is the empty string).
 *   consts
 *   atoi S | stk S | guard S | nw S S_OLD NCPU | bind S | cf S
 *   cpulist CAP S            -> ret=<r> written=<csv|-> diag=<kind>:<ok_pos>:<i>|none
 *   avail NCPU MASKCSV S     -> sched_setaffinity(MASK) ; myth_get_available_cpus()
 *   wcpu RANK                -> myth_get_worker_cpu(RANK) after the last `avail`
 *   victim N RANK SEED RAW   -> myth_env_get_first_busy with g_attr.n_workers = N; RAW must be rand_r(SEED)
 * stderr of the library is captured per call (open_memstream) and reduced to the diagnostic.
 */
#include <stdio.h>
#include <stdlib.h>
#include <string.h>
#include <limits.h>
#include <sched.h>
#include <unistd.h>
#include "myth_config.h"
#include "config.h"
#include "myth_worker.h"
#include "myth_worker_func.h"
#include "myth_bind_worker.c"

#define SENT (INT_MIN + 12345)

static char * errbuf; static size_t errlen; static FILE * saved_err;
static void cap_begin(void) { saved_err = stderr; errbuf = 0; errlen = 0; stderr = open_memstream(&errbuf, &errlen); }
static void cap_end(void) { fclose(stderr); stderr = saved_err; }

/* decode S into a malloc'ed exact-size buffer (ASan then sees any read past the NUL);
   returns 0 for `-` (unset) */
static char * dec(const char * s) {
  if (s[0] != '=') return 0;
  size_t n = strlen(s + 1) / 2;
  char * b = malloc(n + 1);
  for (size_t i = 0; i < n; i++) { unsigned v; sscanf(s + 1 + 2 * i, "%2x", &v); b[i] = (char)v; }
  b[n] = 0;
  return b;
}
static void put(const char * name, const char * s) {
  char * v = dec(s);
  if (v) { setenv(name, v, 1); free(v); } else unsetenv(name);
}

/* reduce what parse_error printed to  <kind>:<ok_pos>:<i>  (the caret line is the last line:
   2+ok_pos blanks, i-ok_pos carets) */
static void diag(char * out, size_t sz, const char * txt, size_t len) {
  const char * key = "myth_parse_cpu_list: invalid resource list: ";
  if (len == 0 || strncmp(txt, key, strlen(key))) { snprintf(out, sz, "none"); return; }
  const char * m = txt + strlen(key);
  const char * kind = !strncmp(m, "expected a digit", 16) ? "digit" : !strncmp(m, "junk at the end", 15) ? "junk"
                    : !strncmp(m, "myth_parse_cpu_list: too many numbers", 37) ? "toomany" : "other";
  /* last line */
  size_t e = len; if (e && txt[e - 1] == '\n') e--;
  size_t b = e; while (b > 0 && txt[b - 1] != '\n') b--;
  size_t sp = 0, ca = 0, i = b;
  while (i < e && txt[i] == ' ') { sp++; i++; }
  while (i < e && txt[i] == '^') { ca++; i++; }
  if (i != e || sp < 2) { snprintf(out, sz, "%s:?:?", kind); return; }
  snprintf(out, sz, "%s:%zu:%zu", kind, sp - 2, sp - 2 + ca);
}

int main(void) {
  static char line[1 << 20];
  static char a1[1 << 19], a2[1 << 19], a3[1 << 19], a4[64];
  cpu_set_t orig; sched_getaffinity(0, sizeof orig, &orig);
  while (fgets(line, sizeof line, stdin)) {
    char op[32]; a1[0] = a2[0] = a3[0] = a4[0] = 0;
    int n = sscanf(line, "%31s %s %s %s %63s", op, a1, a2, a3, a4);
    if (n < 1) continue;
    if (!strcmp(op, "consts")) {
      printf("consts defStack=%d defGuard=%d defBind=%d defChildFirst=%d nMaxCpus=%d uninit=%d initializing=%d initialized=%d randMax=%ld\n",
             MYTH_DEF_STACK_SIZE, MYTH_DEF_GUARD_SIZE, MYTH_DEFAULT_BIND_WORKERS, MYTH_CHILD_FIRST, N_MAX_CPUS,
             myth_init_state_uninit, myth_init_state_initializing, myth_init_state_initialized, (long)RAND_MAX);
    } else if (!strcmp(op, "atoi") && n == 2) {
      char * v = dec(a1);
      printf("atoi %d\n", v ? atoi(v) : 0); free(v);
    } else if (!strcmp(op, "stk") && n == 2) {
      put(ENV_MYTH_DEF_STKSIZE, a1);
      printf("stk %zu\n", myth_globalattr_default_stacksize());
    } else if (!strcmp(op, "guard") && n == 2) {
      put(ENV_MYTH_DEF_GUARDSIZE, a1);
      printf("guard %zu\n", myth_globalattr_default_guardsize());
    } else if (!strcmp(op, "nw") && n == 4) {
      put(ENV_MYTH_NUM_WORKERS, a1); put(ENV_MYTH_WORKER_NUM, a2);
      if (atol(a3) != sysconf(_SC_NPROCESSORS_ONLN)) { printf("bad-ncpu %ld\n", sysconf(_SC_NPROCESSORS_ONLN)); fflush(stdout); continue; }
      cap_begin(); size_t r = myth_globalattr_default_num_workers(); cap_end();
      printf("nw %d warn=%d\n", (int)r, errlen > 0 && strstr(errbuf, "superceded") ? 1 : 0); free(errbuf);
    } else if (!strcmp(op, "bind") && n == 2) {
      put(ENV_MYTH_BIND_WORKERS, a1);
      int bw = (int)myth_globalattr_default_bind_workers();
      printf("bind %d on=%d\n", bw, bw > 0);
    } else if (!strcmp(op, "cf") && n == 2) {
      put(ENV_MYTH_CHILD_FIRST, a1);
      printf("cf %d\n", (int)myth_globalattr_default_child_first());
    } else if (!strcmp(op, "cpulist") && n == 3) {
      long cap = atol(a1);
      put("MYTH_CPU_LIST", a2);
      int * arr = malloc(sizeof(int) * (cap > 0 ? cap : 1));   /* exact size: ASan guards the end */
      for (long i = 0; i < cap; i++) arr[i] = SENT;
      cap_begin(); int r = myth_parse_cpu_list("MYTH_CPU_LIST", cap > 0 ? arr : arr + 1, (int)cap); cap_end();
      long w = cap; while (w > 0 && arr[w - 1] == SENT) w--;
      char d[64]; diag(d, sizeof d, errbuf ? errbuf : "", errlen);
      printf("ret=%d written=", r);
      if (w == 0) printf("-");
      for (long i = 0; i < w; i++) printf("%s%d", i ? "," : "", arr[i]);
      printf(" diag=%s\n", d);
      free(arr); free(errbuf);
    } else if (!strcmp(op, "avail") && n == 4) {
      if (atol(a1) != sysconf(_SC_NPROCESSORS_ONLN)) { printf("bad-ncpu %ld\n", sysconf(_SC_NPROCESSORS_ONLN)); fflush(stdout); continue; }
      cpu_set_t m; CPU_ZERO(&m);
      for (char * t = strtok(a2, ","); t; t = strtok(0, ",")) CPU_SET(atoi(t), &m);
      if (sched_setaffinity(0, sizeof m, &m)) { printf("bad-mask\n"); fflush(stdout); continue; }
      put("MYTH_CPU_LIST", a3);
      cap_begin(); myth_get_available_cpus(); cap_end();
      printf("avail n=%d cpus=", n_available_cpus);
      if (n_available_cpus == 0) printf("-");
      for (int i = 0; i < n_available_cpus; i++) printf("%s%d", i ? "," : "", worker_cpu[i]);
      printf(" malformed=%d nocpus=%d\n", errbuf && strstr(errbuf, "malformed MYTH_CPU_LIST ignored") ? 1 : 0,
             errbuf && strstr(errbuf, "could not get any available CPUs") ? 1 : 0);
      free(errbuf);
      sched_setaffinity(0, sizeof orig, &orig);
    } else if (!strcmp(op, "wcpu") && n == 2) {
      printf("wcpu %d\n", myth_get_worker_cpu(atoi(a1)));
    } else if (!strcmp(op, "victim") && n == 5) {
      int nwk = atoi(a1), rank = atoi(a2); unsigned seed = (unsigned)strtoul(a3, 0, 10);
      if (seed == 0) seed = 1;           /* 0 means "not seeded" to myth_random */
      int saved = g_attr.n_workers; myth_running_env_t saved_envs = g_envs;
      g_attr.n_workers = nwk;
      g_envs = calloc(nwk > 0 ? nwk : 1, sizeof(myth_running_env));   /* exact size: ASan guards the index */
      if (rank >= 0 && rank < nwk) g_envs[rank].rank = rank;
      unsigned cp = seed; int raw = rand_r(&cp);
      if (raw != atoi(a4)) { printf("bad-raw %d\n", raw); fflush(stdout); continue; }
      g_myth_random_temp = seed;
      myth_running_env_t v = myth_env_get_first_busy(&g_envs[rank]);
      if (v) { volatile int touch = v->rank; (void)touch; }            /* dereference: out of range = ASan report */
      printf("victim raw=%d idx=%ld\n", raw, v ? (long)(v - g_envs) : -1L);
      free(g_envs); g_envs = saved_envs; g_attr.n_workers = saved;
    } else {
      printf("bad-op\n");
    }
    fflush(stdout);
  }
  return 0;
}
