/* Unit harness for the ARITHMETIC of the join counter (sub-part of C07): drives the real
 * calc_bits / myth_join_counter_init_body / _dec_body / _wait_body of src/myth_sync_func.h
 * (included, not copied) on single state words, no concurrency.
 *   jcbits N   -> "bits mask"                     as init stores them (n_threads_bits, state_mask)
 *   jcdec N S  -> "excess" | "S' decs waiters wake"  state preset to S, one real dec; fields of the new
 *                 word read with the counter's own mask / width.  A last decrement with waiters > 0
 *                 would spin for sleepers that do not exist here: in that one case the CAS and the
 *                 wake count are evaluated with the counter's fields instead of calling the body.
 *   jcwait N S -> "done" (real wait returned 0) | "S' decs waiters" (the word it would CAS in)
 * Domain: 0 <= N < 2^62 (beyond that calc_bits shifts into the sign bit), 0 <= S < 2^63.
 */
#include <stdio.h>
#include <stdlib.h>
#include <string.h>

#include "myth/myth.h"
#include "myth_config.h"
#include "myth_init.h"
#include "myth_misc.h"
#include "myth_sched.h"
#include "myth_init_func.h"
#include "myth_sync_func.h"
#include "myth_sched_func.h"

int main(void) {
  char line[256];
  myth_init();   /* the last decrement asks for the current worker even when it wakes nobody */
  while (fgets(line, sizeof line, stdin)) {
    char op[16]; long n = 0, s = 0;
    int k = sscanf(line, "%15s %ld %ld", op, &n, &s);
    myth_join_counter_t jc[1];
    if (k < 2) continue;
    if (n < 0 || n >= (1L << 62) || s < 0) { printf("out-of-domain\n"); fflush(stdout); continue; }
    if (!strcmp(op, "jcbits") && k == 2) {
      int b = calc_bits(n);
      myth_join_counter_init_body(jc, 0, n);
      if (jc->n_threads_bits != b || jc->state != 0 || jc->n_threads != n) printf("init-mismatch\n");
      else printf("%d %ld\n", jc->n_threads_bits, jc->state_mask);
    } else if (!strcmp(op, "jcdec") && k == 3) {
      long d, w;
      myth_join_counter_init_body(jc, 0, n);
      jc->state = s;
      d = s & jc->state_mask; w = s >> jc->n_threads_bits;
      if (d >= jc->n_threads) printf("excess\n");          /* the body would exit(1) */
      else {
        long wake = 0;
        if (d == jc->n_threads - 1 && w > 0) { jc->state = s + 1; wake = w; }
        else { myth_join_counter_dec_body(jc); wake = 0; }
        printf("%ld %ld %ld %ld\n", (long)jc->state, (long)(jc->state & jc->state_mask),
               (long)(jc->state >> jc->n_threads_bits), wake);
      }
    } else if (!strcmp(op, "jcwait") && k == 3) {
      myth_join_counter_init_body(jc, 0, n);
      jc->state = s;
      if ((s & jc->state_mask) == jc->n_threads) {
        int r = myth_join_counter_wait_body(jc);
        if (r == 0 && jc->state == s) printf("done\n"); else printf("wait-mismatch\n");
      } else {
        long ns = s + (1L << jc->n_threads_bits);
        printf("%ld %ld %ld\n", ns, ns & jc->state_mask, ns >> jc->n_threads_bits);
      }
    } else printf("bad-op\n");
    fflush(stdout);
  }
  myth_fini();
  return 0;
}
