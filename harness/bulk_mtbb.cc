/* Harness for C17 (TBB-like layer), compiled against src/mtbb/*.h of the current sources and
 * linked with the library.  Reads op lines on stdin (the line protocol of `drv_bulk`):
 *
 *   pfor FORM FIRST LAST STEP GRAIN     FORM: idx2 idx2l idx2u idx3 idx3l idx3u grain range
 *        -> c:I … | k:LO:HI … | returned
 *   tg SIZE… [w SIZE…]*                 one wait() per `w` and one at the end
 *        -> per round: occ=… blk=C:OFF,… ch=SIZE:USED,… ord=… joined=… after=OCC;CHUNKS   (" || " between rounds)
 *
 *   bulk_mtbb info        prints the task sizes (sizeof(callable_task<Fn<PAD>>)) the generator may use
 *   bulk_mtbb [yield]     bodies / tasks call myth_yield() (several workers)
 *
 * A call that does not return shows as a missing output line (the check runs this program
 * under a timeout and an address-space limit).
 */
#include <stdio.h>
#include <stdlib.h>
#include <string.h>
#include <vector>
#include <sys/resource.h>
#include <myth/myth.h>
#include <mtbb/parallel_for.h>

static int yield_mode;

/* ---------------- parallel_for ---------------- */

#define MAXLOG (1 << 16)
struct rec { long a, b; };
static rec calls_log[MAXLOG], chunks_log[MAXLOG];
static volatile long ncalls, nchunks;

static void maybe_yield(long x) {
  if (yield_mode) { int y = (int)(((x % 3) + 3) % 3); for (int j = 0; j < y; j++) myth_yield(); }
}

template<typename Index>
struct IdxBody {
  void operator()(Index i) const {
    long k = __sync_fetch_and_add(&ncalls, 1);
    if (k < MAXLOG) calls_log[k].a = (long)i;
    maybe_yield((long)i);
  }
};
struct ChunkBody {
  void operator()(int lo, int hi) const {
    long k = __sync_fetch_and_add(&nchunks, 1);
    if (k < MAXLOG) { chunks_log[k].a = lo; chunks_log[k].b = hi; }
    maybe_yield(lo);
  }
};
/* the Range concept as far as mtbb::parallel_for uses it (tbb::blocked_range semantics) */
struct Range {
  int b, e, g;
  Range(int b_, int e_, int g_) : b(b_), e(e_), g(g_) {}
  int begin() const { return b; }
  int end() const { return e; }
  int grainsize() const { return g; }
  bool empty() const { return !(b < e); }
  bool is_divisible() const { return g < e - b; }
};
struct RangeBody {
  void operator()(const Range & r) const {
    long k = __sync_fetch_and_add(&nchunks, 1);
    if (k < MAXLOG) { chunks_log[k].a = r.begin(); chunks_log[k].b = r.end(); }
    maybe_yield(r.begin());
  }
};

static void do_pfor(const char * form, long first, long last, long step, long grain) {
  ncalls = 0; nchunks = 0;
  if (!strcmp(form, "idx2")) mtbb::parallel_for((int)first, (int)last, IdxBody<int>());
  else if (!strcmp(form, "idx2l")) mtbb::parallel_for(first, last, IdxBody<long>());
  else if (!strcmp(form, "idx2u")) mtbb::parallel_for((unsigned long)first, (unsigned long)last, IdxBody<unsigned long>());
  else if (!strcmp(form, "idx3")) mtbb::parallel_for((int)first, (int)last, (int)step, IdxBody<int>());
  else if (!strcmp(form, "idx3l")) mtbb::parallel_for(first, last, step, IdxBody<long>());
  else if (!strcmp(form, "idx3u")) mtbb::parallel_for((unsigned long)first, (unsigned long)last, (unsigned long)step, IdxBody<unsigned long>());
  else if (!strcmp(form, "grain")) mtbb::parallel_for((int)first, (int)last, (int)step, (int)grain, ChunkBody());
  else if (!strcmp(form, "range")) { Range r((int)first, (int)last, (int)grain); RangeBody b; mtbb::parallel_for(r, b); }
  else { printf("bad-op\n"); fflush(stdout); return; }
  long nc = ncalls, nk = nchunks;
  if (nc > MAXLOG || nk > MAXLOG) { fprintf(stderr, "bulk_mtbb: log overflow\n"); exit(3); }
  for (long i = 0; i < nc; i++) printf("c:%ld ", calls_log[i].a);
  printf("| ");
  for (long i = 0; i < nk; i++) printf("k:%ld:%ld ", chunks_log[i].a, chunks_log[i].b);
  printf("| returned\n");
  fflush(stdout);
}

/* ---------------- task_group ---------------- */

struct FnBase { volatile long * done; int id; };
static volatile long tg_ran[4096];     /* how often the task with a given id ran in the current round */
template<int PAD>
struct Fn : FnBase {
  char pad[PAD];
  void operator()() const {
    maybe_yield(id);
    /* the closure is read again AFTER the task may have been suspended (it must be the task's own copy) */
    int me = id;
    if (me >= 0 && me < 4096) __sync_fetch_and_add(&tg_ran[me], 1);
    __sync_fetch_and_add(done, 1);
  }
};
static const int pads[] = { 16, 8, 24, 72, 150, 200, 216, 224, 232, 300, 1000 };
#define NPADS ((int)(sizeof(pads) / sizeof(pads[0])))
template<int PAD> static size_t tsize() { return sizeof(mtbb::callable_task<Fn<PAD> >); }
static size_t task_sizes[NPADS];
static void init_sizes() {
  task_sizes[0] = tsize<16>(); task_sizes[1] = tsize<8>(); task_sizes[2] = tsize<24>();
  task_sizes[3] = tsize<72>(); task_sizes[4] = tsize<150>(); task_sizes[5] = tsize<200>();
  task_sizes[6] = tsize<216>(); task_sizes[7] = tsize<224>(); task_sizes[8] = tsize<232>();
  task_sizes[9] = tsize<300>(); task_sizes[10] = tsize<1000>();
}
template<int PAD> static void run1(mtbb::task_group & tg, volatile long * done, int id) {
  Fn<PAD> f; f.done = done; f.id = id; memset(f.pad, 0, sizeof f.pad);
  tg.run(f);
}
static int run_size(mtbb::task_group & tg, size_t sz, volatile long * done, int id) {
  int c = -1;
  for (int i = 0; i < NPADS; i++) if (task_sizes[i] == sz) { c = i; break; }
  switch (c) {
  case 0: run1<16>(tg, done, id); break;     case 1: run1<8>(tg, done, id); break;
  case 2: run1<24>(tg, done, id); break;    case 3: run1<72>(tg, done, id); break;
  case 4: run1<150>(tg, done, id); break;   case 5: run1<200>(tg, done, id); break;
  case 6: run1<216>(tg, done, id); break;   case 7: run1<224>(tg, done, id); break;
  case 8: run1<232>(tg, done, id); break;   case 9: run1<300>(tg, done, id); break;
  case 10: run1<1000>(tg, done, id); break;
  default: return -1;
  }
  return 0;
}

static void dump_lists(mtbb::task_group & tg, bool with_tasks) {
  int first = 1;
  if (with_tasks) printf("occ=");
  for (mtbb::task_list_node * p = tg.tasks.head; p; p = p->next) { printf("%s%d", first ? "" : ",", p->n); first = 0; }
  if (with_tasks) {
    printf(" blk="); first = 1;
    for (mtbb::task_list_node * p = tg.tasks.head; p; p = p->next)
      for (int i = 0; i < p->n; i++) {
        char * t = (char *)p->a[i];
        int ci = 0, found = 0;
        for (mtbb::task_memory_chunk * ch = tg.mem.head; ch; ch = ch->next, ci++)
          if (t >= ch->a && t < ch->end) { printf("%s%d:%ld", first ? "" : ",", ci, (long)(t - ch->a)); found = 1; break; }
        if (!found) printf("%s?:?", first ? "" : ",");
        first = 0;
      }
    printf(" ch=");
  } else printf(";");
  first = 1;
  for (mtbb::task_memory_chunk * ch = tg.mem.head; ch; ch = ch->next) {
    printf("%s%ld:%ld", first ? "" : ",", (long)(ch->end - ch->a), (long)(ch->p - ch->a)); first = 0;
  }
  if (with_tasks) {
    printf(" ord="); first = 1;
    for (mtbb::task_list_node * p = tg.tasks.head; p; p = p->next)
      for (int i = 0; i < p->n; i++) {
        FnBase * fb = (FnBase *)((char *)p->a[i] + sizeof(mtbb::task));
        printf("%s%d", first ? "" : ",", fb->id); first = 0;
      }
  }
}

static void do_tg(char * rest) {
  mtbb::task_group tg;
  std::vector<std::vector<size_t> > rounds(1);
  for (char * tok = strtok(rest, " \t\n"); tok; tok = strtok(0, " \t\n")) {
    if (!strcmp(tok, "w")) rounds.push_back(std::vector<size_t>());
    else rounds.back().push_back((size_t)atol(tok));
  }
  for (size_t r = 0; r < rounds.size(); r++) {
    volatile long done = 0;
    for (size_t i = 0; i < rounds[r].size() && i < 4096; i++) tg_ran[i] = 0;
    for (size_t i = 0; i < rounds[r].size(); i++)
      if (run_size(tg, rounds[r][i], &done, (int)i)) { printf("bad-size\n"); fflush(stdout); return; }
    if (r) printf(" || ");
    dump_lists(tg, true);
    tg.wait();
    long d = done;                        /* tasks completed when wait returned */
    for (size_t i = 0; i < rounds[r].size() && i < 4096; i++)
      if (tg_ran[i] != 1) { printf(" RAN id=%zu times=%ld", i, tg_ran[i]); break; }
    printf(" joined=%ld after=", d);
    dump_lists(tg, false);
  }
  printf("\n");
  fflush(stdout);
}

int main(int argc, char ** argv) {
  static char line[1 << 16];
  struct rlimit rl = { 3000000000UL, 3000000000UL };
  setrlimit(RLIMIT_AS, &rl);
  init_sizes();
  if (argc > 1 && !strcmp(argv[1], "info")) {
    printf("cap=%d chunk=%d task=%zu sizes", TASK_GROUP_INIT_SZ, TASK_MEMORY_CHUNK_SZ, sizeof(mtbb::task));
    for (int i = 0; i < NPADS; i++) printf(" %zu", task_sizes[i]);
    printf("\n");
    return 0;
  }
  yield_mode = argc > 1 && !strcmp(argv[1], "yield");
  myth_init();
  while (fgets(line, sizeof line, stdin)) {
    char op[16], form[16];
    long first, last, step, grain;
    if (sscanf(line, "%15s", op) < 1) continue;
    if (!strcmp(op, "pfor") && sscanf(line, "%*s %15s %ld %ld %ld %ld", form, &first, &last, &step, &grain) == 5)
      do_pfor(form, first, last, step, grain);
    else if (!strcmp(op, "tg")) do_tg(line + 2);
    else { printf("bad-op\n"); fflush(stdout); }
  }
  myth_fini();
  return 0;
}
