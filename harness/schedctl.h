/* Token-passing schedule controller for whole-library runs (DESIGN 3.3).
 * Every worker (an OS thread) calls g_myth_verif_hook at each MYTH_VERIF_POINT / _SPIN; the
 * controller lets exactly one participant run at a time and decides at every point who runs next.
 * #include this file once in a test program (it defines everything static).
 */
#ifndef SCHEDCTL_H_
#define SCHEDCTL_H_
#include <pthread.h>
#include <stdarg.h>
#include <stdint.h>
#include <stdio.h>
#include <stdlib.h>
#include <string.h>
#include <time.h>
#include <unistd.h>
#include "myth/myth.h"
#include "myth_verif.h"

extern __thread int g_worker_rank;              /* library internals used read-only / for seeding */
extern __thread unsigned int g_myth_random_temp;
extern void (*g_myth_verif_hook)(int, const void *, const void *, long);

#define CTL_MAXP 16
#define CTL_MAXOBJ 256
#define CTL_MAXTH 4096

static pthread_mutex_t ctl_mu = PTHREAD_MUTEX_INITIALIZER;
static pthread_cond_t ctl_cv = PTHREAD_COND_INITIALIZER;
static volatile int ctl_active;
static int ctl_np;                 /* participants */
static int ctl_holder;
static int ctl_parked[CTL_MAXP];   /* waiting for the token at a point */
static int ctl_spinning[CTL_MAXP]; /* its last point was a SPIN */
static int ctl_seen[CTL_MAXP];
static int ctl_cbfor[CTL_MAXP];    /* inside a blocking callback on behalf of thread tag, else -1 */
static uint64_t ctl_rng;
static long ctl_spin_run;          /* consecutive spin-only events */
static long ctl_spin_limit = 60000;
static int ctl_deadlock;
static int ctl_cur_neutral;
static long ctl_demote_at = -1; static int ctl_demoted = -1; static long ctl_demote_spins;  /* delay one participant at one event */
static int ctl_switch_den = 4;     /* at a non-spin point the holder is preempted with prob 1/den */
static long ctl_events, ctl_switches, ctl_preempt;
static FILE * ctl_log;
/* replay / record of choices */
static int * ctl_replay; static long ctl_replay_n, ctl_replay_i;
static FILE * ctl_sched_out;
/* naming */
static const void * ctl_objp[CTL_MAXOBJ]; static int ctl_objid[CTL_MAXOBJ]; static size_t ctl_objsz[CTL_MAXOBJ]; static int ctl_nobj;
static const void * ctl_thp[CTL_MAXTH]; static int ctl_thtag[CTL_MAXTH]; static int ctl_nth;
static const void * ctl_anon[CTL_MAXTH]; static int ctl_nanon;
static time_t ctl_t0;

static uint64_t ctl_rand(void) {
  ctl_rng += 0x9E3779B97F4A7C15ULL;
  uint64_t z = ctl_rng;
  z = (z ^ (z >> 30)) * 0xBF58476D1CE4E5B9ULL;
  z = (z ^ (z >> 27)) * 0x94D049BB133111EBULL;
  return z ^ (z >> 31);
}

static const char * ctl_ptname(int pt) {
  switch (pt < 0 ? -pt : pt) {
#define N(x) case MYTH_VP_##x: return #x;
    N(SCHED_IDLE) N(SPINLOCK) N(BLOCK_CB_BEGIN) N(BLOCK_CB_ENQ) N(BLOCK_CB_END) N(BLOCK_BEGIN) N(WAKE_DEQ) N(WAKE_PUSH)
    N(MX_LOCK_READ) N(MX_LOCK_CAS1) N(MX_LOCK_CAS2) N(MX_TRY_READ) N(MX_TRY_CAS) N(MX_UNLOCK_READ)
    N(MX_UNLOCK_CAS2) N(MX_UNLOCK_CAS0) N(MX_CLEAR_BIT) N(COND_WAIT) N(COND_SIGNAL) N(COND_BCAST)
    N(BAR_READ) N(BAR_CAS) N(BAR_RESET) N(BAR_RETURN) N(JC_WAIT_READ) N(JC_WAIT_CAS) N(JC_DEC_READ)
    N(JC_DEC_CAS) N(JC_WAIT_RETURN) N(UC_SIG_READ) N(UC_SIG_CLEAR) N(ONCE_READ) N(ONCE_CAS) N(ONCE_DONE)
    N(ONCE_WAIT_READ) N(JOIN_LOCKED) N(JOIN_CB_SET) N(JOIN_SPIN) N(JOIN_REAP) N(FIN_BEGIN) N(FIN_LOCKED)
    N(FIN_STACK_FREE) N(FIN_PUBLISH) N(DETACH_FAST) N(DETACH_LOCKED) N(TRYJOIN_LOCKED) N(CREATE_BEGIN)
    N(CREATE_1) N(CREATE_PUSHED) N(DESC_GET) N(DESC_FREE) N(STACK_GET) N(STACK_FREE) N(YIELD_CB)
    N(SQ_ENQ) N(SQ_DEQ) N(STK_PUSH_READ) N(STK_PUSH_CAS) N(STK_POP_READ) N(STK_POP_CAS) N(CTX_CALLBACK) N(FE_WAL_BEGIN) N(FE_WAL_CHECK) N(FE_MARK) N(TLS_NODE_ALLOC) N(TLS_NODE_FREE) N(TLS_KEY_CAS_ALLOC) N(TLS_KEY_CAS_DEALLOC)
#undef N
  default: return "PT?";
  }
}

static void ctl_fmt(char * buf, size_t n, const void * p) {
  if (!p) { snprintf(buf, n, "-"); return; }
  for (int i = ctl_nth - 1; i >= 0; i--) if (ctl_thp[i] == p) { snprintf(buf, n, "t%d", ctl_thtag[i]); return; }
  for (int i = 0; i < ctl_nobj; i++) {
    /* an object and the sleep queue/stack embedded in it share a name: match inside [p, p+size) */
    if ((const char *)p >= (const char *)ctl_objp[i] && (const char *)p < (const char *)ctl_objp[i] + ctl_objsz[i]) {
      snprintf(buf, n, "o%d", ctl_objid[i]); return;
    }
  }
  for (int i = 0; i < ctl_nanon; i++) if (ctl_anon[i] == p) { snprintf(buf, n, "x%d", i); return; }
  if (ctl_nanon < CTL_MAXTH) ctl_anon[ctl_nanon++] = p;
  snprintf(buf, n, "x%d", ctl_nanon - 1);
}

/* must hold ctl_mu */
static int ctl_tag_of(const void * th) {
  for (int i = ctl_nth - 1; i >= 0; i--) if (ctl_thp[i] == th) return ctl_thtag[i];
  return -1;
}

static void ctl_name_obj_sz(const void * p, int id, const char * kind, size_t sz) {
  pthread_mutex_lock(&ctl_mu);
  if (ctl_nobj < CTL_MAXOBJ) { ctl_objp[ctl_nobj] = p; ctl_objid[ctl_nobj] = id; ctl_objsz[ctl_nobj] = sz; ctl_nobj++; }
  if (ctl_log && kind) fprintf(ctl_log, "obj o%d %s\n", id, kind);
  pthread_mutex_unlock(&ctl_mu);
}
#define ctl_name_obj_kind(p, id, kind) ctl_name_obj_sz((p), (id), (kind), sizeof(*(p)))
#define ctl_name_obj(p, id) ctl_name_obj_sz((p), (id), 0, sizeof(*(p)))

/* register the calling user-level thread under a tag */
static void ctl_name_thread(int tag) {
  const void * me = (const void *)myth_self();
  pthread_mutex_lock(&ctl_mu);
  for (int i = 0; i < ctl_nth; i++) if (ctl_thp[i] == me) { ctl_thp[i] = 0; }
  if (ctl_nth < CTL_MAXTH) { ctl_thp[ctl_nth] = me; ctl_thtag[ctl_nth] = tag; ctl_nth++; }
  pthread_mutex_unlock(&ctl_mu);
}
static void ctl_name_thread_ptr(const void * th, int tag) {
  pthread_mutex_lock(&ctl_mu);
  for (int i = 0; i < ctl_nth; i++) if (ctl_thp[i] == th) { ctl_thp[i] = 0; }
  if (ctl_nth < CTL_MAXTH) { ctl_thp[ctl_nth] = th; ctl_thtag[ctl_nth] = tag; ctl_nth++; }
  pthread_mutex_unlock(&ctl_mu);
}

/* program-level event written into the trace (and a schedule point) */
static void ctl_note(const char * fmt, ...);

static int ctl_pick(int self, int spin) {
  /* replay */
  if (ctl_replay) {
    if (ctl_replay_i < ctl_replay_n) {
      int c = ctl_replay[ctl_replay_i++];
      if (c >= 0 && c < ctl_np && (c == self || ctl_parked[c])) return c;
    }
    /* past the end of the recording (or an impossible choice): run whoever can progress */
  }
  int nonspin[CTL_MAXP], nn = 0, all[CTL_MAXP], na = 0;
  /* delay strategy: the participant that performed event number CTL_DEMOTE_AT is not scheduled
     again until everybody else has only been spinning for a while */
  static long ctl_demote_start;
  if (ctl_demote_at >= 0 && ctl_events == ctl_demote_at && !spin && ctl_np > 1) { ctl_demoted = self; ctl_demote_spins = 0; ctl_demote_start = ctl_events; }
  /* the delay ends at the latest after 3000 events: programs poll with bounded loops (a yield is an event, not a spin),
     an unbounded delay would turn their bound into a false failure */
  if (ctl_demoted >= 0 && ctl_events - ctl_demote_start > 3000) ctl_demoted = -1;
  if (ctl_demoted >= 0) {
    if (spin) { if (++ctl_demote_spins > 40 * ctl_np) ctl_demoted = -1; } else if (self != ctl_demoted && !ctl_cur_neutral) ctl_demote_spins = 0;
  }
  for (int i = 0; i < ctl_np; i++) {
    if (i == ctl_demoted) continue;
    if (i == self) { all[na++] = i; if (!spin) nonspin[nn++] = i; }
    else if (ctl_parked[i]) { all[na++] = i; if (!ctl_spinning[i]) nonspin[nn++] = i; }
  }
  if (na == 0) { ctl_demoted = -1; return self; }
  if (self == ctl_demoted) { if (nn > 0) return nonspin[ctl_rand() % nn]; return all[ctl_rand() % na]; }
  if (!spin && !ctl_replay) {
    /* holder at a real point: keep going unless preempted */
    if (ctl_rand() % ctl_switch_den != 0) return self;
    ctl_preempt++;
  }
  if (nn > 0 && (ctl_rand() & 3) != 0) return nonspin[ctl_rand() % nn];
  return all[ctl_rand() % na];
}

static void ctl_hook(int pt, const void * a, const void * b, long v) {
  if (!ctl_active) return;
  int p = g_worker_rank;
  if (p < 0 || p >= ctl_np) return;
  int spin = pt < 0;
  pthread_mutex_lock(&ctl_mu);
  if (!ctl_active) { pthread_mutex_unlock(&ctl_mu); return; }
  if (!ctl_seen[p]) { ctl_seen[p] = 1; g_myth_random_temp = (unsigned)(ctl_rng >> 8) + 7919u * (p + 1); }
  if (p != ctl_holder) {
    /* first contact of a non-holder: park until handed the token */
    ctl_parked[p] = 1; ctl_spinning[p] = spin;
    pthread_cond_broadcast(&ctl_cv);
    while (ctl_active && ctl_holder != p) pthread_cond_wait(&ctl_cv, &ctl_mu);
    ctl_parked[p] = 0;
    if (!ctl_active) { pthread_mutex_unlock(&ctl_mu); return; }
  }
  /* p holds the token: log the event */
  ctl_events++;
  int abspt = spin ? -pt : pt;
  if (abspt == MYTH_VP_BLOCK_CB_BEGIN) ctl_cbfor[p] = ctl_tag_of(b);
  if (!spin || abspt != MYTH_VP_SCHED_IDLE || getenv("CTL_LOG_IDLE")) {
    if (ctl_log) {
      char sa[24], sb[24], sc[24];
      int cur = ctl_cbfor[p];
      if (cur < 0) cur = ctl_tag_of((const void *)myth_self());
      ctl_fmt(sa, sizeof sa, a); ctl_fmt(sb, sizeof sb, b);
      snprintf(sc, sizeof sc, "%d", cur);
      if (abspt >= MYTH_VP_DESC_GET && abspt <= MYTH_VP_STACK_FREE)   /* ledger events carry the raw block address */
        fprintf(ctl_log, "ev %d %s %s%s %s %s %ld @%lx\n", p, cur < 0 ? "-" : sc, spin ? "SPIN_" : "", ctl_ptname(pt), sa, sb, v, (unsigned long)b);
      else
        fprintf(ctl_log, "ev %d %s %s%s %s %s %ld\n", p, cur < 0 ? "-" : sc, spin ? "SPIN_" : "", ctl_ptname(pt), sa, sb, v);
    }
  }
  /* a released descriptor loses its thread name (the block will be recycled) */
  if (abspt == MYTH_VP_DESC_FREE) for (int i = 0; i < ctl_nth; i++) if (ctl_thp[i] == b) ctl_thp[i] = 0;
  if (abspt == MYTH_VP_BLOCK_CB_END) ctl_cbfor[p] = -1;
  /* run-queue internals (spin-lock CAS, fences, work-stealing queue accesses, ids 200..299) are neutral
     for the deadlock verdict: an idle worker's failed steal attempts are not progress */
  int neutral = (abspt >= 200 && abspt < 300) || (abspt == MYTH_VP_SQ_DEQ && b == 0);   /* a dequeue that found the queue empty is not progress either */
  if (neutral) {
    /* nothing */
  } else if (spin) {
    ctl_spin_run++;
    if (ctl_spin_run > ctl_spin_limit && !ctl_deadlock) {
      ctl_deadlock = 1;
      if (ctl_log) { fprintf(ctl_log, "verdict deadlock\n"); fflush(ctl_log); }
      if (ctl_sched_out) fflush(ctl_sched_out);
      printf("VERDICT deadlock: every participant only spins (%ld consecutive spin events)\n", ctl_spin_run);
      fflush(stdout);
      _exit(3);
    }
  } else {
    ctl_spin_run = 0;
  }
  if (time(0) - ctl_t0 > 100) { printf("HARNESS-ERROR watchdog\n"); fflush(stdout); _exit(2); }
  ctl_cur_neutral = neutral;
  int next = ctl_pick(p, spin);
  if (ctl_sched_out) fprintf(ctl_sched_out, "%d\n", next);
  if (next != p) {
    ctl_switches++;
    ctl_parked[p] = 1; ctl_spinning[p] = spin;
    ctl_holder = next;
    pthread_cond_broadcast(&ctl_cv);
    while (ctl_active && ctl_holder != p) pthread_cond_wait(&ctl_cv, &ctl_mu);
    ctl_parked[p] = 0;
  }
  pthread_mutex_unlock(&ctl_mu);
}

static void ctl_note(const char * fmt, ...) {
  char buf[200];
  va_list ap; va_start(ap, fmt); vsnprintf(buf, sizeof buf, fmt, ap); va_end(ap);
  if (ctl_active && ctl_log) {
    pthread_mutex_lock(&ctl_mu);
    int cur = ctl_tag_of((const void *)myth_self());
    fprintf(ctl_log, "note %d %d %s\n", g_worker_rank, cur, buf);
    pthread_mutex_unlock(&ctl_mu);
  }
}

/* a busy-wait iteration in a test program: lets the controller run somebody else */
static void ctl_spin(void) { ctl_hook(-MYTH_VP_SCHED_IDLE, 0, 0, 0); }

/* configure from the environment: CTL_SEED, CTL_LOG, CTL_REPLAY, CTL_SCHED_OUT, CTL_SWITCH_DEN */
static void ctl_init(int nworkers) {
  const char * s;
  ctl_np = nworkers;
  ctl_rng = (s = getenv("CTL_SEED")) ? strtoull(s, 0, 10) : 1;
  ctl_rng = ctl_rng * 0x9E3779B97F4A7C15ULL + 12345;
  if ((s = getenv("CTL_SWITCH_DEN"))) ctl_switch_den = atoi(s) > 0 ? atoi(s) : 4;
  if ((s = getenv("CTL_SPIN_LIMIT"))) ctl_spin_limit = atol(s);
  if ((s = getenv("CTL_DEMOTE_AT"))) ctl_demote_at = atol(s);
  if ((s = getenv("CTL_LOG"))) { ctl_log = fopen(s, "w"); if (ctl_log) setvbuf(ctl_log, 0, _IOLBF, 0); }       /* line buffered: survives a crash */
  if ((s = getenv("CTL_SCHED_OUT"))) { ctl_sched_out = fopen(s, "w"); if (ctl_sched_out) setvbuf(ctl_sched_out, 0, _IOLBF, 0); }
  if ((s = getenv("CTL_REPLAY"))) {
    FILE * f = fopen(s, "r");
    if (f) {
      long cap = 1 << 16; ctl_replay = malloc(cap * sizeof(int)); int c;
      while (fscanf(f, "%d", &c) == 1) {
        if (ctl_replay_n == cap) { cap *= 2; ctl_replay = realloc(ctl_replay, cap * sizeof(int)); }
        ctl_replay[ctl_replay_n++] = c;
      }
      fclose(f);
    }
  }
  for (int i = 0; i < CTL_MAXP; i++) ctl_cbfor[i] = -1;
  ctl_t0 = time(0);
  g_myth_verif_hook = ctl_hook;
}

/* called by the main thread after myth_init: becomes the holder and waits for the others to park */
static void ctl_activate(void) {
  pthread_mutex_lock(&ctl_mu);
  ctl_holder = g_worker_rank;
  ctl_seen[ctl_holder] = 1;
  g_myth_random_temp = (unsigned)(ctl_rng >> 8) + 7919u * (ctl_holder + 1);
  ctl_active = 1;
  for (;;) {
    int n = 0;
    for (int i = 0; i < ctl_np; i++) if (i != ctl_holder && ctl_parked[i]) n++;
    if (n == ctl_np - 1) break;
    struct timespec ts; clock_gettime(CLOCK_REALTIME, &ts); ts.tv_sec += 20;
    if (pthread_cond_timedwait(&ctl_cv, &ctl_mu, &ts)) { printf("HARNESS-ERROR activate timeout\n"); _exit(2); }
  }
  pthread_mutex_unlock(&ctl_mu);
}

static void ctl_deactivate(void) {
  pthread_mutex_lock(&ctl_mu);
  ctl_active = 0;
  pthread_cond_broadcast(&ctl_cv);
  if (ctl_log) { fprintf(ctl_log, "end events=%ld switches=%ld preemptions=%ld\n", ctl_events, ctl_switches, ctl_preempt); fflush(ctl_log); }
  if (ctl_sched_out) fflush(ctl_sched_out);
  pthread_mutex_unlock(&ctl_mu);
}
#endif
