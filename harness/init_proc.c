/* Process-level harness for C15: one program linked with the library built from /repo's
 * current sources, running an init / fini / re-init history given on stdin, one op per line:
 *   ncpu N                 check sysconf(_SC_NPROCESSORS_ONLN) == N               -> ok
 *   setenv NAME S          S hex-encoded as in env_unit.c (`-` unset, `=<hex>`)     -> ok
 *   init_ex N [STK]        myth_globalattr_init(&a); set n_workers (and stack size); myth_init_ex(&a)
 *   init                   myth_init()
 *   implicit               first use without init: myth_get_num_workers()
 *                          -> init rc=<r> nw=<n> stk=<default stack size> really=<#real inits> threads=<OS threads>
 *   setglobal N            myth_globalattr_set_n_workers(NULL, N)                    -> ok
 *   ranks T                T user threads + main report myth_get_worker_num() / myth_get_num_workers()
 *                          -> ranks n=<T+1> inrange=<0|1> nwsame=<0|1> nw=<n>
 *   migrate                let the main thread be stolen by another worker           -> migrate done
 *   fini                   myth_fini() -> fini really=<n> threads=<OS threads> stoprank=<rank at the joins | -1>
 * Lines starting with `#` carry run-dependent facts (which ranks, whether the migration happened).
 * `really` is counted by the MYTH_VERIF hook inside myth_init_ex_body_really.
 */
#include <stdio.h>
#include <stdlib.h>
#include <string.h>
#include <dirent.h>
#include <unistd.h>
#include <time.h>
#include <myth/myth.h>
#include "myth_verif.h"

static volatile long n_really, n_stopped, stop_rank = -1, really_nw = -1, enter_rank = -1;
static void hook(int pt, const void * a, const void * b, long v) {
  (void)a; (void)b;
  if (pt == MYTH_VP_INIT_REALLY) { __sync_fetch_and_add(&n_really, 1); really_nw = v; }
  if (pt == MYTH_VP_FINI_STOPPED) { __sync_fetch_and_add(&n_stopped, 1); stop_rank = v; }
  if (pt == MYTH_VP_FINI_WAITED) enter_rank = v;
}

static int os_threads_now(void) {
  int n = 0; DIR * d = opendir("/proc/self/task"); struct dirent * e;
  if (!d) return -1;
  while ((e = readdir(d))) if (e->d_name[0] != '.') n++;
  closedir(d);
  return n;
}
/* pthread_join returns when the thread has exited, a little before the kernel removes its entry
   from /proc/self/task: wait (at most 300 ms) for the count to come down to what is expected */
static int os_threads(int expect) {
  int n = os_threads_now(), i;
  for (i = 0; i < 600 && n > expect; i++) { usleep(500); n = os_threads_now(); }
  return n;
}

static char * dec(const char * s) {
  if (s[0] != '=') return 0;
  size_t n = strlen(s + 1) / 2; char * b = malloc(n + 1);
  for (size_t i = 0; i < n; i++) { unsigned v; sscanf(s + 1 + 2 * i, "%2x", &v); b[i] = (char)v; }
  b[n] = 0; return b;
}

static long elapsed_ns(const struct timespec * t0) {
  struct timespec t1; clock_gettime(CLOCK_MONOTONIC, &t1);
  return (t1.tv_sec - t0->tv_sec) * 1000000000L + (t1.tv_nsec - t0->tv_nsec);
}

typedef struct { int rank, nw; } rep_t;
static void * reporter(void * a) {
  rep_t * r = a;
  struct timespec t0; clock_gettime(CLOCK_MONOTONIC, &t0);
  r->rank = myth_get_worker_num();
  r->nw = myth_get_num_workers();
  while (elapsed_ns(&t0) < 30000L) { }     /* long enough for the creator to be stolen */
  myth_yield();
  return 0;
}

static volatile int spin_flag, spin_done;
static void * spinner(void * a) {
  (void)a;
  /* occupy this worker WITHOUT yielding (at most ~30 ms) so that the creator's continuation, which
     sits in this worker's queue (child first), can only go on by being stolen by another worker */
  struct timespec t0; clock_gettime(CLOCK_MONOTONIC, &t0);
  while (!spin_flag && elapsed_ns(&t0) < 30000000L) { }
  spin_done = 1;
  return 0;
}

static void summary(const char * what, int rc) {
  size_t stk = 0; myth_globalattr_get_stacksize(0, &stk);
  printf("%s rc=%d nw=%d stk=%zu really=%ld threads=%d\n", what, rc, myth_get_num_workers(), stk, n_really, os_threads(myth_get_num_workers()));
}

int main(void) {
  static char line[1 << 16], a1[1 << 15], a2[1 << 15];
  g_myth_verif_hook = hook;
  while (fgets(line, sizeof line, stdin)) {
    char op[32]; a1[0] = a2[0] = 0;
    int n = sscanf(line, "%31s %s %s", op, a1, a2);
    if (n < 1) continue;
    if (!strcmp(op, "ncpu")) {
      printf(atol(a1) == sysconf(_SC_NPROCESSORS_ONLN) ? "ok\n" : "bad-ncpu\n");
    } else if (!strcmp(op, "setenv") && n == 3) {
      char * v = dec(a2);
      if (v) { setenv(a1, v, 1); free(v); } else unsetenv(a1);
      printf("ok\n");
    } else if (!strcmp(op, "init_ex") && n >= 2) {
      myth_globalattr_t a; myth_globalattr_init(&a);
      myth_globalattr_set_n_workers(&a, (size_t)atol(a1));
      if (n == 3) myth_globalattr_set_stacksize(&a, (size_t)atol(a2));
      summary("init", myth_init_ex(&a));
    } else if (!strcmp(op, "init")) {
      summary("init", myth_init());
    } else if (!strcmp(op, "implicit")) {
      (void)myth_get_num_workers();
      summary("init", 1);
    } else if (!strcmp(op, "setglobal") && n == 2) {
      myth_globalattr_set_n_workers(0, (size_t)atol(a1));
      printf("ok\n");
    } else if (!strcmp(op, "ranks") && n == 2) {
      int t = atoi(a1), i, inrange = 1, nwsame = 1, nw = myth_get_num_workers(), maxr = -1;
      rep_t * r = calloc(t + 1, sizeof *r); myth_thread_t * th = calloc(t + 1, sizeof *th);
      char seen[4096]; memset(seen, 0, sizeof seen); int distinct = 0;
      for (i = 0; i < t; i++) th[i] = myth_create(reporter, &r[i]);
      for (i = 0; i < t; i++) myth_join(th[i], 0);
      r[t].rank = myth_get_worker_num(); r[t].nw = myth_get_num_workers();
      for (i = 0; i <= t; i++) {
        if (r[i].rank < 0 || r[i].rank >= nw) inrange = 0;
        if (r[i].nw != nw) nwsame = 0;
        if (r[i].rank > maxr) maxr = r[i].rank;
        if (r[i].rank >= 0 && r[i].rank < 4096 && !seen[r[i].rank]) { seen[r[i].rank] = 1; distinct++; }
      }
      printf("# ranks distinct=%d max=%d main=%d\n", distinct, maxr, r[t].rank);
      printf("ranks n=%d inrange=%d nwsame=%d nw=%d\n", t + 1, inrange, nwsame, nw);
      free(r); free(th);
    } else if (!strcmp(op, "migrate")) {
      int tries = 0, nw = myth_get_num_workers();
      while (nw > 1 && myth_get_worker_num() == 0 && tries < 20) {
        spin_flag = 0; spin_done = 0;
        myth_thread_t th = myth_create(spinner, 0);   /* child first: our continuation is stealable */
        spin_flag = 1;
        struct timespec t0; clock_gettime(CLOCK_MONOTONIC, &t0);
        while (!spin_done && elapsed_ns(&t0) < 100000000L) { }   /* let the child finish: the join then does not block */
        while (elapsed_ns(&t0) < 200000L) { }
        myth_join(th, 0);
        tries++;
      }
      printf("# migrated rank=%d tries=%d\n", myth_get_worker_num(), tries);
      printf("migrate done\n");
    } else if (!strcmp(op, "fini")) {
      long before = n_stopped; stop_rank = -1;
      enter_rank = -1;
      myth_fini();
      printf("# fini entered on rank=%ld\n", enter_rank);
      printf("fini really=%ld threads=%d stoprank=%ld\n", n_really, os_threads(1), n_stopped > before ? stop_rank : -1L);
    } else {
      printf("bad-op\n");
    }
    fflush(stdout);
  }
  return 0;
}
