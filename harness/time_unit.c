/* Harness for C20 (sleeping and timed waits), linked with the library built from the repo's
 * CURRENT sources with -DMYTH_VERIF.  Reads one operation per stdin line, runs the REAL code
 * (public entry points myth_nanosleep / myth_usleep / myth_sleep / myth_mutex_timedlock /
 * myth_timedjoin; the static inline helpers myth_timespec_add / myth_timespec_gt through the real
 * header) with a SCRIPTED clock (hook g_myth_verif_clock) and prints one line per operation.
 *
 *   add AS AN BS BN                         -> "S N"
 *   gt  AS AN BS BN                         -> "0" | "1"
 *   nanosleep S N bg=K | r0s r0n r1s r1n …  -> "ret=R trace=CCYC… | prog=P"
 *   usleep U bg=K | …     sleep S bg=K | …     (same output)
 *   psleep S N bg=K step=NS                 -> "ret=R live=1 | prog=P yields=Y"   (clock advances only
 *                                              when the background threads run)
 *   timedlock S N hold=SCRIPT | readings    -> "ret=R trace=bCbYCg…"  SCRIPT over {h,r,-}
 *   timedjoin S N k=K | readings            -> "ret=R trace=… val=ok|bad|-"
 *   wall nanosleep S N | wall usleep U | wall sleep S | wall timedlock MS | wall timedjoin MS
 *                                           -> "ret=R early=0|1"
 * trace letters: C clock read, Y yield entered, b attempt failed (busy), g attempt succeeded.
 * Clock stream: the scripted readings, then FAR = (INT64_MAX, 999999999) for ever; an operation that
 * asks for reading number len+3 (0-based) is abandoned (longjmp) and reported as "ret=none trace=…".
 * hold=SCRIPT: a second thread does one step per scheduling turn (h = trylock if it does not hold the
 * mutex, r = unlock if it does, - = nothing; step 0 before the call); k=K: the target yields K times
 * and returns.  bg=K: K extra threads that only count their turns (prog) and yield.
 * An operation that does not finish within 30 s of real time ends the process: "HANG", exit code 3.
 */
#include <stdio.h>
#include <stdlib.h>
#include <string.h>
#include <errno.h>
#include <setjmp.h>
#include <time.h>
#include <unistd.h>
#include <limits.h>

#include "myth/myth.h"
#include "myth_config.h"
#include "myth_init.h"
#include "myth_misc.h"
#include "myth_sched.h"
#include "myth_init_func.h"
#include "myth_sync_func.h"
#include "myth_sched_func.h"

#define MAXR 4096
static struct timespec script[MAXR];
static int script_len, script_pos;
static char trace[3 * MAXR + 64];
static int trace_len;
static volatile int in_op;
static myth_thread_t tester;
static jmp_buf abandon;
static volatile long prog;            /* progress of the background threads */
static volatile int bg_stop;
static long yields;
/* progress-driven clock */
static int pmode; static long pstep; static long pbase_prog;

static void ev(char c) {
  if (trace_len < (int)sizeof(trace) - 1) trace[trace_len++] = c;
  trace[trace_len] = 0;
}

static int vclock(struct timespec * ts) {
  if (!in_op || myth_self() != tester) return clock_gettime(CLOCK_REALTIME, ts);
  if (pmode) {
    long p = prog - pbase_prog;
    long ns = p * pstep;
    ts->tv_sec = 1000 + ns / 1000000000; ts->tv_nsec = ns % 1000000000;
    return 0;
  }
  if (script_pos >= script_len + 3) { in_op = 0; longjmp(abandon, 1); }
  ev('C');
  if (script_pos < script_len) *ts = script[script_pos];
  else { ts->tv_sec = LONG_MAX; ts->tv_nsec = 999999999; }
  script_pos++;
  return 0;
}

static void hook(int pt, const void * a, const void * b, long v) {
  (void)b;
  if (!in_op) return;
  if (pt == MYTH_VP_YIELD) {
    if (a == (const void *)tester) { ev('Y'); yields++; }
  } else if (pt == MYTH_VP_TIMEDLOCK_TRY || pt == MYTH_VP_TIMEDJOIN_TRY) {
    if (myth_self() == tester) ev(v == 0 ? 'g' : 'b');
  }
}

/* watchdog: a plain OS thread (the library is built without pthread wrapping); an operation that
   does not finish within 30 s of real time ends the process with "HANG" and exit code 3 */
#include <pthread.h>
static volatile long op_serial;       /* incremented at the start and the end of every operation */
static void * watchdog(void * arg) {
  long last = -1; int same = 0;
  (void)arg;
  for (;;) {
    struct timespec t = { 0, 250000000 };
    long cur;
    while (nanosleep(&t, &t) != 0) { }
    cur = op_serial;
    if ((cur & 1) && cur == last) same++; else same = 0;
    last = cur;
    if (same >= 120) {
      static const char msg[] = "HANG\n";
      if (write(1, msg, sizeof msg - 1)) {}
      _exit(3);
    }
  }
  return 0;
}

/* ---- background threads ---- */
static void * bg_main(void * arg) {
  (void)arg;
  while (!bg_stop) {
    __sync_fetch_and_add(&prog, 1);
    myth_yield();
  }
  return 0;
}

/* ---- holder of the mutex ---- */
static myth_mutex_t mtx[1];
static const char * hold_script;
static volatile int hold_stop;
static void * holder_main(void * arg) {
  int held = 0; const char * p = hold_script;
  (void)arg;
  while (!hold_stop) {
    char c = *p ? *p++ : '-';
    if (c == 'h' && !held) { if (myth_mutex_trylock(mtx) == 0) held = 1; }
    else if (c == 'r' && held) { myth_mutex_unlock(mtx); held = 0; }
    myth_yield();
  }
  if (held) myth_mutex_unlock(mtx);
  return 0;
}

/* ---- join target ---- */
static void * target_main(void * arg) {
  long k = (long)arg, i;
  for (i = 0; i < k; i++) myth_yield();
  return (void *)(k + 4242);
}
static volatile int never_stop;
static void * never_main(void * arg) {
  (void)arg;
  while (!never_stop) myth_yield();
  return 0;
}

static int parse_readings(char * s) {
  /* s: "r0s r0n r1s r1n ..." */
  char * save = 0, * t;
  script_len = 0; script_pos = 0;
  if (!s) return 0;
  for (t = strtok_r(s, " \t\n", &save); t; t = strtok_r(0, " \t\n", &save)) {
    char * u = strtok_r(0, " \t\n", &save);
    if (!u || script_len >= MAXR) return -1;
    script[script_len].tv_sec = strtol(t, 0, 10);
    script[script_len].tv_nsec = strtol(u, 0, 10);
    script_len++;
  }
  return 0;
}

static const char * optval(char ** w, int n, const char * key) {
  int i; size_t kl = strlen(key);
  for (i = 0; i < n; i++) if (!strncmp(w[i], key, kl) && w[i][kl] == '=') return w[i] + kl + 1;
  return 0;
}

static void begin_op(void) { trace_len = 0; trace[0] = 0; yields = 0; pmode = 0; tester = myth_self(); }

static double elapsed_ns(const struct timespec * a, const struct timespec * b) {
  return ((double)b->tv_sec - (double)a->tv_sec) * 1e9 + ((double)b->tv_nsec - (double)a->tv_nsec);
}

int main(void) {
  static char line[200000];
  g_myth_verif_clock = vclock;
  g_myth_verif_hook = hook;
  { pthread_t wd; pthread_create(&wd, 0, watchdog, 0); }
  myth_init();
  while (fgets(line, sizeof line, stdin)) {
    char * bar = strchr(line, '|');
    char * w[16]; int n = 0; char * save = 0, * t;
    if (bar) *bar++ = 0;
    for (t = strtok_r(line, " \t\n", &save); t && n < 16; t = strtok_r(0, " \t\n", &save)) w[n++] = t;
    if (n == 0) continue;
    op_serial++;      /* odd: an operation is running */
    if ((!strcmp(w[0], "add") || !strcmp(w[0], "gt")) && n == 5) {
      struct timespec a, b, c;
      a.tv_sec = strtol(w[1], 0, 10); a.tv_nsec = strtol(w[2], 0, 10);
      b.tv_sec = strtol(w[3], 0, 10); b.tv_nsec = strtol(w[4], 0, 10);
      if (w[0][0] == 'a') { myth_timespec_add(&a, &b, &c); printf("%ld %ld\n", (long)c.tv_sec, (long)c.tv_nsec); }
      else printf("%d\n", myth_timespec_gt(&a, &b));
    } else if (!strcmp(w[0], "nanosleep") || !strcmp(w[0], "usleep") || !strcmp(w[0], "sleep") || !strcmp(w[0], "psleep")) {
      const char * o = optval(w, n, "bg");
      int nbg = o ? atoi(o) : 0, i; long ret = -1; volatile int abandoned = 0;
      myth_thread_t bgt[16]; long p0;
      if (nbg > 16) nbg = 16;
      if (parse_readings(bar)) { printf("bad-op\n"); fflush(stdout); op_serial++; continue; }
      bg_stop = 0;
      for (i = 0; i < nbg; i++) bgt[i] = myth_create(bg_main, 0);
      begin_op();
      p0 = prog;
      if (!strcmp(w[0], "psleep")) { o = optval(w, n, "step"); pmode = 1; pstep = o ? strtol(o, 0, 10) : 1000; pbase_prog = prog; }
      if (setjmp(abandon) == 0) {
        in_op = 1;
        if (w[0][0] == 'n' || w[0][0] == 'p') {
          struct timespec req; req.tv_sec = strtol(w[1], 0, 10); req.tv_nsec = strtol(w[2], 0, 10);
          ret = myth_nanosleep(&req, 0);
        } else if (w[0][0] == 'u') ret = myth_usleep((useconds_t)strtoul(w[1], 0, 10));
        else ret = (long)myth_sleep((unsigned int)strtoul(w[1], 0, 10));
        in_op = 0;
      } else abandoned = 1;
      {
        long dp = prog - p0;
        bg_stop = 1;
        for (i = 0; i < nbg; i++) myth_join(bgt[i], 0);
        if (pmode) printf("ret=%ld live=1 | prog=%ld yields=%ld\n", ret, dp, yields);
        else if (abandoned) printf("ret=none trace=%s | prog=%ld yields=%ld\n", trace, dp, yields);
        else printf("ret=%ld trace=%s | prog=%ld yields=%ld\n", ret, trace, dp, yields);
      }
    } else if (!strcmp(w[0], "timedlock") && n >= 3) {
      struct timespec abs; long ret = -1; volatile int abandoned = 0; myth_thread_t h;
      const char * o = optval(w, n, "hold");
      abs.tv_sec = strtol(w[1], 0, 10); abs.tv_nsec = strtol(w[2], 0, 10);
      if (parse_readings(bar)) { printf("bad-op\n"); fflush(stdout); op_serial++; continue; }
      myth_mutex_init(mtx, 0);
      hold_script = o ? o : ""; hold_stop = 0;
      h = myth_create(holder_main, 0);   /* the child runs first: action 0 is done before we go on */
      begin_op();
      if (setjmp(abandon) == 0) {
        in_op = 1;
        ret = myth_mutex_timedlock(mtx, &abs);
        in_op = 0;
      } else abandoned = 1;
      if (!abandoned && ret == 0) myth_mutex_unlock(mtx);
      hold_stop = 1;
      myth_join(h, 0);
      myth_mutex_destroy(mtx);
      if (abandoned) printf("ret=none trace=%s\n", trace); else printf("ret=%ld trace=%s\n", ret, trace);
    } else if (!strcmp(w[0], "timedjoin") && n >= 3) {
      struct timespec abs; long ret = -1; volatile int abandoned = 0; myth_thread_t th;
      const char * o = optval(w, n, "k"); long k = o ? strtol(o, 0, 10) : 0; void * val = 0;
      abs.tv_sec = strtol(w[1], 0, 10); abs.tv_nsec = strtol(w[2], 0, 10);
      if (parse_readings(bar)) { printf("bad-op\n"); fflush(stdout); op_serial++; continue; }
      th = myth_create(target_main, (void *)k);
      begin_op();
      if (setjmp(abandon) == 0) {
        in_op = 1;
        ret = myth_timedjoin(th, &val, &abs);
        in_op = 0;
      } else abandoned = 1;
      if (abandoned || ret != 0) { void * v2 = 0; myth_join(th, &v2); }
      if (abandoned) printf("ret=none trace=%s val=-\n", trace);
      else printf("ret=%ld trace=%s val=%s\n", ret, trace, ret != 0 ? "-" : (val == (void *)(k + 4242) ? "ok" : "bad"));
    } else if (!strcmp(w[0], "wall") && n >= 3) {
      /* real clock, generous: only "not early" is judged */
      struct timespec r0, m0, r1, m1; long ret = -1; double need = 0, er, em;
      in_op = 0;
      g_myth_verif_clock = 0;      /* the library's own clock reading, not the hook's (restored after the operation) */
      { /* start at a random phase of the clock's tick (back-to-back sleeps would lock to it and hide a coarse clock) */
        static unsigned long ph = 12345; ph = ph * 6364136223846793005UL + 1442695040888963407UL;
        struct timespec b0, b1; long wait_ns = (long)((ph >> 33) % 4500000UL);
        clock_gettime(CLOCK_MONOTONIC, &b0);
        do clock_gettime(CLOCK_MONOTONIC, &b1); while ((b1.tv_sec - b0.tv_sec) * 1000000000L + (b1.tv_nsec - b0.tv_nsec) < wait_ns);
      }
      if (!strcmp(w[1], "nanosleep") && n >= 4) {
        struct timespec req; req.tv_sec = strtol(w[2], 0, 10); req.tv_nsec = strtol(w[3], 0, 10);
        need = (double)req.tv_sec * 1e9 + (double)req.tv_nsec;
        clock_gettime(CLOCK_REALTIME, &r0); clock_gettime(CLOCK_MONOTONIC, &m0);
        ret = myth_nanosleep(&req, 0);
      } else if (!strcmp(w[1], "usleep")) {
        unsigned long u = strtoul(w[2], 0, 10); need = (double)u * 1e3;
        clock_gettime(CLOCK_REALTIME, &r0); clock_gettime(CLOCK_MONOTONIC, &m0);
        ret = myth_usleep((useconds_t)u);
      } else if (!strcmp(w[1], "sleep")) {
        unsigned long s = strtoul(w[2], 0, 10); need = (double)s * 1e9;
        clock_gettime(CLOCK_REALTIME, &r0); clock_gettime(CLOCK_MONOTONIC, &m0);
        ret = (long)myth_sleep((unsigned int)s);
      } else if (!strcmp(w[1], "timedlock") || !strcmp(w[1], "timedjoin")) {
        long ms = strtol(w[2], 0, 10); struct timespec abs; myth_thread_t h;
        need = (double)ms * 1e6;
        if (w[1][5] == 'l') {
          myth_mutex_init(mtx, 0); hold_script = "h"; hold_stop = 0;
          h = myth_create(holder_main, 0);
        } else { never_stop = 0; h = myth_create(never_main, 0); }
        clock_gettime(CLOCK_REALTIME, &r0); clock_gettime(CLOCK_MONOTONIC, &m0);
        abs = r0; abs.tv_nsec += (ms % 1000) * 1000000; abs.tv_sec += ms / 1000 + abs.tv_nsec / 1000000000; abs.tv_nsec %= 1000000000;
        if (w[1][5] == 'l') ret = myth_mutex_timedlock(mtx, &abs); else ret = myth_timedjoin(h, 0, &abs);
        clock_gettime(CLOCK_REALTIME, &r1); clock_gettime(CLOCK_MONOTONIC, &m1);
        if (w[1][5] == 'l') { if (ret == 0) myth_mutex_unlock(mtx); hold_stop = 1; myth_join(h, 0); myth_mutex_destroy(mtx); }
        else { never_stop = 1; if (ret != 0) myth_join(h, 0); }
        er = elapsed_ns(&r0, &r1); em = elapsed_ns(&m0, &m1);
        /* a timeout is early only if both clocks say the deadline had not been reached */
        g_myth_verif_clock = vclock;
        printf("ret=%ld early=%d\n", ret, (ret != 0 && er < need && em < need) ? 1 : 0);
        fflush(stdout);
        op_serial++;
        continue;
      } else { g_myth_verif_clock = vclock; printf("bad-op\n"); fflush(stdout); op_serial++; continue; }
      clock_gettime(CLOCK_REALTIME, &r1); clock_gettime(CLOCK_MONOTONIC, &m1);
      g_myth_verif_clock = vclock;
      er = elapsed_ns(&r0, &r1); em = elapsed_ns(&m0, &m1);
      printf("ret=%ld early=%d\n", ret, (ret == 0 && er < need && em < need) ? 1 : 0);
    } else {
      printf("bad-op\n");
    }
    fflush(stdout);
    op_serial++;
  }
  myth_fini();
  return 0;
}
