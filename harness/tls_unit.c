/* Unit harness for src/myth_tls_func.h (C10, C11): reads the line protocol of `mythdrv tls`
 * on stdin and drives the REAL inline functions on private trees and a private, heap-allocated
 * key allocator (so that ASan sees reads outside the 1024-cell table).
 *   set T K V | get T K | create D | delete K | exit T
 */
#include <stdio.h>
#include <stdlib.h>
#include <string.h>
#include "myth_tls_func.h"

#define MAXT 64
#define NDT 8
static myth_tls_tree_t * trees[MAXT];
static myth_tls_key_allocator_t * ka;
static long frees;
static char calls[1 << 20];
static size_t calls_len;

static void logcall(int id, void * v) {
  calls_len += snprintf(calls + calls_len, sizeof(calls) - calls_len, " c%d:%lu", id, (unsigned long)v);
}
#define DT(i) static void dt##i(void * v) { logcall(i, v); }
DT(0) DT(1) DT(2) DT(3) DT(4) DT(5) DT(6) DT(7)
static myth_tls_destructor_fun_t dts[NDT] = { dt0, dt1, dt2, dt3, dt4, dt5, dt6, dt7 };

static void hook(int pt, const void * a, const void * b, long v) {
  (void)a; (void)b; (void)v;
  if (pt == MYTH_VP_TLS_NODE_FREE) frees++;
}
void (*g_myth_verif_hook_local)(int, const void *, const void *, long) = hook;

static myth_tls_tree_t * tree(int t) {
  if (!trees[t]) {
    trees[t] = malloc(sizeof(myth_tls_tree_t));
    memset(trees[t], 0xAA, sizeof(myth_tls_tree_t));
    myth_tls_tree_init(trees[t]);
  }
  return trees[t];
}

int main(void) {
  char line[256];
  g_myth_verif_hook = hook;
  ka = malloc(sizeof(myth_tls_key_allocator_t));
  memset(ka, 0, sizeof(*ka));
  myth_tls_key_allocator_init(ka);
  while (fgets(line, sizeof line, stdin)) {
    char op[16]; long a = 0, b = 0, c = 0;
    int n = sscanf(line, "%15s %ld %ld %ld", op, &a, &b, &c);
    if (n < 1) continue;
    if (!strcmp(op, "set") && n == 4 && a >= 0 && a < MAXT) {
      printf("%d\n", myth_tls_tree_set(tree(a), (int)b, (void *)c));
    } else if (!strcmp(op, "get") && n == 3 && a >= 0 && a < MAXT) {
      printf("%lu\n", (unsigned long)myth_tls_tree_get(tree(a), (int)b));
    } else if (!strcmp(op, "create") && n == 2) {
      printf("%d\n", myth_tls_key_allocator_alloc(ka, a < 0 ? 0 : dts[a % NDT]));
    } else if (!strcmp(op, "delete") && n == 2) {
      myth_tls_destructor_fun_t f = myth_tls_key_allocator_dealloc(ka, (int)a);
      printf("%d\n", f == (myth_tls_destructor_fun_t)-1 ? EINVAL : 0);
    } else if (!strcmp(op, "reinit") && n == 1) {
      /* what a myth_init after a myth_fini does: the same (static) table is initialised again, in place */
      myth_tls_key_allocator_init(ka);
      printf("0\n");
    } else if (!strcmp(op, "exit") && n == 2 && a >= 0 && a < MAXT) {
      frees = 0; calls_len = 0; calls[0] = 0;
      myth_tls_tree_fini(tree(a), ka);
      printf("calls%s frees %ld\n", calls, frees);
      free(trees[a]); trees[a] = 0;
    } else {
      printf("bad-op\n");
    }
    fflush(stdout);
  }
  return 0;
}
