/* Harness for the DAG Recorder (C18, C19).
 *
 * Compiled by check/props/dag_common.py from $VERIF_REPO/src/profiler: this file #includes the
 * REAL dr_dump.c (so that the static dr_make_pi_dag / dr_pi_dag_* functions are reachable without
 * any hook in the repository), which in turn includes dag_recorder_impl.h -> dag_recorder.h ->
 * dag_recorder_inl.h (the real instrumentation functions, as static functions of this unit);
 * it is linked against the other profiler objects (dag_recorder.c chronological.c gen_stat.c
 * gen_dot.c gen_gpl.c gen_text.c read_dag.c options.c interpolate_counters.c papi_counters.c).
 *
 * One process = one recorded execution.  Input (stdin), one line:
 *   run SEED NWORKERS SCHED WMODE NFILES UMIN CMAX CMAXCOUNT NCT PRUNE  S_UMIN S_CMAX S_CMAXCOUNT  PREFIX  PROG...
 * PROG is a well-nested program (task ::= item* E ; item ::= O | S item* W | s item* W | C task):
 *   O other interval; S explicit dr_begin_section; s section opened implicitly by its first
 *   create / wait; C create (followed by the tokens of the created task, up to its E); W wait; E end.
 * The program is executed by a SERIAL SIMULATOR of a multi-worker execution: every task is a
 * resumable activity, one step = "resume (dr_start_task / dr_return_from_*) on a chosen worker,
 * run to the next dr_enter_* / dr_end_task"; the scheduler chooses any ready task (SCHED) and any
 * worker (WMODE).  Time stamps are the recorder's own rdtsc values.  Every interval is captured
 * through dr_options.hooks when it ends.
 *
 * Output (stdout):
 *   hdr  start_clock nworkers
 *   cap  <captured tree, preorder>          (see print_cap)
 *   root <root info>
 *   mem/file/shr/shrfile: the position independent DAG in memory, re-read from PREFIX.dag,
 *        after dr_copy_pi_dag (the dag2any --shrink path) and the shrunk DAG re-read from PREFIX_s.dag
 *   replay <tag> <counters of dr_pi_dag_chronological_traverse>
 * PREFIX.stat and PREFIX_s.stat are written by the recorder itself (dr_dump / dr_gen_basic_stat).
 */
#define DAG_RECORDER 2
#include "dr_dump.c"

#include <stdint.h>

/* ---------------- PRNG (splitmix64, same stream discipline as check/common.py) ------------- */
static uint64_t rng_s;
static uint64_t rnd(void) {
  uint64_t z = (rng_s += 0x9E3779B97F4A7C15ULL);
  z = (z ^ (z >> 30)) * 0xBF58476D1CE4E5B9ULL;
  z = (z ^ (z >> 27)) * 0x94D049BB133111EBULL;
  return z ^ (z >> 31);
}
static long below(long n) { return n > 0 ? (long)(rnd() % (uint64_t)n) : 0; }

/* ---------------- program AST -------------------------------------------------------------- */
typedef struct ast {
  char tok;                   /* T O S s C W E */
  struct ast * first, * last, * next, * parent;
  struct ast * child_task;    /* for C */
  /* capture (filled by the hooks) */
  int captured;
  dr_dag_node_info info;
  const char * sfile, * efile;
} ast;

#define MAXTOK 40000
static ast pool[MAXTOK];
static int npool;
static char * toks[MAXTOK];
static int ntoks, tpos;

static ast * mk(char tok, ast * parent) {
  ast * a = &pool[npool++];
  memset(a, 0, sizeof(*a));
  a->tok = tok; a->parent = parent;
  if (parent) {
    if (parent->last) parent->last->next = a; else parent->first = a;
    parent->last = a;
  }
  return a;
}

static void die(const char * msg) { fprintf(stderr, "dag_unit: %s\n", msg); exit(3); }

static ast * parse_task(ast * parent_create);
static void parse_items(ast * g, char closer) {
  for (;;) {
    if (tpos >= ntoks) die("program ends inside a group");
    char c = toks[tpos++][0];
    if (c == closer) { mk(c, g); return; }
    switch (c) {
    case 'O': mk('O', g); break;
    case 'S': case 's': {
      ast * s = mk(c, g); parse_items(s, 'W');
      if (c == 's' && (g->tok != 'T' || (s->first->tok != 'C' && s->first->tok != 'W')))
        die("an implicit section must be at task level and start with a create or be a bare wait");
      break;
    }
    case 'C': {
      if (g->tok == 'T') die("create directly in a task (no open section)");
      ast * cr = mk('C', g);
      if (tpos >= ntoks || toks[tpos++][0] != 'T') die("C must be followed by T");
      cr->child_task = parse_task(cr); break;
    }
    default: die("bad token");
    }
  }
}
static ast * parse_task(ast * parent_create) {
  ast * t = &pool[npool++];
  memset(t, 0, sizeof(*t));
  t->tok = 'T'; t->parent = parent_create;
  parse_items(t, 'E');
  return t;
}

/* ---------------- source positions ---------------------------------------------------------- */
static int nfiles;
static char ** fnames;          /* nfiles distinct names, each in several distinct copies */
#define NCOPIES 3
static const char * pick_file(void) {
  long f = below(nfiles), c = below(NCOPIES);
  return fnames[f * NCOPIES + c];
}
static int pick_line(void) { return 1 + (int)below(500); }

/* ---------------- hooks ---------------------------------------------------------------------- */
static ast * cur_ast;           /* the AST interval the running task is about to end */
static int hook_calls[9];
static int capture(dr_dag_node * n) {
  if (!cur_ast) die("hook without a current interval");
  cur_ast->captured++;
  cur_ast->info = n->info;
  cur_ast->sfile = n->info.start.pos.file;
  cur_ast->efile = n->info.end.pos.file;
  return 0;
}
static int h_start_task(dr_dag_node * n) { (void)n; hook_calls[0]++; return 0; }
static int h_begin_section(dr_dag_node * n) { (void)n; hook_calls[1]++; return 0; }
static int h_enter_create(dr_dag_node * n) { hook_calls[2]++; return capture(n); }
static int h_ret_create(dr_dag_node * n) { (void)n; hook_calls[3]++; return 0; }
static int h_enter_wait(dr_dag_node * n) { hook_calls[4]++; return capture(n); }
static int h_ret_wait(dr_dag_node * n) { (void)n; hook_calls[5]++; return 0; }
static int h_enter_other(dr_dag_node * n) { hook_calls[6]++; return capture(n); }
static int h_ret_other(dr_dag_node * n) { (void)n; hook_calls[7]++; return 0; }
static int h_end_task(dr_dag_node * n) { hook_calls[8]++; return capture(n); }

/* ---------------- the serial simulator ------------------------------------------------------ */
typedef struct act {            /* a task activation */
  ast * task;                   /* its AST */
  ast * pc;                     /* next item to execute (NULL: at the closer of `grp`) */
  ast * grp;                    /* innermost open group (task or section) */
  dr_dag_node * handle;         /* what dr_enter_* returned */
  dr_dag_node * create_node;    /* for a not yet started task: the parent's create node */
  ast * pending;                /* the interval we are suspended in (C, W, O) or NULL = not started */
  int started, done;
  int worker;                   /* home worker */
  struct act * parent;
  ast * wait_sect;              /* section whose wait we are blocked in */
  long outstanding;             /* children of wait_sect's activation that have not ended */
  int in_ready;
} act;

static act acts[MAXTOK];
static int nacts;
static act * ready[MAXTOK];
static int nready;
static int nworkers, sched, wmode;
static volatile unsigned long spin_sink;

static void make_ready(act * a) { if (!a->in_ready) { a->in_ready = 1; ready[nready++] = a; } }

static void spin(void) {
  long k = below(4) == 0 ? below(2000) : below(60);
  unsigned long x = spin_sink;
  while (k-- > 0) x = x * 6364136223846793005UL + 1442695040888963407UL;
  spin_sink = x;
}

/* children created in a section and not yet ended */
static long live_children[MAXTOK];      /* indexed by (ast - pool) of the section */

static int choose_worker(act * a) {
  switch (wmode) {
  case 0: return 0;                         /* everything on worker 0 */
  case 1: return a->worker;                 /* a task stays on its home worker */
  case 2: return (int)below(nworkers);      /* every interval anywhere */
  default:                                  /* mostly home, sometimes migrate (steal) */
    if (below(4) == 0) a->worker = (int)below(nworkers);
    return a->worker;
  }
}

/* run one step of activation a on worker w */
static void step(act * a) {
  int w = (!a->started && !a->create_node) ? 0 /* dr_start__ started the root on worker 0 */ : choose_worker(a);
  const char * f = pick_file(); int l = pick_line();
  /* resume */
  if (!a->started) {
    a->started = 1;
    if (a->create_node) dr_start_task__(a->create_node, f, l, w);
    /* the root task was started by dr_start__ */
    a->pc = a->task->first; a->grp = a->task;
  } else {
    ast * p = a->pending;
    switch (p->tok) {
    case 'C': dr_return_from_create_task__(a->handle, f, l, w); break;
    case 'O': dr_return_from_other__(a->handle, f, l, w); break;
    case 'W': dr_return_from_wait_tasks__(a->handle, f, l, w); break;
    default: die("bad pending");
    }
  }
  /* run to the next enter / end */
  for (;;) {
    ast * x = a->pc;
    if (!x) die("fell off a group");
    spin();
    f = pick_file(); l = pick_line();
    switch (x->tok) {
    case 'S': case 's':
      if (x->tok == 'S') dr_begin_section__(w);
      a->grp = x; a->pc = x->first;
      continue;
    case 'O':
      cur_ast = x; a->handle = dr_enter_other__(f, l, w); cur_ast = 0;
      a->pending = x; a->pc = x->next;
      make_ready(a);
      return;
    case 'C': {
      dr_dag_node * c = 0;
      cur_ast = x; a->handle = dr_enter_create_task__(&c, f, l, w); cur_ast = 0;
      a->pending = x; a->pc = x->next;
      act * ch = &acts[nacts++];
      memset(ch, 0, sizeof(*ch));
      ch->task = x->child_task; ch->create_node = c; ch->parent = a;
      ch->worker = (wmode == 0) ? 0 : (below(3) == 0 ? w : (int)below(nworkers));
      live_children[x->parent - pool]++;
      if (sched == 0) {                   /* work first: the child runs before the continuation */
        make_ready(a); make_ready(ch);
      } else {
        make_ready(ch); make_ready(a);
      }
      return;
    }
    case 'W':
      cur_ast = x; a->handle = dr_enter_wait_tasks__(f, l, w); cur_ast = 0;
      a->pending = x;
      /* continue after the section */
      a->pc = x->parent->next; a->grp = x->parent->parent;
      a->wait_sect = 0;
      if (live_children[x->parent - pool] == 0) make_ready(a);
      else { a->outstanding = 1; a->wait_sect = x->parent; }   /* woken by the last child */
      return;
    case 'E':
      cur_ast = x;
      if (a->create_node) dr_end_task__(f, l, w); else dr_stop__(f, l, w);
      cur_ast = 0;
      a->done = 1;
      if (a->parent) {
        ast * s = a->task->parent->parent;      /* create -> its section */
        if (--live_children[s - pool] == 0) {
          act * p = a->parent;
          if (p->wait_sect == s && p->outstanding) { p->outstanding = 0; p->wait_sect = 0; make_ready(p); }
        }
      }
      return;
    default: die("bad item");
    }
  }
}

static void simulate(ast * root_task) {
  act * r = &acts[nacts++];
  memset(r, 0, sizeof(*r));
  r->task = root_task; r->started = 0; r->create_node = 0; r->worker = 0;
  make_ready(r);
  while (nready > 0) {
    int i;
    switch (sched) {
    case 0: i = nready - 1; break;                 /* LIFO: depth first */
    case 1: i = 0; break;                          /* FIFO: breadth first */
    default: i = (int)below(nready); break;        /* random */
    }
    act * a = ready[i];
    memmove(&ready[i], &ready[i + 1], sizeof(ready[0]) * (nready - i - 1));
    nready--;
    a->in_ready = 0;
    step(a);
  }
  for (int i = 0; i < nacts; i++) if (!acts[i].done) die("simulator: a task never finished");
}

/* ---------------- printing ------------------------------------------------------------------- */
static long file_id(const char * s) {           /* "f<id>.c" */
  if (!s || s[0] != 'f') die("unexpected file name");
  return atol(s + 1);
}

static void print_info_common(dr_dag_node_info * i) {
  printf(" %llu %llu %llu %llu %llu %llu %llu", i->start.t, i->end.t, i->est, i->t_1, i->t_inf,
         i->first_ready_t, i->last_start_t);
  for (int k = 0; k < dr_dag_edge_kind_max; k++) printf(" %llu", i->t_ready[k]);
  for (int k = 0; k < dr_dag_node_kind_section; k++) printf(" %ld", i->logical_node_counts[k]);
  for (int k = 0; k < dr_dag_edge_kind_max; k++) printf(" %ld", i->logical_edge_counts[k]);
  printf(" %ld %ld %ld %d %d %d", i->cur_node_count, i->min_node_count, i->n_child_create_tasks,
         i->worker, i->start.worker, i->end.worker);
}

/* captured tree: I k st et w sfile sline efile eline est inek frt | C ... <task> | S ... . | T ... . */
static void print_cap_group(ast * g);
static void print_cap_ival(ast * x, int kind) {
  if (x->captured != 1) die("an interval was not captured exactly once");
  dr_dag_node_info * i = &x->info;
  if ((int)i->kind != kind) die("captured kind differs from the program");
  printf(" %c %d %llu %llu %d %ld %ld %ld %ld %llu %d %llu", kind == 0 ? 'C' : 'I', kind, i->start.t, i->end.t,
         i->worker, file_id(x->sfile), i->start.pos.line, file_id(x->efile), i->end.pos.line,
         i->est, (int)i->in_edge_kind, i->first_ready_t);
}
static void print_cap_group(ast * g) {
  printf(" %c", g->tok == 'T' ? 'T' : 'S');
  for (ast * x = g->first; x; x = x->next) {
    switch (x->tok) {
    case 'O': print_cap_ival(x, dr_dag_node_kind_other); break;
    case 'W': print_cap_ival(x, dr_dag_node_kind_wait_tasks); break;
    case 'E': print_cap_ival(x, dr_dag_node_kind_end_task); break;
    case 'C': print_cap_ival(x, dr_dag_node_kind_create_task); print_cap_group(x->child_task); break;
    case 'S': case 's': print_cap_group(x); break;
    default: die("print_cap");
    }
  }
  printf(" .");
}

static void print_pidag(const char * tag, dr_pi_dag * G) {
  printf("%s %ld %ld %ld %ld\n", tag, G->n, G->m, G->S->n, G->num_workers);
  for (long i = 0; i < G->n; i++) {
    dr_pi_dag_node * x = &G->T[i];
    long a = 0, b = 0;
    if (x->info.kind == dr_dag_node_kind_create_task) a = x->child_offset;
    else if (x->info.kind >= dr_dag_node_kind_section) { a = x->subgraphs_begin_offset; b = x->subgraphs_end_offset; }
    printf("%s.N %ld %d %d", tag, i, (int)x->info.kind, (int)x->info.in_edge_kind);
    print_info_common(&x->info);
    printf(" %ld %ld %ld %ld %ld %ld %ld %ld\n", x->info.start.pos.file_idx, x->info.start.pos.line,
           x->info.end.pos.file_idx, x->info.end.pos.line, x->edges_begin, x->edges_end, a, b);
  }
  for (long j = 0; j < G->m; j++)
    printf("%s.E %ld %d %ld %ld\n", tag, j, (int)G->E[j].kind, G->E[j].u, G->E[j].v);
  for (long k = 0; k < G->S->n; k++)
    printf("%s.S %ld %s\n", tag, k, G->S->C + G->S->I[k]);
}

/* chronological replay counters */
typedef struct {
  void (*process_event)(chronological_traverser * ct, dr_event evt);
  dr_pi_dag * G;
  long nev[4];
  int * started, * ended;
  long n_running, n_ready, max_running;
  dr_clock_t t, cum_running, cum_ready;
  long nonmono;
} replay_t;

static void replay_event(chronological_traverser * ct, dr_event ev) {
  replay_t * r = (replay_t *)ct;
  long u = ev.u - r->G->T;
  if (ev.t < r->t) r->nonmono++;
  dr_clock_t dt = ev.t - r->t;
  r->cum_running += r->n_running * dt;
  r->cum_ready += r->n_ready * dt;
  r->nev[ev.kind]++;
  switch (ev.kind) {
  case dr_event_kind_ready: r->n_ready++; break;
  case dr_event_kind_start: r->n_running++; r->started[u]++; break;
  case dr_event_kind_last_start: r->n_ready--; break;
  case dr_event_kind_end: r->n_running--; r->ended[u]++; break;
  }
  if (r->n_running > r->max_running) r->max_running = r->n_running;
  r->t = ev.t;
}

static void print_replay(const char * tag, dr_pi_dag * G) {
  replay_t r[1];
  memset(r, 0, sizeof(r));
  r->process_event = replay_event; r->G = G;
  r->started = calloc(G->n, sizeof(int)); r->ended = calloc(G->n, sizeof(int));
  dr_pi_dag_chronological_traverse(G, (chronological_traverser *)r);
  long leaves = 0, once = 0, inner_touched = 0;
  for (long i = 0; i < G->n; i++) {
    dr_pi_dag_node * x = &G->T[i];
    int leaf = x->info.kind < dr_dag_node_kind_section || x->subgraphs_begin_offset == x->subgraphs_end_offset;
    if (leaf) { leaves++; if (r->started[i] == 1 && r->ended[i] == 1) once++; }
    else if (r->started[i] || r->ended[i]) inner_touched++;
  }
  printf("replay %s %ld %ld %ld %ld %ld %ld %ld %ld %ld %ld %llu %llu %llu %ld\n", tag, r->nev[0], r->nev[1], r->nev[2], r->nev[3],
         leaves, once, inner_touched, r->n_running, r->n_ready, r->max_running, r->t, r->cum_running, r->cum_ready, r->nonmono);
  free(r->started); free(r->ended);
}

static int same_pidag(dr_pi_dag * A, dr_pi_dag * B) {
  if (A->n != B->n || A->m != B->m || A->start_clock != B->start_clock || A->num_workers != B->num_workers) return 0;
  if (memcmp(A->T, B->T, sizeof(dr_pi_dag_node) * A->n)) return 0;
  if (A->m && memcmp(A->E, B->E, sizeof(dr_pi_dag_edge) * A->m)) return 0;
  if (A->S->n != B->S->n || A->S->sz != B->S->sz) return 0;
  for (long k = 0; k < A->S->n; k++)
    if (A->S->I[k] != B->S->I[k] || strcmp(A->S->C + A->S->I[k], B->S->C + B->S->I[k])) return 0;
  return 1;
}

int main(void) {
  static char line[4 << 20];
  if (!fgets(line, sizeof line, stdin)) die("no input");
  for (char * p = strtok(line, " \n"); p; p = strtok(0, " \n")) toks[ntoks++] = p;
  if (ntoks < 17 || strcmp(toks[0], "run")) die("expected: run ...");
  rng_s = strtoull(toks[1], 0, 10);
  nworkers = atoi(toks[2]); sched = atoi(toks[3]); wmode = atoi(toks[4]); nfiles = atoi(toks[5]);
  unsigned long long umin = strtoull(toks[6], 0, 10), cmax = strtoull(toks[7], 0, 10);
  long cmaxcount = atol(toks[8]), nct = atol(toks[9]), prune = atol(toks[10]);
  unsigned long long s_umin = strtoull(toks[11], 0, 10), s_cmax = strtoull(toks[12], 0, 10);
  long s_cmaxcount = atol(toks[13]);
  const char * prefix = toks[14];
  tpos = 15;
  if (toks[tpos++][0] != 'T') die("program must start with T");
  ast * root = parse_task(0);
  if (tpos != ntoks) die("trailing tokens");
  if (nworkers < 1 || nfiles < 1) die("bad nworkers / nfiles");
  if (wmode == 0) { /* single worker executions still declare nworkers workers */ }

  fnames = malloc(sizeof(char *) * nfiles * NCOPIES);
  for (int i = 0; i < nfiles; i++)
    for (int c = 0; c < NCOPIES; c++) {
      char buf[64];
      snprintf(buf, sizeof buf, "f%d.c", i);
      fnames[i * NCOPIES + c] = strdup(buf);      /* equal contents, distinct pointers */
    }

  dr_options opts[1];
  dr_options_default(opts);
  opts->dag_file_prefix = prefix;
  opts->dag_file_yes = 1; opts->stat_file_yes = 1; opts->gpl_file_yes = 0; opts->dot_file_yes = 0; opts->text_file_yes = 0;
  opts->uncollapse_min = umin; opts->collapse_max = cmax; opts->collapse_max_count = cmaxcount;
  opts->node_count_target = nct; opts->prune_threshold = prune;
  opts->worker_specific_state_array = 1;
  opts->on = 1; opts->dbg_level = 0; opts->verbose_level = 0; opts->chk_level = 1; opts->record_cpu = 0;
  opts->papi_on = 0;
  opts->hooks.start_task = h_start_task; opts->hooks.begin_section = h_begin_section;
  opts->hooks.enter_create_task = h_enter_create; opts->hooks.return_from_create_task = h_ret_create;
  opts->hooks.enter_wait_tasks = h_enter_wait; opts->hooks.return_from_wait_tasks = h_ret_wait;
  opts->hooks.enter_other = h_enter_other; opts->hooks.return_from_other = h_ret_other;
  opts->hooks.end_task = h_end_task;

  dr_start__(opts, pick_file(), pick_line(), 0, nworkers);
  simulate(root);
  if (GS.generation % 2) die("recorder still running after the root task ended");

  printf("hdr %llu %d\n", GS.start_clock, nworkers);
  /* the root task's own start position was given to dr_start__ */
  printf("rootpos %ld %ld\n", file_id(GS.root->info.start.pos.file), GS.root->info.start.pos.line);
  printf("cap"); print_cap_group(root); printf("\n");
  printf("root %d %d", (int)GS.root->info.kind, (int)GS.root->info.in_edge_kind);
  print_info_common(&GS.root->info); printf("\n");

  /* in-memory position independent DAG, exactly what dr_dump_() builds */
  dr_pi_dag G[1];
  dr_make_pi_dag(G, GS.root, GS.start_clock);
  print_pidag("mem", G);
  print_replay("mem", G);
  dr_dump_();                                   /* writes PREFIX.dag and PREFIX.stat */

  char fn[4096];
  snprintf(fn, sizeof fn, "%s.dag", prefix);
  dr_pi_dag * R = dr_read_dag(fn);
  if (!R) die("dr_read_dag failed");
  printf("roundtrip mem-file %d\n", same_pidag(G, R));
  print_pidag("file", R);

  /* the dag2any --shrink path: read, dr_copy_pi_dag with conversion-time options, stat, dump */
  char pfx2[4096];
  snprintf(pfx2, sizeof pfx2, "%s_s", prefix);
  GS.opts.uncollapse_min = s_umin; GS.opts.collapse_max = s_cmax; GS.opts.collapse_max_count = s_cmaxcount;
  GS.opts.dag_file_prefix = pfx2;
  dr_pi_dag H[1];
  dr_copy_pi_dag(H, R);
  print_pidag("shr", H);
  print_replay("shr", H);
  if (!dr_gen_basic_stat(H)) die("stat of shrunk dag failed");
  if (!dr_gen_pi_dag(H)) die("dump of shrunk dag failed");
  snprintf(fn, sizeof fn, "%s.dag", pfx2);
  dr_pi_dag * R2 = dr_read_dag(fn);
  if (!R2) die("dr_read_dag of shrunk dag failed");
  printf("roundtrip shr-file %d\n", same_pidag(H, R2));
  printf("hooks %d %d %d %d %d %d %d %d %d\n", hook_calls[0], hook_calls[1], hook_calls[2], hook_calls[3],
         hook_calls[4], hook_calls[5], hook_calls[6], hook_calls[7], hook_calls[8]);
  printf("done\n");
  return 0;
}
