/* Controlled interleavings of concurrent initialisers (C15): K OS threads ("participants") call
 * myth_init() / myth_init_ex(&attr) / an API function (implicit initialisation) at the same time.
 * A token-passing controller serialises them at the MYTH_VERIF points of src/myth_init.c: exactly
 * one participant runs between two of its points, so the order of the logged events is the order
 * of the accesses to g_myth_init_state.  The event log is the input of the trace acceptor
 * (`drv_env`: each event must be an enabled step of that caller in the model, with the value
 * observed); the `end` lines are compared with the model's state.
 *
 * stdin:
 *   threads K
 *   round A1 .. AK | P P P ...    participant i calls: Ai = 0 myth_init(), Ai = N > 0 myth_init_ex
 *                                 (n_workers = N), Ai = -1 implicit (myth_get_num_workers());
 *                                 after `|` the schedule: whom to run at each decision
 *                                 (a participant that has returned is replaced by the next busy one)
 *   stress A1 .. AK               the same calls, all participants released at once and NOT serialised
 *                                 (real parallelism: catches a non-atomic election); events are logged
 *                                 as `sev ...` in arrival order and not given to the acceptor
 *   fini                          the elected initialiser of this epoch (the main thread) calls myth_fini()
 * stdout:
 *   ev P call <init|init_ex|implicit> N | ev P <fast|slow|cas|wait|waited|really|started|done|ret> V
 *   fev <call|noop|begin|wait|waited|stopped|done|ret> V
 *   winner W A1 .. AK             after a stress round: the elected participant (-1: none, already initialised)
 *   end nw=<n> really=<total real initialisations> extra=<OS threads beyond the K+1 of the harness> state=<s>
 */
#define _GNU_SOURCE
#include <stdio.h>
#include <stdlib.h>
#include <string.h>
#include <pthread.h>
#include <dirent.h>
#include <time.h>
#include <unistd.h>
#include <myth/myth.h>
#include "myth_verif.h"

#define MAXK 16
static pthread_mutex_t mu = PTHREAD_MUTEX_INITIALIZER;
static pthread_cond_t cv = PTHREAD_COND_INITIALIZER;
static int turn = -1;                 /* participant allowed to run; -1 = the controller; -2 = everybody (stress) */
static volatile int free_mode;
static volatile int round_winner = -1;
static volatile int slow_arrived, slow_expected;   /* stress: line the callers up right before the election */
static int K;
static __thread int my_pid = -1;
static volatile int elected = -1;     /* CAS winner of the current epoch = the main thread */
static volatile int in_fini;
static volatile long n_really;
static struct { volatile int cmd, arg, busy; } P[MAXK];
enum { C_NONE, C_CALL, C_FINI, C_QUIT };
extern volatile int g_myth_init_state;

static void die(const char * m) { fprintf(stderr, "init_conc: %s\n", m); _exit(3); }

/* hand the token back to the controller and wait for it again */
static void yield_token(int pid) {
  if (free_mode) return;
  pthread_mutex_lock(&mu);
  turn = -1; pthread_cond_broadcast(&cv);
  while (turn != pid) pthread_cond_wait(&cv, &mu);
  pthread_mutex_unlock(&mu);
}
static void wait_token(int pid) {
  pthread_mutex_lock(&mu);
  while (turn != pid && !(turn == -2 && P[pid].busy)) pthread_cond_wait(&cv, &mu);
  pthread_mutex_unlock(&mu);
}

static void hook(int pt, const void * a, const void * b, long v) {
  (void)a; (void)b;
  int spin = pt < 0; if (spin) pt = -pt;
  if (pt < MYTH_VP_INIT_FAST || pt > MYTH_VP_FINI_DONE) return;
  /* after myth_init_ex_body_really the initialiser is a user-level thread and may run on any
     worker's OS thread: there my_pid is unset and the event belongs to the elected participant */
  int pid = my_pid >= 0 ? my_pid : elected;
  if (pid < 0) return;
  if (pt == MYTH_VP_INIT_REALLY) __sync_fetch_and_add(&n_really, 1);
  if (pt == MYTH_VP_INIT_CAS && v == 1) { elected = pid; round_winner = pid; }
  const char * nm = 0;
  switch (pt) {
    case MYTH_VP_INIT_FAST: nm = "fast"; break;      case MYTH_VP_INIT_SLOW: nm = "slow"; break;
    case MYTH_VP_INIT_CAS: nm = "cas"; break;        case MYTH_VP_INIT_WAIT: nm = "wait"; break;
    case MYTH_VP_INIT_WAITED: nm = "waited"; break;  case MYTH_VP_INIT_REALLY: nm = "really"; break;
    case MYTH_VP_INIT_STARTED: nm = "started"; break; case MYTH_VP_INIT_DONE: nm = "done"; break;
    case MYTH_VP_FINI_NOOP: nm = "noop"; break;      case MYTH_VP_FINI_BEGIN: nm = "begin"; break;
    case MYTH_VP_FINI_WAITED: nm = "waited"; break;  case MYTH_VP_FINI_STOPPED: nm = "stopped"; break;
    case MYTH_VP_FINI_DONE: nm = "done"; break;
  }
  if (!nm) return;
  if (in_fini || pt >= MYTH_VP_FINI_NOOP) printf("fev %s %ld\n", nm, v);
  else printf("%s %d %s %ld\n", free_mode ? "sev" : "ev", pid, nm, v);
  fflush(stdout);
  /* `really' and `started' lie inside the initialiser's private section (no access of the state
     word in between): no decision point, the log line is enough */
  if (pt == MYTH_VP_INIT_REALLY || pt == MYTH_VP_INIT_STARTED || pt == MYTH_VP_FINI_STOPPED) return;
  if (free_mode && pt == MYTH_VP_INIT_SLOW) {
    /* spin barrier (at most 20 ms): all callers attempt the election within a few cycles */
    struct timespec t0, t1; clock_gettime(CLOCK_MONOTONIC, &t0);
    __sync_fetch_and_add(&slow_arrived, 1);
    while (slow_arrived < slow_expected) {
      clock_gettime(CLOCK_MONOTONIC, &t1);
      if ((t1.tv_sec - t0.tv_sec) * 1000000000L + (t1.tv_nsec - t0.tv_nsec) > 20000000L) break;
    }
  }
  yield_token(pid);
}

static void * body(void * a) {
  int pid = (int)(long)a;     /* on the stack: survives a migration of this context */
  my_pid = pid;
  for (;;) {
    wait_token(pid);
    int cmd = P[pid].cmd, arg = P[pid].arg;
    if (cmd == C_QUIT) { P[pid].busy = 0; pthread_mutex_lock(&mu); turn = -1; pthread_cond_broadcast(&cv); pthread_mutex_unlock(&mu); return 0; }
    if (cmd == C_CALL) {
      printf("%s %d call %s %d\n", free_mode ? "sev" : "ev", pid, arg == 0 ? "init" : arg > 0 ? "init_ex" : "implicit", arg > 0 ? arg : 0); fflush(stdout);
      yield_token(pid);
      if (arg == 0) myth_init();
      else if (arg > 0) {
        myth_globalattr_t at; myth_globalattr_init(&at);
        myth_globalattr_set_n_workers(&at, (size_t)arg);
        myth_init_ex(&at);
      } else (void)myth_get_num_workers();
      /* the state the caller finds when its call returns (2 = initialized) */
      printf("%s %d ret %d\n", free_mode ? "sev" : "ev", pid, free_mode ? g_myth_init_state : 0); fflush(stdout);
    } else if (cmd == C_FINI) {
      in_fini = 1;
      printf("fev call 0\n"); fflush(stdout);
      myth_fini();
      printf("fev ret 0\n"); fflush(stdout);
      in_fini = 0; elected = -1;
    }
    /* the token goes back to the controller (stress: when the last participant is done) */
    pthread_mutex_lock(&mu);
    P[pid].cmd = C_NONE; P[pid].busy = 0;
    if (free_mode) { int nb = 0; for (int i = 0; i < K; i++) nb += P[i].busy; if (!nb) turn = -1; }
    else turn = -1;
    pthread_cond_broadcast(&cv); pthread_mutex_unlock(&mu);
  }
}

/* give the token to p and wait until it comes back (watchdog: 20 s) */
static void run(int p) {
  struct timespec ts; clock_gettime(CLOCK_REALTIME, &ts); ts.tv_sec += 20;
  pthread_mutex_lock(&mu);
  turn = p; pthread_cond_broadcast(&cv);
  while (turn != -1) if (pthread_cond_timedwait(&cv, &mu, &ts)) {
    pthread_mutex_unlock(&mu);
    if (p == -2) {   /* free-running round: nothing but the library can keep the callers from returning */
      fflush(stdout); fprintf(stderr, "init_conc: free-running initialisers did not return within 20 s\n"); _exit(4);
    }
    die("watchdog: a participant did not reach its next point");
  }
  pthread_mutex_unlock(&mu);
}

static int os_threads_now(void) {
  int n = 0; DIR * d = opendir("/proc/self/task"); struct dirent * e;
  if (!d) return -1;
  while ((e = readdir(d))) if (e->d_name[0] != '.') n++;
  closedir(d); return n;
}
/* pthread_join returns a little before the kernel removes the thread from /proc/self/task */
static int os_threads(int expect) {
  int n = os_threads_now(), i;
  for (i = 0; i < 600 && n > expect; i++) { usleep(500); n = os_threads_now(); }
  return n;
}

static void print_end(void) {
  /* myth_get_num_workers() would initialise implicitly: only ask an initialised library */
  int st = g_myth_init_state;
  int nw = st == 2 ? myth_get_num_workers() : -1;
  printf("end nw=%d really=%ld extra=%d state=%d\n", nw, n_really, os_threads(K + 1 + (nw > 0 ? nw - 1 : 0)) - K - 1, st);
  fflush(stdout);
}

int main(void) {
  static char line[1 << 16];
  pthread_t th[MAXK];
  g_myth_verif_hook = hook;
  while (fgets(line, sizeof line, stdin)) {
    char * save = 0; char * tok = strtok_r(line, " \n", &save);
    if (!tok) continue;
    if (!strcmp(tok, "threads")) {
      K = atoi(strtok_r(0, " \n", &save));
      if (K < 1 || K > MAXK) die("bad K");
      for (int i = 0; i < K; i++) pthread_create(&th[i], 0, body, (void *)(long)i);
    } else if (!strcmp(tok, "round")) {
      int i = 0;
      for (; i < K; i++) { tok = strtok_r(0, " \n", &save); if (!tok) die("round: too few"); P[i].arg = atoi(tok); P[i].cmd = C_CALL; P[i].busy = 1; }
      tok = strtok_r(0, " \n", &save);   /* the `|' */
      int rr = 0;
      for (;;) {
        int nbusy = 0; for (i = 0; i < K; i++) nbusy += P[i].busy;
        if (!nbusy) break;
        int p;
        tok = strtok_r(0, " \n", &save);
        if (tok) p = atoi(tok) % K; else p = rr++ % K;
        while (!P[p].busy) p = (p + 1) % K;
        run(p);
      }
      print_end();
    } else if (!strcmp(tok, "stress")) {
      int i;
      round_winner = -1;
      pthread_mutex_lock(&mu);
      for (i = 0; i < K; i++) { tok = strtok_r(0, " \n", &save); if (!tok) die("stress: too few"); P[i].arg = atoi(tok); P[i].cmd = C_CALL; P[i].busy = 1; }
      slow_arrived = 0; slow_expected = g_myth_init_state == 0 ? K : 0;
      free_mode = 1;
      pthread_mutex_unlock(&mu);
      run(-2);
      free_mode = 0;
      printf("winner %d", round_winner);
      for (i = 0; i < K; i++) printf(" %d", P[i].arg);
      printf("\n");
      print_end();
    } else if (!strcmp(tok, "fini")) {
      int w = elected;
      if (w < 0) { print_end(); continue; }
      P[w].cmd = C_FINI; P[w].busy = 1;
      while (P[w].busy) run(w);
      print_end();
    }
  }
  /* a still-initialised library must be finalised by its main thread before that thread's
     start routine returns (the context may sit on another OS thread) */
  if (elected >= 0) { int w = elected; P[w].cmd = C_FINI; P[w].busy = 1; while (P[w].busy) run(w); }
  for (int i = 0; i < K; i++) { P[i].cmd = C_QUIT; P[i].busy = 1; run(i); }
  for (int i = 0; i < K; i++) pthread_join(th[i], 0);
  return 0;
}
