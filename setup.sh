#!/bin/sh
# offline setup: build the Lean library and the model driver (nothing is fetched)
set -e
cd "$(dirname "$0")/lean"
lake build MythVerif drv_tls
