#!/bin/sh
# offline setup: build the Lean library (all claimed property modules) and the model drivers
set -e
cd "$(dirname "$0")/lean"
python3 ../translate/consts_extract.py >/dev/null 2>&1 || true
python3 ../translate/asm_extract.py >/dev/null 2>&1 || true
python3 ../translate/wraptable_extract.py >/dev/null 2>&1 || true
python3 ../translate/shape_extract.py >/dev/null 2>&1 || true
lake build MythVerif MythVerif.Proofs.JcArith drv_tls drv_mutex drv_cond drv_join drv_alloc drv_bulk drv_x86 drv_felock drv_env drv_time drv_jc drv_once drv_uncond drv_wsq drv_barrier drv_dag drv_pth
