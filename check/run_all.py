#!/usr/bin/env python3
"""run every claimed check's quick command (in parallel) and summarise"""
import json, os, subprocess, sys, time
V = os.path.dirname(os.path.dirname(os.path.abspath(__file__)))
m = json.load(open(os.path.join(V, "MANIFEST.json")))
tier = sys.argv[1] if len(sys.argv) > 1 else "quick"
procs = []
for c in m["checks"]:
    cmd = c["quick_cmd"] if tier == "quick" else c.get("thorough_cmd", c["quick_cmd"])
    procs.append((c["property_id"], time.time(), subprocess.Popen(cmd, shell=True, cwd=V, stdout=subprocess.PIPE, stderr=subprocess.STDOUT, text=True)))
    if len(procs) % 4 == 0:
        for p in procs[-4:]:
            p[2].wait()
bad = 0
for pid, t0, p in procs:
    out, _ = p.communicate()
    last = [l for l in out.splitlines() if l.startswith(("OK", "VIOLATION", "HARNESS", "KNOWN"))]
    print(pid, p.returncode, (last[-1] if last else out[-200:])[:160])
    bad += p.returncode != 0
sys.exit(1 if bad else 0)
