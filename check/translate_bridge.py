import os
import sys

sys.path.insert(0, os.path.join(os.path.dirname(os.path.abspath(__file__)), "..", "translate"))
import consts_extract  # noqa: E402


def run_consts():
    return consts_extract.run()
