"""C10 — thread-specific data is private to (thread, key); keys distinct while live."""
import os

import common
from props import tls_common
from translate_bridge import run_consts

WANT = {"C10"}
SAN = tls_common.SAN


def build_conc():
    lib, err = common.build_lib()
    if err:
        return None, err
    exe = os.path.join(common.BUILD, "bin", "keyalloc_conc")
    err = common.cc(os.path.join(common.HARNESS, "keyalloc_conc.c"), exe, flags=SAN, libs=[lib, "-lpthread", "-ldl"])
    return (exe, None) if not err else (None, err)


def gen_conc(rng):
    """A's script + interference points.  Returns list of lines."""
    lines = []
    na = 2 + rng.below(6)
    created = 0
    for _ in range(na):
        if created and rng.chance(1, 4):
            lines.append("A: d %d" % rng.below(created + 2))
        else:
            lines.append("A: c 0")
            created += 1
    for _ in range(1 + rng.below(2)):
        at = 1 + rng.below(na)
        nb = 1 + rng.below(4)
        bops = []
        for _ in range(nb):
            if rng.chance(2, 5):
                bops.append("d %d" % rng.below(6))
            else:
                bops.append("c 0")
        lines.append("@%d B: %s" % (at, "; ".join(bops)))
    return lines


def conc_oracle(out, rc, err):
    """interval oracle (never alarms on a linearizable history): two creates that return the same
    key need a successful delete of that key that can lie between them"""
    if rc != 0:
        return "implementation crashed: rc=%s %s" % (rc, " ".join(err.split()[:30]))
    pend = {}
    creates, deletes = [], []   # (start, end, key)
    for i, l in enumerate(out):
        w = l.split()
        if len(w) == 4 and w[3] == "S":
            pend[w[0]] = i
        elif len(w) == 5 and w[3] == "E":
            st = pend.pop(w[0], i)
            if w[1] == "c" and int(w[4]) != -1:
                creates.append((st, i, int(w[4])))
            elif w[1] == "d" and int(w[4]) == 0:
                deletes.append((st, i, int(w[2])))
    if not out or out[-1] != "end":
        return "run did not finish"
    creates.sort()
    for a in range(len(creates)):
        for b in range(a + 1, len(creates)):
            c1, c2 = creates[a], creates[b]
            if c1[2] != c2[2]:
                continue
            if not any(d[2] == c1[2] and ((c1[0] < d[1] and d[0] < c2[1]) or (c2[0] < d[1] and d[0] < c1[1])) for d in deletes):
                return "two creates returned key %d with no delete of it in between (log lines %d and %d)" % (c1[2], c1[1], c2[1])
    for d in deletes:
        if not any(c[2] == d[2] and c[0] < d[1] for c in creates):
            return "delete of key %d succeeded although it was never created" % d[2]
    return None


def run_conc(exe, lines):
    env = dict(os.environ, ASAN_OPTIONS="detect_leaks=0")
    rc, o, e = common.sh([exe], inp="\n".join(lines) + "\n", timeout=30, env=env)
    return o.splitlines(), rc, e


def run(res):
    vals, err = run_consts()
    if err:
        res.brk("translator", err)
    common.prove(res, drivers=["tls"])
    n = 160 if res.tier == "quick" else 1500
    tls_common.campaign(res, WANT, n, os.path.join(common.CORPUS, "C10"))
    # concurrent create/delete: interference injected at the free-list CAS points
    exe, err = build_conc()
    if err:
        res.brk("build", "keyalloc_conc harness: " + err)
        return
    rng = common.Splitmix(res.seed * 31 + 5)
    scen = []
    cdir = os.path.join(common.CORPUS, "C10")
    if os.path.isdir(cdir):
        for fn in sorted(os.listdir(cdir)):
            if fn.endswith(".conc"):
                scen.append([l.strip() for l in open(os.path.join(cdir, fn)) if l.strip()])
    for _ in range(40 if res.tier == "quick" else 400):
        scen.append(gen_conc(rng))
    seen = set()
    blocked = 0
    for lines in scen:
        out, rc, e = run_conc(exe, lines)
        if any(l == "B blocked" for l in out):
            blocked += 1
        seen.add(common.hashcase(lines))
        bad = conc_oracle(out, rc, e)
        if bad:
            def fails(sub):
                o2, r2, e2 = run_conc(exe, sub)
                return conc_oracle(o2, r2, e2) is not None
            small = common.ddmin(lines, fails, budget=60)
            p = common.write_replay("C10", "failing.conc", "\n".join(small) + "\n")
            res.violations.append((p, True, "concurrent key create/delete: " + bad))
            break
    res.add_cases(len(scen), len(seen), [scen[-1]],
                  rule="concurrent key create/delete scenarios: thread A's script with a second thread's script injected at A's N-th free-list CAS point (every scenario has an interference inside an operation, hence non-trivial); distinct by hash")
    res.notes["conc_scenarios"] = len(scen)
    if not res.violations:
        # whole library: every thread of a fork-join tree (7 creation modes incl. parent-first on recycled records,
        # every worker count) starts with empty thread-specific data and keeps its own two values until it ends
        from props import life_common, sched_common
        sched_common.campaign(res, "C10", "life_prog", life_common.variants(res.seed), 60 if res.tier == "quick" else 600, [],
                              workers_note=" (oracle only: thread-specific data empty at thread start, private and intact at thread end, across migrations)")
    res.notes["conc_interferer_blocked_by_lock"] = blocked
    res.assumptions += [
        "concurrent key allocator: the theorem C10_keys_distinct_seq covers serialised histories; that alloc/dealloc ARE serialised (spin lock) is tied by the interference harness, which injects a second thread at the CAS points",
        "migration between workers: the tree lives in the thread descriptor (C10_private_per_thread has no worker component); that the descriptor moves as a unit is C03/C01",
    ]


def replay(path):
    if os.path.isdir(path):
        from props import sched_common
        return sched_common.replay("C10", path)
    if path.endswith(".conc"):
        exe, err = build_conc()
        if err:
            print(err)
            return 2
        lines = [l.strip() for l in open(path) if l.strip()]
        out, rc, e = run_conc(exe, lines)
        print("\n".join(out))
        bad = conc_oracle(out, rc, e)
        if bad:
            print("ORACLE:", bad)
            print("VIOLATION property=C10 replay=%s" % path)
            return 1
        print("no violation on replay")
        return 0
    return tls_common.replay("C10", path, WANT)
