"""C12 — stacks and thread records are never reused or released while still in use."""
import os

import common
from props import life_common, sched_common
from translate_bridge import run_consts


def sizeclass_diff(res):
    lib, err = common.build_lib()
    exe = os.path.join(common.BUILD, "bin", "sizeclass_unit")
    err = common.cc(os.path.join(common.HARNESS, "sizeclass_unit.c"), exe, flags=["-DMYTH_WRAP=MYTH_WRAP_VANILLA"])
    if err:
        res.brk("build", "sizeclass_unit: " + err)
        return
    rng = common.Splitmix(res.seed + 99)
    lines = []
    for k in range(3, 31):
        for d in (-1, 0, 1):
            s = (1 << k) + d
            if 8 <= s <= (1 << 30):
                lines.append("idx %d" % s)
    for _ in range(400 if res.tier == "quick" else 4000):
        lines.append("idx %d" % (8 + rng.below((1 << (4 + rng.below(27))))))
        lines.append("stack 0 %d" % (1 + rng.below(1 << (3 + rng.below(22)))))
    lines = [l for l in lines if not l.startswith("idx") or 8 <= int(l.split()[1]) <= (1 << 30)]
    rc, out, e = common.sh([exe], inp="\n".join(lines) + "\n")
    impl = out.splitlines()
    model = common.driver("alloc", lines, args=["sizeclass"])
    bad = None
    for l, a, b in zip(lines, impl, model):
        w = l.split()
        if w[0] == "idx":
            s = int(w[1]); i, r = map(int, a.split())
            if not (s <= r and i < 31):
                bad = "size %d -> class %d of %d bytes: request does not fit its class / class outside the table" % (s, i, r)
        if a != b and bad is None:
            res.brk("correspondence", "size-class model and MYTH_MALLOC_SIZE_TO_INDEX disagree on `%s`: impl=%s model=%s" % (l, a, b))
            break
    if bad:
        p = common.write_replay("C12", "sizeclass.txt", bad + "\n")
        res.violations.append((p, True, bad))
    res.add_cases(len(lines), len(set(lines)), [lines[:6]], rule="size-class / stack-layout unit lines (all powers of two +-1 in [8, 2^30] and random sizes); distinct by value")


def run(res):
    vals, err = run_consts()
    if err:
        res.brk("translator", err)
    common.prove(res, drivers=["join", "alloc"])
    sizeclass_diff(res)
    n = 300 if res.tier == "quick" else 3000
    life_common.campaign(res, "C12", ["join", "alloc"], n)
    if res.breaks and not res.violations:
        sched_common.search_more(res, "C12", "life_prog", life_common.variants(res.seed + 1), 300)
    res.assumptions += [
        "mmap returns fresh, disjoint, page-aligned regions (OS model of the ledger)",
        "memory contents of stacks are not modelled: whole-frame canaries verified after every resumption in life_prog are an oracle, not a theorem",
        "requests above 1 GiB leave the size-class table (explicit guard of C12_size_class): unusable request, excluded",
    ]


def replay(path):
    return sched_common.replay("C12", path)
