"""C17 — bulk fork-join helpers equal the sequential loop (DESIGN section 4, C17).

Implementation under test (built from VERIF_REPO's current sources):
  harness/bulk_unit.c   real myth_create_join_various_ex / myth_create_join_many_ex
  harness/bulk_mtbb.cc  real mtbb::parallel_for (all forms) and mtbb::task_group
Model: drv_bulk (Lean, MythVerif.Model.{Bulk,ParFor,TaskGroup}).
Each harness process runs a batch of independent op lines with a fixed number of workers; a
process that dies or hangs (timeout, address-space limit) marks the op it was executing as
"did not return" -- that is a *result* (the property demands a return), not a harness error.
"""
import collections
import os
import re

import common

PID = "C17"
CORPUS = os.path.join(common.CORPUS, PID)
SINGLE_TIMEOUT = 30          # one op takes milliseconds; 30 s alone means it does not return
MAX_RESTARTS = 4


def batch_timeout(nops):
    return 60 + nops // 10
NORETURN = "NORETURN"


# --------------------------------------------------------------------------------------------
# build
# --------------------------------------------------------------------------------------------

def build():
    """returns ({prog: exe}, info dict) or raises RuntimeError (harness problem) /
    returns (None, errtext) when the implementation does not build"""
    lib, err = common.build_lib()
    if err:
        return None, "library does not build: " + err
    exes = {}
    for prog, src, cxx in (("bulk_unit", "bulk_unit.c", False), ("bulk_mtbb", "bulk_mtbb.cc", True)):
        exe = os.path.join(common.BUILD, "bin", prog)
        err = common.cc(os.path.join(common.HARNESS, src), exe, cxx=cxx, flags=["-O0"],
                        libs=[lib, "-lpthread", "-ldl"])
        if err:
            return None, "%s does not build against the current sources: %s" % (src, err)
        exes[prog] = exe
    info = {}
    rc, out, e = common.sh([exes["bulk_unit"], "info"], timeout=30)
    if rc != 0:
        raise RuntimeError("bulk_unit info failed: " + e)
    for kv in out.split():
        k, v = kv.split("=")
        info[k] = int(v)
    rc, out, e = common.sh([exes["bulk_mtbb"], "info"], timeout=30)
    if rc != 0:
        raise RuntimeError("bulk_mtbb info failed: " + e)
    w = out.split()
    info["cap"] = int(w[0].split("=")[1])
    info["chunk"] = int(w[1].split("=")[1])
    info["task"] = int(w[2].split("=")[1])
    info["sizes"] = sorted(set(int(x) for x in w[4:]))
    return (exes, info), None


# --------------------------------------------------------------------------------------------
# running
# --------------------------------------------------------------------------------------------

class Batch:
    def __init__(self, prog, workers, yield_mode, ops):
        self.prog, self.workers, self.yield_mode, self.ops = prog, workers, yield_mode, ops

    def header(self):
        return "# prog=%s workers=%d yield=%d" % (self.prog, self.workers, 1 if self.yield_mode else 0)


def run_impl(exes, b, ops=None):
    """runs the ops of a batch; returns list of output lines, NORETURN for ops that killed or
    hung the process (and for ops never reached because of too many restarts: None)"""
    ops = list(b.ops if ops is None else ops)
    env = dict(os.environ, MYTH_NUM_WORKERS=str(b.workers))
    outs = []
    restarts = 0
    while len(outs) < len(ops):
        rest = ops[len(outs):]
        cmd = [exes[b.prog]] + (["yield"] if b.yield_mode else [])
        rc, out, err = common.sh(cmd, inp="\n".join(rest) + "\n", timeout=batch_timeout(len(rest)), env=env)
        lines = out.splitlines()
        # a line is complete only if the process printed its newline; a partial last line of a
        # dead process belongs to the op that did not return
        if rc != 0 and out and not out.endswith("\n"):
            lines = lines[:-1]
        lines = lines[:len(rest)]
        outs += lines
        if len(lines) == len(rest) and rc == 0:
            break
        if len(lines) == len(rest) and rc != 0:
            # every op answered but the process failed afterwards (myth_fini): harness problem
            raise RuntimeError("%s exited with rc=%s after answering every op: %s" % (b.prog, rc, err[-300:]))
        if rc == -9 and len(rest) > 1:
            # the batch ran out of time: is it this op, or an overloaded machine?  The op alone
            # gets SINGLE_TIMEOUT; if it answers, the batch timeout says nothing about the property.
            rc1, out1, err1 = common.sh(cmd, inp=rest[len(lines)] + "\n", timeout=SINGLE_TIMEOUT, env=env)
            if rc1 == 0 and out1.endswith("\n"):
                raise RuntimeError("batch of %d ops timed out at `%s`, which returns when run alone: machine overloaded?" % (len(rest), rest[len(lines)]))
        if rc not in (0, -9) and "Cannot allocate memory" in err:
            # the operating system refused memory (other jobs on the machine): the op alone, in a fresh process, decides
            import time as _t
            answered = None
            for _ in range(2):
                _t.sleep(2)
                rc1, out1, err1 = common.sh(cmd, inp=rest[len(lines)] + "\n", timeout=SINGLE_TIMEOUT, env=env)
                if rc1 == 0 and out1.endswith("\n") and out1.splitlines():
                    answered = out1.splitlines()[0]
                    break
            if answered is not None:
                outs.append(answered)
                continue
        why = "timeout" if rc == -9 else "rc=%s %s" % (rc, " ".join(err.split()[:12]))
        outs.append(NORETURN + " " + why)
        restarts += 1
        if restarts >= MAX_RESTARTS:
            outs += [None] * (len(ops) - len(outs))
            break
    return outs


def model_line_for(op):
    w = op.split()
    if w[0] == "pfor":
        w[1] = w[1].rstrip("lu") if w[1] not in ("grain", "range") else w[1]
    return " ".join(w)


def run_model(info, ops):
    return common.driver("bulk", [model_line_for(o) for o in ops], args=[str(info["cap"]), str(info["chunk"])])


def canon(line, sort_events):
    """canonical form of an output line: parts split at '|', tokens split at blanks; the event
    part(s) sorted when the run had several workers"""
    if line is None:
        return None
    if line.startswith(NORETURN):
        return NORETURN
    if line == "DIVERGES":
        return NORETURN
    if "||" in line or line.startswith("occ="):
        return " ".join(line.split())
    parts = [p.split() for p in line.split("|")]
    if sort_events:
        parts = [sorted(p) if p and "=" not in p[0] else p for p in parts]
    return " | ".join(" ".join(p) for p in parts)


# --------------------------------------------------------------------------------------------
# the property's own oracle (independent of the Lean model)
# --------------------------------------------------------------------------------------------

def fn_of_slot(j):
    return (j * 5 + 2) % 4


def oracle(op, out):
    """C17 applied to what the implementation did on `op`.  Returns None or a text."""
    w = op.split()
    if out is None:
        return None
    if out.startswith(NORETURN):
        return "`%s` did not return (%s)" % (op, out[len(NORETURN):].strip())
    if out in ("bad-op", "bad-size"):
        raise RuntimeError("harness rejected op `%s`" % op)
    if w[0] == "bulk":
        kind, n, ids, res = w[1], int(w[2]), int(w[3]), int(w[4])
        fs, as_, is_, rs, fk = int(w[6]), int(w[7]), int(w[8]), int(w[9]), int(w[11])
        parts = [p.split() for p in out.split("|")]
        if len(parts) != 4:
            raise RuntimeError("unparsable bulk output %r" % out)
        ev, idp, resp, tail = parts
        exp = collections.Counter()
        for i in range(n):
            k = fk % 4 if kind == "many" else fn_of_slot(0 if fs == 0 else i)
            exp["cl:%d:%d" % (k, i * as_)] += 1
        got = collections.Counter(t for t in ev if t.startswith("cl:"))
        if got != exp:
            miss = list((exp - got).elements())[:3]
            extra = list((got - exp).elements())[:3]
            return "`%s`: calls differ from the loop's: missing %s, unexpected %s (cl:<function>:<argument offset>)" % (op, miss, extra)
        kv = dict(t.split("=") for t in tail)
        if int(kv["done"]) != n:
            return "`%s`: returned when only %s of %d calls had completed" % (op, kv["done"], n)
        if int(kv["ret"]) != 0:
            return "`%s`: returned %s" % (op, kv["ret"])

        def slots(stride, on):
            if not on or n == 0:
                return ""
            return ",".join(str(x) for x in sorted(set(i * stride for i in range(n))))
        gi = idp[0].split("=", 1)[1]
        gr = resp[0].split("=", 1)[1]
        if gi != slots(is_, ids):
            return "`%s`: thread-id slots holding the id of their item's thread: [%s], expected [%s]" % (op, gi[:80], slots(is_, ids)[:80])
        if gr != slots(rs, res):
            return "`%s`: result slots holding their item's return value: [%s], expected [%s]" % (op, gr[:80], slots(rs, res)[:80])
        if int(kv["guard"]) != 0:
            return "`%s`: %s bytes outside the strided slots were written (or a return value stored twice)" % (op, kv["guard"])
        if int(kv["ro"]) != 1:
            return "`%s`: an input array (functions / arguments / attributes) was modified" % op
        return None
    if w[0] == "pfor":
        form, first, last, step, grain = w[1], int(w[2]), int(w[3]), int(w[4]), int(w[5])
        parts = [p.split() for p in out.split("|")]
        if len(parts) != 3 or parts[2] != ["returned"]:
            raise RuntimeError("unparsable pfor output %r" % out)
        if form in ("range", "idx2", "idx2l", "idx2u"):
            step = 1
        want = collections.Counter(range(first, last, step))
        calls = collections.Counter(int(t[2:]) for t in parts[0])
        chunks = [tuple(int(x) for x in t[2:].split(":")) for t in parts[1]]
        if form in ("grain", "range"):
            if calls:
                return "`%s`: body called on single indices" % op
            cov = collections.Counter()
            for lo, hi in chunks:
                if not lo < hi:
                    return "`%s`: body called on the empty chunk [%d,%d)" % (op, lo, hi)
                if len(range(lo, hi, step)) > grain:
                    return "`%s`: chunk [%d,%d) is wider than the grain size %d" % (op, lo, hi, grain)
                cov.update(range(lo, hi, step))
            if cov != want:
                bad = list(((cov - want) + (want - cov)).keys())[:4]
                return "`%s`: the chunks do not cover each index of the range exactly once (e.g. index %s)" % (op, bad)
        else:
            if chunks:
                return "`%s`: body called on chunks" % op
            if calls != want:
                bad = sorted(((calls - want) + (want - calls)).keys())[:4]
                return "`%s`: body not called exactly once per index (e.g. index %s: %d calls)" % (op, bad, calls[bad[0]])
        return None
    if w[0] == "tg":
        rounds, cur = [], []
        for t in w[1:]:
            if t == "w":
                rounds.append(cur)
                cur = []
            else:
                cur.append(int(t))
        rounds.append(cur)
        outs = out.split("||")
        if len(outs) != len(rounds):
            raise RuntimeError("unparsable tg output %r" % out)
        for r, (sizes, o) in enumerate(zip(rounds, outs)):
            m = re.search(r" RAN id=(\d+) times=(-?\d+)", o)
            if m:
                return "`%s` round %d: the task with id %s ran %s times (every task handed to the group must run exactly once, with its own closure)" % (op, r, m.group(1), m.group(2))
            kv = dict(t.split("=", 1) for t in o.split() if "=" in t)
            k = len(sizes)
            if int(kv["joined"]) != k:
                return "`%s` round %d: wait returned when %s of %d tasks had completed" % (op, r, kv["joined"], k)
            ord_ = [int(x) for x in kv["ord"].split(",")] if kv["ord"] else []
            if ord_ != list(range(k)):
                return "`%s` round %d: the task list does not hold exactly the tasks added, in order: %s" % (op, r, ord_[:20])
            occ, chunks_after = kv["after"].split(";")
            if occ != "0" or "," in chunks_after or not chunks_after.endswith(":0"):
                return "`%s` round %d: lists not empty after wait: %s" % (op, r, kv["after"])
            blks = [tuple(int(x) for x in b.split(":")) for b in kv["blk"].split(",")] if kv["blk"] else []
            chs = [tuple(int(x) for x in c.split(":")) for c in kv["ch"].split(",")]
            spans = collections.defaultdict(list)
            for (c, off), sz in zip(blks, sizes):
                if c >= len(chs) or off + sz > chs[c][0]:
                    return "`%s` round %d: task memory block (%d,%d,+%d) outside its chunk" % (op, r, c, off, sz)
                spans[c].append((off, off + sz))
            for c, sp in spans.items():
                sp.sort()
                for (a0, a1), (b0, b1) in zip(sp, sp[1:]):
                    if b0 < a1:
                        return "`%s` round %d: task memory blocks overlap in chunk %d: [%d,%d) [%d,%d)" % (op, r, c, a0, a1, b0, b1)
        return None
    raise RuntimeError("unknown op " + op)


# --------------------------------------------------------------------------------------------
# generation
# --------------------------------------------------------------------------------------------

NS = [0, 1, 2, 3, 5, 7, 8, 9, 15, 16, 17, 31, 33, 63, 64, 65, 100, 127, 129, 255, 257]


def gen_bulk(rng, idx, info, multi, big):
    n = NS[idx % len(NS)] if not rng.chance(1, 4) else rng.below(300)
    if big:
        n = 1000
    kind = "many" if rng.chance(1, 3) else "various"
    ids, res = rng.below(2), rng.below(2)
    if idx % 7 == 0:
        ids, res = 1, 1
    attrs = rng.choice([0, 0, 1, 2, 3] if multi else [0, 0, 1, 2])
    e = 8
    fs = rng.choice([0, e, e, 2 * e, 5 * e]) if kind == "various" else 0
    as_ = rng.choice([e, e, 3 * e, 8 * e, 0])
    is_ = rng.choice([e, e, 2 * e, 6 * e, 0])
    rs = rng.choice([e, e, 3 * e, 4 * e, 0])
    at = info["attr"]
    ats = rng.choice([at, at, at + 16, at + 64, 0])
    fk = rng.below(4)
    return "bulk %s %d %d %d %d %d %d %d %d %d %d" % (kind, n, ids, res, attrs, fs, as_, is_, rs, ats, fk)


def gen_pfor(rng, idx, big):
    form = ["idx2", "idx3", "grain", "range", "idx2l", "idx3l", "idx2u", "idx3u"][idx % 8]
    unsigned = form.endswith("u")
    first = rng.below(100) if unsigned else rng.below(101) - 50
    shape = (idx // 8) % 8
    step = 1 if form.startswith("idx2") or form == "range" else rng.choice([1, 1, 2, 3, 7, 16, 100])
    if shape == 0:
        length = 0                                      # empty
    elif shape == 1:
        length = -(1 + rng.below(first + 1 if unsigned else 40))   # reversed
    elif shape == 2:
        length = 1 + rng.below(step)                    # single index
    elif shape == 3:
        length = 2 + rng.below(20)
    elif shape == 4:
        length = step * (rng.choice([2, 4, 8, 16, 32, 64, 128]) + rng.below(3) - 1) - rng.below(step)   # 2^k +- 1 indices
    elif shape == 5:
        length = 21 + rng.below(300)
    elif shape == 6:
        length = step * rng.below(6)                    # multiple of the step, possibly empty
    else:
        length = 1 + rng.below(60)
    if big:
        length = 1000 + rng.below(2000)
    last = first + length
    if unsigned and last < 0:
        last = 0
    grain = rng.choice([1, 1, 2, 3, 5, 8, 64, 10000])
    return "pfor %s %d %d %d %d" % (form, first, last, step, grain)


TG_COUNTS = [0, 1, 2, 7, 8, 9, 15, 16, 17, 24, 25, 33, 40]


def gen_tg(rng, idx, info):
    sizes = info["sizes"]
    small = [s for s in sizes if s <= 64] or sizes[:1]
    rounds = 1 + rng.below(3) if idx % 3 else 1
    toks = []
    for r in range(rounds):
        k = TG_COUNTS[(idx + r) % len(TG_COUNTS)] if not rng.chance(1, 3) else rng.below(41)
        fam = rng.below(4)
        for _ in range(k):
            if fam == 0:
                toks.append(str(rng.choice(small)))
            elif fam == 1:
                toks.append(str(rng.choice(sizes)))
            elif fam == 2:
                toks.append(str(rng.choice(small + sizes[-2:])))
            else:
                toks.append(str(rng.choice([s for s in sizes if s >= 100] or sizes)))
        if r + 1 < rounds:
            toks.append("w")
    return "tg " + " ".join(toks)


def gen_batches(rng, info, tier):
    q = tier == "quick"
    nb1, nb3, nb8 = (600, 400, 200) if q else (18000, 12000, 7500)
    np1, np4 = (1000, 700) if q else (36000, 24000)
    nt1, nt4 = (250, 160) if q else (7500, 4500)
    W = min(8, os.cpu_count() or 2)
    bs = [
        Batch("bulk_unit", 1, False, [gen_bulk(rng, i, info, False, i % 211 == 50) for i in range(nb1)]),
        Batch("bulk_unit", 3, True, [gen_bulk(rng, i, info, True, i % 197 == 33) for i in range(nb3)]),
        Batch("bulk_unit", W, True, [gen_bulk(rng, i, info, True, i % 101 == 7) for i in range(nb8)]),
        Batch("bulk_mtbb", 1, False, [gen_pfor(rng, i, i % 97 == 96) for i in range(np1)] + [gen_tg(rng, i, info) for i in range(nt1)]),
        Batch("bulk_mtbb", 4, True, [gen_pfor(rng, i, i % 89 == 88) for i in range(np4)] + [gen_tg(rng, i, info) for i in range(nt4)]),
        Batch("bulk_mtbb", 2, True, [gen_pfor(rng, i, False) for i in range(np4 // 2)] + [gen_tg(rng, i, info) for i in range(nt4 // 2)]),
        # one worker AND yielding tasks: a task is suspended inside run() while the group goes on adding tasks
        Batch("bulk_mtbb", 1, True, [gen_tg(rng, i, info) for i in range(nt4 // 2)] + [gen_pfor(rng, i, False) for i in range(np4 // 4)]),
    ]
    return bs


def load_corpus():
    bs = []
    if os.path.isdir(CORPUS):
        for fn in sorted(os.listdir(CORPUS)):
            if fn.endswith(".ops"):
                b = parse_replay(os.path.join(CORPUS, fn))
                if b:
                    bs.append(b)
    return bs


def parse_replay(path):
    lines = [l.strip() for l in open(path) if l.strip()]
    if not lines or not lines[0].startswith("# prog="):
        return None
    kv = dict(t.split("=") for t in lines[0][1:].split())
    return Batch(kv["prog"], int(kv["workers"]), kv.get("yield", "0") == "1", [l for l in lines[1:] if not l.startswith("#")])


# --------------------------------------------------------------------------------------------
# statistics
# --------------------------------------------------------------------------------------------

def classify(op, hist):
    w = op.split()
    if w[0] == "bulk":
        n = int(w[2])
        hist["bulk.kind." + w[1]] += 1
        hist["bulk.n." + ("0" if n == 0 else "1" if n == 1 else "2-9" if n < 10 else "10-99" if n < 100 else "100-999" if n < 1000 else "1000")] += 1
        hist["bulk.ids=%s,res=%s" % (w[3], w[4])] += 1
        hist["bulk.attrs." + w[5]] += 1
        for name, v, e in (("fstride", w[6], 8), ("astride", w[7], 8), ("istride", w[8], 8), ("rstride", w[9], 8)):
            v = int(v)
            hist["bulk.%s.%s" % (name, "0" if v == 0 else "elem" if v == e else ">elem")] += 1
    elif w[0] == "pfor":
        first, last, step = int(w[2]), int(w[3]), int(w[4])
        if w[1] in ("range", "idx2", "idx2l", "idx2u"):
            step = 1
        k = len(range(first, last, step))
        hist["pfor.form." + w[1]] += 1
        hist["pfor.range." + ("reversed" if last < first else "empty" if k == 0 else "single" if k == 1 else "2-20" if k <= 20 else "21-999" if k < 1000 else ">=1000")] += 1
        if w[1] in ("grain", "range"):
            g = int(w[5])
            hist["pfor.grain." + ("1" if g == 1 else ">=n" if g >= k else "mid")] += 1
    else:
        rounds = " ".join(w[1:]).split("w")
        for r in rounds:
            k = len(r.split())
            hist["tg.runs." + ("0" if k == 0 else "1-8" if k <= 8 else "9-16" if k <= 16 else "17-40" if k <= 40 else ">40")] += 1
        hist["tg.rounds.%d" % len(rounds)] += 1


def nontrivial(op):
    w = op.split()
    if w[0] == "bulk":
        return int(w[2]) >= 2
    if w[0] == "pfor":
        step = 1 if w[1] in ("range", "idx2", "idx2l", "idx2u") else int(w[4])
        return len(range(int(w[2]), int(w[3]), step)) >= 2
    return len([t for t in w[1:] if t != "w"]) >= 1


# --------------------------------------------------------------------------------------------
# campaign
# --------------------------------------------------------------------------------------------

def minimise(exes, b, i):
    """smallest op list of batch b (same workers / yield) that still fails the oracle"""
    single = Batch(b.prog, b.workers, b.yield_mode, [b.ops[i]])
    o = run_impl(exes, single)
    t = oracle(single.ops[0], o[0])
    if t:
        return single, t
    prefix = b.ops[:i + 1]

    def fails(sub):
        outs = run_impl(exes, b, sub)
        return any(oracle(op, out) for op, out in zip(sub, outs))
    small = common.ddmin(prefix, fails, budget=40)
    sb = Batch(b.prog, b.workers, b.yield_mode, small)
    outs = run_impl(exes, sb)
    texts = [oracle(op, out) for op, out in zip(small, outs)]
    t = next((x for x in texts if x), None)
    return sb, t


def run(res):
    ok = common.prove(res, drivers=["bulk"])
    built, err = build()
    if err:
        res.brk("build", err)
        return
    exes, info = built
    rng = common.Splitmix(res.seed * 104729 + 17)
    corpus = load_corpus()
    batches = corpus + gen_batches(rng, info, res.tier)
    hist = collections.Counter()
    seen = set()
    nontriv = 0
    ncases = 0
    agree = 0
    disagreements = 0
    first_bad = None       # (batch, index, text)
    first_diff = None
    noreturn = 0
    for b in batches:
        if not b.ops:
            continue
        outs = run_impl(exes, b)
        mouts = run_model(info, b.ops) if ok else [None] * len(b.ops)
        multi = b.workers > 1
        for i, (op, out) in enumerate(zip(b.ops, outs)):
            if out is None:
                continue
            ncases += 1
            classify(op, hist)
            h = common.hashcase([b.prog, b.workers, b.yield_mode, op])
            if h not in seen and nontrivial(op):
                nontriv += 1
            seen.add(h)
            if out.startswith(NORETURN):
                noreturn += 1
            t = oracle(op, out)
            if t and first_bad is None:
                first_bad = (b, i, t)
            if ok:
                if canon(out, multi) == canon(mouts[i], multi):
                    agree += 1
                else:
                    disagreements += 1
                    if first_diff is None:
                        first_diff = (b, i, out, mouts[i])
    res.add_cases(ncases, nontriv,
                  [batches[len(corpus)].ops[3], batches[len(corpus) + 3].ops[5], batches[len(corpus) + 3].ops[-1]],
                  rule="one case = one call of create_join_various/many, parallel_for (8 forms) or one task_group life "
                       "(run*/wait rounds) on the real code with 1, 2, 3, 4 or min(8,cores) workers; non-trivial = at least two "
                       "items / indices (a fork happens) or at least one task; distinct by hash of (program, workers, yield, op line)")
    res.cov["traces_validated_against_impl"] += agree
    res.cov["disagreements_checked"] += disagreements
    res.notes["input_histogram"] = dict(sorted(hist.items()))
    res.notes["corpus_cases"] = sum(len(b.ops) for b in corpus)
    res.notes["ops_that_did_not_return"] = noreturn
    res.notes["harness_info"] = info
    res.assumptions += [
        "fork-join semantics of myth_create_ex / myth_join (C01): a created thread and its creator's continuation interleave arbitrarily, everything of both precedes what follows the join; the theorems quantify over all such schedules",
        "Index arithmetic does not overflow (the models use mathematical integers; generated ranges are small); step >= 1 and grain >= 1 (TBB's preconditions; for grain <= 0 no chunk of width <= grain can cover an index, a kernel-checked lemma shows the recursion then diverges on every non-empty range; step <= 0 makes the sequential loop itself non-terminating)",
        "n >= 0 for the bulk helpers (nthreads < 0 is outside the property's quantifier; the recursion would not terminate)",
        "the Range concept of the range-class form is tbb::blocked_range's: empty() = !(begin < end), is_divisible() = grainsize < end - begin; the harness supplies such a class",
        "operator new returns fresh memory: distinct task-memory chunks are distinct objects (block disjointness is proved per chunk and across chunk indices)",
        "one-worker runs use child_first creation (the default); with per-item child_first = 0 attributes only multisets are compared",
    ]
    if first_bad:
        b, i, t = first_bad
        sb, t2 = minimise(exes, b, i)
        p = common.write_replay(PID, "failing.ops", sb.header() + "\n" + "\n".join(sb.ops) + "\n")
        res.violations.append((p, True, t2 or t))
    elif first_diff:
        b, i, out, mout = first_diff
        p = common.write_replay(PID, "disagreement.ops", b.header() + "\n" + b.ops[i] + "\n")
        res.brk("correspondence", "model `drv_bulk` and %s disagree on `%s` (workers=%d): impl=%r model=%r (replay %s)" % (
            b.prog, b.ops[i], b.workers, (out or "")[:300], (mout or "")[:300], p))


def replay(path):
    b = parse_replay(path)
    if not b:
        print("not a C17 replay file (first line must be `# prog=… workers=… yield=…`):", path)
        return 2
    built, err = build()
    if err:
        print("build failed:", err)
        return 2
    exes, info = built
    outs = run_impl(exes, b)
    bad = []
    for op, out in zip(b.ops, outs):
        print("%-60s -> %s" % (op, (out or "<not run>")[:400]))
        t = oracle(op, out)
        if t:
            bad.append(t)
    for t in bad:
        print("ORACLE:", t)
    if bad:
        print("VIOLATION property=%s replay=%s" % (PID, path))
        return 1
    print("no violation on replay")
    return 0
