"""C14 — myth_once runs the initialiser exactly once and everyone waits for it."""
import os
import re
import shutil

import common
from props import sched_common
from translate_bridge import run_consts

# W K M NC : workers, callers, calls per caller, once-controls (the routine kinds rotate with PSEED)
VARIANTS = [[1, 3, 2, 1], [2, 4, 2, 2], [3, 6, 2, 3], [2, 6, 1, 1], [1, 5, 3, 2], [3, 4, 3, 2],
            [2, 2, 2, 3], [3, 6, 1, 1], [1, 6, 2, 3]]


def variants(rng_seed):
    # PSEED (last argument) shapes the program itself: 6 different programs per shape
    out = []
    for j in range(6):
        for i, v in enumerate(VARIANTS):
            out.append(v + [rng_seed * 1000 + j * 10 + i])
    return out


def build_pthread_variant():
    """the same program calling pthread_once through the ld-wrapped library (src/myth_wrap_pthread.c)"""
    lib, err = common.build_lib(variant="ld")
    if err:
        return None, "ld-wrapped library does not build: " + err
    src = os.path.join(common.HARNESS, "progs", "once_prog.c")
    exe = os.path.join(common.BUILD, "bin", "once_prog_pthread")
    opts = "@" + os.path.join(common.REPO, "src", "myth-ld.opts")
    err = common.cc(src, exe, flags=["-DMYTH_WRAP=MYTH_WRAP_LD", "-DONCE_PTHREAD", "-O1", opts],
                    libs=[lib, "-lpthread", "-ldl"])
    if err:
        return None, "once_prog (pthread_once variant) does not build: " + err
    return exe, None


def pthread_campaign(res, nseeds):
    """pthread_once -> __wrap_pthread_once -> myth_once_body: same oracle, same acceptor"""
    exe, err = build_pthread_variant()
    if err:
        res.brk("build", err)
        return
    work = os.path.join(common.BUILD, "runs", "C14-pthread")
    shutil.rmtree(work, ignore_errors=True)
    rng = common.Splitmix(res.seed * 7919 + 23)
    vs = variants(res.seed + 100)
    n_ok = 0
    accepted = 0
    mismatch = None
    seen = set()
    nontriv = 0
    harness_errors = 0
    for i in range(nseeds):
        args = list(vs[i % len(vs)])
        seed = rng.below(1 << 30) + 1
        r = sched_common.run_once(exe, args, seed, work, "p%d" % i, switch_den=[2, 3, 4, 8][i % 4])
        kind, text = sched_common.judge(r)
        if kind == "harness":
            harness_errors += 1
            if harness_errors > 2:
                raise RuntimeError(text)
            continue
        if kind == "violation":
            d = sched_common.save_replay("C14", r, ["once_prog_pthread"] + args, seed)
            res.violations.append((d, True, "once_prog (pthread_once) %s seed=%s: %s" % (" ".join(map(str, args)), seed, text)))
            return
        n_ok += 1
        m = re.search(r"switches=(\d+)", r["detail"])
        h = common.hashcase(open(r["sched"]).read())
        if h not in seen and m and int(m.group(1)) >= 1:
            nontriv += 1
        seen.add(h)
        ok, text = sched_common.accept("once", r["log"])
        if ok:
            accepted += int(text.split()[1])
        elif mismatch is None:
            mismatch = (text, r, args, seed)
    res.add_cases(nseeds, nontriv, [],
                  rule="C14/pthread_once: the same program calling pthread_once through the ld-wrapped library (--wrap link), same oracle and acceptor")
    res.notes["pthread_once_runs"] = n_ok
    res.notes["accepted_events"] = res.notes.get("accepted_events", 0) + accepted
    if mismatch is None:
        res.cov["traces_validated_against_impl"] += n_ok
    elif not res.violations:
        text, r, args, seed = mismatch
        res.cov["disagreements_checked"] += 1
        d = sched_common.save_replay("C14", r, ["once_prog_pthread"] + args, seed, name="rejected-trace-pthread")
        res.brk("correspondence", "trace acceptor drv_once rejects a pthread_once trace (%s seed=%s): %s [trace kept in %s]" % (
            " ".join(map(str, args)), seed, text, d))


def event_histogram():
    """which branches of myth_once_body the schedules reached (point name + observed value)"""
    hist = {}
    for sub in ("C14", "C14-pthread"):
        d = os.path.join(common.BUILD, "runs", sub)
        if not os.path.isdir(d):
            continue
        for fn in os.listdir(d):
            if not fn.endswith(".log"):
                continue
            for line in open(os.path.join(d, fn)):
                w = line.split()
                if len(w) == 7 and w[0] == "ev" and "ONCE_" in w[3]:
                    k = "%s=%s" % (w[3], w[6])
                    hist[k] = hist.get(k, 0) + 1
    return hist


def run(res):
    vals, err = run_consts()
    if err:
        res.brk("translator", err)
    common.prove(res, drivers=["once"])
    n = 300 if res.tier == "quick" else 3000
    sched_common.campaign(res, "C14", "once_prog", variants(res.seed), n, ["once"],
                          workers_note=", W in 1..3 workers, K<=6 concurrent callers x M<=3 calls on 1-3 once-controls whose init routines yield / block on a mutex held by a helper thread / create+join a thread")
    if not res.violations:
        pthread_campaign(res, 40 if res.tier == "quick" else 400)
    res.notes["once_event_histogram"] = event_histogram()
    if not res.violations:
        sched_common.free_stress(res, "C14", "once", [(4, 4, 500, 2), (2, 3, 800, 1), (8, 8, 300, 0), (3, 6, 500, 3), (1, 3, 200, 1)])
    if res.breaks and not res.violations:
        sched_common.search_more(res, "C14", "once_prog", variants(res.seed + 1), 300)
    res.assumptions += [
        "the init routine is modelled as an arbitrary finite number of steps of the winner that do not touch the once-control (it must not call myth_once on the same control recursively: that self-deadlocks by contract)",
        "schedules are sequentially consistent interleavings at MYTH_VERIF_POINT granularity (one OS thread runs at a time); the plain store of `completed` after the routine is ordered after the routine's writes on x86-TSO (stores are not reordered)",
        "'everyone waits' is stuck-freedom under the fairness assumption that the winner keeps being scheduled until its routine ends (C14_never_disabled + C14_waiters_have_hope), not a temporal-logic liveness theorem",
        "myth_yield inside the wait loop leaves no trace event when no other thread is runnable; the acceptor inserts the model's `yield` label before each repeated wait-loop read",
        "a call started at `completed` performs two reads of the word (entry read + one wait-loop read), not one; it never yields, CASes or runs the routine (C14_later_calls_immediate states exactly that)",
    ]


def replay_with_seed(pid, path, exe=None):
    """like sched_common.replay, but with the recorded CTL_SEED: the controller derives the library's
    own random state (steal victims, myth_yield's coin) from it, so the schedule alone does not
    determine the run"""
    lines = open(os.path.join(path, "args.txt")).read().split("\n")
    args = lines[0].split()
    prog, args = args[0], args[1:]
    seed = 1
    if len(lines) > 1 and lines[1].startswith("seed "):
        try:
            seed = int(lines[1].split()[1])
        except ValueError:
            seed = 1
    if exe is None:
        exe, err = sched_common.build_prog(prog)
        if err:
            print(err)
            return 2
    r = sched_common.run_once(exe, args, seed, os.path.join(common.BUILD, "runs", pid + "-replay"), "replay",
                              replay=os.path.join(path, "schedule.sched"))
    kind, text = sched_common.judge(r)
    print(r["out"])
    if kind == "violation":
        print("  detail: " + text)
        print("VIOLATION property=%s replay=%s" % (pid, path))
        return 1
    print("no violation on replay (%s)" % kind)
    return 0


def replay(path):
    if os.path.isfile(path) and path.endswith("stress.txt") and open(path).readline().startswith("sync_stress_prog"):
        return sched_common.replay_stress("C14", path)
    args = open(os.path.join(path, "args.txt")).readline().split()
    if args and args[0] == "once_prog_pthread":
        exe, err = build_pthread_variant()
        if err:
            print(err)
            return 2
        return replay_with_seed("C14", path, exe=exe)
    return replay_with_seed("C14", path)
