"""C07 — join counter: waiters released exactly when the N-th decrement happens."""
import glob
import os

import common
from props import sched_common

try:
    from props import jc_arith
except ImportError:          # the arithmetic sub-part is provided separately
    jc_arith = None

# args: W N NW TWO NW2 PSEED
VARIANTS = [[1, 0, 2, 0, 0], [2, 1, 1, 0, 0], [2, 2, 2, 0, 0], [2, 3, 3, 1, 2], [3, 7, 3, 1, 2], [3, 8, 2, 0, 0],
            [1, 2, 3, 1, 1], [2, 1, 4, 1, 3], [3, 3, 1, 1, 1], [2, 8, 4, 1, 2], [3, 2, 4, 1, 0], [1, 7, 2, 0, 0],
            [2, 0, 3, 1, 2], [3, 1, 3, 0, 0]]


def variants(rng_seed):
    return [v + [rng_seed * 100 + i] for i, v in enumerate(VARIANTS)]


def trace_stats(work):
    """what the schedules exercised, read from the traces of this run"""
    st = {"wait_returns": 0, "wait_announced": 0, "wait_cas_fail": 0, "dec_cas_fail": 0,
          "dequeue_spin_on_empty": 0, "final_decs_waking": {"0": 0, "1": 0, "2": 0, ">=3": 0},
          "announce_in_flight_at_final_dec": 0}
    byN = {}
    for log in glob.glob(os.path.join(work, "r*.log")):
        objs = {}
        ann_inflight = {}
        lastread = {}
        for line in open(log):
            w = line.split()
            if not w:
                continue
            if w[0] == "obj" and len(w) >= 4 and w[2] == "jc":
                objs[w[1]] = int(w[3])
                byN[w[3]] = byN.get(w[3], 0) + 1
                ann_inflight[w[1]] = set()
                continue
            if w[0] != "ev" or len(w) < 7 or w[4] not in objs:
                continue
            pt, o, v, cur = w[3], w[4], w[6], w[2]
            n = objs[o]
            b = n.bit_length()
            if pt == "JC_WAIT_RETURN":
                st["wait_returns"] += 1
            elif pt == "JC_WAIT_CAS":
                if v == "1":
                    st["wait_announced"] += 1
                    ann_inflight[o].add(cur)
                else:
                    st["wait_cas_fail"] += 1
            elif pt == "BLOCK_CB_ENQ":
                ann_inflight[o].discard(w[5][1:])
            elif pt == "JC_DEC_READ":
                lastread[(o, cur)] = int(v)
            elif pt == "JC_DEC_CAS":
                if v == "0":
                    st["dec_cas_fail"] += 1
                else:
                    s = lastread.get((o, cur), 0)
                    if n > 0 and (s & ((1 << b) - 1)) == n - 1:
                        k = s >> b
                        st["final_decs_waking"]["0" if k == 0 else "1" if k == 1 else "2" if k == 2 else ">=3"] += 1
                        if ann_inflight[o]:
                            st["announce_in_flight_at_final_dec"] += 1
            elif pt == "SPIN_WAKE_DEQ":
                st["dequeue_spin_on_empty"] += 1
    st["wait_returned_without_blocking"] = st["wait_returns"] - st["wait_announced"]
    st["counters_by_N"] = dict(sorted(byN.items(), key=lambda kv: int(kv[0])))
    return st


def run(res):
    common.prove(res, drivers=["jc"])
    n = 300 if res.tier == "quick" else 3000
    out = sched_common.campaign(res, "C07", "jc_prog", variants(res.seed), n, ["jc"], accept_args=["trace"],
                                workers_note=", W in 1..3 workers; two-level dependency DAG on join counters with N in {0,1,2,3,7,8} decrementers, 1..4 waiters per counter arriving before / between / after the decrements, plus a wait issued after everything")
    if out:
        res.notes["jc_trace_distribution"] = trace_stats(out["work"])
    # arithmetic of the packed word (calc_bits, mask, field independence): sequential unit calls of the
    # real functions.  Skipped once a failing schedule has been found (a broken protocol can make the
    # unit calls spin for ever, which that helper can only report as a harness error).
    if res.violations:
        res.notes["jc_arith"] = "skipped: a failing schedule was found first"
    elif jc_arith is not None:
        jc_arith.campaign(res)
    else:
        res.notes["jc_arith"] = "TODO: props/jc_arith.py not present; packed-word arithmetic not tied to the code in this run"
    if not res.violations:
        sched_common.free_stress(res, "C07", "jc", [(4, 5, 300, 2), (2, 3, 400, 1), (8, 8, 200, 0), (3, 1, 400, 2), (1, 4, 200, 1)])
    if res.breaks and not res.violations:
        sched_common.search_more(res, "C07", "jc_prog", variants(res.seed + 1), 300)
    res.assumptions += [
        "the sleep queue's internal spin lock is collapsed to atomic enqueue/dequeue in the model (no schedule point inside the critical section)",
        "schedules are sequentially consistent interleavings at MYTH_VERIF_POINT granularity (one OS thread runs at a time)",
        "the protocol theorems are over an unbounded (Nat) state word; the 64-bit word computes the same fields for every representable (N, waiters) (C07_bv64, JcArith.Representable: N < 2^62, waiters < 2^(63-b))",
        "more than N decrements is the code's 'excess threads' exit(1) and outside the property; the model represents it (dexit) and the counter is untouched by it",
        "'every waiter is released' is proved as safety: the last decrementer dequeues exactly the threads announced or asleep at its CAS and pushes each once, and a quiescent state after N decrements has no sleeper (C07_all_released, C07_no_stuck_sleeper); that a runnable thread eventually runs is the scheduler's fairness (C01/C02)",
        "per-worker run queues are abstracted away (C02): a pushed thread is runnable",
    ]


def replay(path):
    if os.path.isfile(path) and path.endswith("stress.txt") and open(path).readline().startswith("sync_stress_prog"):
        return sched_common.replay_stress("C07", path)
    return sched_common.replay("C07", path)
