"""C02 — runnable threads are never lost or duplicated by the work-stealing queues (DESIGN section 4, C02).

translate -> prove -> build -> (a) sequential differential run of all operations against `drv_wsq seq`
with a reference deque as the property oracle, (b) controlled schedules (seeded random + DFS with a
preemption bound) of 1 owner + <= 3 other participants on ONE real queue; every event trace must be
accepted by the SC model (`drv_wsq accept`, including the fence positions) and the property oracle
(every inserted tag returned exactly once or still in the queue) is applied to the implementation.
A trace whose fences differ from the model's fence positions starts the x86-TSO search
(`drv_wsq tso`) with the observed fence configuration.
"""
import collections
import os
import re

import common
from translate_bridge import run_consts

SIZES = [4, 6, 8, 16]
CFLAGS = ["-DMYTH_WRAP=MYTH_WRAP_VANILLA", "-O1"]
FATAL = ("abort", "diverge", "assert")


# ------------------------------------------------------------------------------------------
# build
# ------------------------------------------------------------------------------------------

def build():
    lib, err = common.build_lib()
    if err:
        return None, "library does not build: " + err
    exes = {}
    for n in SIZES:
        for kind in ("seq", "conc"):
            exe = os.path.join(common.BUILD, "bin", "wsq_%s%d" % (kind, n))
            err = common.cc(os.path.join(common.HARNESS, "wsq_%s.c" % kind), exe,
                            flags=CFLAGS + ["-DMYTH_VERIF_QUEUE_SIZE=%d" % n], libs=[lib, "-lpthread", "-ldl"])
            if err:
                return None, "wsq_%s harness does not build (size %d): %s" % (kind, n, err)
            exes[(kind, n)] = exe
    return exes, None


# ------------------------------------------------------------------------------------------
# (a) sequential
# ------------------------------------------------------------------------------------------

def gen_hist(rng, size, idx):
    """one sequential history (<= 64 ops).  Shapes rotate so that fill levels 0/1/2/size-1/size, both
    storage boundaries and every operation are present."""
    ops = []
    tag = [0]

    def fresh():
        tag[0] += 1
        return tag[0]
    shape = idx % 8
    n = 8 + rng.below(56)
    if shape == 0:      # push-heavy: reaches top == size -> re-centring / full
        w = {"push": 6, "pop": 2, "take": 2, "put": 1, "trypass": 1, "peek": 1, "wpeek": 1, "wtake": 1}
    elif shape == 1:    # base-side heavy: reaches base == 0 -> put's shift / trypass failure
        w = {"push": 1, "pop": 1, "take": 1, "put": 5, "trypass": 4, "pass": 1, "peek": 1, "wpeek": 1, "wtake": 1}
    elif shape == 2:    # around empty / one / two elements
        w = {"push": 3, "pop": 3, "take": 3, "wtake": 2, "peek": 1, "wpeek": 2, "put": 1, "clear": 1}
    elif shape == 3:    # fill to capacity then drain
        for _ in range(size + 1):
            ops.append("%s %d" % (rng.choice(["push", "put"]), fresh()))
        w = {"pop": 3, "take": 3, "wtake": 2, "push": 2, "put": 2, "peek": 1, "wpeek": 1}
    elif shape == 4:    # steal cache: wpeek vs pop / wtake
        w = {"push": 3, "wpeek": 4, "pop": 2, "wtake": 3, "take": 1, "trypass": 1}
    else:
        w = {"push": 4, "pop": 3, "take": 3, "wtake": 2, "peek": 1, "wpeek": 1, "trypass": 2, "pass": 1, "put": 2,
             "clear": 1}
    names = [k for k, v in w.items() for _ in range(v)]
    while len(ops) < n:
        o = rng.choice(names)
        if o in ("push", "put", "trypass", "pass"):
            ops.append("%s %d" % (o, fresh()))
        elif o == "wtake":
            ops.append("wtake %d" % rng.below(3))
        else:
            ops.append(o)
        if rng.chance(1, 9):
            ops.append("dump")
    ops.append("dump")
    return ops


def seq_oracle(size, hist, outs):
    """reference deque applied to the implementation's own outputs.  Returns None or text."""
    d = collections.deque()
    for i, (op, out) in enumerate(zip(hist, outs)):
        w = op.split()
        r = out.split()[0] if out else ""
        if w[0] == "push":
            d.append(int(w[1]))
        elif w[0] in ("put", "pass"):
            d.appendleft(int(w[1]))
        elif w[0] == "trypass":
            if r == "ok1":
                d.appendleft(int(w[1]))
            elif r != "ok0":
                return "op %d `%s`: unparsable result %r" % (i, op, out)
        elif w[0] == "pop":
            exp = d.pop() if d else 0
            if r != str(exp):
                return "op %d pop returned %s, the deque's last element is %d (contents %s)" % (i, r, exp, list(d))
        elif w[0] == "take" or (w[0] == "wtake" and w[1] != "0"):
            exp = d.popleft() if d else 0
            if r != str(exp):
                return "op %d `%s` returned %s, the deque's first element is %d (contents %s)" % (i, op, r, exp, list(d))
        elif w[0] == "wtake":
            if r != "0":
                return "op %d declined wtake returned %s" % (i, r)
        elif w[0] == "peek":
            exp = d[0] if d else 0
            if r != str(exp):
                return "op %d peek returned %s, first element is %d" % (i, r, exp)
        elif w[0] == "dump":
            got = [int(x) for x in out.split()[1:]]
            if got != list(d):
                return "op %d dump: slots [base,top) hold %s, every thread made runnable and not yet resumed is %s" % (i, got, list(d))
        m = re.search(r"top=(-?\d+) base=(-?\d+)", out)
        if m and not (0 <= int(m.group(2)) <= int(m.group(1)) <= size):
            return "op %d `%s`: indices outside the storage: %s" % (i, op, out)
    return None


def run_lines(exe, lines, timeout=120):
    rc, out, err = common.sh([exe], inp="\n".join(lines) + "\n", timeout=timeout)
    return rc, out.splitlines(), err


def sequential(res, exes, nhist):
    rng = common.Splitmix(res.seed * 104729 + 3)
    hist_all = {}
    opmix = collections.Counter()
    kinds = collections.Counter()
    total, nontriv, seen = 0, 0, set()
    for n in SIZES:
        hists = []
        cdir = os.path.join(common.CORPUS, "C02")
        if os.path.isdir(cdir):
            for fn in sorted(os.listdir(cdir)):
                if fn.endswith(".ops") and fn.startswith("s%d_" % n):
                    hists.append([l.strip() for l in open(os.path.join(cdir, fn)) if l.strip() and not l.startswith("#")])
        for i in range(nhist // len(SIZES)):
            hists.append(gen_hist(rng, n, i))
        # model first: drop the operations whose outcome is fatal (abort / diverge / assertion); they leave
        # the model state unchanged, so the remaining history behaves identically; pre-fatal states stay in.
        lines = []
        for h in hists:
            lines.append("reset")
            lines += h
        mouts = common.driver("wsq", lines, args=["seq", str(n)])
        if len(mouts) != len(lines):
            res.brk("correspondence", "drv_wsq seq answered %d lines for %d ops" % (len(mouts), len(lines)))
            return
        keep = [not mo.split()[0] in FATAL for mo in mouts]
        def prev_state(i):
            j = i - 1
            while j >= 0 and "top=" not in mouts[j]:
                j -= 1
            return mouts[j] if j >= 0 else ""
        dropped = [(lines[i], prev_state(i)) for i in range(len(lines)) if not keep[i]]
        for op, prev in dropped:
            kinds["pre-" + (op.split()[0]) + "-fatal"] += 1
            m = re.search(r"top=(-?\d+) base=(-?\d+)", prev)
            t, b = (int(m.group(1)), int(m.group(2))) if m else (None, None)
            w = op.split()[0]
            okf = (w in ("push", "put") and t == n and b == 0) or (w == "pass" and b == 0) or (w == "clear" and t != b)
            if not okf:
                res.brk("correspondence", "model reports a fatal outcome for `%s` in state %r which is not the code's guard" % (op, prev))
        flines = [l for l, k in zip(lines, keep) if k]
        fm = [l for l, k in zip(mouts, keep) if k]
        rc, iouts, err = run_lines(exes[("seq", n)], flines)
        # split back into histories
        cur, curo, curm = None, None, None
        per = []
        for l, io, mo in zip(flines, iouts + ["<none>"] * (len(flines) - len(iouts)), fm):
            if l == "reset":
                cur, curo, curm = [], [], []
                per.append((cur, curo, curm))
            else:
                cur.append(l); curo.append(io); curm.append(mo)
        for h, io, mo in per:
            total += 1
            for o in h:
                opmix[o.split()[0]] += 1
            tops = [int(x) for x in re.findall(r"top=(-?\d+)", " ".join(mo))]
            bases = [int(x) for x in re.findall(r"base=(-?\d+)", " ".join(mo))]
            hit_hi = any(t == n for t in tops)
            hit_lo = any(b == 0 for b in bases)
            if hit_hi:
                kinds["reached top==size"] += 1
            if hit_lo:
                kinds["reached base==0"] += 1
            hh = common.hashcase([n] + h)
            if hh not in seen and (hit_hi or hit_lo) and any(o == "pop" for o in h) and any(o.startswith(("take", "wtake")) for o in h):
                nontriv += 1
            seen.add(hh)
            bad = seq_oracle(n, h, io)
            if bad or rc != 0 and "<none>" in io:
                if not bad:
                    bad = "implementation stopped (rc=%s): %s" % (rc, " ".join(err.split()[:30]))

                def fails(sub, n=n):
                    r2, o2, e2 = run_lines(exes[("seq", n)], ["reset"] + sub)
                    return r2 != 0 or seq_oracle(n, sub, o2[1:]) is not None
                small = common.ddmin(h, fails)
                p = common.write_replay(res.pid, "failing_s%d.ops" % n, "# size %d\n" % n + "\n".join(small) + "\n")
                res.violations.append((p, True, "sequential history on capacity %d: %s" % (n, bad)))
                return
            if io != mo:
                j = next((j for j in range(min(len(io), len(mo))) if io[j] != mo[j]), min(len(io), len(mo)))
                p = common.write_replay(res.pid, "disagreement_s%d.ops" % n, "# size %d\n" % n + "\n".join(h[:j + 1]) + "\n")
                res.brk("correspondence", "sequential model `drv_wsq seq %d` and harness/wsq_seq.c disagree at op %d `%s`: impl=%r model=%r (history in %s)" % (
                    n, j, h[j] if j < len(h) else "?", io[j] if j < len(io) else "<none>", mo[j] if j < len(mo) else "<none>", p))
                res.cov["disagreements_checked"] += 1
                return
        hist_all[n] = len(per)
        if rc != 0:
            res.brk("correspondence", "wsq_seq%d exited rc=%s: %s" % (n, rc, err[-300:]))
            return
    res.add_cases(total, nontriv, [gen_hist(common.Splitmix(res.seed), 4, 0)[:14]],
                  rule="sequential histories of all 10 operations (<=64 ops, capacities 4/6/8/16, 8 shape families; fatal ops removed by the model, pre-fatal states kept); non-trivial = reaches top==size or base==0 and contains both a pop and a take; distinct by hash")
    res.cov["traces_validated_against_impl"] += total
    res.notes["seq_op_histogram"] = dict(opmix)
    res.notes["seq_kinds"] = dict(kinds)
    res.notes["seq_histories_per_capacity"] = hist_all


# ------------------------------------------------------------------------------------------
# (b) concurrent
# ------------------------------------------------------------------------------------------

def gen_scenario(rng, size, idx):
    """returns (scenario_text, nparticipants).  Total insertions never exceed the capacity (the two
    abort() guards are excluded), fill levels 0/1/2/size-1/size rotate."""
    fill = [0, 1, 2, size - 1, size, 3 % size][idx % 6]
    nput = rng.below(fill + 1) if rng.chance(1, 3) else 0
    npush = fill - nput
    room = size - fill
    nth = 1 + rng.below(3)
    tag = [0]

    def fresh():
        tag[0] += 1
        return tag[0]
    owner = []
    nown = 2 + rng.below(5)
    for _ in range(nown):
        c = rng.below(10)
        if c < 4 and room > 0:
            owner.append("push %d" % fresh()); room -= 1
        elif c < 5 and room > 0:
            owner.append("put %d" % fresh()); room -= 1
        else:
            owner.append("pop")
    lines = ["prefill %d %d" % (npush, nput), "p0 " + " ".join(owner)]
    for t in range(nth):
        ops = []
        for _ in range(1 + rng.below(3)):
            c = rng.below(12)
            if c < 4:
                ops.append("take")
            elif c < 7:
                ops.append("wtake %d" % rng.below(3))
            elif c < 9 and room > 0:
                ops.append("trypass %d" % fresh()); room -= 1
            elif c < 10:
                ops.append("peek")
            elif c < 11:
                ops.append("wpeek")
            else:
                ops.append("take")
        lines.append("p%d " % (t + 1) + " ".join(ops))
    return "\n".join(lines) + "\n", nth + 1


RES_RE = re.compile(r"RES (\d+) sched=(\S*) bound=(-?\d+) preempts=(\d+) locked=(\d+) ins=(\S*) ret=(\S*) left=(\S*) top=(-?\d+) base=(-?\d+)")


def ints(s):
    return [int(x) for x in s.split(",") if x != ""]


def conc_oracle(m):
    """the property on the implementation: every inserted tag is returned exactly once or still in the
    queue, nothing else is; the lock is free at the end."""
    ins, ret, left = ints(m.group(6)), ints(m.group(7)), ints(m.group(8))
    if int(m.group(5)) != 0:
        return "queue lock still held when every participant has finished"
    if any(x <= 0 for x in left):
        return "slot inside [base,top) holds NULL / a foreign pointer: left=%s" % left
    cnt = collections.Counter(ret + left)
    for e in ins:
        if cnt[e] == 0:
            return "thread %d was made runnable and is LOST: never returned by pop/take and not in the queue (ret=%s left=%s)" % (e, ret, left)
        if cnt[e] > 1:
            return "thread %d was handed out %d times (ret=%s left=%s): DUPLICATED" % (e, cnt[e], ret, left)
    extra = [e for e in cnt if e not in set(ins)]
    if extra:
        return "thread(s) %s returned / present but never inserted" % extra
    return None


def fence_cfg(trace_lines):
    """which of the four modelled fences the implementation executed (observed in the event trace):
    push rbarrier after `pu0`, pop rwbarrier after `po1`, take rwbarrier after `tk1`, unlock's fence before `unl`"""
    seen = {"pu0": [0, 0], "po1": [0, 0], "tk1": [0, 0], "unl": [0, 0]}
    last = {}       # participant -> (name, fences since)
    for l in trace_lines:
        w = l.split()
        if not w:
            continue
        if w[0] == "E":
            p, name = w[1], w[2]
            prev = last.get(p)
            if prev and prev[0] in ("pu0", "po1", "tk1"):
                seen[prev[0]][0] += 1
                seen[prev[0]][1] += 1 if prev[1] > 0 else 0
            if name == "unl":
                seen["unl"][0] += 1
                seen["unl"][1] += 1 if (prev and prev[1] > 0) else 0
            last[p] = (name, 0)
        elif w[0] == "F" and w[2] == "1":
            p = w[1]
            if p in last:
                last[p] = (last[p][0], last[p][1] + 1)
        elif w[0] in ("R", "C"):
            p = w[1]
            prev = last.get(p)
            if prev and prev[0] in ("pu0", "po1", "tk1") and w[0] == "R":
                pass
    bits = ""
    for k in ("pu0", "po1", "tk1", "unl"):
        tot, withf = seen[k]
        bits += "1" if (tot == 0 or withf == tot) else "0"
    return bits


TSO_SCENARIOS = [
    (8, "push1,push2,push3,pop", ["take,take,take"]),
    (8, "push1,push2,pop,pop", ["take", "take"]),
    (4, "push1,pop,push2,pop", ["take,take"]),
    (8, "push1,push2,push3,pop,pop", ["take,take"]),
    (4, "push1,pop", ["take"]),
]


def tso_search(cfgbits, limit=400000):
    """run the executable x86-TSO model with the observed fence configuration"""
    for size, oscr, tscrs in TSO_SCENARIOS:
        out = common.driver("wsq", [], args=["tso", str(size), cfgbits, str(limit), oscr] + tscrs, timeout=300)
        if out and out[0].startswith("VIOLATION"):
            return (size, oscr, tscrs, out)
    return None


def run_conc(exe, scenario, args, timeout=600):
    rc, out, err = common.sh([exe] + args, inp=scenario, timeout=timeout)
    if rc != 0:
        raise RuntimeError("wsq_conc failed rc=%s: %s\nscenario:\n%s args=%s" % (rc, err[-400:], scenario, args))
    return out.splitlines()


def judge(res, size, scenario, lines, stats, mode):
    """acceptor + oracle over the runs in `lines`.  Returns False when the campaign should stop (a concrete
    failing schedule was found).  After the first rejected trace the campaign goes on as a violation search
    (oracle only)."""
    vmap = {}
    if not stats.get("broken"):
        verdicts = common.driver("wsq", lines, args=["accept", str(size)], timeout=900)
        for v in verdicts:
            w = v.split()
            if w and w[0] == "ok":
                vmap[int(w[1])] = None
            elif w and w[0] == "MISMATCH":
                vmap[int(w[2])] = v
    runs = {}
    cur = None
    for l in lines:
        if l.startswith("RUN "):
            cur = int(l.split()[1]); runs[cur] = []
        elif l.startswith("END "):
            cur = None
        elif cur is not None:
            runs[cur].append(l)
    for l in lines:
        m = RES_RE.match(l)
        if not m:
            continue
        rid = int(m.group(1))
        stats["runs"] += 1
        stats["preempt_hist"][min(int(m.group(4)), 40) // 5 * 5] += 1
        stats["events"] += len(runs.get(rid, []))
        bad = conc_oracle(m)
        if bad:
            rp = common.write_replay(res.pid, "failing_schedule.scn",
                                     "# size %d\n# replay %s %s\n%s" % (size, m.group(2) or "0", m.group(3), scenario))
            res.violations.append((rp, True, "capacity %d, %s schedule [%s]: %s" % (size, mode, m.group(2), bad)))
            return False
        if stats.get("broken"):
            continue
        if rid not in vmap:
            raise RuntimeError("acceptor gave no verdict for run %d" % rid)
        if vmap[rid]:
            stats["mismatch"] += 1
            stats["broken"] = True
            cfgbits = fence_cfg(runs.get(rid, []))
            rp = common.write_replay(res.pid, "rejected_trace.scn",
                                     "# size %d\n# replay %s %s\n%s# %s\n" % (size, m.group(2) or "0", m.group(3), scenario, vmap[rid]) +
                                     "".join("# " + x + "\n" for x in runs.get(rid, [])[:400]))
            if cfgbits != "1111":
                hit = tso_search(cfgbits)
                if hit:
                    sz, oscr, tscrs, out = hit
                    rp2 = common.write_replay(res.pid, "tso_missing_fence.txt",
                                              "fence configuration observed in the implementation's traces (push-rbarrier, pop-rwbarrier, take-rwbarrier, unlock-fence) = %s\n"
                                              "x86-TSO model, capacity %d, owner script %s, thief scripts %s:\n%s\n\nimplementation trace showing the fence absent (%s):\n%s\n" % (
                                                  cfgbits, sz, oscr, tscrs, "\n".join(out), vmap[rid], "\n".join(runs.get(rid, [])[:200])))
                    res.violations.append((rp2, True, "fences executed by the code = %s (model: 1111); under x86-TSO store buffering: %s" % (cfgbits, out[0])))
                    return False
            res.brk("correspondence", "SC model rejects an implementation trace (capacity %d, %s): %s (trace in %s)" % (size, mode, vmap[rid], rp))
            res.cov["disagreements_checked"] += 1
            continue
        stats["accepted"] += 1
    return True


SEARCH_SCENARIOS = [
    "prefill 1 0\np0 pop\np1 take\n",
    "prefill 2 0\np0 pop pop\np1 take take\n",
    "prefill 2 0\np0 pop\np1 take\np2 take\n",
    "prefill 3 0\np0 pop pop\np1 take\np2 wtake 1\n",
    "prefill 1 0\np0 pop push 5 pop\np1 take wtake 1\np2 trypass 7\n",
    "prefill 0 0\np0 push 1 pop push 2 pop\np1 take take\n",
    "prefill 0 1\np0 pop put 3 pop\np1 wtake 0 take\np2 trypass 8 take\n",
    "prefill 2 0\np0 pop push 4\np1 wtake 0 wtake 1\np2 wpeek take\n",
]


def violation_search(res, exes, stats):
    """the tie to the code is broken: search the real code for a schedule on which the property itself fails"""
    for size in (4, 6):
        for scn in SEARCH_SCENARIOS:
            lines = run_conc(exes[("conc", size)], scn, ["dfs", "3", "6000"], timeout=900)
            stats["search_runs"] = stats.get("search_runs", 0) + sum(1 for l in lines if l.startswith("RUN "))
            if not judge(res, size, scn, lines, stats, "violation-search dfs bound=3"):
                return


def load_corpus_scn():
    out = []
    cdir = os.path.join(common.CORPUS, "C02")
    if os.path.isdir(cdir):
        for fn in sorted(os.listdir(cdir)):
            if fn.endswith(".scn"):
                out.append((fn, parse_scn(os.path.join(cdir, fn))))
    return out


def parse_scn(path):
    size, sched, bound, body = 4, "0", "-1", []
    for l in open(path):
        if l.startswith("# size"):
            size = int(l.split()[2])
        elif l.startswith("# replay"):
            w = l.split()
            sched, bound = w[2], (w[3] if len(w) > 3 else "-1")
        elif l.startswith("#"):
            continue
        elif l.strip():
            body.append(l.rstrip("\n"))
    return size, sched, bound, "\n".join(body) + "\n"


def concurrent(res, exes):
    quick = res.tier == "quick"
    rng = common.Splitmix(res.seed * 15485863 + 7)
    stats = {"runs": 0, "accepted": 0, "mismatch": 0, "events": 0, "preempt_hist": collections.Counter(),
             "scenarios": 0, "dfs_runs": 0, "dfs_exhausted": 0}
    shapes = collections.Counter()
    seen, nontriv = set(), 0
    sample = None
    # corpus first
    for fn, (size, sched, bound, scn) in load_corpus_scn():
        if size not in SIZES:
            continue
        lines = run_conc(exes[("conc", size)], scn, ["replay", sched, bound])
        stats["scenarios"] += 1
        if not judge(res, size, scn, lines, stats, "corpus " + fn):
            return stats
        # plus a few random schedules of the corpus scenario
        lines = run_conc(exes[("conc", size)], scn, ["random", str(res.seed), "6", "-1"])
        if not judge(res, size, scn, lines, stats, "corpus-random " + fn):
            return stats
    nscen = 60 if quick else 240
    per = 12 if quick else 40
    for i in range(nscen):
        size = SIZES[i % len(SIZES)]
        scn, nparts = gen_scenario(rng, size, i // len(SIZES))
        if sample is None:
            sample = scn.split("\n")
        stats["scenarios"] += 1
        shapes["participants=%d" % nparts] += 1
        shapes["prefill(push,put)=" + scn.split("\n")[0].split(" ", 1)[1]] += 1
        bound = [-1, 2, 3][i % 3]
        lines = run_conc(exes[("conc", size)], scn, ["random", str(res.seed * 1000 + i), str(per), str(bound)])
        h = common.hashcase([size, scn])
        if h not in seen and nparts >= 2 and "pop" in scn and ("take" in scn):
            nontriv += 1
        seen.add(h)
        if not judge(res, size, scn, lines, stats, "random bound=%d" % bound):
            return stats
    # DFS with a preemption bound
    ndfs = 4 if quick else 14
    budget = 3000 if quick else 12000
    for i in range(ndfs):
        size = [4, 6][i % 2]
        scn, nparts = gen_scenario(rng, size, i)
        stats["scenarios"] += 1
        pb = 2 if quick else 3
        lines = run_conc(exes[("conc", size)], scn, ["dfs", str(pb), str(budget)], timeout=900)
        stats["dfs_runs"] += sum(1 for l in lines if l.startswith("RUN "))
        if any(l.startswith("DFS exhausted") for l in lines):
            stats["dfs_exhausted"] += 1
        if not judge(res, size, scn, lines, stats, "dfs bound=%d" % pb):
            return stats
    if stats.get("broken") and not res.violations:
        violation_search(res, exes, stats)
        res.notes["violation_search_runs"] = stats.get("search_runs", 0)
    res.add_cases(stats["runs"], nontriv, [sample[:5]] if sample else [],
                  rule="controlled schedules of 1 owner + 1..3 other participants on one real queue (capacities 4/6/8/16, fill 0/1/2/size-1/size, seeded random with preemption bound -1/2/3 and DFS with bound 2 (quick) / 3 (thorough)); evaluations = schedules; non-trivial = distinct scenario with >= 2 participants, a pop and a take")
    res.cov["traces_validated_against_impl"] += stats["accepted"]
    res.notes["conc_participants"] = {k: v for k, v in shapes.items() if v}
    res.notes["conc_preemptions_per_schedule_histogram"] = {str(k): v for k, v in sorted(stats["preempt_hist"].items())}
    res.notes["conc_events_total"] = stats["events"]
    res.notes["conc_dfs"] = {"runs": stats["dfs_runs"], "scenarios_exhausted": stats["dfs_exhausted"]}
    return stats


# ------------------------------------------------------------------------------------------

def free_running(res):
    """real OS threads on one real queue (harness/wsq_stress.c: owner push/pop/put, thieves take + trypass back, a
    peeker), and yielding threads on one worker of the whole library (sync_stress_prog yieldfair): what needs two
    participants inside an uninstrumented window, or is a matter of which end of the queue a yield re-inserts at"""
    lib, err = common.build_lib()
    if err:
        res.brk("build", "library does not build: " + err)
        return
    exe = os.path.join(common.BUILD, "bin", "wsq_stress")
    e = common.cc(os.path.join(common.HARNESS, "wsq_stress.c"), exe, flags=CFLAGS, libs=[lib, "-lpthread", "-ldl"])
    if e:
        res.brk("build", "wsq_stress does not build: " + e[-400:])
        return
    shapes = [(3, 32, 300), (7, 64, 300), (1, 8, 300), (2, 1, 300), (14, 128, 300)]
    if res.tier == "thorough":
        shapes = shapes * 6
    rng = common.Splitmix(res.seed * 4099 + 3)
    done = 0
    for (nth, tok, ms) in shapes:
        args = [nth, tok, ms, rng.below(1 << 30) + 1]
        rc, out, er = common.sh([exe] + [str(a) for a in args], timeout=60)
        done += 1
        if rc == 0 and "RESULT ok" in out:
            continue
        what = "hang (no result within 60 s)" if rc == -9 else ((out.strip().splitlines() or [""])[-1] or "crash rc=%s %s" % (rc, er.strip()[-200:]))
        rp = common.write_replay("C02", "stress.txt", "wsq_stress %s\n# free running: NTHIEVES TOKENS MILLISECONDS SEED (real OS threads on one real queue)\n%s\n" % (" ".join(map(str, args)), what))
        res.violations.append((rp, True, "free-running queue stress (owner + %d thieves taking and passing back, %d tokens): %s" % (nth, tok, what)))
        return
    res.add_cases(done, done, [], rule="C02/free running: wsq_stress NTHIEVES TOKENS MS SEED — owner push/pop/put, thieves take + trypass, a peeker, on one real queue; every token held by at most one participant, all tokens popped exactly once at the end")
    from props import sched_common
    sched_common.free_stress(res, "C02", "yieldfair", [(1, 2, 1, 0), (1, 3, 4, 0), (1, 5, 2, 0), (2, 4, 3, 0)])


def run(res):
    vals, err = run_consts()
    if err:
        res.brk("translator", err)
    common.prove(res, drivers=["wsq"])
    exes, err = build()
    if err:
        res.brk("build", err)
        return
    sequential(res, exes, 2000 if res.tier == "quick" else 12000)
    if res.violations:
        return
    concurrent(res, exes)
    if not res.violations:
        free_running(res)
    # the TSO model with the code's fences must be violation-free on the standard scenarios (sanity of the search itself)
    hit = tso_search("1111", limit=200000)
    if hit:
        res.brk("correspondence", "x86-TSO model with all fences reports %s" % hit[3][0])
    res.assumptions += [
        "controlled runs execute one participant at a time (sequentially consistent interleavings at MYTH_VERIF_POINT granularity); store-buffer behaviours are covered by the x86-TSO model and tied to the code through the fence events of the traces",
        "the two reads of a thief's quick check and accesses merged in the model (base under the lock, the owner's own top, memmove) are atomic in controlled runs; the model interleaves the quick-check reads",
        "elements are tagged dummy thread descriptors; inserted tags are pairwise distinct (hypothesis of C02_no_loss_no_dup_sc)",
        "abort() / assertion outcomes are excluded from generated inputs (total insertions <= capacity, clear only on an empty queue); the states just before them are included",
        "termination on any number of workers (the liveness half of the property text) is not proved: it is a probabilistic statement about victim selection; the safety half (never forgotten: a quiescent queue holds exactly the not-yet-resumed threads) is C02_exactly_once",
    ]


def replay(path):
    if path.endswith("stress.txt"):
        first = open(path).readline().split()
        if first and first[0] == "sync_stress_prog":
            from props import sched_common
            return sched_common.replay_stress("C02", path)
        lib, err = common.build_lib()
        exe = os.path.join(common.BUILD, "bin", "wsq_stress")
        e = err or common.cc(os.path.join(common.HARNESS, "wsq_stress.c"), exe, flags=CFLAGS, libs=[lib, "-lpthread", "-ldl"])
        if e:
            print("build failed:", e)
            return 2
        bad = 0
        for _ in range(5):
            rc, out, er = common.sh([exe] + first[1:], timeout=60)
            print(out.strip() or "rc=%s" % rc)
            if rc != 0 or "RESULT ok" not in out:
                bad += 1
        if bad:
            print("VIOLATION property=C02 replay=%s" % path)
            return 1
        print("no violation on replay (5 free runs)")
        return 0
    exes, err = build()
    if err:
        print("build failed:", err)
        return 2
    if path.endswith(".ops"):
        size = 4
        hist = []
        for l in open(path):
            if l.startswith("# size"):
                size = int(l.split()[2])
            elif l.strip() and not l.startswith("#"):
                hist.append(l.strip())
        rc, outs, err = run_lines(exes[("seq", size)], ["reset"] + hist)
        outs = outs[1:]
        for o, r in zip(hist, outs):
            print("%-16s -> %s" % (o, r))
        bad = seq_oracle(size, hist, outs) or (("implementation stopped rc=%s %s" % (rc, err[-200:])) if rc != 0 else None)
        if bad:
            print("ORACLE:", bad)
            print("VIOLATION property=C02 replay=%s" % path)
            return 1
        print("no violation on replay")
        return 0
    if path.endswith(".scn"):
        size, sched, bound, scn = parse_scn(path)
        lines = run_conc(exes[("conc", size)], scn, ["replay", sched, bound])
        for l in lines:
            print(l)
        for l in lines:
            m = RES_RE.match(l)
            if m:
                bad = conc_oracle(m)
                if bad:
                    print("ORACLE:", bad)
                    print("VIOLATION property=C02 replay=%s" % path)
                    return 1
        print("no violation on replay")
        return 0
    print(open(path).read())
    return 1
