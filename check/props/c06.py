"""C06 — barrier: nobody passes round k before all N arrived; one serial thread per round."""
import glob
import os
import re

import common
from props import sched_common

# args: W N R PSEED
VARIANTS = [[1, 1, 3], [1, 3, 3], [2, 2, 5], [2, 3, 4], [3, 4, 3], [2, 5, 2], [3, 6, 2], [3, 3, 5],
            [1, 4, 2], [2, 4, 4], [3, 2, 5], [2, 6, 3]]


def variants(rng_seed):
    return [v + [rng_seed * 100 + i] for i, v in enumerate(VARIANTS)]


def trace_stats(work):
    """distribution of what the schedules exercised, read from the traces of this run"""
    st = {"bar_cas_fail": 0, "stack_push_cas_fail": 0, "stack_pop_cas_fail": 0, "pop_spin_on_empty": 0,
          "returns": 0, "serial_returns": 0, "racer_arrivals_during_release": 0, "traces_with_stack_points": 0}
    byN = {}
    for log in glob.glob(os.path.join(work, "r*.log")):
        pend = None
        releasing = False
        fine = False
        n = None
        for line in open(log):
            w = line.split()
            if not w:
                continue
            if w[0] == "obj" and len(w) >= 4 and w[2] == "barrier":
                n = w[3]
                continue
            if w[0] == "ptname":
                pend = w[1]
                continue
            if w[0] == "note" and len(w) >= 7 and w[3] == "pass" and w[6] == "1":
                releasing = False          # (traces without BAR_RETURN events)
            if w[0] != "ev" or len(w) < 7:
                continue
            pt = pend if w[3] == "PT?" and pend else w[3]
            pend = None
            v = w[6]
            if pt.startswith("STK_"):
                fine = True
            if pt == "BAR_CAS" and v == "0":
                st["bar_cas_fail"] += 1
            elif pt == "STK_PUSH_CAS" and v == "0":
                st["stack_push_cas_fail"] += 1
            elif pt == "STK_POP_CAS" and v == "0":
                st["stack_pop_cas_fail"] += 1
            elif pt == "SPIN_WAKE_DEQ" and w[4].startswith("o"):
                st["pop_spin_on_empty"] += 1
            elif pt == "BAR_RESET":
                releasing = True
            elif pt == "BAR_RETURN":
                st["returns"] += 1
                if v == "1":
                    st["serial_returns"] += 1
                    releasing = False
            elif pt == "BAR_CAS" and v == "1" and releasing:
                st["racer_arrivals_during_release"] += 1
        if fine:
            st["traces_with_stack_points"] += 1
        if n is not None:
            byN[n] = byN.get(n, 0) + 1
    st["runs_by_N"] = dict(sorted(byN.items()))
    return st


def free_running(res, exe):
    """the same program and oracle on real workers, without the controller: many rounds, with extra threads
    that only yield, so that yielding / blocked participants really migrate between workers"""
    shapes = [(6, 6, 20000, 6), (3, 4, 20000, 2), (2, 2, 30000, 1), (4, 1, 2000, 2), (8, 8, 10000, 0), (2, 5, 20000, 3)]
    if res.tier == "thorough":
        shapes = shapes * 5
    rng = common.Splitmix(res.seed * 31 + 7)
    done = 0
    for (w, n, r, noise) in shapes:
        ps = rng.below(1 << 30) + 1
        args = [w, n, r, ps, 1, noise]
        rc, out, err = common.sh([exe] + [str(a) for a in args], timeout=60)
        done += 1
        if rc == 0 and "RESULT ok" in out:
            continue
        what = "hang (no result within 60 s)" if rc == -9 else ((out.strip().splitlines() or [""])[-1] or ("crash rc=%s %s" % (rc, err.strip()[-200:])))
        rp = common.write_replay("C06", "stress.txt", "barrier_prog %s\n# free running (no controller): %d workers, %d participants, %d rounds, %d yielding bystanders\n%s\n" % (
            " ".join(map(str, args)), w, n, r, noise, what))
        res.violations.append((rp, True, "free-running barrier stress with %d workers, N=%d, %d rounds, %d yielding bystanders: %s" % (w, n, r, noise, what)))
        break
    res.add_cases(done, done, [], rule="C06/free running: barrier_prog W N R PSEED 1 NOISE on real workers without the controller (per-round arrival counters, serial count, join values; hang = 60 s timeout); every run counts")
    res.notes["free_running_runs"] = done


def run(res):
    common.prove(res, drivers=["barrier"])
    n = 300 if res.tier == "quick" else 3000
    out = sched_common.campaign(res, "C06", "barrier_prog", variants(res.seed), n, ["barrier"],
                                workers_note=", W in 1..3 workers, N in 1..6 participants x up to 5 consecutive rounds on one barrier, racers re-entering immediately")
    if out:
        res.notes["barrier_trace_distribution"] = trace_stats(out["work"])
    if out and not res.violations:
        free_running(res, out["exe"])
    if res.breaks and not res.violations:
        sched_common.search_more(res, "C06", "barrier_prog", variants(res.seed + 1), 300)
    res.assumptions += [
        "well-usedness: exactly N distinct participants use a barrier initialised for N, each calling wait again only after its previous wait returned (hypothesis WellUsed of every theorem; shown satisfiable and shown necessary by examples)",
        "schedules are sequentially consistent interleavings at MYTH_VERIF_POINT granularity (one OS thread runs at a time); the read of x->next in myth_sleep_stack_pop is modelled together with the preceding read of top",
        "'every participant returns' is proved as safety: after the last arriver's release all other participants of the round are in a run queue, and a quiescent state has sleepers only of an incomplete round (C06_all_return, C06_no_stuck_sleeper); that a runnable thread eventually runs is the scheduler's fairness (C01/C02)",
        "per-worker run queues are abstracted away (C02): a pushed thread is runnable; workers do not appear in the model because a label is enabled whichever worker executes it",
    ]


def replay(path):
    if os.path.isfile(path) and path.endswith("stress.txt"):
        args = open(path).readline().split()[1:]
        exe, err = sched_common.build_prog("barrier_prog")
        if err:
            print(err)
            return 2
        bad = 0
        for _ in range(5):
            rc, out, e = common.sh([exe] + args, timeout=60)
            print(out.strip() or ("rc=%s" % rc))
            if rc != 0 or "RESULT ok" not in out:
                bad += 1
        if bad:
            print("VIOLATION property=C06 replay=%s" % path)
            return 1
        print("no violation on replay (5 free runs)")
        return 0
    return sched_common.replay("C06", path)
