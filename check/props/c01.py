"""C01 — every created thread runs exactly once and join delivers its result."""
import common
from props import life_common, sched_common


def run(res):
    common.prove(res, drivers=["join"])
    n = 300 if res.tier == "quick" else 3000
    life_common.campaign(res, "C01", ["join"], n)
    if res.breaks and not res.violations:
        sched_common.search_more(res, "C01", "life_prog", life_common.variants(res.seed + 1), 300)
    res.assumptions += [
        "exactly-once dispatch of a runnable thread by the run queues is C02; stack/register contents across switches is C03",
        "visibility of the child's writes to the joiner: sequentially consistent in the controlled schedules; on x86-TSO it follows from FIFO store buffers (the child's writes precede its FREE_READY2 store, and the unlock's xchg drains the buffer) - argued, not machine-checked",
        "attribute model: fields of an attribute object are 'unset' until written; which fields attr_init writes / create reads is transcribed by hand and tied by creating threads from attribute objects initialised over 0xAA-poisoned memory",
    ]


def replay(path):
    return sched_common.replay("C01", path)
