"""C13 — each thread is reaped exactly once and reaping recycles its resources."""
import re

import common
from props import life_common, sched_common


def soak(res):
    exe, err = sched_common.build_prog("soak_prog")
    if err:
        res.brk("build", err)
        return
    n = 70000 if res.tier == "quick" else 1400000
    rc, out, e = common.sh([exe, str(n)], timeout=600)
    m = re.search(r"^RESULT (\w+) (.*)$", out, re.M)
    res.notes["soak"] = m.group(0) if m else (out + e)[-200:]
    res.add_cases(1, 1, [{"soak_cycles": n}], rule="one-worker soak of create/reap cycles rotating through all 7 reaping modes; counts distinct blocks handed out and RSS growth")
    if not m or m.group(1) != "ok":
        p = common.write_replay("C13", "soak.txt", "soak_prog %d\n%s\n" % (n, (out + e)[-500:]))
        res.violations.append((p, True, "bounded-memory soak (1 worker, %d cycles): %s" % (n, m.group(2) if m else "crashed: " + (out + e)[-200:])))


def run(res):
    common.prove(res, drivers=["join", "alloc"])
    n = 300 if res.tier == "quick" else 3000
    life_common.campaign(res, "C13", ["join", "alloc"], n)
    if not res.violations:
        soak(res)
    if res.breaks and not res.violations:
        sched_common.search_more(res, "C13", "life_prog", life_common.variants(res.seed + 1), 300)
    res.assumptions += [
        "WellUsed: each thread is reaped by exactly one of join / successful tryjoin or timedjoin / detach / detach-state attribute (the model's `claimed` discipline)",
        "timed-join's deadline behaviour is C20; here it is tryjoin in a loop",
        "resident-set size is an OS observable: the theorem-level statement is about blocks obtained from the OS model (Ledger.Inv1: fresh <= peak live with one worker); the soak measures both",
    ]


def replay(path):
    return sched_common.replay("C13", path)
