"""C05 — condition variables: atomic release-and-wait, signal and broadcast reach waiters."""
import os

import common
from props import sched_common


def variants(k):
    # W MODE A B C PSEED
    base = [[2, 0, 2, 2, 1], [3, 0, 3, 2, 2], [2, 1, 3, 2, 0], [3, 2, 3, 2, 0], [1, 0, 2, 1, 1],
            [3, 1, 4, 2, 0], [2, 2, 2, 3, 0], [3, 0, 2, 3, 1], [2, 0, 1, 3, 1],
            [3, 3, 2, 2, 2], [2, 3, 3, 2, 2], [3, 3, 3, 3, 1]]
    return [v + [k * 10 + i] for i, v in enumerate(base)]


def run(res):
    common.prove(res, drivers=["cond", "mutex"])
    n = 300 if res.tier == "quick" else 3000
    sched_common.campaign(res, "C05", "cond_prog", variants(res.seed), n, ["cond", "mutex"],
                          workers_note=", W in 1..3 workers; bounded buffer (signal), gate (broadcast), turnstile (broadcast) and token programs (signal issued outside the mutex) with <= 4 waiters")
    if not res.violations:
        sched_common.free_stress(res, "C05", "cond", [(4, 6, 3000, 2), (2, 4, 4000, 1), (8, 8, 1500, 0), (3, 5, 3000, 3), (1, 4, 2000, 1)])
    if not res.violations:
        # the "lock; change the predicate; unlock; notify" idiom: signals and broadcasts overlap each other and the waits
        sched_common.free_stress(res, "C05", "cond2", [(12, 12, 20000, 0), (8, 8, 20000, 2), (4, 6, 20000, 1), (2, 4, 20000, 1), (1, 4, 5000, 1)])
    if res.breaks and not res.violations:
        sched_common.search_more(res, "C05", "cond_prog", variants(res.seed + 1), 400)
    res.assumptions += [
        "the mutex is abstract in the cond model (atomic acquire/release = the instants the lock bit is set/cleared); that the real mutex refines this is C04, and the cond acceptor cross-checks every acquire against holder = none",
        "schedules are sequentially consistent interleavings at MYTH_VERIF_POINT granularity",
        "myth_cond_timedwait is unimplemented() in the code and outside the property",
    ]


def replay(path):
    if os.path.isfile(path) and path.endswith("stress.txt") and open(path).readline().startswith("sync_stress_prog"):
        return sched_common.replay_stress("C05", path)
    return sched_common.replay("C05", path)
