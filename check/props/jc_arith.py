"""Arithmetic of the join counter's packed state word (sub-part of C07) — helper module.

`campaign(res)` ties `lean/MythVerif/Model/JcArith.lean` (theorems in `Proofs/JcArith.lean`) to
the real `calc_bits` / `myth_join_counter_init_body` / `_dec_body` / `_wait_body` of
src/myth_sync_func.h: harness/jc_arith.c (#includes the real header, linked with the library built
from the repo's current sources) and `drv_jc` get the same `jcbits N`, `jcdec N S`, `jcwait N S` lines;
outputs are diffed, and the arithmetic facts themselves (n < 2^b, minimality, mask = 2^b - 1, field
independence) are checked on the implementation's output with exact integers.

It builds what it needs itself (`MythVerif.Proofs.JcArith`, `drv_jc`), audits the axioms of the
arithmetic theorems, and reports through `res` (`res.brk` / `res.violations` / `res.notes["jc_arith"]`).
"""
import os
import re

import common

THEOREMS = ["calcBits_spec", "calcBits_minimal", "calcBits_examples", "mask_identity", "unpack_pack", "pack_unpack",
            "wait_step_fields", "dec_step_fields", "dec_spec", "n0_case", "representable_iff", "representable_bounds",
            "bv64_one_shl", "bv64_fields", "not_representable_overflows"]
NS = "MythVerif.JcArith."


def build():
    lib, err = common.build_lib()
    if err:
        return None, "library does not build: " + err
    exe = os.path.join(common.BUILD, "bin", "jc_arith")
    err = common.cc(os.path.join(common.HARNESS, "jc_arith.c"), exe,
                    flags=["-DMYTH_WRAP=MYTH_WRAP_VANILLA"], libs=[lib, "-lpthread", "-ldl"])
    if err:
        return None, "jc_arith harness does not build: " + err
    return exe, None


def audit():
    """#print axioms on the arithmetic theorems.  Returns list of problems."""
    os.makedirs(common.BUILD, exist_ok=True)
    f = os.path.join(common.BUILD, "audit_jc_arith.lean")
    with open(f, "w") as fh:
        fh.write("import MythVerif.Proofs.JcArith\n")
        for t in THEOREMS:
            fh.write("#print axioms %s%s\n" % (NS, t))
    rc, out, err = common.sh(["lake", "env", "lean", f], cwd=common.LEAN, timeout=600)
    txt = out + err
    problems = []
    for t in THEOREMS:
        m = re.search(r"'%s' depends on axioms: \[(.*?)\]" % re.escape(NS + t), txt, flags=re.S)
        if m:
            bad = [x.strip() for x in m.group(1).replace("\n", " ").split(",") if x.strip() and x.strip() not in common.ALLOWED_AXIOMS]
            if bad:
                problems.append("%s depends on non-standard axioms %s" % (t, bad))
        elif not re.search(r"'%s' does not depend on any axioms" % re.escape(NS + t), txt):
            problems.append("%s: no axiom report (does it elaborate?)" % t)
    return problems


def bits(n):
    return n.bit_length()   # reference: smallest b with n < 2^b


def gen_ops(rng, count):
    ops = []
    ns = [0, 1, 2, 3, 4, 5, 7, 8, 2 ** 62 - 1, 2 ** 62 - 2, 2 ** 61, 2 ** 61 - 1, 2 ** 61 + 1]
    for k in range(1, 62):
        ns += [2 ** k - 1, 2 ** k, 2 ** k + 1]
    ns = [n for n in ns if 0 <= n < 2 ** 62]
    for n in ns:
        ops.append("jcbits %d" % n)
    for _ in range(count):
        r = rng.below(4)
        n = rng.choice(ns) if r == 0 else (rng.below(64) if r == 1 else rng.below(2 ** (1 + rng.below(62))))
        b = bits(n)
        ops.append("jcbits %d" % n)
        wmax = 2 ** (63 - b) - 1          # largest representable number of waiters
        for _ in range(3):
            d = rng.choice([0, 1, max(n - 2, 0), max(n - 1, 0), n, min(n + 1, 2 ** b - 1), 2 ** b - 1, rng.below(2 ** b)])
            w = rng.choice([0, 1, 2, rng.below(wmax + 1), wmax, max(wmax - 1, 0)])
            s = w * 2 ** b + d
            if s + 1 < 2 ** 63:
                ops.append("jcdec %d %d" % (n, s))
            if s + 2 ** b < 2 ** 63:
                ops.append("jcwait %d %d" % (n, s))
    return ops


def oracle(op, out):
    """the arithmetic facts, checked on the implementation's output with exact integers"""
    w = op.split()
    n = int(w[1])
    b = bits(n)
    if w[0] == "jcbits":
        try:
            ib, im = (int(x) for x in out.split())
        except ValueError:
            return "`%s`: unparsable output %r" % (op, out)
        if not n < 2 ** ib:
            return "`%s`: width %d is too small (n >= 2^b)" % (op, ib)
        if ib != 0 and not 2 ** (ib - 1) <= n:
            return "`%s`: width %d is not minimal" % (op, ib)
        if im != 2 ** ib - 1 or (n & im) != n:
            return "`%s`: mask %d is not 2^b - 1 / does not cover n" % (op, im)
        return None
    s = int(w[2])
    d, wt = s % 2 ** b, s // 2 ** b
    if w[0] == "jcdec":
        if d >= n:
            return None if out == "excess" else "`%s`: %d decrements already seen, yet not refused (%s)" % (op, d, out)
        try:
            s2, d2, w2, wake = (int(x) for x in out.split())
        except ValueError:
            return "`%s`: unparsable output %r" % (op, out)
        if s2 != s + 1 or d2 != d + 1 or w2 != wt:
            return "`%s`: after the decrement the fields are (decs=%d, waiters=%d), expected (%d, %d)" % (op, d2, w2, d + 1, wt)
        if wake != (wt if d == n - 1 else 0):
            return "`%s`: wakes %d threads, %d are waiting and this is%s the last decrement" % (op, wake, wt, "" if d == n - 1 else " not")
        return None
    if w[0] == "jcwait":
        if d == n:
            return None if out == "done" else "`%s`: all decrements seen, wait did not return at once (%s)" % (op, out)
        try:
            s2, d2, w2 = (int(x) for x in out.split())
        except ValueError:
            return "`%s`: unparsable output %r" % (op, out)
        if d2 != d or w2 != wt + 1:
            return "`%s`: after the announcement the fields are (decs=%d, waiters=%d), expected (%d, %d)" % (op, d2, w2, d, wt + 1)
        return None
    return None


def campaign(res, count=None):
    """build, audit, differential run + oracle.  Returns True if everything agreed."""
    ok, log = common.lean_build(["MythVerif.Proofs.JcArith", "drv_jc"])
    if not ok:
        errs = [l for l in log.splitlines() if "error" in l.lower()][:8]
        res.brk("proof", "lake build MythVerif.Proofs.JcArith drv_jc failed: " + " ;; ".join(errs))
        return False
    problems = audit()
    for p in problems:
        res.brk("audit", "jc_arith: " + p)
    exe, err = build()
    if err:
        res.brk("build", err)
        return False
    if count is None:
        count = 300 if res.tier == "quick" else 6000
    rng = common.Splitmix(res.seed * 611953 + 7)
    ops = gen_ops(rng, count)
    env = dict(os.environ, MYTH_NUM_WORKERS="1")
    rc, out, errtxt = common.sh([exe], inp="\n".join(ops) + "\n", timeout=120, env=env)
    if rc != 0:
        # the real code hangs or crashes on one of the operations: find it (the operations are independent)
        answered = len(out.splitlines())
        for op in ops[max(0, answered - 1):answered + 3] + ops:
            rc1, out1, err1 = common.sh([exe], inp=op + "\n", timeout=15, env=env)
            if rc1 != 0:
                p = common.write_replay(res.pid, "jc_arith_failing.ops", op + "\n")
                res.violations.append((p, True, "join-counter arithmetic: `%s` (jcbits n | jcdec n word | jcwait n word) on the real myth_join_counter code: %s" % (
                    op, "does not return (15 s)" if rc1 == -9 else "crashes: rc=%s %s" % (rc1, " ".join(err1.split()[:30])))))
                return False
        raise RuntimeError("jc_arith harness rc=%s on the whole stream but every single operation passes: %s" % (rc, " ".join(errtxt.split()[:40])))
    outs = out.splitlines()
    mouts = common.driver("jc", ops)
    if len(outs) != len(ops) or len(mouts) != len(ops):
        raise RuntimeError("jc_arith: %d ops, %d impl lines, %d model lines" % (len(ops), len(outs), len(mouts)))
    hist = {"jcbits": 0, "jcdec": 0, "jcwait": 0}
    kinds = {"n=0": 0, "n=2^k-1": 0, "n=2^k": 0, "last-dec": 0, "excess": 0, "wait-done": 0, "max-waiters": 0}
    bad = diff = None
    for op, a, m in zip(ops, outs, mouts):
        w = op.split()
        hist[w[0]] += 1
        n = int(w[1])
        kinds["n=0"] += n == 0
        kinds["n=2^k-1"] += n > 0 and (n & (n + 1)) == 0
        kinds["n=2^k"] += n > 0 and (n & (n - 1)) == 0
        if len(w) == 3:
            s, b = int(w[2]), bits(n)
            kinds["max-waiters"] += s // 2 ** b >= 2 ** (63 - b) - 2
            if w[0] == "jcdec":
                kinds["last-dec"] += n > 0 and s % 2 ** b == n - 1
                kinds["excess"] += s % 2 ** b >= n
            else:
                kinds["wait-done"] += s % 2 ** b == n
        if a in ("bad-op", "out-of-domain", "init-mismatch", "wait-mismatch"):
            raise RuntimeError("jc_arith harness answered %r to `%s`" % (a, op))
        t = oracle(op, a)
        if t and bad is None:
            bad = (op, t)
        if a != m and diff is None:
            diff = (op, a, m)
    res.notes["jc_arith"] = {"ops": len(ops), "op_histogram": hist, "input_kinds": kinds,
                             "theorems": [NS + t for t in THEOREMS], "audit_problems": problems}
    res.cov["evaluations"] += len(ops)
    res.cov["distinct_nontrivial"] += len(set(ops))
    if bad:
        p = common.write_replay(res.pid, "jc_arith_failing.ops", bad[0] + "\n")
        res.violations.append((p, True, "join-counter arithmetic: " + bad[1]))
        return False
    if diff:
        p = common.write_replay(res.pid, "jc_arith_disagreement.ops", diff[0] + "\n")
        res.brk("correspondence", "model `drv_jc` and harness/jc_arith.c disagree on `%s`: impl=%r model=%r (%s)" % (diff[0], diff[1], diff[2], p))
        return False
    res.cov["traces_validated_against_impl"] += len(ops)
    return not problems
