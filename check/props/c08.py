"""C08 — uncondition variable: signal always hands over the one waiter, early or late."""
import os
import re

import common
from props import sched_common

# W MODE NP N : workers, mode (0 = pairs over a one-word buffer, either side blocks; 1 = NP producers,
# one consumer blocks), pairs/producers, items per producer
VARIANTS = [[1, 0, 1, 10], [2, 0, 1, 12], [3, 0, 2, 8], [2, 1, 2, 8], [3, 1, 3, 6], [2, 0, 3, 5],
            [1, 1, 2, 6], [3, 0, 1, 16], [2, 1, 1, 12], [1, 0, 2, 6], [2, 0, 1, 30], [3, 0, 3, 9]]


def variants(rng_seed):
    # PSEED (last argument) shapes the program itself: 6 different programs per shape
    out = []
    for j in range(6):
        for i, v in enumerate(VARIANTS):
            out.append(v + [rng_seed * 1000 + j * 10 + i])
    return out


def rendezvous_histogram(pid="C08"):
    """early / late signals and rendezvous per run, from the programs' RESULT lines is not kept by the
    campaign, so recount from the traces: a SPIN_UC_SIG_READ between a claim and the signaler's read =
    early signal (issued before the waiter had published itself)"""
    d = os.path.join(common.BUILD, "runs", pid)
    early = late = rdv = 0
    per_run = {"0": 0, "1-9": 0, "10-24": 0, "25-50": 0, ">50": 0}
    early_by_w = {}
    if not os.path.isdir(d):
        return {}
    for fn in sorted(os.listdir(d)):
        if not fn.endswith(".log"):
            continue
        spun = {}
        n = 0
        for line in open(os.path.join(d, fn)):
            w = line.split()
            if len(w) == 7 and w[0] == "ev":
                key = (w[2], w[4])
                if w[3] == "SPIN_UC_SIG_READ":
                    spun[key] = True
                elif w[3] == "UC_SIG_READ":
                    if spun.pop(key, False):
                        early += 1
                    else:
                        late += 1
            elif len(w) == 5 and w[0] == "note" and w[3] == "uc_resumed":
                n += 1
        rdv += n
        per_run["0" if n == 0 else "1-9" if n < 10 else "10-24" if n < 25 else "25-50" if n <= 50 else ">50"] += 1
    return {"rendezvous": rdv, "early_signals": early, "late_signals": late, "rendezvous_per_run": per_run}


def run(res):
    common.prove(res, drivers=["uncond"])
    n = 300 if res.tier == "quick" else 3000
    sched_common.campaign(res, "C08", "uncond_prog", variants(res.seed), n, ["uncond"],
                          workers_note=", W in 1..3 workers; SPSC pairs over a one-word buffer with alternating waiter/signaler roles on 1-3 variables, and 1-3 producers signalling one blocking consumer; <= ~50 rendezvous per run; early signals (signaler spins on u->th == 0) and late signals both forced by the schedules")
    res.notes["rendezvous_histogram"] = rendezvous_histogram()
    if not res.violations:
        sched_common.free_stress(res, "C08", "uncond", [(3, 2, 20000, 1), (2, 2, 20000, 0), (4, 2, 20000, 3), (8, 2, 10000, 2), (1, 2, 5000, 0)])
    if res.breaks and not res.violations:
        sched_common.search_more(res, "C08", "uncond_prog", variants(res.seed + 1), 300)
    res.assumptions += [
        "WellUsed (explicit hypothesis of every C08 theorem except the per-thread accounting): a thread marks itself as waiter only when no rendezvous is in flight on the variable (nobody marked, and the previous rendezvous' waiter has returned from wait or its signaler has returned from signal); exactly one thread claims a mark and signals; the acceptor checks that the test programs follow it",
        "the user-level atomic step (announce / claim) is fused with the entry into myth_uncond_wait / myth_uncond_signal: the thread touches nothing shared in between",
        "the context save of myth_swap_context_withcall happens before the callback runs (C03); the model records it at BLOCK_CB_BEGIN",
        "schedules are sequentially consistent interleavings at MYTH_VERIF_POINT granularity (one OS thread runs at a time); on x86-TSO `to_wake->env = env; u->th = 0; push` stay ordered",
        "per-worker run queues are abstracted to one bag (C02): a pushed thread is runnable and is resumed by some worker; 'eventually' is stuck-freedom with a bounded rank (C08_progress), under the fairness assumption that the waiter's and the signaler's workers keep running",
        "with one worker a signaler can never observe u->th == 0 for a claimed waiter, because a legal waiter does not yield between its mark and myth_uncond_wait (uncond_prog is shaped accordingly)",
    ]


def replay(path):
    if os.path.isfile(path) and path.endswith("stress.txt") and open(path).readline().startswith("sync_stress_prog"):
        return sched_common.replay_stress("C08", path)
    return replay_with_seed("C08", path)


def replay_with_seed(pid, path, exe=None):
    """like sched_common.replay, but with the recorded CTL_SEED: the controller derives the library's
    own random state (steal victims, myth_yield's coin) from it, so the schedule alone does not
    determine the run"""
    lines = open(os.path.join(path, "args.txt")).read().split("\n")
    args = lines[0].split()
    prog, args = args[0], args[1:]
    seed = 1
    if len(lines) > 1 and lines[1].startswith("seed "):
        try:
            seed = int(lines[1].split()[1])
        except ValueError:
            seed = 1
    if exe is None:
        exe, err = sched_common.build_prog(prog)
        if err:
            print(err)
            return 2
    r = sched_common.run_once(exe, args, seed, os.path.join(common.BUILD, "runs", pid + "-replay"), "replay",
                              replay=os.path.join(path, "schedule.sched"))
    kind, text = sched_common.judge(r)
    print(r["out"])
    if kind == "violation":
        print("  detail: " + text)
        print("VIOLATION property=%s replay=%s" % (pid, path))
        return 1
    print("no violation on replay (%s)" % kind)
    return 0
