"""Shared by C01 / C12 / C13: life_prog under the schedule controller + acceptors + ledger oracle."""
import os
import re

import common
from props import sched_common


def variants(k):
    # W DEPTH FANOUT PSEED
    base = [[1, 2, 3], [2, 2, 3], [3, 3, 3], [2, 3, 2], [3, 2, 4], [2, 4, 2], [3, 3, 4], [1, 3, 2]]
    return [v + [k * 16 + i] for i, v in enumerate(base)]


DEFAULT_STACK = 131072      # g_attr.stacksize default (Generated/Consts.defStackSize); only used for overlap checks


def stress(res, pid, secs=3):
    """free-running stress with real parallelism (violations that are data races between workers
    cannot be exhibited by the sequentially consistent controller)"""
    exe, err = sched_common.build_prog("stress_prog")
    if err:
        res.brk("build", err)
        return
    import os as _os
    for w in (16, 8):
        rc, out, e = common.sh([exe, str(w), str(secs), str(res.seed)], timeout=120 + secs)
        m = re.search(r"^RESULT (\w+) (.*)$", out, re.M)
        res.notes.setdefault("stress", []).append((m.group(0) if m else "rc=%s %s" % (rc, (out + e)[-160:]))[:200])
        if not m or m.group(1) != "ok":
            p = common.write_replay(pid, "stress.txt", "stress_prog %d %d %d  (free-running, not exactly replayable: rerun a few times)\n%s\n" % (w, secs, res.seed, (out + e)[-600:]))
            res.violations.append((p, True, "free-running fork-join stress with %d workers: %s" % (w, m.group(2) if m else "crashed / aborted: " + (out + e)[-200:].replace("\n", " "))))
            return


def ledger_oracle(logpath):
    """property oracle on the implementation's own allocation events: a block handed out must not
    be in use, a release must be of a block in use, stack tops 16-byte aligned inside a page-rounded
    block, and at quiescence nothing is left in use (every thread reaped exactly once)."""
    inuse = {"DESC": {}, "STACK": {}}
    want = {}
    ranges = {}
    for n, line in enumerate(open(logpath), 1):
        w = line.split()
        if len(w) < 8 or w[0] != "ev":
            continue
        pt, raw = w[3], w[7]
        if pt not in ("DESC_GET", "DESC_FREE", "STACK_GET", "STACK_FREE"):
            continue
        kind = pt.split("_")[0]
        if pt == "STACK_GET":
            want[raw] = (int(w[6]) + 4095) // 4096 * 4096 if int(w[6]) else 0
        if pt == "STACK_FREE" and raw in want and int(w[6]) != want[raw]:
            return "line %d: stack block %s was obtained for %d bytes but is released with recorded size %s: the block start recovered from the size word is wrong (block leaks / overlaps its neighbour)" % (n, raw, want[raw], w[6])
        if pt == "STACK_GET":
            top = int(raw[1:], 16) + 16
            size = want[raw] if want[raw] else DEFAULT_STACK
            for r2, (lo2, hi2, n2) in ranges.items():
                if r2 != raw and top - size < hi2 and lo2 < top:
                    return "line %d: stack [%x,%x) handed out overlaps the live stack [%x,%x) handed out at line %d" % (n, top - size, top, lo2, hi2, n2)
            ranges[raw] = (top - size, top, n)
        if pt == "STACK_FREE":
            ranges.pop(raw, None)
        if pt.endswith("GET"):
            if raw in inuse[kind]:
                return "line %d: %s block %s handed out while still in use (since line %d)" % (n, kind.lower(), raw, inuse[kind][raw])
            inuse[kind][raw] = n
            if kind == "STACK" and (int(raw[1:], 16) + 16) % 4096 != 0:
                return "line %d: stack top %s is not 16 bytes below a page boundary" % (n, raw)
        else:
            if raw not in inuse[kind]:
                return "line %d: %s block %s released while not in use (double / wild release)" % (n, kind.lower(), raw)
            del inuse[kind][raw]
    if inuse["DESC"] or inuse["STACK"]:
        return "at quiescence %d descriptor(s) and %d stack(s) are still in use: some thread was not reaped / recycled (first: %s)" % (
            len(inuse["DESC"]), len(inuse["STACK"]), (list(inuse["DESC"]) + list(inuse["STACK"]))[0])
    return None


def campaign(res, pid, drivers, n):
    info = sched_common.campaign(res, pid, "life_prog", variants(res.seed), n, drivers,
                                 workers_note=", W in 1..3 workers; random fork-join trees (depth <= 4, fan-out <= 4) with 7 creation modes (NULL attr, child-first, parent-first, custom stack size, attr over poisoned memory, detach-state attribute, NULL id) x 6 reaping modes (join now/late, tryjoin loop, timedjoin, detach now/late), return and myth_exit from nested frames")
    if info is None or res.violations:
        return
    # ledger oracle over every trace of this run
    work = info["work"]
    nled = 0
    for fn in sorted(os.listdir(work)):
        if fn.endswith(".log"):
            bad = ledger_oracle(os.path.join(work, fn))
            nled += 1
            if bad:
                tag = fn[:-4]
                r = {"sched": os.path.join(work, tag + ".sched"), "log": os.path.join(work, fn)}
                # recover the exact args of this run from the run index
                idx = int(re.sub(r"\D", "", tag) or 0)
                v = variants(res.seed)
                d = sched_common.save_replay(pid, r, ["life_prog"] + v[idx % len(v)], 0)
                res.violations.append((d, True, "allocation ledger: " + bad))
                return
    res.notes["ledger_traces_checked"] = nled
    # real parallelism: always in the thorough tier, and whenever something is broken
    if res.tier == "thorough" or res.breaks:
        stress(res, pid, secs=4 if res.tier == "quick" else 10)
