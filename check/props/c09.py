"""C09 — full/empty lock: status hand-off between producers and consumers."""
import os

import common
from props import sched_common


def variants(k):
    # W P C K PSEED
    base = [[2, 2, 2, 3], [3, 2, 2, 3], [3, 3, 2, 2], [1, 2, 1, 2], [2, 1, 3, 3], [3, 3, 3, 2], [2, 2, 3, 3]]
    return [v + [k * 10 + i] for i, v in enumerate(base)]


def run(res):
    common.prove(res, drivers=["felock", "cond", "mutex"])
    n = 300 if res.tier == "quick" else 3000
    sched_common.campaign(res, "C09", "felock_prog", variants(res.seed), n, ["felock", "cond", "mutex"],
                          workers_note=", W in 1..3 workers; single-slot mailbox with <= 3 producers x <= 3 consumers x <= 6 items, plain lock/unlock mixed in")
    if not res.violations:
        # oracle-only runs of the mailbox WITH READERS (wait full, read, leave full): mark_and_signal(t) on a felock
        # whose status already is t must still let the next thread waiting for t proceed
        rff = [[2, 1, 1, 3, res.seed * 10 + 1, 2, 3], [3, 1, 1, 2, res.seed * 10 + 2, 3, 2], [2, 2, 1, 2, res.seed * 10 + 3, 2, 2],
               [1, 1, 1, 2, res.seed * 10 + 4, 2, 2], [3, 2, 2, 2, res.seed * 10 + 5, 4, 2]]
        sched_common.campaign(res, "C09", "felock_rff_prog", rff, n // 3, [],
                              workers_note=", mailbox with 2..4 readers that leave the slot full (oracle only: exclusivity, valid reads, every participant returns)")
    if not res.violations:
        sched_common.free_stress(res, "C09", "felock", [(4, 4, 3000, 2), (2, 4, 4000, 1), (8, 6, 1500, 0), (3, 5, 3000, 3), (1, 4, 2000, 1)])
    if res.breaks and not res.violations:
        sched_common.search_more(res, "C09", "felock_prog", variants(res.seed + 1), 400)
    if res.breaks and not res.violations:
        sched_common.search_more(res, "C09", "felock_rff_prog", [[3, 1, 1, 3, res.seed * 10 + 7, 3, 3], [2, 2, 1, 2, res.seed * 10 + 8, 4, 2]], 400)
    res.assumptions += [
        "layered proof: the felock model uses the abstract mutex / condition-variable interface; that the real primitives refine it is C04 / C05, and the same traces are accepted by the mutex and cond models as well",
        "'no participant sleeps forever' is proved as: a quiescent reachable state has no sleeper waiting for the current status and no lost signal (C09_no_stuck / C09_no_lost_signal); in a balanced exchange this leaves nobody asleep; fairness of the scheduler is assumed",
    ]


def replay(path):
    if os.path.isfile(path) and path.endswith("stress.txt") and open(path).readline().startswith("sync_stress_prog"):
        return sched_common.replay_stress("C09", path)
    return sched_common.replay("C09", path)
