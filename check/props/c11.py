"""C11 — destructors run exactly once with the right value (DESIGN section 4, C11)."""
import os

import common
from props import tls_common
from translate_bridge import run_consts

WANT = {"C11"}


def run(res):
    vals, err = run_consts()
    if err:
        res.brk("translator", err)
    common.prove(res, drivers=["tls"])
    n = 160 if res.tier == "quick" else 1500
    tls_common.campaign(res, WANT, n, os.path.join(common.CORPUS, "C11"))
    res.assumptions += [
        "destructor identity is observed through 8 logging destructors; values are unique per store so a call identifies its (thread, key)",
        "NULL-valued destructor calls for keys that have a destructor are part of the code's contract (pinned test myth_key_destructor needs them) and are allowed by the oracle",
        "whole-library exit paths (return / myth_exit / cancellation) all reach myth_tls_tree_fini: covered by the three-exits program, not by a theorem",
    ]


def replay(path):
    return tls_common.replay("C11", path, WANT)
