"""Whole-library runs under the token-passing schedule controller (harness/schedctl.h):
build a program from /repo's current sources, run it over seeded schedules, feed every trace to
the Lean trace acceptor, apply the program's own oracle (RESULT line / deadlock verdict / crash)."""
import os
import re
import shutil

import common


def build_prog(name, cxx=False, extra_flags=(), opt="-O0"):
    lib, err = common.build_lib(opt=opt)
    if err:
        return None, "library does not build: " + err
    src = os.path.join(common.HARNESS, "progs", name + (".cc" if cxx else ".c"))
    exe = os.path.join(common.BUILD, "bin", name)
    err = common.cc(src, exe, flags=["-DMYTH_WRAP=MYTH_WRAP_VANILLA", "-O1"] + list(extra_flags), cxx=cxx,
                    libs=[lib, "-lpthread", "-ldl"])
    if err:
        return None, "%s does not build: %s" % (name, err)
    return exe, None


def run_once(exe, args, seed, workdir, tag, replay=None, switch_den=None, timeout=120, demote_at=None):
    """returns dict(rc, result, log, sched, out)"""
    os.makedirs(workdir, exist_ok=True)
    log = os.path.join(workdir, tag + ".log")
    sched = os.path.join(workdir, tag + ".sched")
    env = dict(os.environ, CTL_SEED=str(seed), CTL_LOG=log, CTL_SCHED_OUT=sched)
    if replay:
        env["CTL_REPLAY"] = replay
    if switch_den:
        env["CTL_SWITCH_DEN"] = str(switch_den)
    if demote_at is not None:
        env["CTL_DEMOTE_AT"] = str(demote_at)
    rc, out, err = common.sh([exe] + [str(a) for a in args], timeout=timeout, env=env)
    m = re.search(r"^RESULT (\w+)(.*)$", out, re.M)
    return {"rc": rc, "result": m.group(1) if m else None, "detail": (m.group(2).strip() if m else ""),
            "out": out[-2000:], "err": err[-800:], "log": log, "sched": sched}


def confirm_by_replay(exe, args, seed, r, work, tag, tries=3):
    """does the schedule recorded by the failing run `r` fail again when replayed?"""
    if not os.path.exists(r["sched"]):
        return True          # nothing to replay with: keep the failure
    keep = r["sched"] + ".failing"
    shutil.copy(r["sched"], keep)
    for k in range(tries):
        r2 = run_once(exe, args, seed, work, "%s_%d" % (tag, k), replay=keep, timeout=60)
        if judge(r2)[0] == "violation":
            return True
    return False


def judge(r):
    """(kind, text): kind in ok | violation | harness"""
    if r["rc"] == 2 or "HARNESS-ERROR" in r["out"]:
        return "harness", "controller/harness error: " + r["out"][-200:]
    if r["rc"] == 3 or "VERDICT deadlock" in r["out"]:
        return "violation", "deadlock verdict: every worker only spins while threads are still blocked (lost wake-up / lost thread)"
    if r["result"] == "fail":
        return "violation", r["detail"]
    if r["rc"] == -9:
        return "violation", "program hung (timeout) outside any instrumented spin"
    if r["rc"] != 0 or r["result"] != "ok":
        return "violation", "program crashed or aborted: rc=%s %s %s" % (r["rc"], r["out"][-200:], r["err"][-300:])
    return "ok", r["detail"]


def accept(driver, log, args=None):
    """feed a trace to a Lean acceptor; returns (ok, text)"""
    lines = open(log).read().splitlines()
    out = common.driver(driver, lines, args=args)
    last = out[-1] if out else "no output"
    return last.startswith("accepted"), last


def save_replay(pid, r, args, seed, name="failing"):
    d = os.path.join(common.BUILD, "replay", pid, name)
    if os.path.isdir(d):
        shutil.rmtree(d)
    os.makedirs(d)
    shutil.copy(r["sched"], os.path.join(d, "schedule.sched"))
    shutil.copy(r["log"], os.path.join(d, "trace.log"))
    with open(os.path.join(d, "args.txt"), "w") as f:
        f.write(" ".join(str(a) for a in args) + "\nseed %s\n" % seed)
    return d


def campaign(res, pid, prog, variants, nseeds, drivers, workers_note="", extra_flags=(), opt="-O0",
             accept_args=None, cxx=False):
    """variants: list of argument lists.  drivers: acceptor component names (each sees every trace).
    Returns summary dict."""
    exe, err = build_prog(prog, cxx=cxx, extra_flags=extra_flags, opt=opt)
    if err:
        res.brk("build", err)
        return None
    work = os.path.join(common.BUILD, "runs", pid)
    shutil.rmtree(work, ignore_errors=True)
    rng = common.Splitmix(res.seed * 1000003 + 17)
    runs = []
    # corpus schedules first
    cdir = os.path.join(common.CORPUS, pid)
    if os.path.isdir(cdir):
        for d in sorted(os.listdir(cdir)):
            dd = os.path.join(cdir, d)
            if os.path.isdir(dd) and os.path.exists(os.path.join(dd, "args.txt")) and \
                    open(os.path.join(dd, "args.txt")).readline().split()[:1] == [prog]:
                al = open(os.path.join(dd, "args.txt")).read().splitlines()
                a = al[0].split()[1:]
                sd = int(al[1].split()[1]) if len(al) > 1 and al[1].startswith("seed") else 1
                runs.append((a, sd, os.path.join(dd, "schedule.sched")))
    ncorpus = len(runs)
    for i in range(nseeds):
        v = variants[i % len(variants)]
        runs.append((list(v), rng.below(1 << 30) + 1, None))
    n_ok = 0
    seen = set()
    nontriv = 0
    preempt_hist = {"0": 0, "1-9": 0, "10-49": 0, ">=50": 0}
    accepted_events = 0
    first_mismatch = None
    samples = []
    harness_errors = 0
    # wall-clock budget of the campaign (a change that makes every controlled run crawl must not turn a
    # check of seconds into one of hours): the runs not started are reported, never silently dropped
    import time as _time
    budget = float(os.environ.get("VERIF_CAMPAIGN_BUDGET", "180" if res.tier == "quick" else "900"))
    t_start = _time.time()
    for i, (args, seed, rp) in enumerate(runs):
        if _time.time() - t_start > budget:
            res.notes["campaign_budget_exhausted"] = "%s: %d of %d runs done in %.0f s (normal: all runs in well under the budget)" % (prog, i, len(runs), budget)
            runs = runs[:i]
            break
        den = [2, 3, 4, 8][i % 4]
        r = run_once(exe, args, seed, work, "r%d" % i, replay=rp, switch_den=den, timeout=60)
        kind, text = judge(r)
        if kind == "harness":
            harness_errors += 1
            if harness_errors > 2:
                raise RuntimeError(text)
            continue
        if kind == "violation":
            # a controlled run is deterministic: the recorded schedule must reproduce the failure, otherwise there is
            # no replayable input and nothing is reported (the failure is kept in the evidence notes)
            if rp is None and not confirm_by_replay(exe, args, seed, r, work, "c%d" % i):
                res.notes.setdefault("unreproduced_failures", []).append("%s %s seed=%s: %s" % (prog, " ".join(map(str, args)), seed, text[:160]))
                if len(res.notes["unreproduced_failures"]) < 3:
                    continue
                text += " [the recorded schedule does not reproduce it, but this is the third such failure of this campaign: %s]" % "; ".join(res.notes["unreproduced_failures"][:2])
            d = save_replay(pid, r, [prog] + args, seed)
            res.violations.append((d, True, "%s %s seed=%s: %s" % (prog, " ".join(map(str, args)), seed, text)))
            break
        n_ok += 1
        m = re.search(r"switches=(\d+) preemptions=(\d+)", r["detail"])
        sw = int(m.group(1)) if m else 0
        pre = int(m.group(2)) if m else 0
        preempt_hist["0" if pre == 0 else "1-9" if pre < 10 else "10-49" if pre < 50 else ">=50"] += 1
        h = common.hashcase(open(r["sched"]).read())
        if h not in seen and sw >= 1:
            nontriv += 1
        seen.add(h)
        for drv in drivers:
            ok, text = accept(drv, r["log"], args=accept_args)
            if ok:
                accepted_events += int(text.split()[1])
            elif first_mismatch is None:
                first_mismatch = (drv, text, r, args, seed)
        if len(samples) < 2:
            samples.append({"args": [prog] + [str(a) for a in args], "seed": seed,
                            "trace_head": open(r["log"]).read().splitlines()[:12]})
    res.add_cases(len(runs), nontriv, samples,
                  rule="%s: whole-library runs of harness/progs/%s under the schedule controller, one seeded schedule each (preemption probability 1/2..1/8 at every shared-access point)%s; non-trivial = schedule with >= 1 forced switch inside the operations under test; distinct by hash of the schedule" % (pid, prog, workers_note))
    res.cov["traces_validated_against_impl"] += n_ok if first_mismatch is None else 0
    res.notes.setdefault("preemption_histogram", {}).update({prog: preempt_hist})
    res.notes.setdefault("accepted_events", 0)
    res.notes["accepted_events"] += accepted_events
    res.notes["corpus_schedules"] = res.notes.get("corpus_schedules", 0) + ncorpus
    if first_mismatch and not res.violations:
        drv, text, r, args, seed = first_mismatch
        res.cov["disagreements_checked"] += 1
        d = save_replay(pid, r, [prog] + args, seed, name="rejected-trace")
        res.brk("correspondence", "trace acceptor drv_%s rejects an implementation trace (%s %s seed=%s): %s [trace kept in %s]" % (
            drv, prog, " ".join(map(str, args)), seed, text, d))
    return {"exe": exe, "work": work}


def search_more(res, pid, prog, variants, nseeds):
    """deeper violation search after a break: oracle only, more seeds, two strategies alternating:
    high preemption rates, and 'delay one participant at one random event until the others only
    spin' (finds orderings that need one thread to be overtaken for a long stretch)"""
    exe, err = build_prog(prog)
    if err:
        return
    work = os.path.join(common.BUILD, "runs", pid + "-search")
    shutil.rmtree(work, ignore_errors=True)
    rng = common.Splitmix(res.seed * 77 + 3)
    nseeds = max(nseeds, 1500)
    import time as _time
    budget = float(os.environ.get("VERIF_SEARCH_BUDGET", "240" if res.tier == "quick" else "900"))
    t_start = _time.time()
    for i in range(nseeds):
        if _time.time() - t_start > budget:
            res.notes["search_runs"] = i
            res.notes["search_budget_exhausted"] = "%d of %d search runs in %.0f s" % (i, nseeds, budget)
            return
        args = list(variants[i % len(variants)])
        seed = rng.below(1 << 30) + 1
        dem = None
        if i % 2 == 1:
            dem = 5 + rng.below(1000)
        r = run_once(exe, args, seed, work, "s%d" % (i % 50), switch_den=[2, 8, 3, 8][i % 4], demote_at=dem, timeout=60)
        kind, text = judge(r)
        if kind == "violation" and not confirm_by_replay(exe, args, seed, r, work, "sc%d" % (i % 50)):
            res.notes.setdefault("unreproduced_failures", []).append("%s %s seed=%s: %s" % (prog, " ".join(map(str, args)), seed, text[:160]))
            continue
        if kind == "violation":
            d = save_replay(pid, r, [prog] + args, seed)
            with open(os.path.join(d, "args.txt"), "a") as f:
                if dem is not None:
                    f.write("note: found with CTL_DEMOTE_AT=%d (the recorded schedule replays it without that option)\n" % dem)
            res.violations.append((d, True, "%s %s seed=%s: %s" % (prog, " ".join(map(str, args)), seed, text)))
            res.notes["search_runs"] = i + 1
            return
    res.notes["search_runs"] = nseeds


def replay(pid, path):
    al = open(os.path.join(path, "args.txt")).read().splitlines()
    args = al[0].split()
    prog, args = args[0], args[1:]
    seed = int(al[1].split()[1]) if len(al) > 1 and al[1].startswith("seed") else 1
    exe, err = build_prog(prog)
    if err:
        print(err)
        return 2
    r = run_once(exe, args, seed, os.path.join(common.BUILD, "runs", pid + "-replay"), "replay",
                 replay=os.path.join(path, "schedule.sched"))
    kind, text = judge(r)
    print(r["out"])
    if kind == "violation":
        print("VIOLATION property=%s replay=%s" % (pid, path))
        return 1
    print("no violation on replay (%s)" % kind)
    return 0


def free_stress(res, pid, kind, shapes, timeout=60):
    """free-running runs (no controller, real parallelism) of harness/progs/sync_stress_prog.c for one primitive;
    shapes: list of (W, N, ROUNDS, NOISE).  Appends a violation (replay = the command line) on a failed oracle,
    a crash or a hang."""
    exe, err = build_prog("sync_stress_prog")
    if err:
        res.brk("build", "sync_stress_prog does not build: " + err[-400:])
        return
    rng = common.Splitmix(res.seed * 7919 + len(kind))
    if res.tier == "thorough":
        shapes = list(shapes) * 6
    done = 0
    for (w, n, rounds, noise) in shapes:
        args = [kind, w, n, rounds, rng.below(1 << 30) + 1, noise]
        rc, out, e = common.sh([exe] + [str(a) for a in args], timeout=timeout)
        done += 1
        if rc == 0 and "RESULT ok" in out:
            continue
        what = "hang (no result within %d s)" % timeout if rc == -9 else ((out.strip().splitlines() or [""])[-1] or "crash rc=%s %s" % (rc, e.strip()[-200:]))
        rp = common.write_replay(pid, "stress.txt", "sync_stress_prog %s\n# free running (no controller): KIND W N ROUNDS PSEED NOISE\n%s\n" % (" ".join(map(str, args)), what))
        res.violations.append((rp, True, "free-running %s stress (%d workers, %d participants, %d rounds, %d yielding bystanders): %s" % (kind, w, n, rounds, noise, what)))
        break
    res.add_cases(done, done, [], rule="%s/free running: sync_stress_prog %s W N ROUNDS PSEED NOISE on real workers without the controller (the property's oracle inside the program; hang = %d s timeout)" % (pid, kind, timeout))
    res.notes["free_running_%s_runs" % kind] = done


def replay_stress(pid, path):
    """replay of a free-running stress command line (5 runs)"""
    args = open(path).readline().split()
    exe, err = build_prog(args[0])
    if err:
        print(err)
        return 2
    bad = 0
    for _ in range(5):
        rc, out, e = common.sh([exe] + args[1:], timeout=60)
        print(out.strip() or ("rc=%s %s" % (rc, e.strip()[-200:])))
        if rc != 0 or "RESULT ok" not in out:
            bad += 1
    if bad:
        print("VIOLATION property=%s replay=%s" % (pid, path))
        return 1
    print("no violation on replay (5 free runs)")
    return 0
