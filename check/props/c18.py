"""C18 — DAG Recorder totals do not depend on how the DAG was contracted (DESIGN section 4, C18)."""
import os

import common
from props import dag_common as D


def model_lines(run, opt, sopt):
    return D.model_lines_c18(run, opt)


def run(res):
    common.prove(res, drivers=["dag"])
    n = 40 if res.tier == "quick" else 420
    D.campaign(res, {"C18"}, n, os.path.join(common.CORPUS, "C18"), model_lines, D.oracle_c18)
    res.assumptions += [
        "clocks are modelled as unbounded naturals: real rdtsc stamps are causal and far from 2^64, so the C code's unsigned arithmetic never wraps",
        "PAPI counters and cpu ids are not modelled (papi_on = 0, record_cpu = 0)",
        "multi-worker executions are produced by a serial simulator (one OS thread, explicit worker ids, worker_specific_state_array = 1): the "
        "recorder's per-worker state is exercised, its lock-free list insertion and real concurrency are not",
        "model and implementation are compared on the stamps captured through dr_options.hooks in the same run, never on fresh ones; work / "
        "critical path are checked per run against the captured flat interval list, the stamp-independent counts also across the option grid",
        "the memory management of the recorder (free lists, dr_free_dag) is observed only through its effects (no crash, checks of chk_level=1 pass)",
    ]


def replay(path):
    return D.replay("C18", path, D.oracle_c18)
