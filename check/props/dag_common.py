"""Generator, harness runner, parsers, property oracles and model correspondence for the DAG Recorder
(C18: totals do not depend on contraction; C19: DAG files well formed, dump/read/convert round trip).

The implementation under test is built from $VERIF_REPO/src/profiler/*.c (stand-alone, no MassiveThreads
needed); harness/dag_unit.c #includes the real dr_dump.c and is linked against the other profiler objects.
"""
import os
import shutil
import subprocess

import common

PROF_SRCS = ["dag_recorder", "chronological", "gen_stat", "gen_dot", "gen_gpl", "gen_text", "read_dag",
             "options", "interpolate_counters", "papi_counters"]          # dr_dump.c is #included by the harness
NK = ["create_task", "wait_tasks", "other", "end_task", "section", "task"]
EK = ["end", "create", "create_cont", "wait_cont", "other_cont"]
BIG = 1 << 60
SMALL_CMAX = 30000
SMALL_UMIN = 2500


def prof_dir():
    return os.path.join(common.REPO, "src", "profiler")


def build():
    """compile the profiler objects and the harness from the CURRENT sources; returns (exe, None) or (None, err)"""
    pd = prof_dir()
    srcs = [os.path.join(pd, s + ".c") for s in PROF_SRCS] + [os.path.join(pd, "dr_dump.c"),
            os.path.join(pd, "dag_recorder.h"), os.path.join(pd, "dag_recorder_inl.h"),
            os.path.join(pd, "dag_recorder_impl.h"), os.path.join(pd, "papi_counters.h"),
            os.path.join(common.HARNESS, "dag_unit.c")]
    d = os.path.join(common.BUILD, "dag")
    exe = os.path.join(d, "dag_unit")
    dig = common.src_digest(srcs)
    with common.Lock("dag"):
        stamp = os.path.join(d, "stamp")
        if os.path.exists(stamp) and open(stamp).read() == dig and os.path.exists(exe):
            return exe, None
        os.makedirs(d, exist_ok=True)
        flags = ["-g", "-O1", "-w", "-DMYTH_VERIF", "-I" + pd]
        procs = []
        for s in PROF_SRCS:
            cmd = ["gcc", "-c"] + flags + [os.path.join(pd, s + ".c"), "-o", os.path.join(d, s + ".o")]
            procs.append((s, subprocess.Popen(cmd, stdout=subprocess.PIPE, stderr=subprocess.STDOUT, text=True)))
        errs = []
        for s, p in procs:
            o, _ = p.communicate()
            if p.returncode != 0:
                errs.append("%s.c: %s" % (s, o[-1500:]))
        if errs:
            return None, "profiler does not build: " + "\n".join(errs)
        cmd = ["gcc"] + flags + [os.path.join(common.HARNESS, "dag_unit.c")] + \
              [os.path.join(d, s + ".o") for s in PROF_SRCS] + ["-lpthread", "-o", exe]
        rc, o, e = common.sh(cmd, timeout=300)
        if rc != 0:
            return None, "harness/dag_unit.c does not build: " + (o + e)[-3000:]
        with open(stamp, "w") as f:
            f.write(dig)
    return exe, None


# ------------------------------------------------------------------------------------------------
# program generator (depth directed)
# ------------------------------------------------------------------------------------------------

FAMILIES = ["trivial", "flat-wide", "deep-chain", "nested-sections", "others-heavy", "balanced", "big", "deep-bushy"]


class Gen:
    def __init__(self, rng, fam, budget, maxdepth):
        self.rng, self.fam, self.left, self.maxdepth = rng, fam, budget, maxdepth
        self.depth_reached = 0
        self.sec_nest_reached = 0

    def take(self, n=1):
        self.left -= n
        return self.left >= 0

    def task(self, depth):
        """tokens of one task (without the leading T): item* E ; always terminates with E"""
        r = self.rng
        self.depth_reached = max(self.depth_reached, depth)
        out = []
        self.take()                      # the end interval
        if self.fam == "trivial":
            nsec = 0 if depth > 0 or r.chance(1, 2) else 1
        elif self.fam == "deep-chain":
            nsec = 1 if depth < self.maxdepth else 0
        elif self.fam == "flat-wide":
            nsec = 1 + r.below(2) if depth == 0 else (1 if r.chance(1, 6) else 0)
        else:
            nsec = r.below(3) if depth > 0 else 1 + r.below(3)
        if depth >= self.maxdepth:
            nsec = min(nsec, 1) if r.chance(1, 3) else 0     # leaves may still have a bare wait
        for _ in range(nsec):
            if self.left <= 2:
                break
            if r.chance(1, 4 if self.fam != "others-heavy" else 2) and self.take():
                out.append("O")
            out += self.section(depth, 0, top=True)
        if r.chance(1, 5 if self.fam != "others-heavy" else 2) and self.left > 0 and self.take():
            out.append("O")
        out.append("E")
        return out

    def section(self, depth, nest, top):
        r = self.rng
        self.sec_nest_reached = max(self.sec_nest_reached, nest + 1)
        self.take()                      # the wait interval
        items = []
        if self.fam == "flat-wide":
            k = 2 + r.below(12) if depth == 0 else r.below(3)
        elif self.fam == "deep-chain":
            k = 1
        elif self.fam == "big":
            k = 1 + r.below(6)
        elif self.fam == "deep-bushy":
            k = 1 + r.below(3)
        else:
            k = r.below(5)
        for _ in range(k):
            if self.left <= 1:
                break
            c = r.below(10)
            if c < 6 and depth < self.maxdepth:
                self.take()
                items.append(["C", "T"] + self.task(depth + 1))
            elif c < 8 or (self.fam == "others-heavy" and c < 9):
                self.take()
                items.append(["O"])
            elif nest < 2 and (self.fam in ("nested-sections", "balanced", "big", "deep-bushy") or c == 9):
                items.append(self.section(depth, nest + 1, top=False))
            elif depth < self.maxdepth:
                self.take()
                items.append(["C", "T"] + self.task(depth + 1))
        implicit_ok = top and (not items or items[0][0] == "C")
        explicit = (not implicit_ok) or r.chance(1, 3)
        out = ["S" if explicit else "s"]
        for it in items:
            out += it
        out.append("W")
        return out


def gen_prog(rng, idx, quick=True):
    fam = FAMILIES[idx % len(FAMILIES)]
    if fam == "trivial":
        budget, md = 4, 1
    elif fam == "flat-wide":
        budget, md = 20 + rng.below(150), 1 + rng.below(2)
    elif fam == "deep-chain":
        budget, md = 60, 3 + rng.below(6)
    elif fam == "nested-sections":
        budget, md = 30 + rng.below(120), 2 + rng.below(3)
    elif fam == "others-heavy":
        budget, md = 20 + rng.below(80), 1 + rng.below(4)
    elif fam == "balanced":
        budget, md = 40 + rng.below(300), 2 + rng.below(5)
    elif fam == "big":
        budget, md = (400 + rng.below(500)) if quick else (800 + rng.below(1150)), 3 + rng.below(6)
    else:
        budget, md = 80 + rng.below(300), 5 + rng.below(4)
    g = Gen(rng, fam, budget, md)
    toks = ["T"] + g.task(0)
    return toks, fam


def shape(toks):
    """shape statistics of a program"""
    n = {"O": 0, "C": 0, "W": 0, "E": 0, "S": 0, "s": 0}
    depth = maxdepth = 0
    secnest = maxsec = 0
    stack = []
    maxfan = 0
    fan = []
    for t in toks:
        if t in n:
            n[t] += 1
        if t == "T":
            stack.append(("T", secnest))
            secnest = 0
            depth += 1
            maxdepth = max(maxdepth, depth)
        elif t in ("S", "s"):
            secnest += 1
            maxsec = max(maxsec, secnest)
            fan.append(0)
        elif t == "C":
            if fan:
                fan[-1] += 1
                maxfan = max(maxfan, fan[-1])
        elif t == "W":
            secnest -= 1
            fan.pop()
        elif t == "E":
            _, secnest = stack.pop()
            depth -= 1
        # fan bookkeeping across tasks: creates inside a child task belong to its own sections
        if t == "T":
            fan.append(-10 ** 9)
        if t == "E":
            fan.pop()
    ivals = n["O"] + n["C"] + n["W"] + n["E"]
    return {"intervals": ivals, "create_depth": maxdepth - 1, "section_nest": maxsec, "sections": n["S"] + n["s"],
            "implicit_sections": n["s"], "creates": n["C"], "others": n["O"], "max_fanout": maxfan}


def option_grid(tier):
    """record-time contraction settings (umin, cmax, cmaxcount, nct, prune)"""
    g = []
    for cmax in (0, SMALL_CMAX, BIG):
        for umin in (0, SMALL_UMIN):
            g.append((umin, cmax, 0, 0, 100000))
    g.append((0, BIG, 3, 0, 100000))
    g.append((SMALL_UMIN, 0, 50, 0, 100000))
    for nct in (10, 100):
        for prune in (0, 40):
            g.append((0, BIG, 0, nct, prune))
    return g


SHRINK_GRID = [(0, BIG, 0), (0, 0, 0), (SMALL_UMIN, SMALL_CMAX, 0), (SMALL_UMIN * 8, 0, 0), (0, BIG, 3), (0, 0, 50),
               (0, SMALL_CMAX, 0), (BIG, BIG, 0)]


# ------------------------------------------------------------------------------------------------
# running the harness and parsing its output
# ------------------------------------------------------------------------------------------------

class Run:
    pass


def run_impl(exe, seed, nworkers, sched, wmode, nfiles, opt, sopt, prefix, toks, timeout=120):
    """one recorded execution.  Returns a Run (with .crash set when the implementation failed)"""
    line = "run %d %d %d %d %d %d %d %d %d %d %d %d %d %s %s\n" % (
        (seed, nworkers, sched, wmode, nfiles) + tuple(opt) + tuple(sopt) + (prefix, " ".join(toks)))
    rc, out, err = common.sh([exe], inp=line, timeout=timeout)
    r = Run()
    r.cmdline = line
    r.crash = None
    r.lines = out.splitlines()
    if rc == 3:
        raise RuntimeError("dag_unit harness error: " + err[-400:])
    if rc != 0 or not r.lines or r.lines[-1] != "done":
        r.crash = "rc=%s: %s" % (rc, " ".join(err.split()[:60]))
        return r
    r.dags = {}
    r.replay = {}
    r.roundtrip = {}
    cur = None
    try:
        parse_lines(r, cur)
    except (ValueError, IndexError, KeyError) as e:
        # a line of the dump / re-read / conversion listing that cannot even be parsed (an empty name, a missing
        # number): what the implementation wrote or read back is broken, not the harness
        r.crash = "unparsable listing of the dumped / re-read / converted DAG (%s: %s)" % (type(e).__name__, e)
        return r
    r.stat = parse_stat(prefix + ".stat")
    r.stat_s = parse_stat(prefix + "_s.stat")
    return r


def parse_lines(r, cur):
    for l in r.lines:
        w = l.split()
        tag = w[0]
        if tag == "hdr":
            r.start_clock, r.nworkers = int(w[1]), int(w[2])
        elif tag == "rootpos":
            r.rootpos = (int(w[1]), int(w[2]))
        elif tag == "cap":
            r.cap = w[1:]
        elif tag == "root":
            r.root = [int(x) for x in w[1:]]
        elif tag in ("mem", "file", "shr"):
            cur = {"n": int(w[1]), "m": int(w[2]), "ns": int(w[3]), "nw": int(w[4]), "N": [], "E": [], "S": []}
            r.dags[tag] = cur
        elif "." in tag and tag.split(".")[0] in ("mem", "file", "shr"):
            k = tag.split(".")[1]
            if k == "S":
                cur["S"].append(w[2] if len(w) > 2 else "")      # an empty name (e.g. a string table that is not there)
            else:
                cur[k].append([int(x) for x in w[2:]])
        elif tag == "replay":
            r.replay[w[1]] = [int(x) for x in w[2:]]
        elif tag == "roundtrip":
            r.roundtrip[w[1]] = int(w[2])
        elif tag == "hooks":
            r.hooks = [int(x) for x in w[1:]]


def parse_stat(path):
    """the recorder's own .stat file -> dict (scalars) + edge matrices"""
    d = {"edges": {}}
    cur = None
    names = {"end-parent edges:": "end", "create-child edges:": "create", "create-cont edges:": "create_cont",
             "wait-cont edges:": "wait_cont", "other-cont edges:": "other_cont"}
    for l in open(path):
        l = l.rstrip("\n")
        if l in names:
            cur = names[l]
            d["edges"][cur] = []
        elif cur is not None and l.startswith(" "):
            d["edges"][cur].append([int(x) for x in l.split()])
        elif "=" in l and not l.startswith("***"):
            k, v = l.split("=", 1)
            d[k.strip()] = v.strip()
    return d


# node line of a printed pi dag (after the index):
# kind inek start end est t1 tinf frt lst tready*5 nc*4 ec*5 cur min nchild worker sworker eworker sfile sline efile eline eb ee a b
N_KIND, N_INEK, N_START, N_END, N_EST, N_T1, N_TINF, N_FRT, N_LST = range(9)
N_TREADY, N_NC, N_EC = 9, 14, 18
N_CUR, N_MIN, N_NCHILD, N_WORKER, N_SW, N_EW, N_SFILE, N_SLINE, N_EFILE, N_ELINE, N_EB, N_EE, N_A, N_B = range(23, 37)


def parse_cap(cap):
    """captured tree tokens -> nested structure and flat interval list.
    node: ("T"|"S", [children]) | ("I", kind, rec) | ("C", rec, task)   rec = dict of the captured fields"""
    pos = [0]
    flat = []

    def rec():
        f = [int(x) for x in cap[pos[0]:pos[0] + 11]]
        pos[0] += 11
        d = dict(zip(("kind", "start", "end", "worker", "sfile", "sline", "efile", "eline", "est", "inek", "frt"), f))
        flat.append(d)
        return d

    def group():
        g = cap[pos[0]]
        pos[0] += 1
        ch = []
        while cap[pos[0]] != ".":
            t = cap[pos[0]]
            if t == "I":
                pos[0] += 1
                d = rec()
                ch.append(("I", d["kind"], d))
            elif t == "C":
                pos[0] += 1
                d = rec()
                task = group()
                ch.append(("C", d, task))
            elif t in ("S", "T"):
                ch.append(group())
            else:
                raise RuntimeError("bad cap token " + t)
        pos[0] += 1
        return (g, ch)

    tree = group()
    if pos[0] != len(cap):
        raise RuntimeError("trailing cap tokens")
    return tree, flat


def model_tree_tokens(cap):
    """the model's input: the captured tree with the RAW inputs of the recorder only
    (kind, start.t, end.t, worker, positions); est / in_edge_kind / first_ready_t are recomputed by the model"""
    out = []
    i = 0
    while i < len(cap):
        t = cap[i]
        if t in ("I", "C"):
            out.append(t)
            out += cap[i + 1:i + 9]
            i += 12
        else:
            out.append(t)
            i += 1
    return out


# ------------------------------------------------------------------------------------------------
# the property oracle (independent of the Lean model): flat interval list vs reported totals
# ------------------------------------------------------------------------------------------------

def flat_totals(flat):
    """what C18 calls `computed from the complete uncontracted sequence of intervals`"""
    work = sum(d["end"] - d["start"] for d in flat)
    nc = [sum(1 for d in flat if d["kind"] == k) for k in range(4)]
    ncreate, nwait, nother = nc[0], nc[1], nc[2]
    ec = [ncreate, ncreate, ncreate, nwait, nother]      # end, create, create_cont, wait_cont, other_cont
    span = max(d["est"] + d["end"] - d["start"] for d in flat)
    return {"work": work, "nc": nc, "ec": ec, "span": span}


def stat_edge_totals(stat):
    return [sum(sum(row) for row in stat["edges"].get(k, [])) for k in EK]


def oracle_c18(run):
    """list of violation texts (C18) for one run"""
    bad = []
    if run.crash:
        return ["recorder failed on a well-nested execution: " + run.crash]
    tree, flat = parse_cap(run.cap)
    ft = flat_totals(flat)
    root = run.root
    rinfo = root[2:]      # after kind, inek : start end est t1 tinf frt lst tready5 nc4 ec5 cur min nchild worker sw ew
    t1, tinf = rinfo[3], rinfo[4]
    nc = rinfo[12:16]
    ec = rinfo[16:21]
    if t1 != ft["work"]:
        bad.append("root work t_1=%d but the captured intervals sum to %d" % (t1, ft["work"]))
    if tinf != ft["span"]:
        bad.append("root critical path t_inf=%d but max(est+duration) over the captured intervals is %d" % (tinf, ft["span"]))
    if tinf > t1:
        bad.append("critical path %d exceeds work %d" % (tinf, t1))
    if nc != ft["nc"]:
        bad.append("root interval counts %s differ from the captured sequence %s (create,wait,other,end)" % (nc, ft["nc"]))
    if ec != ft["ec"]:
        bad.append("root edge counts %s differ from the uncontracted sequence %s (end,create,create_cont,wait_cont,other_cont)" % (ec, ft["ec"]))
    for name, st, dag in (("dump", run.stat, run.dags["mem"]), ("converted", run.stat_s, run.dags["shr"])):
        if int(st["work (T1)"]) != ft["work"]:
            bad.append("%s .stat work %s != %d" % (name, st["work (T1)"], ft["work"]))
        if int(st["critical_path (T_inf)"]) != ft["span"]:
            bad.append("%s .stat critical path %s != %d" % (name, st["critical_path (T_inf)"], ft["span"]))
        if [int(st["create_task"]), int(st["wait_tasks"]), int(st["end_task"])] != [ft["nc"][0], ft["nc"][1], ft["nc"][3]]:
            bad.append("%s .stat interval counts differ from the captured sequence" % name)
        se = stat_edge_totals(st)
        if se != ft["ec"]:
            bad.append("%s .stat edge totals by kind %s differ from the uncontracted sequence %s (end,create,create_cont,wait_cont,other_cont) [materialized nodes %d of %d]"
                       % (name, se, ft["ec"], dag["n"], sum(ft["nc"]) + ft["nc"][0] + ft["nc"][1] + 1))
        r0 = dag["N"][0]
        if r0[N_T1] != ft["work"] or r0[N_TINF] != ft["span"] or r0[N_NC:N_NC + 4] != ft["nc"] or r0[N_EC:N_EC + 5] != ft["ec"]:
            bad.append("%s DAG root totals differ from the uncontracted sequence" % name)
    return bad


def wf_python(dag):
    """independent (python) statement of C19 well-formedness; the Lean checker is the verified one"""
    bad = []
    n, m = dag["n"], dag["m"]
    N, E = dag["N"], dag["E"]
    if len(N) != n or len(E) != m:
        return ["array lengths differ from n/m"]
    for i, x in enumerate(N):
        k = x[N_KIND]
        if k == 0:
            c = i + x[N_A]
            if not (i < c < n):
                bad.append("node %d: child offset outside the DAG" % i)
        elif k >= 4:
            a, b = i + x[N_A], i + x[N_B]
            if x[N_A] != x[N_B] and not (i < a <= b <= n):
                bad.append("node %d: subgraph offsets outside the DAG" % i)
        if not (0 <= x[N_EB] <= x[N_EE] <= m):
            bad.append("node %d: edge pointers outside E" % i)
        if x[N_SFILE] >= dag["ns"] or x[N_EFILE] >= dag["ns"] or x[N_SFILE] < 0 or x[N_EFILE] < 0:
            bad.append("node %d: file index outside the string table" % i)
    for j, e in enumerate(E):
        if not (0 <= e[1] < n and 0 <= e[2] < n):
            bad.append("edge %d: endpoint outside the DAG" % j)
        if j and E[j - 1][1] > e[1]:
            bad.append("edges not grouped by source at %d" % j)
    if not bad:
        for i, x in enumerate(N):
            for j in range(x[N_EB], x[N_EE]):
                if E[j][1] != i:
                    bad.append("node %d: edges_begin/end cover an edge of node %d" % (i, E[j][1]))
            if i + 1 < n and N[i + 1][N_EB] != x[N_EE]:
                bad.append("edges_begin/end are not a partition at node %d" % i)
        if N and (N[0][N_EB] != 0 or N[-1][N_EE] != m):
            bad.append("edges_begin/end do not cover E")
    if len(set(dag["S"])) != len(dag["S"]):
        bad.append("string table has duplicate names")
    return bad


def oracle_c19(run):
    bad = []
    if run.crash:
        return ["recorder / converter failed on a well-nested execution: " + run.crash]
    if run.roundtrip.get("mem-file") != 1:
        bad.append("dump then dr_read_dag does not give back the dumped DAG")
    if run.roundtrip.get("shr-file") != 1:
        bad.append("dump of the converted DAG then dr_read_dag does not give back the converted DAG")
    for name in ("mem", "file", "shr"):
        for b in wf_python(run.dags[name])[:3]:
            bad.append("%s DAG: %s" % (name, b))
    for name in ("mem", "shr"):
        rp = run.replay[name]
        nev, leaves, once, inner, nrun, nready = rp[0:4], rp[4], rp[5], rp[6], rp[7], rp[8]
        if once != leaves or nev != [leaves] * 4:
            bad.append("%s DAG: chronological replay started/ended %d of %d leaves exactly once (events %s)" % (name, once, leaves, nev))
        if inner:
            bad.append("%s DAG: replay touched %d inner nodes" % (name, inner))
        if nrun or nready:
            bad.append("%s DAG: replay finished with %d running, %d ready" % (name, nrun, nready))
    _, flat = parse_cap(run.cap)
    ft = flat_totals(flat)
    r0, s0 = run.dags["mem"]["N"][0], run.dags["shr"]["N"][0]
    for f, nm in ((N_T1, "work"), (N_TINF, "critical path")):
        if r0[f] != s0[f]:
            bad.append("shrinking changed the root %s: %d -> %d" % (nm, r0[f], s0[f]))
    if r0[N_NC:N_NC + 4] != s0[N_NC:N_NC + 4] or r0[N_EC:N_EC + 5] != s0[N_EC:N_EC + 5]:
        bad.append("shrinking changed the root node / edge counts")
    for k in ("work (T1)", "critical_path (T_inf)", "create_task", "wait_tasks", "end_task"):
        if run.stat[k] != run.stat_s[k]:
            bad.append("shrinking changed the reported %s: %s -> %s" % (k, run.stat[k], run.stat_s[k]))
    if stat_edge_totals(run.stat) != stat_edge_totals(run.stat_s):
        bad.append("shrinking changed the reported edge totals by kind: %s -> %s" % (stat_edge_totals(run.stat), stat_edge_totals(run.stat_s)))
    names = set("f%d.c" % d[k] for d in flat for k in ("sfile", "efile"))
    names.add("f%d.c" % run.rootpos[0])
    for nm in ("mem", "shr"):
        dag = run.dags[nm]
        used = set(dag["S"][x[f]] for x in dag["N"] for f in (N_SFILE, N_EFILE) if 0 <= x[f] < dag["ns"])
        if set(dag["S"]) != used or not set(dag["S"]) <= names:
            bad.append("%s DAG: string table %s is not the set of file names of its nodes %s" % (nm, sorted(dag["S"]), sorted(used)))
    if run.dags["mem"]["n"] == sum(ft["nc"]) + ft["nc"][0] + ft["nc"][1] + 1 and set(run.dags["mem"]["S"]) != names:
        bad.append("uncontracted dump: string table %s differs from the recorded file names %s" % (sorted(run.dags["mem"]["S"]), sorted(names)))
    return bad


# ------------------------------------------------------------------------------------------------
# the model side (drv_dag) and the campaign shared by C18 and C19
# ------------------------------------------------------------------------------------------------

def fmt_root(run):
    return "root " + " ".join(str(x) for x in run.root) + " count %d" % run.dags["mem"]["n"]


def model_lines_c18(run, opt):
    """driver input lines and the implementation's answers they must reproduce"""
    _, flat = parse_cap(run.cap)
    ft = flat_totals(flat)
    lines = ["tree fixed %d %d %d %s" % (run.start_clock, run.rootpos[0], run.rootpos[1], " ".join(model_tree_tokens(run.cap))),
             "rec %d %d %d %d %d" % tuple(opt), "tot", "leaves", "flat"]
    exp = ["ok %d true" % len(flat), fmt_root(run), "tot " + " ".join(map(str, stat_edge_totals(run.stat))),
           "leaves " + " ".join("%d %d %d" % (d["est"], d["inek"], d["frt"]) for d in flat),
           "flat %d %d %s %s" % (ft["work"], ft["span"], " ".join(map(str, ft["nc"])), " ".join(map(str, ft["ec"])))]
    return lines, exp


def items_of(toks):
    """(start, end) token ranges of removable items: an O, a whole section S..W / s..W, a create C T..E"""
    out = []
    stack = []
    for i, t in enumerate(toks):
        if t == "O":
            out.append((i, i + 1))
        elif t in ("S", "s"):
            stack.append(i)
        elif t == "W":
            out.append((stack.pop(), i + 1))
        elif t == "C":
            stack.append(i)
        elif t == "E" and stack and toks[stack[-1]] == "C":
            out.append((stack.pop(), i + 1))
    return out


def valid_prog(toks):
    """implicit sections must start with C or be a bare wait (the generator's invariant)"""
    for i, t in enumerate(toks):
        if t == "s" and toks[i + 1] not in ("C", "W"):
            return False
    return True


def shrink_prog(toks, fails, budget=80):
    """greedy structural minimisation: drop whole items while `fails` stays true"""
    cur = list(toks)
    calls = 0
    progress = True
    while progress and calls < budget:
        progress = False
        for (a, b) in sorted(items_of(cur), key=lambda r: r[0] - r[1]):      # largest first
            cand = cur[:a] + cur[b:]
            if not valid_prog(cand):
                cand = [("S" if t == "s" else t) for t in cand]
            calls += 1
            if fails(cand):
                cur = cand
                progress = True
                break
            if calls >= budget:
                break
    return cur


def bucket(n, edges):
    for e in edges:
        if n < e:
            return "<%d" % e
    return ">=%d" % edges[-1]


class Case:
    pass


def gen_cases(res, nprog, corpus_dir):
    """corpus cases (replayed first) then seeded programs x the option grid"""
    cases = []
    if os.path.isdir(corpus_dir):
        for fn in sorted(os.listdir(corpus_dir)):
            if fn.endswith(".run"):
                w = open(os.path.join(corpus_dir, fn)).readline().split()
                c = Case()
                c.seed, c.nworkers, c.sched, c.wmode, c.nfiles = [int(x) for x in w[1:6]]
                c.opt = tuple(int(x) for x in w[6:11])
                c.sopt = tuple(int(x) for x in w[11:14])
                c.toks = w[15:]
                c.fam = "corpus"
                cases.append(c)
    ncorpus = len(cases)
    rng = common.Splitmix(res.seed * 7919 + 18)
    grid = option_grid(res.tier)
    for i in range(nprog):
        toks, fam = gen_prog(rng, i, quick=(res.tier == "quick"))
        nworkers = 1 + rng.below(6)
        for gi, opt in enumerate(grid):
            c = Case()
            c.seed = rng.next() % (1 << 62)
            c.nworkers = nworkers if rng.chance(3, 4) else 1 + rng.below(8)
            c.sched, c.wmode, c.nfiles = rng.below(3), rng.below(4), 1 + rng.below(6)
            if rng.chance(1, 10):
                c.nfiles = 20 + rng.below(40)
            c.opt, c.sopt = opt, SHRINK_GRID[(i + gi) % len(SHRINK_GRID)]
            c.toks, c.fam = toks, fam
            cases.append(c)
    return cases, ncorpus


def run_case(exe, c, prefix):
    return run_impl(exe, c.seed, c.nworkers, c.sched, c.wmode, c.nfiles, c.opt, c.sopt, prefix, c.toks)


def campaign(res, want, nprog, corpus_dir, model_lines, oracle):
    """correspondence (drv_dag vs harness/dag_unit.c on the CAPTURED stamps) + the property oracle on the
    implementation's own output.  `model_lines(run, opt)` -> (driver lines, expected outputs)."""
    exe, err = build()
    if err:
        res.brk("build", err)
        return
    tmp = os.path.join(common.BUILD, "dag", "run-%s-%d" % (res.pid, os.getpid()))
    os.makedirs(tmp, exist_ok=True)
    prefix = os.path.join(tmp, "p")
    cases, ncorpus = gen_cases(res, nprog, corpus_dir)
    hist = {"family": {}, "intervals": {}, "create_depth": {}, "section_nest": {}, "max_fanout": {}, "sched": {}, "wmode": {},
            "nworkers": {}, "nfiles": {}, "materialized_ratio": {}, "policy": {}}
    seen, nontriv = set(), 0
    grid_ref = {}
    first_bad, first_diff = None, None
    agree = disagree = 0
    batch_lines, batch_exp, batch_case = [], [], []

    def flush():
        nonlocal agree, disagree, first_diff
        if not batch_lines:
            return
        outs = common.driver("dag", batch_lines, timeout=900)
        if len(outs) != len(batch_lines):
            raise RuntimeError("drv_dag answered %d lines for %d" % (len(outs), len(batch_lines)))
        bad_cases = set()
        for l, e, o, ci in zip(batch_lines, batch_exp, outs, batch_case):
            if e is not None and e != o:
                if ci not in bad_cases and first_diff is None:
                    j = next((k for k in range(min(len(e), len(o))) if e[k] != o[k]), 0)
                    first_diff = (cases[ci], l[:80], e[max(0, j - 60):j + 60], o[max(0, j - 60):j + 60])
                bad_cases.add(ci)
        ncase = len(set(batch_case))
        disagree += len(bad_cases)
        agree += ncase - len(bad_cases)
        del batch_lines[:], batch_exp[:], batch_case[:]

    def inc(h, k):
        hist[h][str(k)] = hist[h].get(str(k), 0) + 1

    for ci, c in enumerate(cases):
        run = run_case(exe, c, prefix)
        sh = shape(c.toks)
        if ci >= ncorpus and c.opt == cases[ncorpus].opt:       # once per program
            inc("family", c.fam)
            inc("intervals", bucket(sh["intervals"], (5, 20, 100, 500, 1000, 2000)))
            inc("create_depth", sh["create_depth"])
            inc("section_nest", sh["section_nest"])
            inc("max_fanout", bucket(sh["max_fanout"], (1, 2, 4, 8, 16)))
        inc("sched", c.sched)
        inc("wmode", c.wmode)
        inc("nworkers", c.nworkers)
        inc("nfiles", bucket(c.nfiles, (2, 4, 8, 32)))
        inc("policy", "target" if c.opt[3] else ("count" if c.opt[2] else "span"))
        h = common.hashcase([c.toks, c.opt, c.sched, c.wmode, c.nworkers])
        if h not in seen and sh["creates"] >= 1 and sh["intervals"] >= 5:
            nontriv += 1
        seen.add(h)
        bad = oracle(run)
        if "C18" in want and not run.crash:
            # the stamp-independent totals must be equal across the whole option grid of one program
            sig = (run.root[14:23], [run.stat[k] for k in ("create_task", "wait_tasks", "end_task", "dag nodes")],
                   stat_edge_totals(run.stat), stat_edge_totals(run.stat_s))
            key = tuple(c.toks)
            if key in grid_ref and grid_ref[key][0] != sig:
                bad = bad + ["interval / edge totals differ across contraction settings of the same program: %s under %s vs %s under %s"
                             % (grid_ref[key][0], grid_ref[key][1], sig, c.opt)]
            grid_ref.setdefault(key, (sig, c.opt))
        if bad and first_bad is None:
            first_bad = (c, bad)
        if run.crash:
            disagree += 1
            continue
        total = sh["intervals"] + sh["creates"] + sh["sections"] + 1
        inc("materialized_ratio", bucket(100 * run.dags["mem"]["n"] // total, (5, 25, 50, 75, 100)))
        try:
            ls, ex = model_lines(run, c.opt, c.sopt)
        except (ValueError, IndexError, KeyError) as e:
            # the listing of what the implementation dumped / read back cannot be put into the model's format
            # (e.g. a file name that is not one of the generated names): the implementation's output is broken
            if first_bad is None:
                first_bad = (c, ["the dumped / re-read / converted DAG is not a well-formed listing: %s (%s)" % (type(e).__name__, e)])
            disagree += 1
            continue
        batch_lines.extend(ls)
        batch_exp.extend(ex)
        batch_case.extend([ci] * len(ls))
        if len(batch_lines) > 400:
            flush()
    flush()
    shutil.rmtree(tmp, ignore_errors=True)
    sample = cases[ncorpus] if len(cases) > ncorpus else cases[0]
    res.add_cases(len(cases), nontriv, [" ".join(sample.toks[:40])],
                  rule="recorded executions = generated well-nested programs (8 shape families, create depth <= 8, <= 2000 intervals) x 12 "
                       "contraction settings x serial multi-worker schedules; non-trivial = >= 1 create and >= 5 intervals; distinct by hash "
                       "of (program, options, schedule mode, worker mode, workers)")
    res.cov["traces_validated_against_impl"] += agree
    res.cov["disagreements_checked"] += disagree
    res.notes["shape_histogram"] = hist
    res.notes["corpus_cases"] = ncorpus
    if first_bad:
        c, bad = first_bad

        def fails(toks):
            c2 = Case()
            c2.__dict__.update(c.__dict__)
            c2.toks = toks
            os.makedirs(tmp, exist_ok=True)
            try:
                return bool(oracle(run_case(exe, c2, prefix)))
            except RuntimeError:
                return False
        small = shrink_prog(c.toks, fails)
        c.toks = small
        os.makedirs(tmp, exist_ok=True)
        r2 = run_case(exe, c, prefix)
        b2 = oracle(r2) or bad
        shutil.rmtree(tmp, ignore_errors=True)
        p = common.write_replay(res.pid, "failing.run", r2.cmdline.replace(prefix, "@PREFIX@") + "# " + b2[0] + "\n")
        res.violations.append((p, True, b2[0]))
    elif first_diff:
        c, l, e, o = first_diff
        line = "run %d %d %d %d %d %d %d %d %d %d %d %d %d @PREFIX@ %s\n" % (
            (c.seed, c.nworkers, c.sched, c.wmode, c.nfiles) + tuple(c.opt) + tuple(c.sopt) + (" ".join(c.toks),))
        p = common.write_replay(res.pid, "disagreement.run", line + "# model drv_dag and harness/dag_unit.c disagree on `%s`\n" % l)
        res.brk("correspondence", "model `drv_dag` and harness/dag_unit.c disagree on `%s`: impl=...%s... model=...%s... (replay %s)" % (l, e, o, p))


def replay(pid, path, oracle):
    exe, err = build()
    if err:
        print("build failed:", err)
        return 2
    w = open(path).readline().split()
    c = Case()
    c.seed, c.nworkers, c.sched, c.wmode, c.nfiles = [int(x) for x in w[1:6]]
    c.opt = tuple(int(x) for x in w[6:11])
    c.sopt = tuple(int(x) for x in w[11:14])
    c.toks = w[15:]
    tmp = os.path.join(common.BUILD, "dag", "replay-%d" % os.getpid())
    os.makedirs(tmp, exist_ok=True)
    run = run_case(exe, c, os.path.join(tmp, "p"))
    bad = oracle(run)
    print("program:", " ".join(c.toks))
    print("options (uncollapse_min collapse_max collapse_max_count node_count_target prune_threshold):", c.opt, "conversion:", c.sopt)
    if not run.crash:
        print("root:", run.root)
        for k in ("work (T1)", "critical_path (T_inf)", "create_task", "wait_tasks", "end_task", "dag nodes", "materialized nodes"):
            print("  .stat %s = %s" % (k, run.stat.get(k)))
        print("  .stat edge totals (end,create,create_cont,wait_cont,other_cont):", stat_edge_totals(run.stat))
    shutil.rmtree(tmp, ignore_errors=True)
    for b in bad:
        print("ORACLE:", b)
    if bad:
        print("VIOLATION property=%s replay=%s" % (pid, path))
        return 1
    print("no violation on replay")
    return 0


# ------------------------------------------------------------------------------------------------
# C19: the position independent DAG
# ------------------------------------------------------------------------------------------------

def fmt_dag(dag):
    """the canonical one-line print of drv_dag for an implementation DAG"""
    out = ["dag %d %d %d %d" % (dag["n"], dag["m"], dag["ns"], dag["nw"])]
    for x in dag["N"]:
        out.append("N " + " ".join(str(v) for v in x))
    for e in dag["E"]:
        out.append("E %d %d %d" % (e[0], e[1], e[2]))
    for s in dag["S"]:
        out.append("S %d" % int(s[1:-2]))
    return " ".join(out)


def fmt_replay(rp):
    # impl: nev*4 leaves once inner n_running n_ready max_running t cum_running cum_ready nonmono
    return "replay " + " ".join(str(x) for x in rp[0:9] + rp[10:14]) + " 0"


def fmt_stat(st, nw):
    sc = [int(st[k]) for k in ("work (T1)", "critical_path (T_inf)", "create_task", "wait_tasks", "end_task", "dag nodes", "materialized nodes")]
    tot = stat_edge_totals(st)
    mats = []
    for k in EK:
        mats.append("M " + " ".join(str(v) for row in st["edges"][k] for v in row))
    return "stat " + " ".join(map(str, sc + tot)) + " " + " ".join(mats)


WF_OK = "wf true offsets=true edgeEnds=true grouped=true counted=true strings=true degrees=true certificate=true"


def model_lines_c19(run, opt, sopt):
    lines = ["tree fixed %d %d %d %s" % (run.start_clock, run.rootpos[0], run.rootpos[1], " ".join(model_tree_tokens(run.cap))),
             "rec %d %d %d %d %d" % tuple(opt), "dag %d" % run.nworkers, "wf G", "replay G", "stat G",
             "shrink %d %d %d" % tuple(sopt), "wf H", "replay H", "stat H",
             # the verified checker on the arrays the implementation re-read from the dumped file (independent of `flatten`)
             "load " + fmt_dag(run.dags["file"]), "wf G", "dag-echo"]
    f = run.dags["file"]
    exp = [None, fmt_root(run), fmt_dag(run.dags["mem"]), WF_OK, fmt_replay(run.replay["mem"]), fmt_stat(run.stat, run.nworkers),
           fmt_dag(run.dags["shr"]), WF_OK, fmt_replay(run.replay["shr"]), fmt_stat(run.stat_s, run.nworkers),
           "loaded %d %d %d" % (f["n"], f["m"], f["ns"]), WF_OK, fmt_dag(f)]
    return lines, exp
