"""C19 — DAG files are well formed and survive a dump / read / convert round trip (DESIGN section 4, C19)."""
import os

import common
from props import dag_common as D


def run(res):
    common.prove(res, drivers=["dag"])
    n = 36 if res.tier == "quick" else 380
    D.campaign(res, {"C19"}, n, os.path.join(common.CORPUS, "C19"), D.model_lines_c19, D.oracle_c19)
    res.assumptions += [
        "file I/O (dr_pi_dag_dump, dr_read_dag, mmap) is not modelled: dump vs re-read identity is checked on the implementation "
        "(memcmp of T and E, string-by-string comparison of S), for the recorded and for the converted DAG",
        "the conversion is exercised through dr_read_dag + dr_copy_pi_dag + dr_gen_basic_stat + dr_gen_pi_dag, i.e. the body of "
        "dag2any's read_and_analyze_dag with --shrink; dag2any's option parsing and its sqlite / text writers are not exercised",
        "the model's flatten / shrink output is compared field by field with the implementation's arrays, so the verified checker "
        "`wellFormed` and the model replay run on exactly the dumped / converted arrays",
        "the C event heap is abstracted to a list with an arbitrary pick function; compared replay counters (events per kind, "
        "starts/ends per leaf, final running/ready, elapsed, cumulative running/ready time) do not depend on tie-breaking",
        "clocks are unbounded naturals; PAPI counters / cpu ids not modelled; executions come from the serial multi-worker simulator (see C18)",
    ]


def replay(path):
    return D.replay("C19", path, D.oracle_c19)
