"""C15 — initialisation, worker count, finalisation and configuration parsing (DESIGN section 4, C15).

Three implementation harnesses, all compiled from /repo's current sources:
  env_unit   #includes myth_init_func.h / myth_bind_worker.c / myth_worker_func.h: atoi, the five
             default readers, myth_parse_cpu_list, myth_get_available_cpus, the steal victim
             (ASan/UBSan; compared line by line with `drv_env`)
  init_proc  whole library: init / fini / re-init histories, worker counts via attribute and
             environment, ranks reported by every thread, fini from a migrated main thread,
             exit status under malformed environments (compared with the model's history)
  init_conc  K OS threads initialising concurrently under a token-passing controller at the
             MYTH_VERIF points of myth_init.c; the event trace must be accepted by the model
The property's own oracle (below: `oracle_*`) is applied to the implementation's output
independently of the model.
"""
import os
import re

import common
from translate_bridge import run_consts

PID = "C15"
SAN = ["-fsanitize=address,undefined", "-fno-sanitize=signed-integer-overflow", "-fno-sanitize-recover=all",
       "-DMYTH_WRAP=MYTH_WRAP_VANILLA", "-O1"]
PLAIN = ["-DMYTH_WRAP=MYTH_WRAP_VANILLA", "-O0"]
NCPU = os.sysconf("SC_NPROCESSORS_ONLN")
AFF = sorted(os.sched_getaffinity(0))
CSPACE = b" \t\n\v\f\r"
ENVVARS = ["MYTH_NUM_WORKERS", "MYTH_WORKER_NUM", "MYTH_DEF_STKSIZE", "MYTH_DEF_GUARDSIZE", "MYTH_BIND_WORKERS",
           "MYTH_CHILD_FIRST", "MYTH_CPU_LIST"]


# --------------------------------------------------------------------------------------------
# building
# --------------------------------------------------------------------------------------------

def build():
    lib, err = common.build_lib()
    if err:
        return None, "library does not build: " + err
    exes = {}
    for name, flags in (("env_unit", SAN), ("init_proc", PLAIN), ("init_conc", PLAIN), ("wbarrier_unit", PLAIN)):
        exe = os.path.join(common.BUILD, "bin", name)
        err = common.cc(os.path.join(common.HARNESS, name + ".c"), exe, flags=flags, libs=[lib, "-lpthread", "-ldl"])
        if err:
            return None, "%s harness does not build: %s" % (name, err)
        exes[name] = exe
    return exes, None


def hx(b):
    """wire encoding of an environment value: None = unset"""
    return "-" if b is None else "=" + b.hex()


def unhx(s):
    return None if not s.startswith("=") else bytes.fromhex(s[1:])


# --------------------------------------------------------------------------------------------
# structural tie of the init-once model to myth_init.c (what no test can see: the atomicity of the
# election).  The shape the transition system transcribes must still be there, else the tie is
# reported as broken (never guessed).
# --------------------------------------------------------------------------------------------

def _norm(src):
    src = re.sub(r"/\*.*?\*/", "", src, flags=re.S)
    src = re.sub(r"//[^\n]*", "", src)
    src = re.sub(r"MYTH_VERIF_(POINT|SPIN)\s*\((?:[^()]|\([^()]*\))*\)\s*;", "", src)
    return re.sub(r"\s+", "", src)


def _body(norm, header):
    i = norm.find(header)
    if i < 0:
        return None
    j = norm.find("{", i)
    depth, k = 0, j
    while k < len(norm):
        if norm[k] == "{":
            depth += 1
        elif norm[k] == "}":
            depth -= 1
            if depth == 0:
                return norm[j:k + 1]
        k += 1
    return None


INIT_SHAPE = {
    "intmyth_init_once_ctl_try_set(volatileint*var,intold,intnew)":
        "{return__sync_bool_compare_and_swap(var,old,new);}",
    "voidmyth_init_once_ctl_wait(volatileint*var,intval)":
        "{while(*var!=val){real_sched_yield();}}",
    "intmyth_init_ex_body(constmyth_globalattr_t*attr)":
        "{if(g_myth_init_state==myth_init_state_initialized){return1;}"
        "if(!myth_init_once_ctl_try_set(&g_myth_init_state,myth_init_state_uninit,myth_init_state_initializing))"
        "{myth_init_once_ctl_wait(&g_myth_init_state,myth_init_state_initialized);return1;}"
        "assert(g_myth_init_state==myth_init_state_initializing);myth_init_ex_body_really(attr);"
        "g_myth_init_state=myth_init_state_initialized;return1;}",
}


def check_init_shape():
    """None, or a text saying which function of myth_init.c no longer has the transcribed shape"""
    try:
        norm = _norm(open(os.path.join(common.REPO, "src", "myth_init.c")).read())
    except OSError as e:
        return "cannot read myth_init.c: %s" % e
    for header, want in INIT_SHAPE.items():
        got = _body(norm, header)
        if got is None:
            return "myth_init.c: function `%s` not found" % header
        if got != want:
            return "myth_init.c: `%s` no longer has the shape the init-once model transcribes (CAS-elected initialiser): %s" % (header, got[:300])
    fb = _body(norm, "intmyth_fini_body()")
    if fb is None or not fb.startswith("{if(g_myth_init_state==myth_init_state_uninit){return1;}myth_init_once_ctl_wait(&g_myth_init_state,myth_init_state_initialized);") \
            or not fb.endswith("myth_fini_body_really();g_myth_init_state=myth_init_state_uninit;return0;}") \
            or "myth_startpoint_exit_ex_body(0);" not in fb or "real_pthread_join(g_envs[i].worker,NULL);" not in fb:
        return "myth_init.c: myth_fini_body no longer has the transcribed shape: %s" % (fb or "")[:300]
    return None


# --------------------------------------------------------------------------------------------
# reference readings of the strings (python; used by the oracle only)
# --------------------------------------------------------------------------------------------

def ref_number(b):
    """(kind, value): kind in 'unset' | 'nonnumeric' | 'plain' (digits only) | 'prefix' (number
    followed by junk, or preceded by white space / sign)"""
    if b is None:
        return "unset", 0
    i = 0
    while i < len(b) and b[i] in CSPACE:
        i += 1
    neg = False
    j = i
    if j < len(b) and b[j] in b"+-":
        neg = b[j] == ord("-")
        j += 1
    k = j
    while k < len(b) and 48 <= b[k] <= 57:
        k += 1
    if k == j:
        return "nonnumeric", 0
    v = int(b[j:k])
    v = -v if neg else v
    if abs(v) >= 2 ** 31:
        return "huge", v       # outside int: atoi's answer is libc's business, no expectation
    if i == 0 and j == 0 and k == len(b):
        return "plain", v
    return "prefix", v


GRAMMAR = re.compile(rb"\A\d+(-\d+(:\d+)?)?(,\d+(-\d+(:\d+)?)?)*\Z")


def ref_cpulist(b):
    """None if b is not in the grammar; else ('ok', list) | ('big', None) for numbers outside int"""
    if b is None or not GRAMMAR.match(b) or b"\n" in b:
        return None
    out = []
    for r in b.split(b","):
        m = re.match(rb"\A(\d+)(?:-(\d+)(?::(\d+))?)?\Z", r)
        a = int(m.group(1))
        bb = int(m.group(2)) if m.group(2) is not None else a + 1
        c = int(m.group(3)) if m.group(3) is not None else 1
        if a >= 2 ** 31 - 1 or bb + c >= 2 ** 31:
            return ("big", None)
        if c == 0:
            if a < bb:
                return ("zero-stride", None)
            continue
        if (bb - a) // c > 5000:
            return ("toomany", None)
        out += list(range(a, bb, c))
    return ("ok", out)


# --------------------------------------------------------------------------------------------
# generators
# --------------------------------------------------------------------------------------------

FIXED_STRINGS = [b"", b" ", b"abc", b"-", b"+", b"--5", b"-5", b"0", b"-0", b"+0", b"00", b" 3", b"3 ", b"3abc",
                 b"0x10", b"1e3", b"\xd9\xa3", b"\n", b"\t5", b"5\n", b"99999999999", b"-99999999999",
                 b"2147483647", b"2147483648", b"-2147483648", b"-2147483649", b"4294967295", b"4294967297",
                 b"9223372036854775807", b"9223372036854775808", b"-9223372036854775809",
                 b"18446744073709551617", b"7" * 400, b"-" + b"9" * 300, b"\xff\xfe", b"NaN", b".5", b"5.5",
                 b"+-5", b"-+5", b" \t\n\v\f\r12", b"12\x0b", b"1 2", b"64", b"1", b"16", b"-1", b"131072"]


def gen_string(rng):
    f = rng.below(10)
    if f == 0:
        return rng.choice(FIXED_STRINGS)
    if f == 1:
        return bytes(1 + rng.below(255) for _ in range(rng.below(12)))
    if f == 2:
        al = b"0123456789-+ ,:\n\tabx"
        return bytes(rng.choice(al) for _ in range(rng.below(10)))
    if f == 3:
        return str(rng.below(200) - 100).encode()
    if f == 4:
        return rng.choice([b"", b" ", b"\t", b"+", b"-"]) + str(rng.below(70)).encode() + rng.choice([b"", b" ", b"x", b"\n", b".0", b"k"])
    if f == 5:
        return str(rng.choice([2 ** 31, 2 ** 32, 2 ** 63, 2 ** 64]) + rng.below(5) - 2).encode()
    if f == 6:
        return (b"-" if rng.chance(1, 2) else b"") + bytes(48 + rng.below(10) for _ in range(1 + rng.below(30)))
    if f == 7:
        return str(1 + rng.below(64)).encode()
    if f == 8:
        return str(4096 * (1 + rng.below(64))).encode()
    return rng.choice(FIXED_STRINGS) + rng.choice(FIXED_STRINGS)


def gen_range(rng, big):
    hi = big if big else 40
    a = rng.below(hi)
    f = rng.below(4)
    if f == 0:
        return b"%d" % a
    b = a + rng.below(12) if not rng.chance(1, 8) else rng.below(hi)
    if f == 1:
        return b"%d-%d" % (a, b)
    c = 1 + rng.below(5) if not rng.chance(1, 10) else 0
    return b"%d-%d:%d" % (a, b, c)


def gen_cpulist(rng):
    """(bytes, family) — grammar-generated, then possibly mutated into an ill-formed list"""
    fam = rng.below(12)
    if fam == 0:
        return rng.choice([b"", b",", b"-", b":", b"\n", b"0\n", b"1,2\n3", b"0-", b"0-3:", b":2", b"1--2", b"1-2-3",
                           b"1:2", b" 1", b"1 ", b"1,,2", b",1", b"1,", b"0-3:0", b"3-0", b"0-5000", b"4294967295",
                           b"4294967294", b"2147483647", b"0-2147483647:2000000000", b"99999999999999999999",
                           b"0-9:4294967296", b"1\n", b"\n1", b"1,\n2", b"1-\n2", b"1-2:\n3", b"0\t", b"0\r\n"]), "fixed"
    big = 0
    if fam == 1:
        big = rng.choice([2000, 2 ** 31, 2 ** 33])
    n = 1 + rng.below(6)
    s = b",".join(gen_range(rng, big) for _ in range(n))
    if fam <= 6:
        return s, "grammar" if not big else "grammar-big"
    # mutate
    m = rng.below(6)
    pos = rng.below(len(s) + 1)
    junk = bytes([rng.choice(b",-:\n x\t0;/")])
    if m == 0 and s:
        p = rng.below(len(s))
        return s[:p] + s[p + 1:], "mut-drop"
    if m == 1:
        return s[:pos] + junk + s[pos:], "mut-insert"
    if m == 2:
        return s + junk, "mut-append"
    if m == 3:
        return junk + s, "mut-prepend"
    if m == 4:
        return s[:pos] + b"\n" + s[pos:], "mut-newline"
    return s[:pos] + bytes(1 + rng.below(255) for _ in range(1 + rng.below(3))) + s[pos:], "mut-bytes"


def rand_r(seed):
    """glibc rand_r"""
    nxt = seed & 0xFFFFFFFF
    nxt = (nxt * 1103515245 + 12345) & 0xFFFFFFFF
    res = (nxt // 65536) % 2048
    nxt = (nxt * 1103515245 + 12345) & 0xFFFFFFFF
    res = (res << 10) ^ ((nxt // 65536) % 1024)
    nxt = (nxt * 1103515245 + 12345) & 0xFFFFFFFF
    res = (res << 10) ^ ((nxt // 65536) % 1024)
    return res


def gen_unit_ops(rng, n):
    """list of op groups (a group is never split across harness processes) and the input histogram"""
    groups = [["consts"]]
    kinds = {}

    class _Ops:
        def append(self, o):
            if o.startswith("wcpu"):
                groups[-1].append(o)
            else:
                groups.append([o])
    ops = _Ops()

    def k(x):
        kinds[x] = kinds.get(x, 0) + 1
    for i in range(n):
        f = i % 10
        if f in (0, 1):
            s = gen_string(rng)
            ops.append("%s %s" % (rng.choice(["atoi", "stk", "guard", "bind", "cf"]), hx(s)))
            k("number:" + ref_number(s)[0])
        elif f == 2:
            s = gen_string(rng) if not rng.chance(1, 6) else None
            o = gen_string(rng) if rng.chance(1, 3) else None
            ops.append("nw %s %s %d" % (hx(s), hx(o), NCPU))
            k("nw:" + ref_number(s)[0])
        elif f == 3:
            s = gen_string(rng) if not rng.chance(1, 10) else None
            ops.append("stk %s" % hx(s))
            k("number:" + ref_number(s)[0])
        elif f in (4, 5, 6, 7):
            s, fam = gen_cpulist(rng)
            if b"\x00" in s:
                s = s.replace(b"\x00", b"\x01")
            cap = rng.choice([1024, 1024, 1024, 8, 3, 1, 0, 16]) if not rng.chance(1, 12) else rng.below(40)
            ops.append("cpulist %d %s" % (cap, hx(s) if not rng.chance(1, 40) else "-"))
            k("cpulist:" + fam)
        elif f == 8:
            s, fam = gen_cpulist(rng)
            if b"\x00" in s:
                s = s.replace(b"\x00", b"\x01")
            mask = [c for c in AFF if rng.chance(2, 3)] or [AFF[0]]
            ops.append("avail %d %s %s" % (NCPU, ",".join(map(str, mask)), hx(s) if not rng.chance(1, 8) else "-"))
            ops.append("wcpu %d" % rng.below(70))
            k("avail:" + fam)
        else:
            nw = rng.choice([1, 2, 2, 3, 4, 5, 8, 16, 33, 64, 1 + rng.below(64)])
            rank = rng.below(nw)
            seed = 1 + rng.below(2 ** 31 - 2)
            ops.append("victim %d %d %d %d" % (nw, rank, seed, rand_r(seed)))
            k("victim")
    return groups, kinds


# --------------------------------------------------------------------------------------------
# unit level: run, oracle
# --------------------------------------------------------------------------------------------

def run_unit(exe, ops, timeout=120):
    env = dict(os.environ, ASAN_OPTIONS="detect_leaks=0:abort_on_error=0", UBSAN_OPTIONS="print_stacktrace=0")
    for v in ENVVARS:
        env.pop(v, None)
    rc, out, err = common.sh([exe], inp="\n".join(ops) + "\n", timeout=timeout, env=env)
    crash = None
    if rc != 0:
        crash = "rc=%s: %s" % ("timeout" if rc == -9 else rc, " ".join(err.split()[:30]))
    return out.splitlines(), crash


def parse_kv(line):
    d = {}
    for tok in line.split()[1:]:
        if "=" in tok:
            a, b = tok.split("=", 1)
            d[a] = b
    return d


def csv(s):
    return [] if s == "-" else [int(x) for x in s.split(",")]


def oracle_unit(ops, outs, crash, consts):
    """C15 on the implementation's answers.  Returns list of texts (first = most specific)."""
    bad = []
    if len(outs) < len(ops):
        bad.append("`%s`: the configuration code aborted (assertion) / crashed / hung / was stopped by a sanitizer (%s)" % (
            ops[len(outs)], crash or "no output"))
    dstk = int(consts.get("defStack", 0))
    for op, out in zip(ops, outs):
        w = op.split()
        if out.startswith("bad-"):
            raise RuntimeError("harness rejected op `%s`: %s" % (op, out))
        if w[0] == "stk":
            v = int(out.split()[1])
            kind, val = ref_number(unhx(w[1]))
            if v <= 0:
                bad.append("`%s`: default stack size %d is not positive" % (op, v))
            elif kind == "huge":
                pass
            elif kind in ("unset", "nonnumeric") or val <= 0:
                if v != dstk:
                    bad.append("`%s` (MYTH_DEF_STKSIZE=%r, %s/non-positive): the value is not ignored, stack size used is %d, default is %d" % (
                        op, unhx(w[1]), kind, v, dstk))
            elif kind == "plain" and val < 2 ** 31 and v != val:
                bad.append("`%s`: well-formed stack size %d not used (%d)" % (op, val, v))
        elif w[0] == "nw":
            d = out.split()
            v = int(d[1])
            s = unhx(w[1])
            kind, val = ref_number(s)
            if s is None:
                kind, val = ref_number(unhx(w[2]))
            if v <= 0:
                bad.append("`%s`: worker count %d is not positive" % (op, v))
            elif kind == "huge":
                pass
            elif kind in ("unset", "nonnumeric") or val <= 0:
                if v != NCPU:
                    bad.append("`%s` (%s/non-positive): worker count %d, CPU count %d" % (op, kind, v, NCPU))
            elif kind == "plain" and val < 2 ** 31 and v != val:
                bad.append("`%s`: requested worker count %d not used (%d)" % (op, val, v))
        elif w[0] == "cpulist":
            d = parse_kv("x " + out)
            if "ret" not in d:
                bad.append("`%s`: unparsable answer %r" % (op, out))
                continue
            r, wr, cap = int(d["ret"]), csv(d["written"]), int(w[1])
            s = unhx(w[2])
            if len(wr) > cap:
                bad.append("`%s`: %d entries written into an array of %d" % (op, len(wr), cap))
            if r != -1 and (r != len(wr) or r > cap):
                bad.append("`%s`: returned %d with %d entries written" % (op, r, len(wr)))
            ref = ref_cpulist(s)
            if s is None:
                if r != 0:
                    bad.append("`%s`: unset variable gives %d" % (op, r))
            elif ref is None:
                if r != -1:
                    bad.append("`%s` (MYTH_CPU_LIST=%r is ill-formed): not rejected, returned %d" % (op, s, r))
                elif d["diag"] == "none" and not re.search(rb"\d{10}", s):
                    bad.append("`%s` (MYTH_CPU_LIST=%r is ill-formed): rejected without the diagnostic" % (op, s))
            elif ref[0] == "ok":
                if len(ref[1]) <= cap:
                    if r != len(ref[1]) or wr != ref[1]:
                        bad.append("`%s` (MYTH_CPU_LIST=%r): expected CPUs %s, got ret=%d %s" % (op, s, ref[1][:20], r, wr[:20]))
                elif r != -1:
                    bad.append("`%s`: %d CPUs listed for %d slots but returned %d" % (op, len(ref[1]), cap, r))
            elif ref[0] in ("zero-stride", "toomany") and (ref[0] == "zero-stride" or cap <= 5000) and r != -1:
                bad.append("`%s`: unbounded list accepted (ret=%d)" % (op, r))
        elif w[0] == "avail":
            d = parse_kv("x " + out)
            if "cpus" not in d:
                bad.append("`%s`: unparsable answer %r" % (op, out))
                continue
            mask = set(int(x) for x in w[2].split(","))
            cpus = csv(d["cpus"])
            s = unhx(w[3])
            if any(c not in mask for c in cpus):
                bad.append("`%s`: a worker would be bound to a CPU outside the affinity mask: %s" % (op, cpus))
            ref = ref_cpulist(s)
            if s is not None and ref is None and d["malformed"] != "1":
                bad.append("`%s`: ill-formed list %r used without the `malformed MYTH_CPU_LIST ignored` diagnostic" % (op, s))
            if (s is None or ref is None) and cpus != sorted(c for c in mask if c < NCPU):
                bad.append("`%s`: list unset/ignored but the CPUs are %s, not the online CPUs of the mask" % (op, cpus))
            if ref is not None and ref[0] == "ok" and 0 < len(ref[1]) <= 1024 and cpus != [c for c in ref[1] if c in mask]:
                bad.append("`%s`: CPUs %s, expected the listed ones inside the mask" % (op, cpus))
        elif w[0] == "victim":
            d = parse_kv("x " + out)
            n, rank, idx = int(w[1]), int(w[2]), int(d["idx"])
            if n <= 1:
                if idx != -1:
                    bad.append("`%s`: a single worker has no victim, got %d" % (op, idx))
            elif not (0 <= idx < n) or idx == rank:
                bad.append("`%s`: steal victim %d outside [0,%d) or the thief itself (%d)" % (op, idx, n, rank))
    return bad


# --------------------------------------------------------------------------------------------
# process level: histories
# --------------------------------------------------------------------------------------------

def run_proc(exe, envset, ops, timeout=60):
    """envset: dict NAME -> bytes for the process environment.  Returns (lines, info, status)"""
    env = {k: v for k, v in os.environ.items() if k not in ENVVARS}
    envb = {k.encode(): v.encode() for k, v in env.items()}
    for k2, v in envset.items():
        envb[k2.encode()] = v
    import subprocess
    try:
        p = subprocess.run([exe], input=("\n".join(ops) + "\n").encode(), capture_output=True, timeout=timeout, env=envb)
        rc, out, err = p.returncode, p.stdout.decode(errors="replace"), p.stderr.decode(errors="replace")
    except subprocess.TimeoutExpired as e:
        rc, out, err = -9, (e.stdout or b"").decode(errors="replace"), (e.stderr or b"").decode(errors="replace")
    lines = [l for l in out.splitlines() if not l.startswith("#")]
    info = [l for l in out.splitlines() if l.startswith("#")]
    status = None
    if rc != 0:
        status = "%s; stderr: %s" % ("timeout (hang) after %ds" % timeout if rc == -9 else "exit status %d" % rc,
                                     " ".join(err.split()[:40]))
    return lines, info, status


def model_proc(envset, ops):
    pre = ["setenv %s %s" % (k, hx(v)) for k, v in sorted(envset.items())]
    outs = common.driver("env", pre + ops)
    return outs[len(pre):]


def expected_env_nw(envset):
    """what C15 says about the worker count of a default initialisation: (exact, value) """
    s = envset.get("MYTH_NUM_WORKERS")
    if s is None:
        s = envset.get("MYTH_WORKER_NUM")
    kind, val = ref_number(s)
    if kind == "huge":
        return False, None
    if kind in ("unset", "nonnumeric") or val <= 0:
        return True, NCPU
    if kind == "plain":
        return True, val
    return False, None


def oracle_proc(envset, ops, lines, status):
    bad = []
    if status is not None:
        at = ops[len(lines)] if len(lines) < len(ops) else "exit"
        bad.append("environment %s, history %s: the process did not survive `%s`: %s" % (
            {k: v for k, v in envset.items()}, ops[:len(lines) + 1][-6:], at, status))
    inited = False
    nw = None
    really = 0
    last_req = []          # values a later attribute-less initialisation may legitimately reuse
    for op, out in zip(ops, lines):
        w = op.split()
        if out in ("bad-op", "bad-ncpu"):
            raise RuntimeError("harness rejected `%s`: %s" % (op, out))
        d = parse_kv(out)
        if w[0] in ("init_ex", "init", "implicit"):
            r, n, th = int(d["really"]), int(d["nw"]), int(d["threads"])
            if inited:
                if r != really:
                    bad.append("`%s` on an initialised library initialised it again (%d real initialisations, was %d)" % (op, r, really))
                if n != nw:
                    bad.append("`%s` on an initialised library changed the worker count %d -> %d" % (op, nw, n))
            else:
                if r != really + 1:
                    bad.append("`%s` on an uninitialised library ran %d real initialisations (exactly one expected)" % (op, r - really))
                if w[0] == "init_ex":
                    if n != int(w[1]):
                        bad.append("`%s`: runs with %d workers, %s requested through the attribute" % (op, n, w[1]))
                    if len(w) > 2 and d["stk"] != w[2]:
                        bad.append("`%s`: default stack size %s, %s requested" % (op, d["stk"], w[2]))
                    last_req.append(int(w[1]))
                else:
                    exact, val = expected_env_nw(envset)
                    allowed = set(last_req)
                    if exact:
                        allowed.add(val)
                    if exact and not last_req and n != val:
                        bad.append("`%s` with %s: runs with %d workers, expected %d" % (op, envset, n, val))
                    elif allowed and exact and n not in allowed:
                        bad.append("`%s`: runs with %d workers, expected one of %s" % (op, n, sorted(allowed)))
                    if n <= 0:
                        bad.append("`%s`: worker count %d" % (op, n))
                inited, nw = True, n
            really = r
            if th != nw:
                bad.append("`%s`: %d worker OS threads are running, worker count is %d" % (op, th, nw))
            if w[0] != "init_ex" or len(w) <= 2:
                s = envset.get("MYTH_DEF_STKSIZE")
                kind, val = ref_number(s)
                if int(d["stk"]) <= 0:
                    bad.append("`%s`: default stack size %s" % (op, d["stk"]))
        elif w[0] == "setglobal":
            last_req.append(int(w[1]))
        elif w[0] == "ranks":
            if not inited:      # first use without init: an implicit initialisation
                inited, nw = True, int(d.get("nw", -1))
                really += 1
            if d.get("inrange") != "1":
                bad.append("`%s`: some thread saw a worker index outside [0, %s)" % (op, d.get("nw")))
            if d.get("nwsame") != "1" or int(d.get("nw", -1)) != nw:
                bad.append("`%s`: some thread saw a worker count different from %s" % (op, nw))
        elif w[0] == "fini":
            th, r, sr = int(d["threads"]), int(d["really"]), int(d["stoprank"])
            if th != 1:
                bad.append("`%s`: %d OS threads still exist after finalisation (workers not stopped)" % (op, th))
            if r != really:
                bad.append("`%s`: finalisation initialised the library" % op)
            if inited and sr != 0:
                bad.append("`%s`: workers joined from rank %d" % (op, sr))
            inited = False
    return bad


def gen_history(rng, big):
    """one init/fini history; returns (envset, ops)"""
    envset = {}
    if rng.chance(1, 2):
        envset["MYTH_NUM_WORKERS"] = str(1 + rng.below(6)).encode()
    if big or rng.chance(2, 3):
        envset["MYTH_BIND_WORKERS"] = b"0"     # see assumptions: binding survives myth_fini
    ops = ["ncpu %d" % NCPU]
    inited = False
    top = 64 if big else 6
    nep = 2 + rng.below(4)
    for _ in range(nep):
        for _ in range(rng.below(3)):
            f = rng.below(6)
            if f == 0 and not inited:
                ops.append("setglobal %d" % (1 + rng.below(top)))
            elif f == 1:
                ops.append("fini")
                inited = False
        f = rng.below(4)
        if f == 0:
            ops.append("init")
        elif f == 1:
            ops.append("implicit")
        else:
            n = 1 + rng.below(top)
            ops.append("init_ex %d" % n if rng.chance(2, 3) else "init_ex %d %d" % (n, 4096 * (8 + rng.below(56))))
        inited = True
        for _ in range(1 + rng.below(3)):
            f = rng.below(5)
            if f == 0:
                ops.append("ranks %d" % (1 + rng.below(60)))
            elif f == 1:
                ops.append("migrate")
            elif f == 2:
                ops.append(rng.choice(["init", "implicit", "init_ex %d" % (1 + rng.below(top))]))
        if rng.chance(1, 2):
            ops.append("migrate")
        ops.append("fini")
        inited = False
    return envset, ops


def gen_malformed_env(rng, i):
    """one malformed setting of one (sometimes two) variables; the others keep the run cheap"""
    envset = {}
    var = ["MYTH_NUM_WORKERS", "MYTH_DEF_STKSIZE", "MYTH_CPU_LIST", "MYTH_BIND_WORKERS", "MYTH_WORKER_NUM",
           "MYTH_DEF_GUARDSIZE", "MYTH_CHILD_FIRST"][i % 7]
    for _ in range(60):
        if var == "MYTH_CPU_LIST":
            s, _ = gen_cpulist(rng)
        else:
            s = gen_string(rng)
        if b"\x00" in s or len(s) > 2000:
            continue
        kind, val = ref_number(s)
        # well-formed but unusable requests are excluded by the property
        if kind == "huge" and var not in ("MYTH_CPU_LIST", "MYTH_DEF_GUARDSIZE", "MYTH_BIND_WORKERS", "MYTH_CHILD_FIRST"):
            continue
        if var in ("MYTH_NUM_WORKERS", "MYTH_WORKER_NUM") and not (kind == "nonnumeric" or val <= 64):
            continue
        if var == "MYTH_DEF_STKSIZE" and not (kind == "nonnumeric" or val <= 0 or 32768 <= val <= 2 ** 22):
            continue
        break
    else:
        s = b""
    envset[var] = s
    if var not in ("MYTH_NUM_WORKERS", "MYTH_WORKER_NUM"):
        envset["MYTH_NUM_WORKERS"] = str(1 + rng.below(4)).encode()
    if rng.chance(1, 5):
        s2, _ = gen_cpulist(rng)
        if b"\x00" not in s2:
            envset.setdefault("MYTH_CPU_LIST", s2)
    ops = ["ncpu %d" % NCPU, rng.choice(["implicit", "init"]), "ranks %d" % (1 + rng.below(30)), "fini"]
    if rng.chance(1, 3):
        ops += ["init", "ranks 5", "fini"]
    return envset, ops


# --------------------------------------------------------------------------------------------
# concurrent initialisers
# --------------------------------------------------------------------------------------------

def gen_conc(rng):
    k = 2 + rng.below(5)
    ops = ["threads %d" % k]
    for _ in range(1 + rng.below(4)):
        for _ in range(1 + rng.below(2)):
            args = [rng.choice([0, -1, 1 + rng.below(3)]) for _ in range(k)]
            sched = [rng.below(k) for _ in range(rng.below(8 * k))]
            if rng.chance(1, 3):     # starve one participant: it spins in the wait loop
                v = rng.below(k)
                sched = [v if rng.chance(1, 2) else x for x in sched]
            if rng.chance(1, 4):
                ops.append("stress %s" % " ".join(map(str, args)))
            else:
                ops.append("round %s | %s" % (" ".join(map(str, args)), " ".join(map(str, sched))))
        ops.append("fini")
        if rng.chance(1, 4):
            ops.append("fini")
    return ops


def run_conc(exe, ops, timeout=60):
    env = {k: v for k, v in os.environ.items() if k not in ENVVARS}
    env["MYTH_NUM_WORKERS"] = "2"
    env["MYTH_BIND_WORKERS"] = "0"
    rc, out, err = common.sh([exe], inp="\n".join(ops) + "\n", timeout=timeout, env=env)
    if rc == 3:
        # the controller's watchdog fired: a participant is stuck between two points.  That is a harness
        # problem only if the library itself is fine: run the same history free (no controller, every
        # round as a `stress` round); a hang / crash there is the implementation's
        free = [("stress " + o[len("round "):].split("|")[0].strip()) if o.startswith("round ") else o for o in ops]
        rc2, out2, err2 = common.sh([exe], inp="\n".join(free) + "\n", timeout=timeout, env=env)
        if rc2 == 0:
            raise RuntimeError("init_conc controller: %s (history %s; the same history passes without the controller)" % (err[-300:], ops))
        status = ("hang (timeout %d s, also without the schedule controller): a call of the initialisation / finalisation history never returned" % timeout
                  if rc2 in (-9, 3, 4) else "exit status %d without the schedule controller: %s" % (rc2, " ".join(err2.split()[:30])))
        return out.splitlines(), status
    status = None if rc == 0 else ("timeout" if rc == -9 else "hang: concurrent callers of the initialisation never returned" if rc == 4
                                   else "exit status %d: %s" % (rc, " ".join(err.split()[:30])))
    return out.splitlines(), status


def model_conc(ops, lines):
    k = ops[0].split()[1]
    inp = ["ncpu %d" % NCPU, "setenv MYTH_NUM_WORKERS %s" % hx(b"2"), "setenv MYTH_BIND_WORKERS %s" % hx(b"0"), "threads " + k]
    for l in lines:
        if l.startswith("sev "):
            continue
        inp.append("end" if l.startswith("end ") else l)
    outs = common.driver("env", inp)[4:]
    return outs


def oracle_conc(ops, lines, status):
    """exactly one real initialisation per epoch in which anybody called; every caller returns only
    after it completed; the worker count is the elected caller's request"""
    bad = []
    if status:
        bad.append("concurrent initialisers %s: %s" % (ops, status))
    really_total = 0
    epoch_really = 0
    done = False
    want = None
    req = {}
    for l in lines:
        w = l.split()
        if w[0] == "sev":          # free-running round: arrival order only
            p = w[1]
            if w[2] == "call":
                req[p] = (w[3], int(w[4]))
            elif w[2] == "really":
                epoch_really += 1
                really_total += 1
                if epoch_really > 1:
                    bad.append("two real initialisations in one epoch under real parallelism (second by participant %s)" % p)
                kind, n = req.get(p, ("init", 0))
                if kind == "init_ex":
                    want = n
            elif w[2] == "done":
                done = True
            elif w[2] == "ret" and w[3] != "2":
                bad.append("participant %s returned from its initialising call and found the library in state %s" % (p, w[3]))
        elif w[0] == "ev":
            p = w[1]
            if w[2] == "call":
                req[p] = (w[3], int(w[4]))
            elif w[2] == "really":
                epoch_really += 1
                really_total += 1
                if epoch_really > 1:
                    bad.append("two real initialisations in one epoch (second by participant %s)" % p)
                kind, n = req.get(p, ("init", 0))
                if kind == "init_ex":
                    want = n
                    if int(w[3]) != n:
                        bad.append("participant %s was elected with n_workers=%d but initialises %s workers" % (p, n, w[3]))
            elif w[2] == "done":
                done = True
            elif w[2] == "ret":
                if not done:
                    bad.append("participant %s returned from its initialising call before any initialisation completed" % p)
        elif w[0] == "fev" and w[1] == "done":
            done = False
            epoch_really = 0
            want = None
        elif w[0] == "end":
            d = parse_kv(l)
            if int(d["really"]) != really_total:
                raise RuntimeError("init_conc: hook count %s differs from the logged events %d" % (d["really"], really_total))
            if d["state"] == "2":
                if want is not None and int(d["nw"]) != want:
                    bad.append("library runs with %s workers, the elected caller asked for %d" % (d["nw"], want))
                if int(d["extra"]) != int(d["nw"]) - 1:
                    bad.append("%s extra OS threads for %s workers" % (d["extra"], d["nw"]))
            elif int(d["extra"]) != 0:
                bad.append("%s worker OS threads survive finalisation" % d["extra"])
    return bad


# --------------------------------------------------------------------------------------------
# case files (corpus / replay)
# --------------------------------------------------------------------------------------------

def write_case(kind, envset, ops):
    out = ["kind " + kind]
    for k2, v in sorted(envset.items()):
        out.append("env %s %s" % (k2, hx(v)))
    out += ["op " + o for o in ops]
    return "\n".join(out) + "\n"


def read_case(path):
    kind, envset, ops = "unit", {}, []
    for l in open(path):
        l = l.rstrip("\n")
        if not l.strip() or l.startswith("#"):
            continue
        w = l.split(" ", 1)
        if w[0] == "kind":
            kind = w[1].strip()
        elif w[0] == "env":
            n, v = w[1].split()
            envset[n] = unhx(v)
        elif w[0] == "op":
            ops.append(w[1])
    return kind, envset, ops


def run_case(exes, kind, envset, ops, consts):
    """returns (impl_lines, model_lines_or_None, oracle_findings, info)"""
    if kind == "unit":
        outs, crash = run_unit(exes["env_unit"], ops)
        bad = oracle_unit(ops, outs, crash, consts)
        return outs, common.driver("env", ops), bad, []
    if kind == "wb":
        rc, out, err = common.sh([exes["wbarrier_unit"]], inp="\n".join(ops) + "\n", timeout=40)
        lines = out.splitlines()
        bad = []
        if rc == -9:
            bad.append("workers' start/stop barrier: history %s hangs after %d answered lines (a re-initialised barrier that never opens)" % (ops, len(lines)))
        elif rc != 0:
            bad.append("workers' start/stop barrier: history %s: exit status %s %s" % (ops, rc, " ".join(err.split()[:30])))
        for o, l in zip(ops, lines):
            if "EARLY" in l:
                bad.append("`%s`: %s" % (o, l))
        return lines, common.driver("env", ops), bad, []
    if kind == "proc":
        lines, info, status = run_proc(exes["init_proc"], envset, ops)
        bad = oracle_proc(envset, ops, lines, status)
        return lines, model_proc(envset, ops), bad, info
    lines, status = run_conc(exes["init_conc"], ops)
    bad = oracle_conc(ops, lines, status)
    mod = model_conc(ops, lines)
    # acceptor output: `ok` per event, model summary per `end`
    impl_view = [l if l.startswith("end ") else "ok" for l in lines if not l.startswith("sev ")]
    return impl_view, mod, bad, lines


def get_consts(exes):
    outs, crash = run_unit(exes["env_unit"], ["consts"])
    if crash or not outs:
        raise RuntimeError("env_unit does not start: %s" % crash)
    return parse_kv(outs[0]), outs[0]


# --------------------------------------------------------------------------------------------
# the check
# --------------------------------------------------------------------------------------------

def run(res):
    import time
    t0 = time.time()
    phases = {}
    vals, err = run_consts()
    if err:
        res.brk("translator", err)
    shape = check_init_shape()
    if shape:
        res.brk("translator", shape)
    common.prove(res, drivers=["env"])
    phases["translate+prove"] = round(time.time() - t0, 1)
    t1 = time.time()
    exes, err = build()
    phases["build"] = round(time.time() - t1, 1)
    if err:
        res.brk("build", err)
        return
    quick = res.tier == "quick"
    rng = common.Splitmix(res.seed * 104729 + 15)
    consts, cline = get_consts(exes)
    if common.driver("env", ["consts"])[0] != cline:
        res.brk("correspondence", "compiled-in constants differ from the model's: impl `%s` model `%s`" % (
            cline, common.driver("env", ["consts"])[0]))

    cases = []       # (kind, envset, ops, tag)
    cdir = os.path.join(common.CORPUS, PID)
    if os.path.isdir(cdir):
        for fn in sorted(os.listdir(cdir)):
            if fn.endswith(".case"):
                k, e, o = read_case(os.path.join(cdir, fn))
                cases.append((k, e, o, "corpus:" + fn))
    ncorpus = len(cases)

    # unit level: one long op list, cut into chunks so that a crash costs one chunk
    nunit = 4000 if quick else 60000
    ugroups, ukinds = gen_unit_ops(rng, nunit)
    chunk = 500
    uops = [o for g in ugroups for o in g]
    nchunks = 0
    for i in range(0, len(ugroups), chunk):
        cases.append(("unit", {}, [o for g in ugroups[i:i + chunk] for o in g], "unit"))
        nchunks += 1
    # the workers' start/stop barrier: lifetimes on one static object, re-initialised over what the previous
    # lifetime left behind (phase 1 and a full counter after an odd number of rounds) or over garbage
    for i in range(12 if quick else 150):
        ops, prev = [], None
        for life in range(2 + rng.below(3)):
            n = 1 + rng.below(8)
            r = 1 + rng.below(5) if rng.chance(3, 4) else 2 * (1 + rng.below(3))
            if prev is None or rng.chance(1, 4):
                left = (rng.below(2), rng.below(12), rng.below(12))
            else:
                pn, pr = prev
                ph = pr % 2
                left = (ph, (0 if ph == 0 else pn), (pn if ph == 0 else 0))
            ops.append("wbinit %d %d %d %d" % (left[0], left[1], left[2], n))
            ops.append("wbrounds %d %d" % (n, r))
            prev = (n, r)
        cases.append(("wb", {}, ops, "worker-barrier"))
    # malformed environments at process level
    for i in range(35 if quick else 560):
        e, o = gen_malformed_env(rng, i)
        cases.append(("proc", e, o, "malformed-env"))
    # worker counts via attribute and via environment
    counts = sorted(set([1, 2, 3, 4, 16, 33, 64] + [1 + rng.below(64) for _ in range(3)])) if quick else list(range(1, 65))
    for n in counts:
        t = 1 + rng.below(40)
        cases.append(("proc", {}, ["ncpu %d" % NCPU, "init_ex %d" % n, "ranks %d" % (t + n), "migrate", "ranks 3", "fini"], "count-attr"))
        cases.append(("proc", {"MYTH_NUM_WORKERS": str(n).encode()},
                      ["ncpu %d" % NCPU, rng.choice(["init", "implicit"]), "ranks %d" % (t + n), "migrate", "fini"], "count-env"))
    cases.append(("proc", {"MYTH_WORKER_NUM": b"3"}, ["ncpu %d" % NCPU, "init", "ranks 9", "fini"], "count-env"))
    cases.append(("proc", {}, ["ncpu %d" % NCPU, "setglobal 5", "implicit", "ranks 9", "fini"], "count-attr"))
    # histories
    for i in range(12 if quick else 200):
        e, o = gen_history(rng, big=(i % 5 == 4))
        cases.append(("proc", e, o, "history"))
    # concurrent initialisers
    for i in range(30 if quick else 500):
        cases.append(("conc", {}, gen_conc(rng), "conc"))

    seen = set()
    nontriv = 0
    tags = {}
    disagreements = 0
    first_diff = None
    first_bad = None
    traces = 0
    migrated = 0
    fini_from_other_rank = 0
    conc_stats = {"events": 0, "cas_lost": 0, "wait_iterations": 0, "epochs": 0}
    evaluations = 0
    for (kind, envset, ops, tag) in cases:
        tags[tag.split(":")[0]] = tags.get(tag.split(":")[0], 0) + 1
        tc = time.time()
        try:
            impl, model, bad, info = run_case(exes, kind, envset, ops, consts)
        except RuntimeError:
            if first_bad is not None or first_diff is not None:
                break          # a failing input is already in hand: report it rather than the harness trouble it causes later
            raise
        phases[tag.split(":")[0]] = round(phases.get(tag.split(":")[0], 0) + time.time() - tc, 2)
        evaluations += len(ops) if kind == "unit" else 1
        h = common.hashcase([kind, sorted((k2, v.hex()) for k2, v in envset.items()), ops])
        if h not in seen:
            seen.add(h)
            if kind == "unit":
                # a string counts if it is not decided at its first character
                nontriv += sum(1 for o in ops if o.split()[0] in ("cpulist", "avail") and len(o.split()[-1]) > 5)
                nontriv += sum(1 for o in ops if o.split()[0] in ("stk", "nw", "atoi", "bind", "guard", "cf") and len(o.split()[1]) > 3)
            elif kind == "wb":
                nontriv += 1
            elif kind == "proc":
                nontriv += 1 if sum(1 for o in ops if o.split()[0] in ("init", "init_ex", "implicit", "fini")) >= 2 else 0
            else:
                nontriv += 1 if any(l.startswith("ev") and " cas 0" in l for l in info) else 0
        if kind == "proc":
            for l in info:
                if l.startswith("# migrated") and "rank=0 " not in l:
                    migrated += 1
                if l.startswith("# fini entered on rank=") and l.split("=")[1] not in ("0", "-1"):
                    fini_from_other_rank += 1
        if kind == "conc":
            conc_stats["events"] += len(info)
            conc_stats["cas_lost"] += sum(1 for l in info if l.endswith(" cas 0"))
            conc_stats["wait_iterations"] += sum(1 for l in info if " wait " in l)
            conc_stats["epochs"] += sum(1 for l in info if l.startswith("fev done"))
        if bad and first_bad is None:
            first_bad = (kind, envset, ops, bad)
        if first_bad is not None and kind != "unit":
            break          # a failing history is in hand; with a change that makes histories hang every further case costs a timeout
        if impl != model:
            disagreements += 1
            if first_diff is None:
                j = next((j for j in range(min(len(impl), len(model))) if impl[j] != model[j]), min(len(impl), len(model)))
                first_diff = (kind, envset, ops, j, impl[j] if j < len(impl) else "<none>", model[j] if j < len(model) else "<none>")
        else:
            traces += 1

    res.add_cases(evaluations, nontriv,
                  [uops[1:9], cases[ncorpus + nchunks][2] if len(cases) > ncorpus + nchunks else []],
                  rule="unit: one op = one string through the real reader / parser (non-trivial = a string that is not decided at its first character); "
                       "process: one init/fini history under one environment (non-trivial = at least two init/fini calls); "
                       "concurrent: one controlled interleaving of K initialisers (non-trivial = at least one caller loses the CAS); distinct by hash")
    res.cov["traces_validated_against_impl"] += traces
    res.cov["disagreements_checked"] += disagreements
    res.notes["case_families"] = tags
    res.notes["phase_seconds"] = phases
    res.notes["unit_input_kinds"] = ukinds
    res.notes["worker_counts_checked"] = counts
    res.notes["runs_with_main_thread_migrated"] = migrated
    res.notes["fini_called_from_rank_other_than_0"] = fini_from_other_rank
    res.notes["concurrent_init"] = conc_stats
    res.notes["corpus_cases"] = ncorpus
    res.notes["ncpu"] = NCPU
    res.assumptions += [
        "atoi is glibc's ((int)strtol: saturation at LONG_MIN/MAX, then the low 32 bits); int arithmetic of the CPU-list parser wraps (library compiled without optimisation; ISO C leaves both undefined) — checked against the real code on every run, not proved about gcc/glibc",
        "strings are NUL-free byte strings (what getenv can return); the theorems hold for every List Char",
        "myth_fini is called by one thread at a time (the finaliser is a single agent in the model) and the global attribute is not modified while the library runs; attributes request at least one worker (n_workers = 0 through an attribute is outside the quantifier and aborts on an assertion)",
        "without an attribute a re-initialisation reuses g_attr (its `initialized` flag survives myth_fini): the environment is read once per process — modelled as is, the oracle accepts the persisted or the environment's value",
        "observation outside C15's text: myth_fini leaves the calling thread bound to worker 0's CPU, so after a re-initialisation with binding on every worker is bound to that one CPU (the histories with many workers run with MYTH_BIND_WORKERS=0 to stay fast)",
        "well-formed but unusable requests (tiny or gigabyte default stacks, more than 64 workers) are exercised only at unit level, never by starting the library",
        "the concurrent-initialiser traces are sequentially consistent interleavings at the granularity of the hook points (one access of g_myth_init_state per segment)",
    ]

    if first_bad:
        kind, envset, ops, bad = first_bad

        def fails(sub):
            try:
                return bool(run_case(exes, kind, envset, sub, consts)[2])
            except RuntimeError:
                return False
        small = ops
        if kind == "unit":
            # the oracle names the op; a single op (with the `avail` a `wcpu` refers to) reproduces it
            m = re.match(r"`([^`]*)`", bad[0])
            if m and m.group(1) in ops:
                j = ops.index(m.group(1))
                cand = ops[j - 1:j + 1] if ops[j].startswith("wcpu") and j > 0 else [ops[j]]
                if fails(cand):
                    small = cand
        elif kind == "proc":
            keep = [o for o in ops if o.startswith("ncpu")]
            rest = [o for o in ops if not o.startswith("ncpu")]
            small = keep + common.ddmin(rest, lambda sub: fails(keep + sub), budget=60)
        b2 = run_case(exes, kind, envset, small, consts)[2] or bad
        res.notes["first_failure_before_minimisation"] = {"ops": ops[:40], "oracle": bad[:3]}
        p = common.write_replay(PID, "failing.case", write_case(kind, envset, small))
        res.violations.append((p, True, b2[0]))
    elif first_diff:
        kind, envset, ops, j, a, b = first_diff
        p = common.write_replay(PID, "disagreement.case", write_case(kind, envset, ops))
        res.brk("correspondence", "model `drv_env` and the %s harness disagree at line %d: impl=%r model=%r (case in %s)" % (
            kind, j, a, b, p))


def replay(path):
    exes, err = build()
    if err:
        print("build failed:", err)
        return 2
    consts, _ = get_consts(exes)
    kind, envset, ops = read_case(path)
    impl, model, bad, info = run_case(exes, kind, envset, ops, consts)
    for k2, v in sorted(envset.items()):
        print("env %s=%r" % (k2, v))
    src = info if kind == "conc" else impl
    for i, o in enumerate(ops if kind != "conc" else src):
        print("%-40s -> %s" % (o, (impl[i] if i < len(impl) else "<no answer>")) if kind != "conc" else o)
    for b in bad:
        print("ORACLE:", b)
    if bad:
        print("VIOLATION property=%s replay=%s" % (PID, path))
        return 1
    print("no violation on replay")
    return 0
