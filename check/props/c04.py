"""C04 — mutex: mutual exclusion, no lost wake-up, non-blocking trylock."""
import common
from props import sched_common

VARIANTS = [[1, 3, 4, 1], [2, 3, 5, 1], [2, 5, 6, 2], [3, 4, 6, 1], [3, 6, 5, 2], [2, 2, 8, 1]]


def variants(rng_seed):
    # args: W K M NM PSEED  (PSEED varies with the run index through the seed)
    out = []
    for i, v in enumerate(VARIANTS):
        out.append(v + [rng_seed * 10 + i])
    return out


def run(res):
    common.prove(res, drivers=["mutex"])
    n = 300 if res.tier == "quick" else 3000
    sched_common.campaign(res, "C04", "mutex_prog", variants(res.seed), n, ["mutex"],
                          workers_note=", W in 1..3 workers, K<=6 threads x M<=8 rounds of lock/trylock/timedlock/unlock on 1-2 mutexes")
    if res.breaks and not res.violations:
        sched_common.search_more(res, "C04", "mutex_prog", variants(res.seed + 1), 300)
    res.assumptions += [
        "the sleep queue's internal spin lock is collapsed to atomic enqueue/dequeue in the model (no schedule point inside the critical section)",
        "schedules are sequentially consistent interleavings at MYTH_VERIF_POINT granularity (one OS thread runs at a time)",
        "'eventually' in the property is stuck-freedom under the fairness assumption that holders unlock (C04_no_lost_wakeup), not a temporal-logic liveness theorem",
        "per-worker run queues are abstracted away (C02): a pushed thread is runnable",
    ]


def replay(path):
    return sched_common.replay("C04", path)
