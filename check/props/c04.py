"""C04 — mutex: mutual exclusion, no lost wake-up, non-blocking trylock."""
import os

import common
from props import sched_common

VARIANTS = [[1, 3, 4, 1], [2, 3, 5, 1], [2, 5, 6, 2], [3, 4, 6, 1], [3, 6, 5, 2], [2, 2, 8, 1]]


def variants(rng_seed):
    # args: W K M NM PSEED  (PSEED varies with the run index through the seed)
    out = []
    for i, v in enumerate(VARIANTS):
        out.append(v + [rng_seed * 10 + i])
    return out


def run(res):
    common.prove(res, drivers=["mutex"])
    n = 300 if res.tier == "quick" else 3000
    info = sched_common.campaign(res, "C04", "mutex_prog", variants(res.seed), n, ["mutex"],
                                 workers_note=", W in 1..3 workers, K<=6 threads x M<=8 rounds of lock/trylock/timedlock/unlock on 1-2 mutexes")
    if info and not res.violations:
        import os
        for fn in sorted(os.listdir(info["work"])):
            if fn.endswith(".log"):
                bad = trylock_oracle(os.path.join(info["work"], fn))
                if bad:
                    tag = fn[:-4]
                    r = {"sched": os.path.join(info["work"], tag + ".sched"), "log": os.path.join(info["work"], fn)}
                    idx = int("".join(c for c in tag if c.isdigit()) or 0)
                    v = variants(res.seed)
                    d = sched_common.save_replay("C04", r, ["mutex_prog"] + v[idx % len(v)], 0)
                    res.violations.append((d, True, "trylock oracle: " + bad))
                    break
    if not res.violations:
        sched_common.free_stress(res, "C04", "mutex", [(4, 6, 3000, 2), (2, 4, 4000, 1), (8, 8, 1500, 0), (3, 3, 4000, 3), (1, 4, 2000, 1)])
    if res.breaks and not res.violations:
        sched_common.search_more(res, "C04", "mutex_prog", variants(res.seed + 1), 300)
    res.assumptions += [
        "the sleep queue's internal spin lock is collapsed to atomic enqueue/dequeue in the model (no schedule point inside the critical section)",
        "schedules are sequentially consistent interleavings at MYTH_VERIF_POINT granularity (one OS thread runs at a time)",
        "'eventually' in the property is stuck-freedom under the fairness assumption that holders unlock (C04_no_lost_wakeup), not a temporal-logic liveness theorem",
        "per-worker run queues are abstracted away (C02): a pushed thread is runnable",
    ]


def replay(path):
    if os.path.isfile(path) and path.endswith("stress.txt") and open(path).readline().startswith("sync_stress_prog"):
        return sched_common.replay_stress("C04", path)
    return sched_common.replay("C04", path)


def trylock_oracle(logpath):
    """'trylock fails only if the mutex was held at some instant during the call', decided on the
    implementation's own events: the lock bit of each mutex is tracked from the CAS / clear events
    of all threads; a trylock (or timedlock attempt) that returns EBUSY (`note .. busy oN`) must
    overlap a moment at which the bit was set."""
    bit = {}            # mutex -> bool
    call = {}           # (thread, mutex) -> held_during_call so far
    for n, line in enumerate(open(logpath), 1):
        w = line.split()
        if len(w) >= 7 and w[0] == "ev":
            cur, pt, a, v = w[2], w[3], w[4], w[6]
            if pt in ("MX_LOCK_CAS1", "MX_TRY_CAS") and v == "1":
                bit[a] = True
                for k in call:
                    if k[1] == a:
                        call[k] = True
            elif (pt == "MX_UNLOCK_CAS0" and v == "1") or pt == "MX_CLEAR_BIT":
                bit[a] = False
            if pt == "MX_TRY_READ":
                k = (cur, a)
                if k not in call:
                    call[k] = bit.get(a, False)
                call[k] = call[k] or bit.get(a, False) or (int(v) % 2 == 1)
            elif pt == "MX_TRY_CAS" and v == "1":
                call.pop((cur, a), None)
        elif len(w) >= 5 and w[0] == "note" and w[3] == "busy":
            k = (w[2], w[4])
            if k in call:
                held = call.pop(k)
                if not held:
                    return "line %d: trylock of %s by thread %s returned EBUSY although the mutex was not held at any instant during the call" % (n, w[4], w[2])
        elif len(w) >= 5 and w[0] == "note" and w[3] == "acq":
            call.pop((w[2], w[4]), None)
    return None
