"""Generator, differential run and property oracle for the TLS tree / key allocator (C10, C11)."""
import os

import common

NKEYS = 1024
SAN = ["-fsanitize=address,undefined", "-fno-sanitize-recover=all", "-DMYTH_WRAP=MYTH_WRAP_VANILLA", "-O1"]


def build():
    lib, err = common.build_lib()
    if err:
        return None, "library does not build: " + err
    exe = os.path.join(common.BUILD, "bin", "tls_unit")
    err = common.cc(os.path.join(common.HARNESS, "tls_unit.c"), exe, flags=SAN, libs=[lib, "-lpthread", "-ldl"])
    if err:
        return None, "tls_unit harness does not build: " + err
    return exe, None


def gen_case(rng, idx):
    """one op sequence (list of strings).  Shapes rotate with idx so every family is present."""
    ops = []
    shape = idx % 8
    ncreate = [1, 17, 40, 300, 21, 260, 1024, 64][shape] + rng.below(8)
    if shape == 6:
        ncreate = 1030  # exhaustion
    val = [1]

    def fresh():
        val[0] += 1
        return val[0]
    for _ in range(ncreate):
        ops.append("create %d" % (rng.below(9) - 1 if not rng.chance(1, 4) else -1))
    nk = min(ncreate, NKEYS)
    # some deletes and re-creates (reuse)
    for _ in range(rng.below(6)):
        ops.append("delete %d" % rng.choice([rng.below(nk), rng.below(nk), -1, NKEYS, rng.below(2000)]))
        if rng.chance(1, 2):
            ops.append("create %d" % (rng.below(9) - 1))
    nthreads = 1 + rng.below(4)
    fam = rng.below(6)
    for t in range(nthreads):
        nset = [1, 1, 3, 8, 20, 2][fam] + rng.below(3)
        for _ in range(nset):
            if fam == 0:
                k = 16 + rng.below(max(1, nk - 16)) if nk > 16 else rng.below(nk)   # single key >= 16
            elif fam == 1:
                k = 256 + rng.below(768)                                           # key >= 256
            elif fam == 2:
                k = rng.choice([rng.below(NKEYS), 1023, 1008, 768, 512, 255])        # sparse high
            elif fam == 3:
                base = 16 * rng.below(64)
                k = base + rng.below(16)                                           # shared leaf
            elif fam == 4:
                k = rng.below(nk)
            else:
                k = rng.choice([-1, NKEYS, 5000, -7, rng.below(NKEYS)])             # malformed stream
            v = fresh() if not rng.chance(1, 8) else 0
            ops.append("set %d %d %d" % (t, k, v))
            if rng.chance(1, 2):
                ops.append("get %d %d" % (rng.below(nthreads), rng.choice([k, k ^ 16, k + 1, rng.below(NKEYS)])))
    order = list(range(nthreads))
    rng.shuffle(order)
    for t in order:
        ops.append("exit %d" % t)
        if rng.chance(1, 3):
            ops.append("get %d %d" % (t, rng.below(NKEYS)))
            ops.append("set %d %d %d" % (t, rng.below(NKEYS), fresh()))
            ops.append("exit %d" % t)
    if rng.chance(1, 3):
        # a second library lifetime: the key table is re-initialised in place (myth_init after myth_fini) while keys
        # of the first lifetime were never deleted; keys created now, with and without destructors, reuse their cells
        ops.append("reinit")
        n2 = 2 + rng.below(30)
        for _ in range(n2):
            ops.append("create %d" % (-1 if rng.chance(1, 2) else rng.below(8)))
        for _ in range(3 + rng.below(6)):
            ops.append("set 0 %d %d" % (rng.below(n2), fresh()))
        ops.append("exit 0")
    return ops


def run_impl(exe, ops, timeout=60):
    """returns (lines, crash_text_or_None)"""
    env = dict(os.environ, ASAN_OPTIONS="detect_leaks=0:abort_on_error=0", UBSAN_OPTIONS="print_stacktrace=0")
    rc, out, err = common.sh([exe], inp="\n".join(ops) + "\n", timeout=timeout, env=env)
    crash = None
    if rc != 0:
        crash = "harness rc=%s: %s" % (rc, " ".join(err.split()[:40]))
    return out.splitlines(), crash


def oracle(ops, outs, crash, want):
    """the properties themselves, applied to the implementation's outputs.
    want: set of property ids to judge ("C10", "C11").  Returns list of (pid, text)."""
    bad = []
    if crash:
        for p in want:
            bad.append((p, "implementation crashed / sanitizer report: " + crash))
        return bad
    vals = {}          # (t,k) -> v
    live = {}          # k -> bool
    dtor = {}          # k -> id or None   (stale after delete, like the table)
    nlive = 0
    if len(outs) < len(ops):
        for p in want:
            bad.append((p, "implementation stopped after %d of %d ops" % (len(outs), len(ops))))
        return bad
    for i, (op, out) in enumerate(zip(ops, outs)):
        w = op.split()
        if w[0] == "set":
            t, k, v = int(w[1]), int(w[2]), int(w[3])
            if 0 <= k < NKEYS:
                if out != "0":
                    bad.append(("C10", "op %d `%s`: valid key rejected (%s)" % (i, op, out)))
                vals[(t, k)] = v
            elif out != "22":
                bad.append(("C10", "op %d `%s`: out-of-range key not rejected with EINVAL (%s)" % (i, op, out)))
        elif w[0] == "get":
            t, k = int(w[1]), int(w[2])
            exp = vals.get((t, k), 0) if 0 <= k < NKEYS else 0
            if out != str(exp):
                bad.append(("C10", "op %d `%s`: read %s, thread's latest store is %d" % (i, op, out, exp)))
        elif w[0] == "create":
            d = int(w[1])
            k = int(out)
            if k == -1:
                if nlive < NKEYS:
                    bad.append(("C10", "op %d create failed with only %d live keys" % (i, nlive)))
            else:
                if not (0 <= k < NKEYS):
                    bad.append(("C10", "op %d create returned key %d outside the table" % (i, k)))
                elif live.get(k):
                    bad.append(("C10", "op %d create returned key %d which is already live" % (i, k)))
                live[k] = True
                dtor[k] = None if d < 0 else d % 8
                nlive += 1
        elif w[0] == "reinit":
            if out != "0":
                bad.append(("C10", "op %d reinit answered %s" % (i, out)))
            live, dtor, nlive = {}, {}, 0
        elif w[0] == "delete":
            k = int(w[1])
            if 0 <= k < NKEYS and live.get(k):
                if out != "0":
                    bad.append(("C10", "op %d delete of live key %d failed (%s)" % (i, k, out)))
                live[k] = False
                nlive -= 1
            elif out != "22":
                bad.append(("C10", "op %d delete of dead/out-of-range key %d not rejected (%s)" % (i, k, out)))
        elif w[0] == "exit":
            t = int(w[1])
            toks = out.split()
            if not toks or toks[0] != "calls":
                bad.append(("C11", "op %d exit: unparsable output %r" % (i, out)))
                continue
            calls = [c for c in toks[1:toks.index("frees")]] if "frees" in toks else toks[1:]
            got = {}
            for c in calls:
                got[c] = got.get(c, 0) + 1
            mine = {k: v for (tt, k), v in vals.items() if tt == t}
            for k, v in sorted(mine.items()):
                if live.get(k) and dtor.get(k) is not None and v != 0:
                    c = "c%d:%d" % (dtor[k], v)
                    if got.get(c, 0) != 1:
                        bad.append(("C11", "op %d exit of thread %d: destructor of live key %d called %d times with its value %d (must be exactly once)" % (i, t, k, got.get(c, 0), v)))
            allowed_nonnull = set("c%d:%d" % (dtor[k], v) for k, v in mine.items() if dtor.get(k) is not None and v != 0)
            dids = set(d for d in dtor.values() if d is not None)
            for c in calls:
                if c.startswith("oob"):
                    bad.append(("C11", "op %d exit: key table read outside [0,1024): %s" % (i, c)))
                    continue
                d, v = c[1:].split(":")
                if int(v) != 0 and c not in allowed_nonnull:
                    bad.append(("C11", "op %d exit of thread %d: destructor call %s matches no (key, value) of this thread" % (i, t, c)))
                if int(v) == 0 and int(d) not in dids:
                    bad.append(("C11", "op %d exit: NULL call of a destructor id %s no key has" % (i, d)))
            for key in [kk for kk in vals if kk[0] == t]:
                del vals[key]
    return [b for b in bad if b[0] in want]


def nontrivial(ops):
    """a case is non-trivial if it reaches >= 2 tree branches beyond the first leaf: some key >= 16 set
    and an exit with a destructor present"""
    hi = any(o.startswith("set") and 16 <= int(o.split()[2]) < NKEYS for o in ops)
    ex = any(o.startswith("exit") for o in ops)
    dt = any(o.startswith("create") and int(o.split()[1]) >= 0 for o in ops)
    return hi and ex and dt


def campaign(res, want, ncases, corpus_dir):
    """correspondence + oracle over corpus and generated cases.  Fills res."""
    exe, err = build()
    if err:
        res.brk("build", err)
        return
    rng = common.Splitmix(res.seed * 7919 + 11)
    cases = []
    if os.path.isdir(corpus_dir):
        for fn in sorted(os.listdir(corpus_dir)):
            if fn.endswith(".ops"):
                cases.append([l.strip() for l in open(os.path.join(corpus_dir, fn)) if l.strip()])
    ncorpus = len(cases)
    for i in range(ncases):
        cases.append(gen_case(rng, i))
    seen = set()
    nontriv = 0
    hist = {"set": 0, "get": 0, "create": 0, "delete": 0, "exit": 0, "reinit": 0}
    kinds = {"key>=16": 0, "key>=256": 0, "invalid-key": 0, "null-value": 0, "exhaustion": 0}
    disagreements = 0
    first_diff = None
    first_bad = None
    for ci, ops in enumerate(cases):
        for o in ops:
            w = o.split()
            hist[w[0]] += 1
            if w[0] == "set":
                k = int(w[2])
                if k >= 256:
                    kinds["key>=256"] += 1
                if k >= 16:
                    kinds["key>=16"] += 1
                if not (0 <= k < NKEYS):
                    kinds["invalid-key"] += 1
                if int(w[3]) == 0:
                    kinds["null-value"] += 1
        if sum(1 for o in ops if o.startswith("create")) > NKEYS:
            kinds["exhaustion"] += 1
        h = common.hashcase(ops)
        if h not in seen and nontrivial(ops):
            nontriv += 1
        seen.add(h)
        outs, crash = run_impl(exe, ops)
        mouts = common.driver("tls", ops)
        if crash or outs != mouts:
            disagreements += 1
            if first_diff is None:
                j = next((j for j in range(min(len(outs), len(mouts))) if outs[j] != mouts[j]), min(len(outs), len(mouts)))
                first_diff = (ops, j, outs[j] if j < len(outs) else "<none>", mouts[j] if j < len(mouts) else "<none>", crash)
        bad = oracle(ops, outs, crash, want)
        if bad and first_bad is None:
            first_bad = (ops, bad)
    res.add_cases(len(cases), nontriv, [cases[ncorpus][:12] if len(cases) > ncorpus else cases[0][:12]],
                  rule="TLS op sequences (create/delete/set/get/exit over <=4 simulated threads, all 1024 indices, 8 shape families + malformed-key stream); non-trivial = sets a key >= 16, has a destructor and an exit; distinct by hash of the op list")
    res.cov["traces_validated_against_impl"] += len(cases) - disagreements
    res.cov["disagreements_checked"] += disagreements
    res.notes["op_histogram"] = hist
    res.notes["input_kinds"] = kinds
    res.notes["corpus_cases"] = ncorpus
    if first_bad:
        ops, bad = first_bad
        pid = res.pid

        def fails(sub):
            o, c = run_impl(exe, sub)
            return bool(oracle(sub, o, c, want))
        small = common.ddmin(ops, fails)
        o, c = run_impl(exe, small)
        b2 = oracle(small, o, c, want) or bad
        p = common.write_replay(pid, "failing.ops", "\n".join(small) + "\n")
        res.violations.append((p, True, b2[0][1]))
    elif first_diff:
        ops, j, a, b, crash = first_diff

        def differs(sub):
            o, c = run_impl(exe, sub)
            return c is not None or o != common.driver("tls", sub)
        small = common.ddmin(ops, differs)
        p = common.write_replay(res.pid, "disagreement.ops", "\n".join(small) + "\n")
        res.brk("correspondence", "model `drv_tls` and harness/tls_unit.c disagree at line %d: impl=%r model=%r %s (minimised ops in %s)" % (j, a, b, crash or "", p))


def replay(pid, path, want):
    exe, err = build()
    if err:
        print("build failed:", err)
        return 2
    ops = [l.strip() for l in open(path) if l.strip()]
    outs, crash = run_impl(exe, ops)
    bad = oracle(ops, outs, crash, want)
    for o, r in zip(ops, outs):
        print("%-24s -> %s" % (o, r))
    if crash:
        print(crash)
    for b in bad:
        print("ORACLE:", b[1])
    if bad:
        print("VIOLATION property=%s replay=%s" % (pid, path))
        return 1
    print("no violation on replay")
    return 0
