"""C20 — sleeping and timed waits respect their deadlines (DESIGN section 4, C20).

Tie: harness/time_unit.c runs the REAL myth_nanosleep / myth_usleep / myth_sleep /
myth_mutex_timedlock / myth_timedjoin (library built from the repo's current sources, -DMYTH_VERIF)
under a scripted clock (hook g_myth_verif_clock) and scripted holder / target threads, with
MYTH_NUM_WORKERS = 1 and 2; the printed return values and event traces (C clock read, Y yield,
b/g failed / successful attempt) are compared line by line with `drv_time` (the Lean model).
The property's own oracle (below, exact integer arithmetic, no model) is applied to the
implementation's output.
"""
import os

import common

NS = 10 ** 9
TMAX = 2 ** 63 - 1
TMIN = -2 ** 63
FAR = (TMAX, 999999999)
EINVAL, ETIMEDOUT = 22, 110
WORKERS = (1, 2)


# --------------------------------------------------------------------------------------------
# building / running
# --------------------------------------------------------------------------------------------

def build():
    lib, err = common.build_lib()
    if err:
        return None, "library does not build: " + err
    exe = os.path.join(common.BUILD, "bin", "time_unit")
    err = common.cc(os.path.join(common.HARNESS, "time_unit.c"), exe,
                    flags=["-DMYTH_WRAP=MYTH_WRAP_VANILLA"], libs=[lib, "-lpthread", "-ldl"])
    if err:
        return None, "time_unit harness does not build: " + err
    return exe, None


def run_impl(exe, ops, workers):
    """returns (lines, hang: bool).  Any other abnormal end is a harness error."""
    env = dict(os.environ, MYTH_NUM_WORKERS=str(workers))
    rc, out, err = common.sh([exe], inp="\n".join(ops) + "\n", timeout=300, env=env)
    lines = out.splitlines()
    if rc == 3 and lines and lines[-1] == "HANG":
        return lines[:-1], True
    if rc != 0:
        raise RuntimeError("time_unit rc=%s workers=%d: %s" % (rc, workers, " ".join(err.split()[:60])))
    return lines, False


def parse_op(op):
    parts = op.split("|")
    w = parts[0].split()
    opts = dict(x.split("=", 1) for x in w if "=" in x)
    head = [x for x in w if "=" not in x]
    rd = []
    if len(parts) > 1:
        t = parts[1].split()
        rd = [(int(t[i]), int(t[i + 1])) for i in range(0, len(t) - 1, 2)]
    return head, opts, rd


def parse_out(line):
    """'ret=R trace=T [val=V] [| prog=P yields=Y]' -> dict"""
    d = {}
    for tok in line.replace("|", " ").split():
        if "=" in tok:
            k, v = tok.split("=", 1)
            d[k] = v
    return d


def model_line(op, out):
    """the line handed to drv_time: timed operations get the outcomes the implementation observed"""
    head, _, _ = parse_op(op)
    if head and head[0] in ("timedlock", "timedjoin"):
        tr = parse_out(out).get("trace", "")
        oc = "".join(c for c in tr if c in "bg")
        return op.split("|")[0] + "|" + (op.split("|")[1] if "|" in op else "") + "| " + oc
    return op


def comparable(op, out):
    """the part of an implementation line the model predicts"""
    head, _, _ = parse_op(op)
    if not head:
        return out
    if head[0] in ("add", "gt"):
        return out
    d = parse_out(out)
    if d.get("ret") == "none":
        return "ret=none"
    return "ret=%s trace=%s" % (d.get("ret"), d.get("trace", ""))


def is_model_op(op):
    head, _, _ = parse_op(op)
    return bool(head) and head[0] in ("add", "gt", "nanosleep", "usleep", "sleep", "timedlock", "timedjoin")


# --------------------------------------------------------------------------------------------
# the property's own oracle
# --------------------------------------------------------------------------------------------

def to_ns(t):
    return t[0] * NS + t[1]


def norm(t):
    return 0 <= t[1] < NS


def stream(rd, i):
    return rd[i] if i < len(rd) else FAR


def expected_free(kind, opts, nattempts):
    """workers = 1 only: is the mutex free / the target finished at attempt j (deterministic hand-over)"""
    res = []
    if kind == "timedlock":
        script = opts.get("hold", "")
        held = False
        states = []
        for j in range(max(nattempts, 1)):
            c = script[j] if j < len(script) else "-"
            if c == "h":
                held = True
            elif c == "r":
                held = False
            states.append(held)
        for j in range(nattempts):
            res.append(not states[max(0, j - 1)])
    else:
        k = int(opts.get("k", "0"))
        for j in range(nattempts):
            res.append(j >= (k + 1 if k >= 1 else 0))
    return res


def oracle(op, out, workers, hang_here=False):
    """C20 applied to one implementation output line.  Returns list of violation texts."""
    bad = []
    head, opts, rd = parse_op(op)
    if not head:
        return bad
    kind = head[0]
    if hang_here and kind != "psleep":
        return bad
    if kind == "add":
        a, b = (int(head[1]), int(head[2])), (int(head[3]), int(head[4]))
        if norm(a) and norm(b) and all(TMIN <= x <= TMAX for x in (a[0], b[0])):
            tot = to_ns(a) + to_ns(b)
            carry = 1 if a[1] + b[1] >= NS else 0
            if TMIN <= a[0] + b[0] and a[0] + b[0] + carry <= TMAX:     # the sum of the seconds is representable
                r = tuple(int(x) for x in out.split())
                if not norm(r) or to_ns(r) != tot:
                    bad.append("`%s`: timespec sum %s is not the normalised exact sum (%d ns)" % (op, r, tot))
        return bad
    if kind == "gt":
        a, b = (int(head[1]), int(head[2])), (int(head[3]), int(head[4]))
        if norm(a) and norm(b):
            if out.strip() != ("1" if to_ns(a) > to_ns(b) else "0"):
                bad.append("`%s`: comparison of normalised values answered %s" % (op, out))
        return bad
    d = parse_out(out)
    ret, tr = d.get("ret"), d.get("trace", "")
    if kind in ("nanosleep", "usleep", "sleep", "psleep"):
        if kind in ("nanosleep", "psleep"):
            req = (int(head[1]), int(head[2]))
            malformed = req[0] < 0 or req[1] < 0 or req[1] > 999999999
            req_ns = to_ns(req)
        elif kind == "usleep":
            malformed, req_ns = False, (int(head[1]) % 2 ** 32) * 1000
        else:
            malformed, req_ns = False, (int(head[1]) % 2 ** 32) * NS
        if hang_here:
            if kind == "psleep" and workers == 1 and int(opts.get("bg", "0")) >= 1 and not malformed:
                bad.append("`%s` (1 worker): the sleep never ended although the clock advances whenever the other runnable threads run — the sleeper does not let them use the worker" % op)
            return bad
        if malformed:
            if ret != str(EINVAL):
                bad.append("`%s`: malformed duration not rejected with EINVAL (ret=%s)" % (op, ret))
            return bad
        if ret not in ("0", "none"):
            bad.append("`%s`: well-formed duration, ret=%s" % (op, ret))
            return bad
        if kind == "psleep":
            return bad
        nreads = tr.count("C")
        if ret == "0":
            start = stream(rd, 0)
            seen = [stream(rd, i) for i in range(1, nreads)]
            if not any(to_ns(r) >= to_ns(start) + req_ns for r in seen):
                bad.append("`%s`: returned 0 after readings %s, none of which is %d ns or more after the start reading %s" % (
                    op, seen[:6], req_ns, start))
        # other runnable threads get the worker: a yield between any two loop readings …
        if "CC" in tr[1:]:
            bad.append("`%s`: two clock readings of the sleep loop without a yield in between (trace %s)" % (op, tr))
        # … and with one worker each yield hands the worker to a runnable background thread
        if workers == 1 and int(opts.get("bg", "0")) >= 1 and "prog" in d:
            if int(d["prog"]) < tr.count("Y"):
                bad.append("`%s` (1 worker, %s runnable threads): %d yields but the other threads ran only %s times" % (
                    op, opts.get("bg"), tr.count("Y"), d["prog"]))
        return bad
    if kind in ("timedlock", "timedjoin"):
        ab = (int(head[1]), int(head[2]))
        if ret == "none":
            pass
        elif ret == "0":
            if not tr.endswith("g"):
                bad.append("`%s`: returned 0 but no attempt succeeded (trace %s)" % (op, tr))
        elif ret == str(ETIMEDOUT):
            nreads = tr.count("C")
            seen = [stream(rd, i) for i in range(nreads)]
            if ab[1] <= NS and not any(to_ns(r) >= to_ns(ab) for r in seen if norm(r)):
                bad.append("`%s`: timeout reported after readings %s, all earlier than the deadline %s" % (op, seen[:6], ab))
            if "g" in tr:
                bad.append("`%s`: timeout reported although an attempt succeeded (trace %s)" % (op, tr))
        else:
            bad.append("`%s`: returned %s, which is neither 0 nor a timeout error (ETIMEDOUT=%d)" % (op, ret, ETIMEDOUT))
        if ret != "none" and (not tr or tr[0] not in "bg"):
            bad.append("`%s`: no attempt made before the first clock reading (trace %s)" % (op, tr))
        if workers == 1 and not hang_here:
            att = [c for c in tr if c in "bg"]
            free = expected_free(kind, opts, len(att))
            for j, (c, f) in enumerate(zip(att, free)):
                if f and c != "g":
                    bad.append("`%s` (1 worker): attempt %d was made while the %s, yet it did not succeed (trace %s)" % (
                        op, j, "mutex was free" if kind == "timedlock" else "thread had finished", tr))
                    break
        return bad
    if kind == "wall":
        if d.get("early") == "1":
            bad.append("`%s` (real clock): returned ret=%s before the requested time had passed on both CLOCK_REALTIME and CLOCK_MONOTONIC" % (op, ret))
        what = head[1]
        if what in ("nanosleep", "usleep", "sleep") and ret != "0":
            bad.append("`%s` (real clock): ret=%s" % (op, ret))
        if what in ("timedlock", "timedjoin") and ret != str(ETIMEDOUT):
            bad.append("`%s` (real clock, never released / never finishing): ret=%s, expected the timeout error %d" % (op, ret, ETIMEDOUT))
        return bad
    return bad


# --------------------------------------------------------------------------------------------
# generation
# --------------------------------------------------------------------------------------------

NSEC_EDGE = [0, 1, 999999999, 999999998, 500000000]
NSEC_BAD = [1000000000, -1, 1000000001, -1000000000, 1999999999, 2000000000, TMAX, TMIN]


def ts_from_ns(x):
    x = max(TMIN * NS, min(x, TMAX * NS + 999999999))     # a reading is a struct timespec: 64-bit seconds
    return (x // NS, x % NS)


def fmt_rd(rd):
    return " ".join("%d %d" % r for r in rd)


def gen_readings(rng, start_ns, target_ns, kinds):
    """a clock script around the instant target_ns (first reading = start).  Returns list of (s,n)."""
    rd = [ts_from_ns(start_ns)]
    shape = rng.below(8)
    n_early = rng.below(6)
    span = max(target_ns - start_ns, 0)
    t = start_ns
    for _ in range(n_early):
        if span > 0:
            t = min(target_ns, t + rng.below(span // max(1, n_early) + 1))
        rd.append(ts_from_ns(t))
    if shape in (0, 1, 2, 3):
        rd.append(ts_from_ns(target_ns))          # exactly at the instant: not yet
        kinds["reading==target"] += 1
    if shape == 4:
        rd.append(ts_from_ns(max(start_ns - 1 - rng.below(NS), -5 * NS)))   # clock steps back
        kinds["clock-steps-back"] += 1
    if shape != 5:
        rd.append(ts_from_ns(target_ns + 1 + (0 if shape in (0, 1) else rng.below(3 * NS))))
        if rng.chance(1, 2):
            rd.append(ts_from_ns(target_ns + 5 * NS))
    else:
        kinds["no-late-reading"] += 1                  # the FAR tail ends the wait
    return rd


def gen_case(rng, idx, kinds):
    ops = []
    nops = 24 + rng.below(12)
    for j in range(nops):
        fam = (idx + j) % 12
        if fam in (0, 1):   # add / gt
            def val(edge):
                sec = rng.choice([0, 1, -1, rng.below(2 * 10 ** 9), -rng.below(10 ** 6), 2 ** 31, 2 ** 40 + rng.below(1000),
                                  TMAX, TMAX - 1, TMIN, TMAX // 2, TMAX // 2 + 1])
                ns = rng.choice(NSEC_EDGE + [rng.below(NS)]) if edge else rng.choice(NSEC_BAD + [rng.below(3 * NS) - NS])
                return sec, ns
            edge = not rng.chance(1, 5)
            a, b = val(edge), val(edge)
            if fam == 1 and rng.chance(1, 3):
                b = (a[0], max(TMIN, min(TMAX, rng.choice([a[1], a[1] + 1, a[1] - 1]))))
            if fam == 0 and rng.chance(1, 3):       # carries
                a = (a[0], 999999999 - rng.below(3))
                b = (b[0], 1 + rng.below(3))
                kinds["add-carry"] += 1
            ops.append("%s %d %d %d %d" % ("add" if fam == 0 else "gt", a[0], a[1], b[0], b[1]))
        elif fam in (2, 3, 4):   # nanosleep
            start = rng.choice([0, rng.below(2 * 10 ** 9) * NS + rng.choice(NSEC_EDGE + [rng.below(NS)]), 999999999,
                                1700000000 * NS + 999999999])
            r = rng.below(10)
            if r < 6:
                req = (rng.choice([0, 0, 0, 1, 2, rng.below(5000)]), rng.choice(NSEC_EDGE + [rng.below(NS)]))
            elif r < 8:
                req = (rng.choice([0, 1, -1, rng.below(100)]), rng.choice(NSEC_BAD + [-1 - rng.below(5)]))
                kinds["malformed-duration"] += 1
            elif r == 8:
                req = (rng.choice([-1, -5, TMIN, -rng.below(10 ** 6) - 1]), rng.choice(NSEC_EDGE))
                kinds["malformed-duration"] += 1
            else:
                req = (rng.choice([TMAX, TMAX - 1, TMAX - start // NS, TMAX - start // NS - 1, 2 ** 62, 2 ** 40]), rng.choice(NSEC_EDGE))
                kinds["huge-duration"] += 1
            if req == (0, 0):
                kinds["zero-duration"] += 1
            if req[1] in (999999999, 1000000000, 0, -1):
                kinds["nsec-at-boundary"] += 1
            target = start + to_ns(req) if 0 <= req[0] else start
            if target // NS > TMAX:
                rd = [ts_from_ns(start)] + [ts_from_ns(start + i * NS) for i in range(1, 1 + rng.below(4))]
            else:
                rd = gen_readings(rng, start, target, kinds)
            if (start % NS) + req[1] >= NS and 0 <= req[1] < NS:
                kinds["sleep-carry"] += 1
            ops.append("nanosleep %d %d bg=%d | %s" % (req[0], req[1], rng.below(4), fmt_rd(rd)))
        elif fam == 5:   # usleep / sleep
            start = rng.below(2 * 10 ** 9) * NS + rng.choice(NSEC_EDGE + [rng.below(NS)])
            if rng.chance(1, 2):
                u = rng.choice([0, 1, 999999, 1000000, 1000001, 1500000, 4294967295, rng.below(10 ** 7), rng.below(2 ** 32)])
                rd = gen_readings(rng, start, start + u * 1000, kinds)
                ops.append("usleep %d bg=%d | %s" % (u, rng.below(3), fmt_rd(rd)))
                kinds["usleep>=1s"] += 1 if u >= 1000000 else 0
            else:
                s = rng.choice([0, 1, 2, rng.below(100), 4294967295])
                rd = gen_readings(rng, start, start + s * NS, kinds)
                ops.append("sleep %d bg=%d | %s" % (s, rng.below(3), fmt_rd(rd)))
        elif fam in (6, 7, 8, 9, 10):   # timed operations
            r = rng.below(8)
            if r == 0:
                ab = (0, 0)
                kinds["zero-deadline"] += 1
            else:
                ab = (rng.choice([rng.below(2 * 10 ** 9), 50, 1700000000, -3]), rng.choice(NSEC_EDGE + [rng.below(NS), 1000000000, -1]))
            if ab[1] in (999999999, 1000000000, 0, -1):
                kinds["deadline-nsec-at-boundary"] += 1
            dl = to_ns(ab)
            if rng.chance(1, 4):
                start = dl + 1 + rng.below(10 * NS)       # already past
                kinds["past-deadline"] += 1
                rd = [ts_from_ns(start + i) for i in range(1 + rng.below(3))]
            else:
                start = dl - rng.below(20 * NS) - 1
                rd = gen_readings(rng, start, dl, kinds)
                # more readings before the deadline so that late successes are reachable
                extra = [ts_from_ns(start + rng.below(max(1, dl - start))) for _ in range(rng.below(6))]
                rd = sorted(extra + rd[:1]) + rd[1:] if rng.chance(1, 2) else rd
            if fam in (6, 7, 8):
                L = 1 + rng.below(9)
                first = rng.choice("h-hh")
                script = first + "".join(rng.choice("h-r--") for _ in range(L - 1))
                if rng.chance(1, 3):
                    script = script.rstrip("-") or "-"
                ops.append("timedlock %d %d hold=%s | %s" % (ab[0], ab[1], script, fmt_rd(rd)))
            else:
                k = rng.choice([0, 0, 1, 1, 2, 3, 4, rng.below(10), 40])
                ops.append("timedjoin %d %d k=%d | %s" % (ab[0], ab[1], k, fmt_rd(rd)))
        else:   # liveness through a clock driven by the other threads' progress
            ops.append("psleep 0 %d bg=%d step=%d" % (rng.choice([1000, 50000, 999999]), 1 + rng.below(3), rng.choice([1000, 100, 5000])))
    return ops


WALL_OPS = ["wall nanosleep 0 15000000", "wall usleep 12000", "wall timedlock 15", "wall timedjoin 15",
            "wall nanosleep 0 0", "wall usleep 0", "wall timedlock 0", "wall sleep 0"] + \
           ["wall nanosleep 0 3900000", "wall usleep 1500", "wall nanosleep 0 700000", "wall usleep 3900"] * 5


def nontrivial(ops):
    """a case is non-trivial if it contains a sleep that has to wait through at least one early reading,
    a malformed duration, and a timed operation with a holder / target that is busy at first"""
    s = any(o.startswith(("nanosleep", "usleep", "sleep")) and len(parse_op(o)[2]) >= 3 for o in ops)
    t = any(o.startswith("timedlock") and "hold=h" in o for o in ops) or any(o.startswith("timedjoin") and "k=0" not in o for o in ops)
    return s and t


# --------------------------------------------------------------------------------------------
# one case
# --------------------------------------------------------------------------------------------

def judge_case(exe, ops, workers):
    """run ops; returns (outs, hang, bad[(idx, text)], diffs[(idx, impl, model)])"""
    outs, hang = run_impl(exe, ops, workers)
    bad, diffs = [], []
    n = len(outs)
    if hang:
        # the op that did not finish is ops[n]
        if n < len(ops):
            b = oracle(ops[n], "", workers, hang_here=True)
            if not b:
                raise RuntimeError("time_unit hung (60 s) in `%s` with %d workers" % (ops[n], workers))
            bad += [(n, t) for t in b]
    elif n != len(ops):
        raise RuntimeError("time_unit printed %d lines for %d ops" % (n, len(ops)))
    idx = [i for i in range(n) if is_model_op(ops[i])]
    if idx:
        mouts = common.driver("time", [model_line(ops[i], outs[i]) for i in idx])
        if len(mouts) != len(idx):
            raise RuntimeError("drv_time printed %d lines for %d ops" % (len(mouts), len(idx)))
        for i, m in zip(idx, mouts):
            c = comparable(ops[i], outs[i])
            if c != m:
                diffs.append((i, c, m))
    for i in range(n):
        if outs[i] == "bad-op":
            raise RuntimeError("harness rejected op `%s`" % ops[i])
        for t in oracle(ops[i], outs[i], workers):
            bad.append((i, t))
        if parse_out(outs[i]).get("val") == "bad":
            diffs.append((i, outs[i], "timedjoin returned 0 but not the target's value"))
    return outs, hang, bad, diffs


def load_corpus():
    d = os.path.join(common.CORPUS, "C20")
    cases = []
    if os.path.isdir(d):
        for fn in sorted(os.listdir(d)):
            if fn.endswith(".ops"):
                cases.append([l.strip() for l in open(os.path.join(d, fn)) if l.strip() and not l.startswith("#")])
    return cases


def run(res):
    common.prove(res, drivers=["time"])
    exe, err = build()
    if err:
        res.brk("build", err)
        return
    rng = common.Splitmix(res.seed * 104729 + 20)
    kinds = {k: 0 for k in ["add-carry", "sleep-carry", "malformed-duration", "huge-duration", "zero-duration",
                            "nsec-at-boundary", "reading==target", "clock-steps-back", "no-late-reading", "usleep>=1s",
                            "zero-deadline", "past-deadline", "deadline-nsec-at-boundary"]}
    cases = load_corpus()
    ncorpus = len(cases)
    ngen = 200 if res.tier == "quick" else 3500
    for i in range(ngen):
        cases.append(gen_case(rng, i, kinds))
    nwall = 2 if res.tier == "quick" else 6
    for i in range(nwall):
        cases.append(list(WALL_OPS))
    hist, outcome = {}, {"ret=0": 0, "ret=22": 0, "ret=110": 0, "ret=none": 0}
    seen, nontriv, disagreements, validated = set(), 0, 0, 0
    first_bad, first_diff = None, None
    for ci, ops in enumerate(cases):
        for o in ops:
            k = o.split()[0]
            hist[k] = hist.get(k, 0) + 1
        h = common.hashcase(ops)
        if h not in seen and nontrivial(ops):
            nontriv += 1
        seen.add(h)
        for w in WORKERS:
            outs, hang, bad, diffs = judge_case(exe, ops, w)
            if w == 1:
                for o in outs:
                    r = "ret=" + parse_out(o).get("ret", "?")
                    if r in outcome:
                        outcome[r] += 1
            if bad and first_bad is None:
                first_bad = (ops, w, bad)
            if diffs:
                disagreements += 1
                if first_diff is None:
                    first_diff = (ops, w, diffs)
            else:
                validated += 1
        if first_bad:
            break       # a failing input is in hand (and a hanging implementation would cost 30 s per case)
    res.add_cases(len(cases), nontriv, [cases[ncorpus][:6] if len(cases) > ncorpus else cases[0][:6]],
                  rule="op sequences for the scripted-clock harness (timespec add/gt, nanosleep/usleep/sleep with 0-3 runnable background threads, timedlock with a scripted holder, timedjoin with a target finishing after k yields, progress-driven-clock sleeps, real-clock sanity runs), each run with 1 and 2 workers; non-trivial = has a sleep that waits through >= 1 early reading and a timed operation whose first attempt fails; distinct by hash of the op list")
    res.cov["traces_validated_against_impl"] += validated
    res.cov["disagreements_checked"] += disagreements
    res.notes["op_histogram"] = hist
    res.notes["input_kinds"] = kinds
    res.notes["outcomes_1_worker"] = outcome
    res.notes["corpus_cases"] = ncorpus
    res.notes["workers"] = list(WORKERS)
    if first_bad:
        ops, w, bad = first_bad

        def fails(sub):
            try:
                return bool(judge_case(exe, sub, w)[2])
            except RuntimeError:
                return False
        i0 = bad[0][0]
        if fails([ops[i0]]):        # operations are independent: the flagged one alone normally suffices
            small = [ops[i0]]
        else:
            small = common.ddmin(ops, fails, budget=24)
        b2 = judge_case(exe, small, w)[2] or bad
        p = common.write_replay(res.pid, "failing.ops", "# MYTH_NUM_WORKERS=%d\n" % w + "\n".join(small) + "\n")
        res.violations.append((p, True, b2[0][1]))
    elif first_diff:
        ops, w, diffs = first_diff

        def differs(sub):
            try:
                return bool(judge_case(exe, sub, w)[3])
            except RuntimeError:
                return False
        small = common.ddmin(ops, differs, budget=80)
        p = common.write_replay(res.pid, "disagreement.ops", "# MYTH_NUM_WORKERS=%d\n" % w + "\n".join(small) + "\n")
        i, a, b = diffs[0]
        res.brk("correspondence", "model `drv_time` and harness/time_unit.c disagree (workers=%d) on `%s`: impl=%r model=%r (minimised ops in %s)" % (
            w, ops[i][:120], a, b, p))
    res.assumptions += [
        "hr_gettime is the only clock the five functions read (hook at its top); readings of the real clock are normalised (0 <= tv_nsec < 10^9) and fit time_t",
        "signed overflow in the pinned myth_timespec_add is modelled as two's-complement wrap (what the compiled x86-64 code does); the current source uses __builtin_add_overflow and saturates",
        "with 1 worker the holder / target threads alternate deterministically with the caller (one script step per yield of the caller); with 2 workers the observed attempt outcomes are fed to the model (trace acceptance)",
        "`let other runnable threads use the worker`: proved as `a yield between any two clock reads`; that a yield runs another runnable thread is observed (1 worker: background progress >= yields; clock driven by background progress) and is otherwise C01/C02's subject",
        "deadlines with tv_nsec > 10^9 are outside the oracle's domain (POSIX: EINVAL); tv_nsec = 10^9 and negative values are inside",
        "no upper bound on the sleep is part of C20: late returns are caught only as model/implementation disagreements",
    ]


def replay(path):
    exe, err = build()
    if err:
        print("build failed:", err)
        return 2
    ok, log = common.lean_build(["drv_time"])
    if not ok:
        print("drv_time does not build:", log[-400:])
        return 2
    raw = [l.strip() for l in open(path) if l.strip()]
    ws = WORKERS
    for l in raw:
        if l.startswith("# MYTH_NUM_WORKERS="):
            ws = (int(l.split("=")[1]),)
    ops = [l for l in raw if not l.startswith("#")]
    anybad = False
    for w in ws:
        outs, hang, bad, diffs = judge_case(exe, ops, w)
        print("-- MYTH_NUM_WORKERS=%d" % w)
        for o, r in zip(ops, outs):
            print("%-70s -> %s" % (o[:70], r))
        if hang:
            print("HANG in `%s`" % ops[len(outs)])
        for i, a, b in diffs:
            print("MODEL-DIFF op %d: impl=%r model=%r" % (i, a, b))
        for i, t in bad:
            print("ORACLE:", t)
            anybad = True
    if anybad:
        print("VIOLATION property=C20 replay=%s" % path)
        return 1
    print("no violation on replay")
    return 0
