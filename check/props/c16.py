"""C16 — pthread programs behave the same on MassiveThreads as on the system pthreads.

translator (forwarding table, helper skeletons, header facts) -> Lean (C16_* theorems, drv_pth) ->
build the ld-wrapped and the preloadable library and the programs from /repo's working tree ->
static-initialiser campaign (free-running stress + controlled schedules replayed on the model) ->
detached-attribute leak test -> differential campaign of generated determinate programs:
system pthreads == libmyth-ld (link-time --wrap) == libmyth-dl (LD_PRELOAD) == wrapping switched off
== Flat.eval (and == the proved evaluator PthProg.eval on the fork-join fragment).
"""
import concurrent.futures
import json
import os
import re
import shutil
import sys

import common
from props import sched_common

sys.path.insert(0, os.path.join(common.VERIF, "translate"))
import wraptable_extract  # noqa: E402

PID = "C16"

# differences from the system library that are recorded rather than repaired; each is tied to ONE
# program family and to the exact shape of the disagreement
KNOWN_TEXT = {
    "keys_null_dtor": "destructor called with NULL value for key sharing a leaf with a used key (program family keys_null_dtor)",
    "key_recreate": "a key created after pthread_key_delete reads the value stored under the deleted key in a thread that had set it (program family key_recreate)",
    "dtor_restore": "a destructor that stores a new non-NULL value for its key is not called again at thread exit (program family dtor_restore)",
    "main_exit": "pthread_exit from the main thread never terminates the process after the other threads have finished (program family main_exit)",
}
NORMAL_FAMILIES = ["forkjoin", "handoff", "barrier", "once", "keys", "detach", "misc", "mixed"]

LIM = {"counters": 24, "mutexes": 12, "spins": 6, "gates": 12, "queues": 4, "barriers": 6, "onces": 4, "keys": 24,
       "threads": 60}


# --------------------------------------------------------------------------------------------
# generator
# --------------------------------------------------------------------------------------------

class PB:
    """program builder: threads are op lists; objects are allocated within the interpreter's limits"""

    def __init__(self, rng, family):
        self.rng, self.family = rng, family
        self.threads, self.exit = [[]], [0]
        self.counters, self.mutexes, self.spins = [], [], 0
        self.gates, self.queues, self.barriers, self.onces, self.keys = [], [], [], [], 0
        self.sleeps = 0
        self.meta = {}
        self.reserved = set()     # counters read between two barrier waits: only the phase structure may add to them

    def full(self):
        return len(self.threads) >= LIM["threads"] - 8

    def thread(self, exitmode=None):
        self.threads.append([])
        self.exit.append(self.rng.below(3) if exitmode is None else exitmode)
        return len(self.threads) - 1

    def op(self, t, s):
        self.threads[t].append(s)

    def mutex(self):
        if len(self.mutexes) < LIM["mutexes"] and (not self.mutexes or self.rng.chance(2, 3)):
            self.mutexes.append(self.rng.below(3))       # 0 static initialiser, 1 init(NULL), 2 init(default attr)
            return len(self.mutexes) - 1
        return self.rng.below(len(self.mutexes))

    def counter(self):
        if len(self.counters) >= LIM["counters"]:
            return self.rng.choice([i for i in range(len(self.counters)) if i not in self.reserved])
        if self.rng.chance(1, 4):
            if self.spins < LIM["spins"] and (self.spins == 0 or self.rng.chance(1, 2)):
                self.spins += 1
                lk = "s%d" % (self.spins - 1)
            else:
                lk = "s%d" % self.rng.below(self.spins)
        else:
            lk = "m%d" % self.mutex()
        self.counters.append(lk)
        return len(self.counters) - 1

    def gate(self):
        self.gates.append(self.rng.below(2))
        return len(self.gates) - 1

    def have(self, what, n=1):
        cur = {"gates": len(self.gates), "queues": len(self.queues), "barriers": len(self.barriers),
               "onces": len(self.onces), "keys": self.keys}[what]
        return cur + n <= LIM[what]

    def add(self, t, c=None):
        if c is None:
            free = [i for i in range(len(self.counters)) if i not in self.reserved]
            c = self.rng.choice(free) if free and self.rng.chance(2, 3) else self.counter()
        k = self.rng.below(13) - 3
        self.op(t, "%s:%d:%d" % ("tadd" if self.rng.chance(1, 4) else "add", c, k))
        return c

    def noise(self, t):
        r = self.rng.below(12)
        if r < 4:
            self.op(t, "yield")
        elif r < 7 and self.sleeps < 6:
            self.sleeps += 1
            self.op(t, ["nsleep:%d", "usleep:%d"][self.rng.below(2)] % (50 + self.rng.below(250)))
        elif r == 7:
            self.op(t, "sleep0")
        elif r == 8:
            self.op(t, "self")
        elif r == 9:
            self.op(t, "lit:%d" % (self.rng.below(30) - 5))

    def work(self, t, n=None):
        for _ in range(self.rng.below(4) if n is None else n):
            if self.rng.chance(1, 4):
                self.noise(t)
            else:
                self.add(t)

    def spawn(self, p, exitmode=None, mode=None):
        u = self.thread(exitmode)
        self.op(p, "spawn:%d:%d" % (u, self.rng.below(4) if mode is None else mode))
        return u

    def text(self):
        L = ["family " + self.family]
        if not self.counters:
            self.counter()
        L.append("counters " + " ".join(self.counters))
        L.append("mutexes " + " ".join(map(str, self.mutexes)) if self.mutexes else "mutexes")
        L.append("spins %d" % self.spins)
        L.append(("gates " + " ".join(map(str, self.gates))).strip())
        L.append(("queues " + " ".join(map(str, self.queues))).strip())
        L.append(("barriers " + " ".join("%d:%d" % b for b in self.barriers)).strip())
        L.append(("onces " + " ".join("%d:%d" % o for o in self.onces)).strip())
        L.append("keys %d" % self.keys)
        for i, ops in enumerate(self.threads):
            L.append(("thread %d %d " % (i, self.exit[i]) + " ".join(ops)).strip())
        return L


def gen_tree(rng, depth, nc, budget):
    r = rng.below(10)
    if depth == 0 or budget[0] <= 0 or r < 2:
        budget[0] -= 1
        if rng.chance(1, 3):
            return ("r", rng.below(26) - 5)
        return ("a", rng.below(nc), rng.below(13) - 3)
    budget[0] -= 1
    if r < 7:
        return ("f", gen_tree(rng, depth - 1, nc, budget), gen_tree(rng, depth - 1, nc, budget))
    return ("s", gen_tree(rng, depth - 1, nc, budget), gen_tree(rng, depth - 1, nc, budget))


def tree_sexp(t):
    if t[0] == "r":
        return "r%d" % t[1]
    if t[0] == "a":
        return "a%d:%d" % (t[1], t[2])
    return "( %s %s %s )" % (t[0], tree_sexp(t[1]), tree_sexp(t[2]))


def tree_max_counter(t):
    if t[0] == "r":
        return 0
    if t[0] == "a":
        return t[1] + 1
    return max(tree_max_counter(t[1]), tree_max_counter(t[2]))


def flatten_tree(pb, t, th, cmap):
    rng = pb.rng
    if t[0] == "r":
        pb.op(th, "lit:%d" % t[1])
    elif t[0] == "a":
        pb.op(th, "%s:%d:%d" % ("tadd" if rng.chance(1, 4) else "add", cmap[t[1]], t[2]))
        if rng.chance(1, 8):
            pb.op(th, "yield")
    elif t[0] == "s":
        flatten_tree(pb, t[1], th, cmap)
        flatten_tree(pb, t[2], th, cmap)
    else:
        u = pb.spawn(th)
        flatten_tree(pb, t[1], u, cmap)
        flatten_tree(pb, t[2], th, cmap)
        pb.op(th, "join:%d" % u)


def sc_forkjoin(pb, p, pure=False):
    rng = pb.rng
    nc = 1 + rng.below(3)
    tree = gen_tree(rng, 2 + rng.below(3), nc, [6 + rng.below(18)])
    nc = max(tree_max_counter(tree), 1)
    if pure:
        # the counters of the term are the program's counters 0..nc-1 (so that PthProg.eval's line is comparable)
        assert not pb.counters
        pb.meta["tree"] = tree_sexp(tree)
    cmap = []
    while len(cmap) < nc:
        c = pb.counter()
        if c not in cmap:
            cmap.append(c)
        elif len(pb.counters) >= LIM["counters"]:
            cmap.append(c)
    flatten_tree(pb, tree, p, cmap)


def sc_fanout(pb, p):
    rng = pb.rng
    if not pb.have("gates"):
        return sc_forkjoin(pb, p)
    g = pb.gate()
    n = 1 + rng.below(4)
    total = 1 + rng.below(4)
    ws = []
    for _ in range(n):
        u = pb.spawn(p)
        pb.work(u, rng.below(2))
        pb.op(u, "await:%d:%d" % (g, 1 + rng.below(total)))
        pb.work(u)
        ws.append(u)
    pb.work(p)
    left = total
    while left > 0:
        k = 1 + rng.below(left)
        pb.op(p, "post:%d:%d:%d" % (g, k, 1 if n > 1 else rng.below(2)))
        left -= k
        if rng.chance(1, 2):
            pb.work(p, 1)
    rng.shuffle(ws)
    for u in ws:
        pb.op(p, ("join:%d" if rng.chance(4, 5) else "joinn:%d") % u)


def sc_chain(pb, p):
    rng = pb.rng
    n = 2 + rng.below(4)
    if not pb.have("gates", n + 1):
        return sc_forkjoin(pb, p)
    gs = [pb.gate() for _ in range(n + 1)]
    us = [pb.thread() for _ in range(n)]
    order = list(range(n))
    rng.shuffle(order)
    for i in order:
        pb.op(p, "spawn:%d:%d" % (us[i], rng.below(4)))
    for i, u in enumerate(us):
        pb.op(u, "await:%d:1" % gs[i])
        pb.work(u)
        pb.op(u, "post:%d:1:%d" % (gs[i + 1], rng.below(2)))
    pb.work(p, 1)
    pb.op(p, "post:%d:1:0" % gs[0])
    pb.op(p, "await:%d:1" % gs[n])
    for u in us:
        pb.op(p, "join:%d" % u)


def sc_buffer(pb, p):
    rng = pb.rng
    if not pb.have("queues"):
        return sc_forkjoin(pb, p)
    pb.queues.append(1 + rng.below(4))
    q = len(pb.queues) - 1
    c = pb.counter()
    np_, nc_ = 1 + rng.below(3), 1 + rng.below(3)
    puts = [1 + rng.below(5) for _ in range(np_)]
    total = sum(puts)
    gets = [0] * nc_
    for _ in range(total):
        gets[rng.below(nc_)] += 1
    us = []
    for n in puts:
        u = pb.spawn(p)
        for _ in range(n):
            pb.op(u, "put:%d:%d" % (q, 1 + rng.below(40)))
            if rng.chance(1, 5):
                pb.noise(u)
        us.append(u)
    for n in gets:
        u = pb.spawn(p)
        for _ in range(n):
            pb.op(u, "get:%d:%d" % (q, c))
        pb.work(u, rng.below(2))
        us.append(u)
    rng.shuffle(us)
    for u in us:
        pb.op(p, "join:%d" % u)


def sc_handoff(pb, p):
    [sc_fanout, sc_chain, sc_buffer][pb.rng.below(3)](pb, p)


def sc_barrier(pb, p):
    rng = pb.rng
    if not pb.have("barriers") or len(pb.counters) + 2 > LIM["counters"]:
        return sc_forkjoin(pb, p)
    n = 2 + rng.below(4)
    rounds = 1 + rng.below(3)
    sc, c = pb.counter(), pb.counter()
    pb.reserved.add(c)
    pb.barriers.append((n, sc))
    b = len(pb.barriers) - 1
    parent_in = rng.chance(1, 2)
    members = [pb.spawn(p) for _ in range(n - 1 if parent_in else n)]
    everyone = members + ([p] if parent_in else [])
    for r in range(rounds):
        for u in everyone:
            if rng.chance(3, 4):
                pb.op(u, "add:%d:%d" % (c, 1 + rng.below(9)))
            if rng.chance(1, 6):
                pb.noise(u)
            pb.op(u, "bar:%d" % b)
            if rng.chance(2, 3):
                pb.op(u, "rd:%d" % c)
            pb.op(u, "bar:%d" % b)
    for u in members:
        pb.op(p, "join:%d" % u)


def sc_once(pb, p):
    rng = pb.rng
    if not pb.have("onces"):
        return sc_forkjoin(pb, p)
    nctl = 1 + (1 if pb.have("onces", 2) and rng.chance(1, 3) else 0)
    ctl = []
    for _ in range(nctl):
        pb.onces.append((pb.counter(), 1 + rng.below(20)))
        ctl.append(len(pb.onces) - 1)
    us = []
    for _ in range(2 + rng.below(4)):
        u = pb.spawn(p)
        pb.work(u, rng.below(2))
        for _ in range(1 + rng.below(2)):
            pb.op(u, "once:%d" % rng.choice(ctl))
            if rng.chance(1, 3):
                pb.work(u, 1)
        us.append(u)
    if rng.chance(1, 2):
        pb.op(p, "once:%d" % rng.choice(ctl))
    for u in us:
        pb.op(p, "join:%d" % u)
    pb.op(p, "once:%d" % ctl[0])


def key_user(pb, u, live, extra_get=True):
    """a thread that stores into EVERY live key that has a destructor (so that no destructor-bearing
    key of a materialised leaf is left NULL: the D9 difference is a separate family)"""
    rng = pb.rng
    for k, d in live:
        if d or rng.chance(1, 2):
            pb.op(u, "kset:%d:%d" % (k, 1 + rng.below(60)))
            if rng.chance(1, 4):
                pb.op(u, "kset:%d:%d" % (k, 1 + rng.below(60)))
            if extra_get and rng.chance(1, 2):
                pb.op(u, "kget:%d" % k)
        elif extra_get and rng.chance(1, 3):
            pb.op(u, "kget:%d" % k)             # never stored: NULL


def sc_keys(pb, p):
    rng = pb.rng
    nk = 1 + rng.below(3)
    if not pb.have("keys", nk) or not pb.have("gates"):
        return sc_forkjoin(pb, p)
    live = []
    for _ in range(nk):
        d = 1 if (not live or rng.chance(1, 2)) else 0
        pb.op(p, "kcreate:%d:%d" % (pb.keys, d))
        live.append((pb.keys, d))
        pb.keys += 1
    us = []
    for _ in range(1 + rng.below(4)):
        u = pb.spawn(p)
        if rng.chance(4, 5):
            key_user(pb, u, live)
        pb.work(u, rng.below(2))
        us.append(u)
    for u in us:
        pb.op(p, "join:%d" % u)
    if rng.chance(1, 2):
        # a key is deleted while a thread still holds a value under it: no destructor call for it
        g = pb.gate()
        g2 = pb.gate()
        u = pb.spawn(p)
        key_user(pb, u, live, extra_get=False)
        pb.op(u, "post:%d:1:0" % g2)
        pb.op(u, "await:%d:1" % g)
        victim = rng.choice(live)
        pb.op(p, "await:%d:1" % g2)
        pb.op(p, "kdelete:%d" % victim[0])
        live.remove(victim)
        pb.op(p, "post:%d:1:0" % g)
        pb.op(p, "join:%d" % u)
        if rng.chance(1, 2):
            # the slot is created again and used by fresh threads
            d = rng.below(2)
            pb.op(p, "kcreate:%d:%d" % (victim[0], d))
            live.append((victim[0], d))
            for _ in range(1 + rng.below(2)):
                u = pb.spawn(p)
                key_user(pb, u, live)
                pb.op(p, "join:%d" % u)
    for k, _ in live:
        if rng.chance(1, 2):
            pb.op(p, "kdelete:%d" % k)


def sc_detach(pb, p):
    rng = pb.rng
    if not pb.have("gates"):
        return sc_forkjoin(pb, p)
    g = pb.gate()
    n = 1 + rng.below(4)
    later = []
    for _ in range(n):
        how = rng.below(3)
        if how == 0:
            u = pb.spawn(p, exitmode=rng.below(3), mode=4)
        elif how == 1:
            u = pb.spawn(p)
            if rng.chance(1, 2):
                pb.op(p, "detach:%d" % u)
            else:
                later.append(u)
        else:
            u = pb.spawn(p)
            pb.op(u, "sdetach")
        pb.work(u)
        pb.op(u, "post:%d:1:%d" % (g, rng.below(2)))
    pb.work(p, 1)
    rng.shuffle(later)
    for u in later[:len(later) // 2]:
        pb.op(p, "detach:%d" % u)
    pb.op(p, "await:%d:%d" % (g, n))
    for u in later[len(later) // 2:]:
        pb.op(p, "detach:%d" % u)        # detaching a thread that may already have terminated


def sc_misc(pb, p):
    rng = pb.rng
    us = []
    for _ in range(1 + rng.below(4)):
        u = pb.thread()
        if rng.chance(1, 2) and pb.have("gates"):
            g = pb.gate()
            pb.op(p, "spawn:%d:%d" % (u, rng.below(4)))
            pb.op(p, "post:%d:1:%d" % (g, rng.below(2)))
            pb.op(u, "await:%d:1" % g)
            pb.op(u, "chk:%d" % u)
        else:
            pb.op(p, "spawn:%d:%d" % (u, rng.below(4)))
        for _ in range(1 + rng.below(4)):
            pb.noise(u)
        pb.op(u, "self")
        pb.work(u, 1)
        us.append(u)
    pb.op(p, "self")
    for _ in range(rng.below(3)):
        pb.noise(p)
    for u in us:
        pb.op(p, ("join:%d" if rng.chance(3, 4) else "joinn:%d") % u)


SCENARIOS = {"forkjoin": sc_forkjoin, "handoff": sc_handoff, "barrier": sc_barrier, "once": sc_once,
             "keys": sc_keys, "detach": sc_detach, "misc": sc_misc}


def gen_program(rng, family):
    pb = PB(rng, family)
    if family == "forkjoin":
        sc_forkjoin(pb, 0, pure=True)
    elif family in SCENARIOS:
        if family == "misc" and rng.chance(1, 3):
            pb.op(0, "nsleepbad")
        if family == "misc" and rng.chance(1, 4):
            pb.op(0, "kmax")
        if rng.chance(1, 4):
            # the scenario runs in a child of main
            u = pb.spawn(0, exitmode=rng.below(3))
            SCENARIOS[family](pb, u)
            pb.work(0, 1)
            pb.op(0, "join:%d" % u)
        else:
            SCENARIOS[family](pb, 0)
    elif family == "mixed":
        names = list(SCENARIOS)
        for _ in range(2 + rng.below(2)):
            if pb.full():
                break
            SCENARIOS[rng.choice(names)](pb, 0)
            pb.work(0, rng.below(2))
    elif family == "keys_null_dtor":
        k0, k1 = 0, 1
        pb.keys = 2
        pb.op(0, "kcreate:0:%d" % rng.below(2))
        pb.op(0, "kcreate:1:1")
        n = 1 + rng.below(3)
        for _ in range(n):
            u = pb.spawn(0)
            pb.op(u, "kset:%d:%d" % (k0, 1 + rng.below(40)))
            if rng.chance(1, 3):
                pb.op(u, "kset:%d:0" % k1)        # an explicit NULL store (what the pinned test myth_key_destructor does)
            pb.work(u, 1)
            pb.op(0, "join:%d" % u)
    elif family == "key_recreate":
        pb.keys = 1
        stale = 0
        who = 0 if rng.chance(1, 2) else pb.spawn(0)
        v = 1 + rng.below(90)
        pb.op(who, "kcreate:0:0")
        pb.op(who, "kset:0:%d" % v)
        pb.op(who, "kget:0")
        pb.op(who, "kdelete:0")
        pb.op(who, "kcreate:0:0")
        pb.op(who, "kget:0")                  # POSIX: NULL
        stale += v
        if who != 0:
            pb.op(0, "join:%d" % who)
        pb.meta["stale"] = stale
    elif family == "dtor_restore":
        pb.keys = 1
        pb.op(0, "kcreate:0:2")
        calls, total = 0, 0
        for _ in range(1 + rng.below(3)):
            u = pb.spawn(0)
            v = 2 + rng.below(2)
            pb.op(u, "kset:0:%d" % v)
            pb.work(u, 1)
            pb.op(0, "join:%d" % u)
            calls += 1
            total += v
        pb.meta["myth_d"] = [calls, 0, total]
    elif family == "main_exit":
        n = 1 + rng.below(4)
        pb.exit[0] = 3
        pb.work(0, 1)          # before the spawns: the last `fin` prints, nothing of main may race with it
        for _ in range(n):
            u = pb.spawn(0, mode=rng.choice([0, 1, 4]))
            pb.work(u)
            pb.op(u, "fin:%d" % n)
    else:
        raise RuntimeError("unknown family " + family)
    return {"family": family, "lines": pb.text(), "meta": pb.meta,
            "threads": len(pb.threads), "ops": sum(len(t) for t in pb.threads)}


# --------------------------------------------------------------------------------------------
# builds and runs
# --------------------------------------------------------------------------------------------

def build_all():
    """returns (dict, None) or (None, error)"""
    lib_ld, err = common.build_lib(variant="ld")
    if err:
        return None, "ld-wrapped library does not build: " + err
    lib_dl, err = common.build_lib(variant="dl")
    if err:
        return None, "preloadable library does not build: " + err
    opts = "@" + os.path.join(common.REPO, "src", "myth-ld.opts")
    out = {"lib_ld": lib_ld, "lib_dl": lib_dl}
    progs = os.path.join(common.HARNESS, "progs")
    for name in ("pth_interp", "pth_detach"):
        src = os.path.join(progs, name + ".c")
        exe = os.path.join(common.BUILD, "bin", name + "_sys")
        err = common.cc(src, exe, flags=["-O1"], libs=["-lpthread"])
        if err:
            return None, "%s (system pthreads) does not build: %s" % (name, err)
        out[name + "_sys"] = exe
        exe = os.path.join(common.BUILD, "bin", name + "_ld")
        err = common.cc(src, exe, flags=["-O1", opts], libs=[lib_ld, "-lpthread", "-ldl"])
        if err:
            return None, "%s (link-time wrapped) does not build: %s" % (name, err)
        out[name + "_ld"] = exe
    exe = os.path.join(common.BUILD, "bin", "pth_sinit")
    err = common.cc(os.path.join(progs, "pth_sinit.c"), exe, flags=["-DMYTH_WRAP=MYTH_WRAP_LD", "-O1", opts],
                    libs=[lib_ld, "-lpthread", "-ldl"])
    if err:
        return None, "pth_sinit does not build: " + err
    out["pth_sinit"] = exe
    return out, None


def variant_cmd(b, prog, variant, workers):
    """(argv0, env) for one run.  variant: sys | ld | dl | ldoff | dloff"""
    env = dict(os.environ)
    env.pop("LD_PRELOAD", None)
    env["MYTH_NUM_WORKERS"] = str(workers)
    if variant == "sys":
        return b[prog + "_sys"], env
    if variant in ("ld", "ldoff"):
        if variant == "ldoff":
            env["MYTH_WRAP_PTHREAD"] = "0"
        return b[prog + "_ld"], env
    env["LD_PRELOAD"] = b["lib_dl"]
    if variant == "dloff":
        env["MYTH_WRAP_PTHREAD"] = "0"
    return b[prog + "_sys"], env


def run_desc(b, path, variant, workers, timeout=20):
    exe, env = variant_cmd(b, "pth_interp", variant, workers)
    rc, out, err = common.sh([exe, path], timeout=timeout, env=env)
    return rc, out, err[-300:]


def parse_r(lines):
    """fields of the R line (None if absent / an E line is present)"""
    if len(lines) != 1 or not lines[0].startswith("R "):
        return None
    f = {}
    for w in lines[0].split()[1:]:
        k, _, v = w.partition("=")
        f[k] = v
    return f


def known_shape(prog, exp, rc, out):
    """does the disagreement (rc, out) vs the expected lines have exactly the recorded shape?"""
    fam = prog["family"]
    got = out.splitlines()
    if fam == "main_exit":
        return rc == -9 and got == exp
    if rc != 0:
        return False
    fe, fg = parse_r(exp), parse_r(got)
    if fe is None or fg is None or set(fe) != set(fg):
        return False
    diff = {k for k in fe if fe[k] != fg[k]}
    try:
        if fam == "keys_null_dtor":
            a, n0, s = map(int, fe["d"].split(","))
            a2, n2, s2 = map(int, fg["d"].split(","))
            return diff == {"d"} and n0 == 0 and n2 > 0 and a2 == a + n2 and s2 == s
        if fam == "key_recreate":
            return diff == {"acc"} and int(fg["acc"]) == int(fe["acc"]) + prog["meta"]["stale"]
        if fam == "dtor_restore":
            return diff == {"d"} and list(map(int, fg["d"].split(","))) == prog["meta"]["myth_d"]
    except (ValueError, KeyError):
        return False
    return False


def known_listed(text):
    """is `text` an OPEN entry of /verif/known_findings.json?"""
    for e in common.load_known().get("open", []):
        s = e if isinstance(e, str) else json.dumps(e)
        if text in s and ("C16" in s):
            return True
    return False


def lean_expected(progs):
    """Flat.eval of every program (one driver call); for fork-join programs also PthProg.eval"""
    lines = []
    for p in progs:
        lines += p["lines"] + ["end"]
    out = common.driver("pth", lines, args=["eval"], timeout=600)
    res, cur = [], []
    for l in out:
        if l == "end":
            res.append(cur)
            cur = []
        else:
            cur.append(l)
    if len(res) != len(progs):
        raise RuntimeError("drv_pth eval answered %d programs of %d" % (len(res), len(progs)))
    trees = [(i, p["meta"]["tree"]) for i, p in enumerate(progs) if "tree" in p["meta"]]
    if trees:
        out = common.driver("pth", [t for _, t in trees], args=["tree"], timeout=600)
        blocks, cur = [], []
        for l in out:
            if l == "end":
                blocks.append(cur)
                cur = []
            else:
                cur.append(l)
        if len(blocks) != len(trees):
            raise RuntimeError("drv_pth tree answered %d terms of %d" % (len(blocks), len(trees)))
        # the model's own flattening, evaluated by Flat.eval, must agree with the proved evaluator too
        flat_lines = []
        for blk in blocks:
            flat_lines += blk[1:] + ["end"]
        out2 = common.driver("pth", flat_lines, args=["eval"], timeout=600)
        flat_res = [l for l in out2 if l != "end"]
        for (i, t), blk, fr in zip(trees, blocks, flat_res):
            if not blk or not blk[0].startswith("T "):
                raise RuntimeError("drv_pth tree failed on " + t)
            proved = blk[0][2:]
            if [proved] != res[i] or fr != proved:
                raise RuntimeError("model inconsistency on the fork-join fragment: PthProg.eval says `%s`, Flat.eval of the "
                                   "generated description `%s`, Flat.eval of toFlat `%s` for %s" % (proved, res[i], fr, t))
    return res


def plan(tier, i):
    """the runs of program number i: (variant, workers)"""
    if tier == "quick":
        ws = [[1, 4], [2, 4], [1, 2]][i % 3]
        return [("sys", 0)] + [("ld", w) for w in ws] + [("dl", w) for w in ws] + [("ldoff" if i % 2 else "dloff", 2)]
    return [("sys", 0)] + [("ld", w) for w in (1, 2, 4)] + [("dl", w) for w in (1, 2, 4)] + [("ldoff", 2), ("dloff", 2)]


def save_violation(name, prog, variant, workers, exp, rc, out, err):
    return common.write_replay(PID, name, {"family": prog["family"], "lines": prog["lines"], "meta": prog["meta"],
                                           "variant": variant, "workers": workers, "expected": exp,
                                           "got_rc": rc, "got": out.splitlines(), "stderr": err})


def differential(res, b, progs, label):
    """run every program in every planned configuration; returns the number of runs"""
    work = os.path.join(common.BUILD, "runs", PID)
    os.makedirs(work, exist_ok=True)
    exp = lean_expected(progs)
    jobs = []
    for i, p in enumerate(progs):
        path = os.path.join(work, "%s_%d.txt" % (label, i))
        with open(path, "w") as f:
            f.write("\n".join(p["lines"]) + "\n")
        for (v, w) in plan(res.tier, i):
            jobs.append((i, path, v, w))
    results = {}
    with concurrent.futures.ThreadPoolExecutor(max_workers=6) as ex:
        futs = {ex.submit(run_desc, b, path, v, w): (i, v, w) for (i, path, v, w) in jobs}
        for fu in concurrent.futures.as_completed(futs):
            results[futs[fu]] = fu.result()
    known_hits = {}
    for (i, path, v, w) in jobs:
        rc, out, err = results[(i, v, w)]
        p = progs[i]
        if rc == 0 and out.splitlines() == exp[i]:
            continue
        if v == "sys":
            # the oracle and the model disagree: a generator / model bug, never a verdict
            raise RuntimeError("system pthreads and Flat.eval disagree on a %s program (generator or model bug):\n%s\nexpected %s\ngot rc=%s %s %s"
                               % (p["family"], "\n".join(p["lines"]), exp[i], rc, out, err))
        if v in ("ld", "dl") and p["family"] in KNOWN_TEXT and known_shape(p, exp[i], rc, out):
            known_hits.setdefault(p["family"], (i, v, w, rc, out, err))
            continue
        if res.violations:
            continue
        what = "hang (timeout)" if rc == -9 else ("crash / exit status %s" % rc if rc != 0 else "different result")
        rp = save_violation("differs-%s-%d-%s-w%d.json" % (label, i, v, w), p, v, w, exp[i], rc, out, err)
        res.violations.append((rp, True, "%s program, %s with %d workers: %s; system pthreads and the model print %s, this run rc=%s %s %s"
                               % (p["family"], v, w, what, exp[i], rc, out.strip()[:200], err.strip()[-200:])))
    for fam, (i, v, w, rc, out, err) in sorted(known_hits.items()):
        text = KNOWN_TEXT[fam]
        if known_listed(text):
            if text not in res.known:
                res.known.append(text)
        elif not any(fam in vv[2] for vv in res.violations):
            rp = save_violation("unlisted-%s-%s-w%d.json" % (fam, v, w), progs[i], v, w, exp[i], rc, out, err)
            res.violations.append((rp, True, "%s (NOT listed as an open entry of known_findings.json): %s with %d workers prints rc=%s %s, system pthreads %s"
                                   % (text, v, w, rc, out.strip()[:200], exp[i])))
    return len(jobs)


# --------------------------------------------------------------------------------------------
# static initialiser: stress + controlled schedules
# --------------------------------------------------------------------------------------------

def sinit_campaign(res, b):
    exe = b["pth_sinit"]
    rng = common.Splitmix(res.seed * 6007 + 5)
    # free-running stress: W in {1,2,4}, K threads leave a spin barrier and hit a never-used mutex
    stress = [(1, 4, 300), (2, 4, 1500), (4, 8, 1500), (2, 6, 800), (4, 4, 2500)]
    if res.tier == "thorough":
        stress = stress * 4
    n_stress = 0
    env = dict(os.environ)
    for (w, k, r) in stress:
        ps = rng.below(1 << 30) + 1
        rc, out, err = common.sh([exe, str(w), str(k), str(r), str(ps), "0"], timeout=120, env=env)
        n_stress += 1
        if rc == 0 and "RESULT ok" in out:
            continue
        rp = common.write_replay(PID, "sinit-stress.json", {"kind": "sinit-stress", "args": [w, k, r, ps, 0], "out": out[-500:], "err": err[-500:]})
        res.violations.append((rp, True, "statically initialised mutex first used by %d threads at once (%d workers, %d rounds, free running): %s"
                               % (k, w, r, "hang (timeout)" if rc == -9 else (out.strip() or err.strip())[-300:])))
        return
    # controlled schedules, traces replayed on the model MythVerif.SInit
    nseeds = 60 if res.tier == "quick" else 600
    shapes = [[1, 3, 2], [2, 4, 2], [3, 5, 2], [2, 2, 3], [4, 6, 1], [2, 5, 3], [3, 3, 4]]
    work = os.path.join(common.BUILD, "runs", PID + "-sinit")
    shutil.rmtree(work, ignore_errors=True)
    n_ok = accepted = nontriv = harness_errors = 0
    seen = set()
    hist = {}
    mismatch = None
    for i in range(nseeds):
        w, k, r = shapes[i % len(shapes)]
        args = [w, k, r, rng.below(1 << 30) + 1, 1]
        seed = rng.below(1 << 30) + 1
        dem = (3 + rng.below(60)) if i % 3 == 2 else None
        rr = sched_common.run_once(exe, args, seed, work, "s%d" % i, switch_den=[2, 3, 4, 2][i % 4], demote_at=dem)
        kind, text = sched_common.judge(rr)
        if kind == "harness":
            harness_errors += 1
            if harness_errors > 2:
                raise RuntimeError(text)
            continue
        if kind == "violation":
            d = sched_common.save_replay(PID, rr, ["pth_sinit"] + args, seed)
            res.violations.append((d, True, "pth_sinit %s seed=%s: %s" % (" ".join(map(str, args)), seed, text)))
            return
        n_ok += 1
        h = common.hashcase(open(rr["sched"]).read())
        contended = False
        for line in open(rr["log"]):
            ws = line.split()
            if len(ws) >= 7 and ws[0] == "ev" and ws[3] in ("PT?", "SPIN_PT?") and ws[4].startswith("o"):
                try:
                    v = int(ws[6])
                except ValueError:
                    continue
                kd = v // 10000000000
                if 1 <= kd <= 6:
                    name = ["READ", "CAS", "COPY", "DONE", "WAIT", "WAITED"][kd - 1]
                    if name in ("READ", "CAS", "WAITED"):
                        name += "=%d" % (v % 10000000000 - 1)
                    hist[name] = hist.get(name, 0) + 1
                    if name in ("CAS=0", "CAS=-1", "WAIT"):
                        contended = True
        if h not in seen and contended:
            nontriv += 1
        seen.add(h)
        ok, text = sched_common.accept("pth", rr["log"], args=["sinit"])
        if ok:
            accepted += int(text.split()[1])
        elif mismatch is None:
            mismatch = (text, rr, args, seed)
    res.add_cases(n_stress + nseeds, nontriv, [],
                  rule="C16/static initialiser: harness/progs/pth_sinit.c through the ld-wrapped library: K<=8 threads leave a spin barrier and first-use a never-initialised pthread mutex (lock or trylock loop), W in 1..4 workers; free-running stress rounds plus seeded controlled schedules whose traces are replayed on MythVerif.SInit; non-trivial = a schedule in which some thread lost the electing CAS or found the object `initializing`; distinct by schedule hash")
    res.notes["sinit_event_histogram"] = hist
    res.notes["sinit_accepted_events"] = accepted
    res.notes["sinit_stress_runs"] = n_stress
    if mismatch is None:
        res.cov["traces_validated_against_impl"] += n_ok
    else:
        text, rr, args, seed = mismatch
        res.cov["disagreements_checked"] += 1
        d = sched_common.save_replay(PID, rr, ["pth_sinit"] + args, seed, name="rejected-trace-sinit")
        res.brk("correspondence", "trace acceptor drv_pth sinit rejects a static-initialiser trace (%s seed=%s): %s [trace kept in %s]"
                % (" ".join(map(str, args)), seed, text, d))


# --------------------------------------------------------------------------------------------
# detached attribute: no leak, same output
# --------------------------------------------------------------------------------------------

def detach_campaign(res, b):
    n = 8000 if res.tier == "quick" else 40000
    limit_kb = 16384          # a leaked descriptor is >= 4 KB: n leaks are >= 32 MB (quick) / 160 MB (thorough)
    outs = {}
    for (v, w, mode) in [("sys", 0, "default"), ("ld", 1, "default"), ("ld", 4, "sized"), ("dl", 2, "default"), ("dl", 1, "sized")]:
        exe, env = variant_cmd(b, "pth_detach", v, w)
        rc, out, err = common.sh([exe, str(n), mode], timeout=120, env=env)
        m = re.match(r"^D count=(\d+) sum_ok=(\d) growth_kb=(\d+)$", out.strip())
        outs["%s-w%d-%s" % (v, w, mode)] = out.strip()
        if v == "sys":
            if rc != 0 or not m or int(m.group(1)) != n:
                raise RuntimeError("pth_detach fails under the system library: rc=%s %s %s" % (rc, out, err))
            continue
        bad = None
        if rc != 0 or not m:
            bad = "hang (timeout)" if rc == -9 else "crash / no result: rc=%s %s %s" % (rc, out.strip()[-200:], err.strip()[-200:])
        elif int(m.group(1)) != n or m.group(2) != "1":
            bad = "ran %s of %d threads (sum_ok=%s)" % (m.group(1), n, m.group(2))
        elif int(m.group(3)) > limit_kb:
            bad = "resident set grew by %s KB over the last %d detached threads (limit %d KB): descriptors / stacks of detached threads are not released" % (m.group(3), n - n // 4, limit_kb)
        if bad:
            rp = common.write_replay(PID, "detached-attr-%s-w%d.json" % (v, w), {"kind": "detach", "variant": v, "workers": w, "n": n, "mode": mode, "out": out})
            res.violations.append((rp, True, "%d threads created with pthread_attr_setdetachstate(PTHREAD_CREATE_DETACHED), %s, %d workers, %s stack: %s" % (n, v, w, mode, bad)))
            return
    res.notes["detached_attr_runs"] = outs
    res.add_cases(5, 4, [], rule="C16/detached attribute: harness/progs/pth_detach.c creates n threads from a PTHREAD_CREATE_DETACHED attribute object (default and explicit stack size) under the system library, libmyth-ld and libmyth-dl; all must run, resident-set growth stays below 16 MB (a leaked descriptor is >= 4 KB)")


# --------------------------------------------------------------------------------------------
# corpus
# --------------------------------------------------------------------------------------------

def corpus_programs():
    out = []
    d = os.path.join(common.CORPUS, PID)
    if os.path.isdir(d):
        for fn in sorted(os.listdir(d)):
            if fn.endswith(".json"):
                j = json.load(open(os.path.join(d, fn)))
                out.append({"family": j.get("family", "corpus"), "lines": j["lines"], "meta": j.get("meta", {}),
                            "threads": sum(1 for l in j["lines"] if l.startswith("thread ")),
                            "ops": sum(len(l.split()) - 3 for l in j["lines"] if l.startswith("thread ")), "corpus": fn})
    return out


def run(res):
    r, err = wraptable_extract.run()
    if err:
        res.brk("translator", err)
    common.prove(res, drivers=["pth"])
    b, err = build_all()
    if err:
        res.brk("build", err)
        return
    sinit_campaign(res, b)
    if not res.violations:
        detach_campaign(res, b)
    # the bodies the wrappers forward to (C16_forwarding), free running with real parallelism: what the program families
    # below cannot time precisely (callers released together on fresh once controls, notify-after-unlock, contended locks)
    for kind, shapes in (("once", [(4, 4, 500, 2), (8, 8, 300, 0), (2, 3, 800, 1)]),
                         ("mutex", [(4, 6, 3000, 2), (8, 8, 1500, 0)]),
                         ("cond2", [(8, 8, 20000, 2), (4, 6, 20000, 1)])):
        if not res.violations:
            sched_common.free_stress(res, PID, kind, shapes)
    # ---- differential campaign
    nprog = 40 if res.tier == "quick" else 330
    rng = common.Splitmix(res.seed * 104729 + 11)
    progs = corpus_programs()
    ncorpus = len(progs)
    fams = NORMAL_FAMILIES
    for i in range(nprog):
        progs.append(gen_program(rng, fams[i % len(fams)]))
    for fam in sorted(KNOWN_TEXT):
        for _ in range(1 if res.tier == "quick" else 4):
            progs.append(gen_program(rng, fam))
    nruns = 0
    if not res.violations:
        nruns = differential(res, b, progs, "p")
    fam_hist, op_hist, th_hist = {}, {}, {"1": 0, "2-4": 0, "5-9": 0, "10-19": 0, ">=20": 0}
    seen = set()
    nontriv = 0
    for p in progs:
        fam_hist[p["family"]] = fam_hist.get(p["family"], 0) + 1
        t = p["threads"]
        th_hist["1" if t == 1 else "2-4" if t < 5 else "5-9" if t < 10 else "10-19" if t < 20 else ">=20"] += 1
        for l in p["lines"]:
            if l.startswith("thread "):
                for o in l.split()[3:]:
                    k = o.split(":")[0]
                    op_hist[k] = op_hist.get(k, 0) + 1
        h = common.hashcase(p["lines"])
        if h not in seen and t >= 2 and p["ops"] >= 4:
            nontriv += 1
        seen.add(h)
    res.add_cases(nruns, nontriv,
                  [{"family": p["family"], "description": p["lines"]} for p in progs[ncorpus:ncorpus + 2]],
                  rule="C16/programs: every generated description (8 determinate families + 4 known-difference families, corpus first) is interpreted by harness/progs/pth_interp.c against the system pthreads, libmyth-ld and libmyth-dl with 1/2/4 workers and with wrapping switched off, and evaluated by Flat.eval (fork-join family also by the proved PthProg.eval); evaluations = runs; non-trivial = distinct description with >= 2 threads and >= 4 operations")
    res.notes["program_families"] = fam_hist
    res.notes["program_ops"] = op_hist
    res.notes["program_threads"] = th_hist
    res.notes["corpus_programs"] = ncorpus
    res.cov["traces_validated_against_impl"] += nruns if not res.violations else 0
    res.assumptions += [
        "layer 4 is differential: the system C library's pthread implementation is the oracle for what a determinate program prints; Flat.eval (one fixed schedule of the abstract interface) must agree with it on every generated program, otherwise the check stops with a harness error",
        "determinacy of the generated programs is proved only for the fork-join + lock-protected-commutative fragment (C16_eval_determinate); for gates, bounded buffers, barrier phases, once, keys and detached threads it holds by construction of the generator (monotone gates, reads only between two barrier waits, commutative destructor effects, every detached thread reports to a gate the main thread awaits)",
        "operations whose behaviour POSIX leaves undefined are not generated (joining a detached thread, unlocking a mutex one does not hold, pthread_equal on the id of a joined thread, destroying an object in use); pthread_cond_timedwait, rwlocks, cancellation and scheduling attributes are outside the supported subset of the property",
        "the static-initialiser model is tied to the code by the statement skeleton the translator extracts (C16_helper_shapes), by the magic numbers (C16_static_init_constants) and by controlled-schedule traces at MYTH_VERIF_POINT granularity (sequentially consistent interleavings; the publishing store follows myth_rwbarrier, on x86-TSO stores are not reordered)",
        "`*m = mi` is modelled as four word stores in any order; which machine instructions the compiler emits for it is not observed",
        "resident-set growth is an OS observable with a generous margin (16 MB against >= 32 MB for a leak of one descriptor per thread)",
        "known differences are reported as KNOWN-FINDING only when listed as open entries of known_findings.json and only for their own program family and disagreement shape; unlisted they are violations",
    ]


# --------------------------------------------------------------------------------------------
# replay
# --------------------------------------------------------------------------------------------

def replay(path):
    if os.path.isfile(path) and path.endswith("stress.txt") and open(path).readline().startswith("sync_stress_prog"):
        return sched_common.replay_stress(PID, path)
    if os.path.isdir(path):
        exe_args = open(os.path.join(path, "args.txt")).readline().split()
        b, err = build_all()
        if err:
            print(err)
            return 2
        from props import c14
        return c14.replay_with_seed(PID, path, exe=b["pth_sinit"])
    j = json.load(open(path))
    b, err = build_all()
    if err:
        print(err)
        return 2
    if j.get("kind") == "sinit-stress":
        rc, out, err = common.sh([b["pth_sinit"]] + [str(a) for a in j["args"]], timeout=120)
        print(out)
        if rc != 0 or "RESULT ok" not in out:
            print("VIOLATION property=%s replay=%s" % (PID, path))
            return 1
        print("no violation on replay")
        return 0
    if j.get("kind") == "detach":
        exe, env = variant_cmd(b, "pth_detach", j["variant"], j["workers"])
        rc, out, err = common.sh([exe, str(j["n"]), j["mode"]], timeout=120, env=env)
        print(out)
        m = re.match(r"^D count=(\d+) sum_ok=(\d) growth_kb=(\d+)$", out.strip())
        if rc != 0 or not m or int(m.group(1)) != j["n"] or m.group(2) != "1" or int(m.group(3)) > 16384:
            print("VIOLATION property=%s replay=%s" % (PID, path))
            return 1
        print("no violation on replay")
        return 0
    prog = {"family": j["family"], "lines": j["lines"], "meta": j.get("meta", {})}
    exp = lean_expected([prog])[0]
    work = os.path.join(common.BUILD, "runs", PID + "-replay")
    os.makedirs(work, exist_ok=True)
    p = os.path.join(work, "replay.txt")
    with open(p, "w") as f:
        f.write("\n".join(prog["lines"]) + "\n")
    rc0, out0, _ = run_desc(b, p, "sys", 0)
    print("model   : %s" % exp)
    print("system  : rc=%s %s" % (rc0, out0.strip()))
    bad = 0
    for _ in range(5):
        rc, out, err = run_desc(b, p, j["variant"], j["workers"])
        if rc != 0 or out.splitlines() != exp:
            bad += 1
            print("%s w=%s: rc=%s %s %s" % (j["variant"], j["workers"], rc, out.strip(), err.strip()[-200:]))
            break
    if bad:
        print("VIOLATION property=%s replay=%s" % (PID, path))
        return 1
    print("no violation on replay (5 runs of %s with %s workers agree with the system library)" % (j["variant"], j["workers"]))
    return 0
