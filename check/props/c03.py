"""C03 — a thread's registers and stack survive every context switch and migration
(DESIGN section 4, C03).

translate (asm templates + make_context constants -> Generated/CtxAsm.lean)
  -> prove (Properties/C03.lean over the regenerated lists, axiom audit)
  -> model-vs-hardware differential of the regenerated instruction lists (drv_x86 vs ctx_bench)
  -> the register / stack / alignment probe on the real library (-O0 and -O2, 1/2/4 workers).
"""
import json
import os
import sys

import common

sys.path.insert(0, os.path.join(common.VERIF, "translate"))
import asm_extract  # noqa: E402

PROBE_SRC = os.path.join(common.HARNESS, "ctx_probe.c")
CORPUS = os.path.join(common.CORPUS, "C03")
# callbacks every configuration must exercise (deterministic by construction of the scenarios)
REQUIRED_CB = ["create_1", "yield_ex_1", "entry_point_1", "block_on_queue_cb", "block_on_stack_cb",
               "uncond_wait_cb"]


def build_probe(opt):
    lib, err = common.build_lib(opt=opt)
    if err:
        return None, "library does not build at %s: %s" % (opt, err[-800:])
    exe = os.path.join(common.BUILD, "c03", "ctx_probe" + opt)
    e = common.cc(PROBE_SRC, exe, flags=[opt], libs=[lib, "-lpthread", "-ldl"])
    if e:
        return None, "ctx_probe does not build at %s: %s" % (opt, e[-800:])
    return exe, None


# default stack sizes the probe is also run with: not multiples of 16 (the top of a default stack is
# base + size - 16: the alignment of a fresh context then depends on make_context alone)
ODD_STACK_SIZES = [None, 131080, None, 98328, 262152, None]


def run_probe(exe, workers, seed, rounds, timeout=120, stk=None):
    env = dict(os.environ)
    env["MYTH_NUM_WORKERS"] = str(workers)
    env.pop("MYTH_CPU_LIST", None)
    env.pop("MYTH_DEF_STKSIZE", None)
    if stk:
        env["MYTH_DEF_STKSIZE"] = str(stk)
    rc, out, err = common.sh([exe, str(seed), str(rounds)], env=env, timeout=timeout)
    r = {"rc": rc, "kinds": {}, "callbacks": {}, "entry": {}, "fails": [], "result": None, "hooks": None,
         "stderr": err[-400:]}
    for line in out.splitlines():
        w = line.split()
        if not w:
            continue
        if w[0] == "config":
            kv = dict(x.split("=") for x in w[1:])
            r["hooks"] = int(kv.get("hooks", "0"))
            r["workers"] = int(kv["workers"])
        elif w[0] in ("kind", "callback", "entry"):
            kv = dict(x.split("=") for x in w[2:-1])
            tgt = {"kind": r["kinds"], "callback": r["callbacks"], "entry": r["entry"]}[w[0]]
            tgt[w[1]] = {k: int(v) for k, v in kv.items()}
            tgt[w[1]]["verdict"] = w[-1]
        elif w[0] in ("FAIL", "CRASH"):
            r["fails"].append(line)
        elif w[0] == "result":
            r["result"] = w[1]
    return r


def table(r):
    rows = []
    for k, v in r["kinds"].items():
        rows.append("%-24s ops=%-6d migrated=%-5d %s" % (k, v["ops"], v["migrated"], v["verdict"]))
    for k, v in r["callbacks"].items():
        rows.append("cb %-21s calls=%-6d misaligned=%-3d %s" % (k, v["calls"], v["misaligned"], v["verdict"]))
    for k, v in r["entry"].items():
        rows.append("entry %-18s n=%-6d misaligned=%-3d %s" % (k, v["n"], v["misaligned"], v["verdict"]))
    return rows


def configs(res):
    rng = common.Splitmix(res.seed * 7919 + 3)
    out = []
    if res.tier == "quick":
        for opt in ("-O0", "-O2"):
            for w in (1, 2, 4):
                for _ in range(3):
                    out.append((opt, w, rng.next() % 1000000, 8))
    else:
        for opt in ("-O0", "-O2"):
            for w in (1, 2, 3, 4, 8):
                for _ in range(24):
                    out.append((opt, w, rng.next() % 1000000, 24))
    return out


def run(res):
    info, err = asm_extract.run()
    if err:
        res.brk("translator", err)
    else:
        res.notes["templates"] = info
    proved = common.prove(res, drivers=["x86"])
    broken = bool(err) or not proved

    # ---- model vs hardware on the regenerated lists -------------------------------------------
    if not err:
        bench(res)

    # ---- the probe on the real library ---------------------------------------------------------
    exes = {}
    for opt in ("-O0", "-O2"):
        exe, e = build_probe(opt)
        if e:
            if broken:
                res.brk("build", e)
                continue
            raise RuntimeError(e)
        exes[opt] = exe

    cfgs = []
    if os.path.isdir(CORPUS):
        for fn in sorted(os.listdir(CORPUS)):
            if fn.endswith(".json"):
                c = json.load(open(os.path.join(CORPUS, fn)))
                cfgs.append((c["opt"], c["workers"], c["seed"], c["rounds"]))
    cfgs += configs(res)

    total_ops, kinds_hit, samples = 0, 0, []
    hist_ops, hist_cb, hist_mig = {}, {}, {}
    nruns = 0
    for ci, (opt, w, seed, rounds) in enumerate(cfgs):
        if opt not in exes:
            continue
        stk = ODD_STACK_SIZES[ci % len(ODD_STACK_SIZES)]
        r = run_probe(exes[opt], w, seed, rounds, stk=stk)
        nruns += 1
        cfg = {"opt": opt, "workers": w, "seed": seed, "rounds": rounds, "default_stack_size": stk}
        if r["result"] is None:
            # crashed / killed / timed out: a verdict only if the obligations are broken as well
            text = "ctx_probe %s did not finish (rc=%s) %s %s" % (cfg, r["rc"], " ".join(r["fails"]), r["stderr"].strip()[-200:])
            if broken:
                p = common.write_replay(res.pid, "crash_%s_w%d_s%d.json" % (opt.strip("-"), w, seed),
                                        dict(cfg, what="the library crashes / hangs in the probe", rc=r["rc"], fails=r["fails"],
                                             obligations_broken=["%s: %s" % b for b in res.breaks]))
                res.violations.append((p, True, text + " [while: " + "; ".join(b[1][:160] for b in res.breaks[:2]) + "]"))
                if len(res.violations) >= 2:
                    break
                continue
            raise RuntimeError(text)
        for k, v in r["kinds"].items():
            hist_ops[k] = hist_ops.get(k, 0) + v["ops"]
            hist_mig[k] = hist_mig.get(k, 0) + v["migrated"]
            total_ops += v["ops"]
        for k, v in r["callbacks"].items():
            hist_cb[k] = hist_cb.get(k, 0) + v["calls"]
            if v["calls"] > 0:
                kinds_hit += 1
        if r["result"] == "FAIL":
            bad = [k for k, v in list(r["kinds"].items()) + list(r["callbacks"].items()) + list(r["entry"].items())
                   if v["verdict"] == "FAIL"]
            p = common.write_replay(res.pid, "probe_%s_w%d_s%d.json" % (opt.strip("-"), w, seed),
                                    dict(cfg, what="pattern corrupted or stack misaligned", switch_kinds=bad,
                                         fails=r["fails"], table=table(r)))
            res.violations.append((p, True, "switch kinds %s fail with library %s, %d workers, seed %d: %s"
                                   % (bad, opt, w, seed, (r["fails"] or ["?"])[0][:300])))
            if len(res.violations) >= 2:
                break
            continue
        # coverage of the run itself (a harness matter, not a verdict)
        if r["hooks"]:
            missing = [c for c in REQUIRED_CB if r["callbacks"].get(c, {}).get("calls", 0) == 0]
            if not (r["callbacks"].get("join_2", {}).get("calls", 0) + r["callbacks"].get("join_3", {}).get("calls", 0)):
                missing.append("join_2|join_3")
            if missing:
                raise RuntimeError("ctx_probe %s did not exercise %s" % (cfg, missing))
        if r["workers"] != w:
            raise RuntimeError("ctx_probe ran with %d workers instead of %d" % (r["workers"], w))
        if len(samples) < 3:
            samples.append({"config": cfg, "table": table(r)})
    if nruns and not res.violations:
        if hist_ops and sum(hist_mig.values()) == 0:
            raise RuntimeError("no migration between workers observed in any multi-worker run")
    res.add_cases(total_ops, kinds_hit, samples,
                  rule="case = one checked library call (six register patterns + two stack arrays + rsp alignment verified "
                       "after it returns); nontrivial = (configuration, callback kind) pairs in which the callback really "
                       "ran, i.e. a real switch of that kind happened")
    res.notes["probe_runs"] = nruns
    res.notes["ops_by_kind"] = hist_ops
    res.notes["migrations_by_kind"] = hist_mig
    res.notes["callbacks_by_kind"] = hist_cb
    res.cov["trusted_base"] = [t for t in res.cov["trusted_base"] if "correspondence" not in t] + [
        "translate/asm_extract.py (tokeniser of the preprocessed asm statements, AT&T parser for the forms used; self-checked against objdump of the compiled instantiation at -O0/-O2 on every run)",
        "Model/X86.lean mini semantics (checked against the CPU on every run by harness/ctx_probe.c --bench vs drv_x86 for the regenerated lists)",
        "GCC honours asm constraints / clobbers; SysV: vector and x87 state caller-saved",
    ]
    res.assumptions += [
        "another thread never writes into a suspended thread's stack (hypothesis hframe/hown of C03_swap_restores); the switch code and its callback are proved not to",
        "rsp = 0 mod 16 at every asm statement (property of the compiled callers; sampled by the probe inside every callback and after every resumption)",
        "callbacks obey SysV and touch only their own frame on the target stack and the objects they are given",
        "vector/x87 data registers are caller-saved; mxcsr/x87 control words are shared by the threads of a worker (MYTH_SAVE_FPCSR=0)",
        "the probe's multi-worker interleavings are whatever the machine produces (not replayable exactly); a replay re-runs the configuration up to 20 times",
    ]


# --------------------------------------------------------------------------------------------
# model vs hardware
# --------------------------------------------------------------------------------------------

def bench(res):
    """run the regenerated instruction lists on the CPU (harness/ctx_probe.c -DCTXP_BENCH, template
    text re-emitted from the parsed lists) and through the Lean semantics (drv_x86); diff."""
    d = os.path.join(common.BUILD, "translate")
    hdr = os.path.join(d, "ctx_templates.h")
    if not os.path.exists(hdr):
        res.brk("translator", "ctx_templates.h was not written")
        return
    exe = os.path.join(common.BUILD, "c03", "ctx_bench")
    e = common.cc(PROBE_SRC, exe, flags=["-O1", "-DCTXP_BENCH", "-I" + d, "-no-pie"])
    if e:
        res.brk("correspondence", "bench does not assemble the regenerated templates: " + e[-600:])
        return
    n = 80 if res.tier == "quick" else 4000
    rc, out, err = common.sh([exe, str(res.seed), str(n)], timeout=60)
    if rc != 0:
        res.brk("correspondence", "the regenerated templates crash on the CPU (rc=%s): %s" % (rc, err[-200:]))
        return
    ins = [l for l in out.splitlines() if l.startswith("in ")]
    outs = [l[4:] for l in out.splitlines() if l.startswith("out ")]
    if len(ins) != len(outs) or not ins:
        raise RuntimeError("bench printed %d inputs / %d outputs" % (len(ins), len(outs)))
    try:
        model = common.driver("x86", [l[3:] for l in ins])
    except RuntimeError as ex:
        if "rc=2" in str(ex) or not os.path.exists(os.path.join(common.BIN, "drv_x86")):
            res.brk("correspondence", "drv_x86 unavailable: %s" % ex)
            return
        raise
    bad = [(i, a, b) for i, (a, b) in enumerate(zip(outs, model)) if a != b]
    res.cov["traces_validated_against_impl"] += len(outs) - len(bad)
    res.notes["bench_runs"] = len(outs)
    if bad or len(model) != len(outs):
        i, a, b = bad[0] if bad else (0, "", "")
        res.cov["disagreements_checked"] += len(bad)
        res.brk("correspondence", "Lean semantics and the CPU disagree on the regenerated templates, case %d:\n in  %s\n cpu %s\n lean %s"
                % (i, ins[i][3:] if ins else "", a, b))


def replay(path):
    try:
        c = json.load(open(path))
    except ValueError:
        # "unproved.txt": an obligation without a failing input; replay = re-check the obligations
        print(open(path).read())
        res = common.Result("C03", "quick", 1)
        info, err = asm_extract.run()
        if err:
            res.brk("translator", err)
        common.prove(res, drivers=["x86"])
        if not err:
            bench(res)
        for b in res.breaks:
            print("STILL BROKEN %s: %s" % b)
        return 1 if res.breaks else 0
    exe, e = build_probe(c["opt"])
    if e:
        print(e)
        return 2
    for attempt in range(20):
        r = run_probe(exe, c["workers"], c["seed"], c["rounds"], stk=c.get("default_stack_size"))
        if r["result"] != "PASS":
            print("\n".join(table(r)))
            print("\n".join(r["fails"]))
            print("REPRODUCED (attempt %d): result=%s rc=%s" % (attempt + 1, r["result"], r["rc"]))
            return 1
    print("not reproduced in 20 runs of %s" % {k: c[k] for k in ("opt", "workers", "seed", "rounds")})
    return 0
