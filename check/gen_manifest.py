#!/usr/bin/env python3
"""Regenerates MANIFEST.json from the table below (keeps it valid at all times)."""
import json
import os

V = os.path.dirname(os.path.dirname(os.path.abspath(__file__)))
ALL = ["C%02d" % i for i in range(1, 21)]

CLAIMED = {
    "C10": dict(
        text="Lean 4 theorems over the TLS radix-tree model for every geometry, key (any int) and store history: get/set is a map (C10_get_set, C10_tree_refines_map), invalid indices rejected, privacy between threads, radix decomposition bijective; key allocator invariant for every create/delete history (distinct while live, exactly nKeys creates succeed, delete of dead keys rejected). Model tied to the code by regenerated constants and by differential execution of the real inline functions (ASan/UBSan) against the model driver; the property's own oracle runs on the implementation outputs.",
        note="Trusted: Lean kernel; consts translator (compiles a probe against /repo headers); harness/tls_unit.c + harness/keyalloc_conc.c; sampled correspondence. Concurrent create/delete: theorem covers serialised histories, the serialisation itself (spin lock) is checked by injecting a second thread at the free-list CAS points (sequentially consistent interleavings only).",
        technique="Lean 4 proof (induction over tree depth / op histories) + differential correspondence",
        design="DESIGN.md section 4, C10"),
    "C11": dict(
        text="Lean 4 theorem C11_calls_exact: for every geometry, key table and store history the exit walk makes exactly one call per key with a destructor whose leaf is allocated, with that key's value, in key order, reads no table cell outside [0,nKeys) and the teardown frees every node once; corollaries exactly-once / no foreign call. The pinned snapshot's walk is refuted by kernel-checked witnesses. Tie: differential execution of myth_tls_tree_fini (ASan) vs the model driver + property oracle.",
        note="Trusted: Lean kernel; consts translator; harness/tls_unit.c; sampled correspondence. NULL-valued calls for keys with a destructor are part of the code's contract (pinned test needs them). The three exit paths reaching myth_tls_tree_fini are covered by whole-library runs, not by a theorem.",
        technique="Lean 4 proof (structural induction on the radix tree) + differential correspondence",
        design="DESIGN.md section 4, C11"),
}

CLAIMED["C04"] = dict(
    text="Lean 4 invariant proof over a labelled transition system of lock/trylock/timedlock/unlock at shared-access granularity with an unbounded number of threads and arbitrary interleavings: mutual exclusion (unique bit owner, bit set iff owned), acquisition only when free, waiter accounting, no lost wake-up (invariant 'waiters have hope' and stuck-freedom: a quiescent reachable state has no sleeper), trylock never blocks and fails only if held, sleepers perform no access, woken threads pushed exactly once. Tie: whole-library programs run under a token-passing schedule controller; every implementation trace (values read, CAS outcomes, dequeues) must be accepted step by step by the model; the occupancy/deadlock oracle runs on the implementation.",
    note="Trusted: Lean kernel; schedule controller + MYTH_VERIF points (sequentially consistent interleavings at point granularity; x86-TSO effects not exhibited: all accesses here are locked RMWs or follow one); sleep-queue spin lock collapsed to atomic enq/deq; run queues abstracted (C02). 'Eventually' = stuck-freedom under the stated fairness assumption.",
    technique="Lean 4 inductive-invariant proof over an LTS + trace-acceptance correspondence under controlled schedules",
    design="DESIGN.md section 4, C04")

CLAIMED["C05"] = dict(
    text="Lean 4 invariant proof over an LTS of cond wait/signal/broadcast (condition queue at shared-access granularity, abstract mutex as established by C04), unbounded threads, all interleavings: atomic release-and-wait (a thread inside wait that is not yet dequeued either still holds the mutex or is on the queue), a signal/broadcast issued under the mutex is never missed, signal dequeues exactly the head or is a no-op on an empty queue, broadcast returns only after every thread queued at its start was dequeued, dequeued threads are pushed exactly once, no resume without a signal, wait returns only by re-acquiring the mutex. Tie: bounded-buffer / gate / turnstile programs under the schedule controller; traces accepted step by step by the cond model and the mutex model; counters/occupancy/deadlock oracle on the implementation.",
    note="Trusted: Lean kernel; schedule controller (SC interleavings at point granularity); abstract mutex (C04 links it to the real one, the acceptor cross-checks every acquire against holder = none); sleep-queue spin lock collapsed to atomic enq/deq. myth_cond_timedwait is unimplemented() in the code.",
    technique="Lean 4 inductive-invariant proof over an LTS + trace-acceptance correspondence under controlled schedules",
    design="DESIGN.md section 4, C05")

CLAIMED["C01"] = dict(
    text="Lean 4 invariant proof over the thread life-cycle LTS (one record: finishing thread + any number of joiners / try-joiners / detachers, all interleavings, return and myth_exit both as 'finish v'): start function entered at most once, join reads its value only after the target published FREE_READY2 and the value is the returned/exit value, result written once and stable, the joiner registers itself only after its context was saved and is resumed exactly by the target's publish step. Attribute part: for every garbage memory and every sequence of public setters, attr_init leaves no field that create reads unset and only requested fields differ from the defaults; the pinned attr_init is refuted. Tie: random fork-join trees (7 creation modes incl. attr over poisoned memory and NULL id, 6 reaping modes, nested myth_exit) under the schedule controller; traces accepted step by step by the life-cycle model (terminal check: every thread started once, released once); invocation counters / join values / visibility cells / stack canaries as oracle on the implementation.",
    note="Trusted: Lean kernel; schedule controller (SC interleavings at point granularity); exactly-once dispatch by the run queues is C02, stack/register contents C03; critical sections of the record's spin lock are atomic in the model (only lock-protected fields inside). Visibility of the child's writes under x86-TSO is argued from FIFO store buffers + the unlock's xchg, not machine-checked. Attr field lists are transcribed by hand and tied by the poisoned-memory creations.",
    technique="Lean 4 inductive-invariant proof over an LTS + trace-acceptance correspondence under controlled schedules",
    design="DESIGN.md section 4, C01")
CLAIMED["C12"] = dict(
    text="Lean 4: (a) life-cycle LTS invariant: the stack is released exactly once, only in the callback after the finished thread's final switch-away and under the record lock; the record is released at most once, only after the thread published and unlocked, and (unless detached) only by the reaper after it read the exit value; (b) ledger of per-worker free lists for any number of workers and any get/release history: blocks in use pairwise distinct, never on a free list, a block on at most one free list, get never returns a block in use, double release rejected; (c) size classes: for 8 <= s <= 2^30 the class block fits, is < 2s, index inside the 31-entry table; stack tops 16-byte aligned inside the page-rounded block and release recovers the block start. Tie: regenerated constants; size-class macro diffed against the model; ledger and life-cycle acceptors on controlled whole-library traces with raw block addresses; ledger oracle + stack canaries on the implementation.",
    note="Trusted: Lean kernel; mmap returns fresh disjoint page-aligned regions (OS model); schedule controller; memory contents of stacks are not modelled (canaries are an oracle). Requests above 1 GiB leave the size-class table: excluded as unusable requests.",
    technique="Lean 4 inductive-invariant proofs (life-cycle LTS, free-list ledger) + arithmetic lemmas + trace-acceptance correspondence",
    design="DESIGN.md section 4, C12")
CLAIMED["C13"] = dict(
    text="Lean 4 invariant proof over the life-cycle LTS for both creation modes and all orders of finish vs join / tryjoin(timedjoin) / detach: record and stack released at most once always, and exactly once in every terminal state whose single reaping operation completed (join, successful tryjoin, detach before or after the finish, detach-state attribute); tryjoin reports EBUSY iff the target was not finished at its locked check and then changes nothing; detach touches nothing the running target reads; one-worker ledger theorem: blocks ever obtained from the OS <= peak blocks simultaneously in use (bounded memory). Tie: as C01/C12 plus a 70 000-cycle one-worker soak through all 7 reaping modes measuring distinct blocks and RSS growth.",
    note="Trusted: Lean kernel; WellUsed (exactly one reaping operation per thread) is the model's `claimed` discipline; timed-join deadline logic is C20; RSS is an OS observable, the theorem is about the ledger's OS model; schedule controller.",
    technique="Lean 4 inductive-invariant proof over an LTS + ledger theorem + trace-acceptance correspondence + soak",
    design="DESIGN.md section 4, C13")

CLAIMED["C17"] = dict(
    text="24 Lean 4 theorems over unbounded n, strides, ranges, grain >= 1, step >= 1, task counts and sizes, and all fork-join schedules: create_join_various/many equal the sequential loop (order on one worker, permutation on N), each strided slot written exactly once, nothing else written, n = 0 does nothing; parallel_for (all index forms, grain and range forms) terminates and calls the body exactly once per index, not at all for empty/reversed ranges; task_group wait joins exactly the tasks added, list shape and task-memory blocks disjoint. Termination proved with fuel + fuel-independence; the pinned parallel_for is refuted for every fuel. Tie: differential execution of the real helpers / headers against drv_bulk (exact one-worker event order through MYTH_VP_BULK_* hooks, multisets on 2-8 workers) + a model-independent oracle (call multiset, slots, guard bytes, returns); a hang is a result.",
    note="Trusted: Lean kernel; myth_create/myth_join behave as fork and join (C01); index arithmetic does not overflow (Int/Nat models, C '/' as Int.tdiv); blocked_range as in TBB; `new` returns fresh memory; harness bulk_unit.c / bulk_mtbb.cc. Outside the domain (TBB preconditions): step <= 0, grain <= 0, n < 0.",
    technique="Lean 4 proof (induction over the divide-and-conquer, tilings, allocator invariant, fork-join schedule semantics) + output correspondence",
    design="DESIGN.md section 4, C17")
CLAIMED["C03"] = dict(
    text="Lean 4 theorems about the instruction lists REGENERATED on every run from the four amd64 inline-asm templates of myth_context_func.h, for every machine state, every SysV callback and every pair (suspend by swap | swap-with-callback) x (resume by swap | swap-with-callback | set_context | set_context-with-callback): rsp, rbp, rbx, r12-r15, the red zone and owned stack are restored exactly; the context is saved before the callback runs; the callback runs on the target stack and stores only below it; frame size and both make_context functions keep the 16-byte ABI alignment; the final-jump variants use nothing of the finished thread; the constraint lists cover every GPR. Tie: translator with objdump self-check (-O0, -O2), model-vs-CPU differential of the regenerated lists, register/stack/alignment probe on the real library at -O0/-O2 with 1-8 workers through 16 switch kinds.",
    note="Trusted: Lean kernel; translate/asm_extract.py (self-checked against objdump); Model/X86.lean mini semantics (checked against the CPU each run); GCC honours asm constraints; SysV callbacks. Assumed: no other thread writes into a suspended stack; rsp = 0 mod 16 at the asm statements (sampled in every callback); vector/x87 state caller-saved and FP control words shared per worker (MYTH_SAVE_FPCSR = 0). Probe interleavings on several workers are not exactly replayable.",
    technique="Lean 4 proof by symbolic execution of translated x86-64 code + translator self-check + model/CPU differential + runtime probe",
    design="DESIGN.md section 4, C03")

NA_REASON = "not yet claimed in this revision: model/theorems/correspondence for this property are still being built (see DESIGN.md section 8 build order); no other technique is substituted"


def main():
    checks = []
    for pid in ALL:
        if pid not in CLAIMED:
            continue
        c = CLAIMED[pid]
        checks.append({
            "property_id": pid,
            "quick_cmd": "python3 check/check.py %s --tier quick" % pid,
            "thorough_cmd": "python3 check/check.py %s --tier thorough" % pid,
            "evidence_file": "/verif/evidence/%s.json" % pid,
            "replay_cmd_template": "python3 check/check.py %s --replay {path}" % pid,
            "engine": "lean4-proof+correspondence",
            "level_claimed": {"category": "proof", "text": c["text"], "design_ref": c["design"]},
            "level_note": c["note"],
            "technique": c["technique"],
        })
    hooks_commits = []
    try:
        import subprocess
        out = subprocess.run(["git", "-C", "/repo", "log", "--format=%h %s"], capture_output=True, text=True).stdout
        hooks_commits = [l.split()[0] for l in out.splitlines() if "verif hooks" in l]
    except Exception:
        pass
    m = {
        "version": 1,
        "setup_cmd": "sh /verif/setup.sh",
        "hooks": {
            "guard": "MYTH_VERIF",
            "enable": "checks compile /repo/src/*.c themselves with -DMYTH_VERIF (check/common.py build_lib); src/myth_verif.h defines MYTH_VERIF_POINT/SPIN as no-ops without the guard",
            "baseline_off_cmd": "cd /repo && make -j16 >/dev/null 2>&1 && make -j8 check",
            "source_commits": hooks_commits,
            "add_only": True,
        },
        "engines": [{
            "name": "lean4-proof+correspondence",
            "path": "/verif/check/check.py",
            "serves_properties": sorted(CLAIMED),
            "kind_free_text": "Lean 4 theorems over executable models (lean/MythVerif), tied to /repo by translators (translate/) and by differential / trace correspondence harnesses (harness/) compiled from /repo's working tree on every run",
        }],
        "checks": checks,
        "notes": "Every check: translate -> lake build + #print axioms audit -> build implementation from /repo working tree with -DMYTH_VERIF -> correspondence + property oracle -> violation search.  See DESIGN.md.",
        "not_applicable": [{"property_id": p, "reason": NA_REASON} for p in ALL if p not in CLAIMED],
    }
    with open(os.path.join(V, "MANIFEST.json"), "w") as f:
        json.dump(m, f, indent=1)


if __name__ == "__main__":
    main()
