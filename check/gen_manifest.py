#!/usr/bin/env python3
"""Regenerates MANIFEST.json from the table below (keeps it valid at all times)."""
import json
import os

V = os.path.dirname(os.path.dirname(os.path.abspath(__file__)))
ALL = ["C%02d" % i for i in range(1, 21)]

CLAIMED = {
    "C10": dict(
        text="Lean 4 theorems over the TLS radix-tree model for every geometry, key (any int) and store history: get/set is a map (C10_get_set, C10_tree_refines_map), invalid indices rejected, privacy between threads, radix decomposition bijective; key allocator invariant for every create/delete history (distinct while live, exactly nKeys creates succeed, delete of dead keys rejected). Model tied to the code by regenerated constants and by differential execution of the real inline functions (ASan/UBSan) against the model driver; the property's own oracle runs on the implementation outputs.",
        note="Trusted: Lean kernel; consts translator (compiles a probe against /repo headers); harness/tls_unit.c + harness/keyalloc_conc.c; sampled correspondence. Concurrent create/delete: theorem covers serialised histories, the serialisation itself (spin lock) is checked by injecting a second thread at the free-list CAS points (sequentially consistent interleavings only).",
        technique="Lean 4 proof (induction over tree depth / op histories) + differential correspondence",
        design="DESIGN.md section 4, C10"),
    "C11": dict(
        text="Lean 4 theorem C11_calls_exact: for every geometry, key table and store history the exit walk makes exactly one call per key with a destructor whose leaf is allocated, with that key's value, in key order, reads no table cell outside [0,nKeys) and the teardown frees every node once; corollaries exactly-once / no foreign call. The pinned snapshot's walk is refuted by kernel-checked witnesses. Tie: differential execution of myth_tls_tree_fini (ASan) vs the model driver + property oracle.",
        note="Trusted: Lean kernel; consts translator; harness/tls_unit.c; sampled correspondence. NULL-valued calls for keys with a destructor are part of the code's contract (pinned test needs them). The three exit paths reaching myth_tls_tree_fini are covered by whole-library runs, not by a theorem.",
        technique="Lean 4 proof (structural induction on the radix tree) + differential correspondence",
        design="DESIGN.md section 4, C11"),
}

CLAIMED["C04"] = dict(
    text="Lean 4 invariant proof over a labelled transition system of lock/trylock/timedlock/unlock at shared-access granularity with an unbounded number of threads and arbitrary interleavings: mutual exclusion (unique bit owner, bit set iff owned), acquisition only when free, waiter accounting, no lost wake-up (invariant 'waiters have hope' and stuck-freedom: a quiescent reachable state has no sleeper), trylock never blocks and fails only if held, sleepers perform no access, woken threads pushed exactly once. Tie: whole-library programs run under a token-passing schedule controller; every implementation trace (values read, CAS outcomes, dequeues) must be accepted step by step by the model; the occupancy/deadlock oracle runs on the implementation.",
    note="Trusted: Lean kernel; schedule controller + MYTH_VERIF points (sequentially consistent interleavings at point granularity; x86-TSO effects not exhibited: all accesses here are locked RMWs or follow one); sleep-queue spin lock collapsed to atomic enq/deq; run queues abstracted (C02). 'Eventually' = stuck-freedom under the stated fairness assumption.",
    technique="Lean 4 inductive-invariant proof over an LTS + trace-acceptance correspondence under controlled schedules",
    design="DESIGN.md section 4, C04")

CLAIMED["C05"] = dict(
    text="Lean 4 invariant proof over an LTS of cond wait/signal/broadcast (condition queue at shared-access granularity, abstract mutex as established by C04), unbounded threads, all interleavings: atomic release-and-wait (a thread inside wait that is not yet dequeued either still holds the mutex or is on the queue), a signal/broadcast issued under the mutex is never missed, signal dequeues exactly the head or is a no-op on an empty queue, broadcast returns only after every thread queued at its start was dequeued, dequeued threads are pushed exactly once, no resume without a signal, wait returns only by re-acquiring the mutex. Tie: bounded-buffer / gate / turnstile programs under the schedule controller; traces accepted step by step by the cond model and the mutex model; counters/occupancy/deadlock oracle on the implementation.",
    note="Trusted: Lean kernel; schedule controller (SC interleavings at point granularity); abstract mutex (C04 links it to the real one, the acceptor cross-checks every acquire against holder = none); sleep-queue spin lock collapsed to atomic enq/deq. myth_cond_timedwait is unimplemented() in the code.",
    technique="Lean 4 inductive-invariant proof over an LTS + trace-acceptance correspondence under controlled schedules",
    design="DESIGN.md section 4, C05")

CLAIMED["C01"] = dict(
    text="Lean 4 invariant proof over the thread life-cycle LTS (one record: finishing thread + any number of joiners / try-joiners / detachers, all interleavings, return and myth_exit both as 'finish v'): start function entered at most once, join reads its value only after the target published FREE_READY2 and the value is the returned/exit value, result written once and stable, the joiner registers itself only after its context was saved and is resumed exactly by the target's publish step. Attribute part: for every garbage memory and every sequence of public setters, attr_init leaves no field that create reads unset and only requested fields differ from the defaults; the pinned attr_init is refuted. Tie: random fork-join trees (7 creation modes incl. attr over poisoned memory and NULL id, 6 reaping modes, nested myth_exit) under the schedule controller; traces accepted step by step by the life-cycle model (terminal check: every thread started once, released once); invocation counters / join values / visibility cells / stack canaries as oracle on the implementation.",
    note="Trusted: Lean kernel; schedule controller (SC interleavings at point granularity); exactly-once dispatch by the run queues is C02, stack/register contents C03; critical sections of the record's spin lock are atomic in the model (only lock-protected fields inside). Visibility of the child's writes under x86-TSO is machine-checked on the abstract store-buffer machine of Basic/Tso.lean (C01_visibility_tso: message passing through the FREE_READY2 store, unbounded buffers and workers); that the code issues result-then-status in program order on one worker is read off the source, and hand-over of a migrating thread between workers is C02. Attr field lists are transcribed by hand and tied by the poisoned-memory creations.",
    technique="Lean 4 inductive-invariant proof over an LTS + trace-acceptance correspondence under controlled schedules",
    design="DESIGN.md section 4, C01")
CLAIMED["C12"] = dict(
    text="Lean 4: (a) life-cycle LTS invariant: the stack is released exactly once, only in the callback after the finished thread's final switch-away and under the record lock; the record is released at most once, only after the thread published and unlocked, and (unless detached) only by the reaper after it read the exit value; (b) ledger of per-worker free lists for any number of workers and any get/release history: blocks in use pairwise distinct, never on a free list, a block on at most one free list, get never returns a block in use, double release rejected; (c) size classes: for 8 <= s <= 2^30 the class block fits, is < 2s, index inside the 31-entry table; stack tops 16-byte aligned inside the page-rounded block and release recovers the block start. Tie: regenerated constants; size-class macro diffed against the model; ledger and life-cycle acceptors on controlled whole-library traces with raw block addresses; ledger oracle + stack canaries on the implementation.",
    note="Trusted: Lean kernel; mmap returns fresh disjoint page-aligned regions (OS model); schedule controller; memory contents of stacks are not modelled (canaries are an oracle). Requests above 1 GiB leave the size-class table: excluded as unusable requests.",
    technique="Lean 4 inductive-invariant proofs (life-cycle LTS, free-list ledger) + arithmetic lemmas + trace-acceptance correspondence",
    design="DESIGN.md section 4, C12")
CLAIMED["C13"] = dict(
    text="Lean 4 invariant proof over the life-cycle LTS for both creation modes and all orders of finish vs join / tryjoin(timedjoin) / detach: record and stack released at most once always, and exactly once in every terminal state whose single reaping operation completed (join, successful tryjoin, detach before or after the finish, detach-state attribute); tryjoin reports EBUSY iff the target was not finished at its locked check and then changes nothing; detach touches nothing the running target reads; one-worker ledger theorem: blocks ever obtained from the OS <= peak blocks simultaneously in use (bounded memory). Tie: as C01/C12 plus a 70 000-cycle one-worker soak through all 7 reaping modes measuring distinct blocks and RSS growth.",
    note="Trusted: Lean kernel; WellUsed (exactly one reaping operation per thread) is the model's `claimed` discipline; timed-join deadline logic is C20; RSS is an OS observable, the theorem is about the ledger's OS model; schedule controller.",
    technique="Lean 4 inductive-invariant proof over an LTS + ledger theorem + trace-acceptance correspondence + soak",
    design="DESIGN.md section 4, C13")

CLAIMED["C17"] = dict(
    text="24 Lean 4 theorems over unbounded n, strides, ranges, grain >= 1, step >= 1, task counts and sizes, and all fork-join schedules: create_join_various/many equal the sequential loop (order on one worker, permutation on N), each strided slot written exactly once, nothing else written, n = 0 does nothing; parallel_for (all index forms, grain and range forms) terminates and calls the body exactly once per index, not at all for empty/reversed ranges; task_group wait joins exactly the tasks added, list shape and task-memory blocks disjoint. Termination proved with fuel + fuel-independence; the pinned parallel_for is refuted for every fuel. Tie: differential execution of the real helpers / headers against drv_bulk (exact one-worker event order through MYTH_VP_BULK_* hooks, multisets on 2-8 workers) + a model-independent oracle (call multiset, slots, guard bytes, returns); a hang is a result.",
    note="Trusted: Lean kernel; myth_create/myth_join behave as fork and join (C01); index arithmetic does not overflow (Int/Nat models, C '/' as Int.tdiv); blocked_range as in TBB; `new` returns fresh memory; harness bulk_unit.c / bulk_mtbb.cc. Outside the domain (TBB preconditions): step <= 0, grain <= 0, n < 0.",
    technique="Lean 4 proof (induction over the divide-and-conquer, tilings, allocator invariant, fork-join schedule semantics) + output correspondence",
    design="DESIGN.md section 4, C17")
CLAIMED["C03"] = dict(
    text="Lean 4 theorems about the instruction lists REGENERATED on every run from the four amd64 inline-asm templates of myth_context_func.h, for every machine state, every SysV callback and every pair (suspend by swap | swap-with-callback) x (resume by swap | swap-with-callback | set_context | set_context-with-callback): rsp, rbp, rbx, r12-r15, the red zone and owned stack are restored exactly; the context is saved before the callback runs; the callback runs on the target stack and stores only below it; frame size and both make_context functions keep the 16-byte ABI alignment; the final-jump variants use nothing of the finished thread; the constraint lists cover every GPR. Tie: translator with objdump self-check (-O0, -O2), model-vs-CPU differential of the regenerated lists, register/stack/alignment probe on the real library at -O0/-O2 with 1-8 workers through 16 switch kinds.",
    note="Trusted: Lean kernel; translate/asm_extract.py (self-checked against objdump); Model/X86.lean mini semantics (checked against the CPU each run); GCC honours asm constraints; SysV callbacks. Assumed: no other thread writes into a suspended stack; rsp = 0 mod 16 at the asm statements (sampled in every callback); vector/x87 state caller-saved and FP control words shared per worker (MYTH_SAVE_FPCSR = 0). Probe interleavings on several workers are not exactly replayable.",
    technique="Lean 4 proof by symbolic execution of translated x86-64 code + translator self-check + model/CPU differential + runtime probe",
    design="DESIGN.md section 4, C03")

CLAIMED["C09"] = dict(
    text="Lean 4 invariant proof over an LTS of the full/empty lock layered on the abstract mutex/cond interface of C04/C05, any number of threads acting as producers and consumers any number of times with plain lock/unlock mixed in, all interleavings: wait_and_lock(s) returns only with status = s and the lock held exclusively; mark_and_signal(v) publishes v and hands one waiter for v back to the lock; single-slot mailbox exactly-once (produced = slot ++ consumed in every reachable state, hence consumed items distinct); no lost signal (status = w and sleepers for w imply somebody active for w); a quiescent reachable state has no sleeper waiting for the current status (nobody sleeps forever in a balanced exchange). Tie: mailbox programs under the schedule controller; the SAME traces are accepted by the felock model, the cond model and the mutex model; consumed-multiset / exclusivity / deadlock oracle on the implementation.",
    note="Trusted: Lean kernel; layering on C04/C05 (abstract atomic acquire/release and wait = release+enqueue; every felock signal is issued under the mutex); schedule controller (SC interleavings); put/take come from program notes. 'Sleeps forever' = stuck-freedom under scheduler fairness.",
    technique="Lean 4 inductive-invariant proof over a layered LTS + trace-acceptance correspondence under controlled schedules",
    design="DESIGN.md section 4, C09")
CLAIMED["C15"] = dict(
    text="27 Lean 4 theorems over all strings / capacities / interleavings / histories about models of myth_init_func.h, myth_bind_worker.c, myth_init.c and the victim arithmetic: empty / non-numeric / non-positive MYTH_NUM_WORKERS and MYTH_DEF_STKSIZE fall back to CPU count / default and the values used are > 0; the CPU-list parser terminates (well-founded recursion, no fuel), never aborts, writes <= cap entries, returns exactly the denoted CPUs for a | a-b | a-b:c lists and -1 for ill-formed ones; init-once protocol for unboundedly many concurrent callers (one initialisation per epoch, single elected initialiser, return only after completion, workers = range n, fini stops all workers, fini + init_ex(a) installs exactly a); ranks and steal victims in range. The pinned D5/D6 behaviours are refuted. Tie: differential runs of the real parsers (ASan/UBSan) vs drv_env, whole-library init/fini histories (1..64 workers via attribute and environment, ranks from every thread, fini from a migrated main thread, exit status under malformed environments), trace acceptor on controlled interleavings of concurrent initialisers, structural check of the election code.",
    note="Trusted: Lean kernel; glibc atoi (strtol saturation then truncation) and wrapping int arithmetic are observed against the real code each run, not proved; CPU_ISSET/sysconf/affinity mask/rand_r are parameters; single finaliser at a time; attributes request >= 1 worker. Observed, not claimed as violations: fini leaves the caller bound to worker 0's CPU; an attribute-less re-init does not re-read the environment.",
    technique="Lean 4 total functional models + well-founded recursion + LTS invariant; differential execution and trace acceptance",
    design="DESIGN.md section 4, C15")
CLAIMED["C20"] = dict(
    text="23 Lean 4 theorems over an executable transcription of myth_timespec_add/gt, myth_nanosleep/usleep/sleep_body, myth_mutex_timedlock_body and myth_timedjoin_body, for all durations and deadlines, all clock streams and all trylock/tryjoin outcome streams (= all interleavings with the holder/target): timespec addition exact and normalised (saturating), strict order, EINVAL iff the POSIX malformed condition, a return of 0 only after a reading later than start+req (elapsed >= req on a monotone clock), a yield between any two clock reads, timeout only after a reading strictly later than the deadline, success iff one of the attempts succeeded, one attempt even for past deadlines, only 0/ETIMEDOUT returned. Two pinned defects refuted and repaired. Tie: line-by-line comparison of return values and event traces of the real library under a scripted virtual clock (1 and 2 workers), the property's own exact-integer oracle, real-clock sanity runs.",
    note="Trusted: Lean kernel; hr_gettime is the only clock read and returns normalised readings; signed overflow of the pinned add modelled as wrap; what a yield does (another runnable thread runs) is observed, not proved. Deadlines with tv_nsec > 10^9 are outside the property.",
    technique="Lean 4 proof (induction over fuel-bounded loops with exact loop characterisation) + virtual-clock differential execution / trace acceptance",
    design="DESIGN.md section 4, C20")
CLAIMED["C14"] = dict(
    text="Lean 4 invariant proof over an LTS of myth_once_body (= pthread_once) at shared-access granularity, unbounded callers, all interleavings, init routine = arbitrary finite winner steps with arbitrary interleaving (yield/block/create): at most one start, exactly one once anyone returned (state and ghost-free trace form), every return preceded by the routine's end, completed is stable and later calls are two reads without CAS/yield/routine, nobody ever disabled, non-runners neither return nor interfere while in progress, waiters always have an enabled completer (stuck-freedom), init = 0. Tie: consts translator; whole-library once_prog (myth_once and ld-wrapped pthread_once) under the schedule controller, every trace accepted step by step; oracle = execution counter, done-flag seen right after return, deadlock verdict.",
    note="Trusted: Lean kernel; controller + MYTH_VERIF points (SC interleavings; plain store of completed relies on TSO store order); routine steps/end come from program notes; yield label synthesised by the acceptor; 'everyone waits' = stuck-freedom under fairness for the winner; a late call reads the word twice, not once.",
    technique="Lean 4 inductive-invariant proof over an LTS + trace-acceptance correspondence under controlled schedules",
    design="DESIGN.md section 4, C14")
CLAIMED["C08"] = dict(
    text="Lean 4 invariant proof over an LTS of myth_uncond_wait/_cb/_signal side by side with an explicit protocol monitor WellUsed on label sequences (shown satisfiable and shown necessary), unbounded threads and rendezvous, arbitrary waiter/signaler identities: pushes are in order a prefix of announcements and per thread #resume <= #push <= #announce <= #resume+1, signal's k-th return follows its k-th push, runnable only via the claimer's push after the clear, u->th / carried / queued threads always context-saved, invariant re-established after every rendezvous, bounded-rank progress (early and late signal) = stuck-freedom. Tie: uncond_prog (SPSC one-word buffer with alternating roles, MPSC counter) under the controller with forced early signals; every trace accepted by library model and monitor; oracle = counters, in-order values, nobody left, deadlock verdict.",
    note="Trusted: Lean kernel; controller (SC interleavings); announce/claim fused with call entry and reported by program notes; context save before callback from C03; run queues abstracted (C02); 'eventually' = rank-bounded progress under fairness.",
    technique="Lean 4 inductive-invariant proof over an LTS + trace-acceptance correspondence under controlled schedules",
    design="DESIGN.md section 4, C08")

CLAIMED["C02"] = dict(
    text="12 Lean 4 theorems for every capacity >= 2 and unboundedly many participants: sequential refinement of all ten queue operations to an abstract deque (re-centring in both directions is the identity, abort exactly on a full queue, indices in bounds); a ~65-clause inductive invariant of the concurrent machine at shared-access granularity under sequential consistency (owner push with re-centring / pop / put / clear; thieves' take, wsapi take with decision callback, trypass, lock-free peek, cached wsapi peek) giving multiset no-loss / no-duplication, exactly-once, decline leaves the candidate available, owner fast path safe, progress (ghost branches unreachable); under x86-TSO (store-buffer machine with the source's fences) the no-loss/no-dup invariant is proved for owner push/pop (all three paths) against thieves' take only: C02_no_loss_no_dup_tso_partial. Tie: differential sequential harness on capacities 4/6/8/16; owner + thieves under a token-passing controller (seeded random + DFS with preemption bound) whose traces INCLUDING FENCE POSITIONS are accepted step by step by the SC model; tagged-element oracle; executable TSO search parameterised by the observed fences for missing-fence changes.",
    note="PARTIAL under TSO: trypass, put, peek, the wsapi variants, the steal cache, re-centring and clear are not proved under TSO (full intended statement kept as a comment in Properties/C02.lean). Liveness ('terminates on any number of workers') is probabilistic in the victim choice and not proved; its safety core is the quiescent half of C02_exactly_once. Trusted: Lean kernel; x86-TSO store-buffer model; release store applied right after the unlock fence; steal cache modelled as its pointer word only; controlled runs are SC interleavings; whole-library exactly-once dispatch is additionally observed by the C01 programs (per-thread invocation counters).",
    technique="Lean 4 refinement to an abstract deque with ghost linearization points, per-pc invariant lemmas (SC full, TSO partial) + trace-acceptance correspondence incl. fence positions + TSO model search",
    design="DESIGN.md section 4, C02 and Appendix A")
CLAIMED["C06"] = dict(
    text="13 Lean 4 theorems over an LTS of myth_barrier_wait at shared-access granularity with the single-CAS sleep stack, any duplicate-free participant list (N >= 1), any number of rounds, all interleavings under the explicit WellUsed hypothesis (shown satisfiable and necessary): nobody returns from round k before all N arrived, exactly one SERIAL per round and it is the last arriver, all N-1 sleepers of the round pushed exactly once, a participant racing into round k+1 is never popped as a round-k sleeper (why resetting the count before the pops is safe), single popper hence no ABA on the CAS stack, N = 1, the excess-threads exit unreachable, stuck-freedom. Tie: barrier_prog (N 1..6, <= 5 rounds, racers, W 1..3) under the schedule controller, traces accepted by drv_barrier; per-round arrival counters / serial count / deadlock oracle on the implementation.",
    note="Trusted: Lean kernel; controller (SC interleavings at point granularity; pop CAS installs the next pointer recorded at its read); 'every participant returns' = safety + stuck-freedom, that a runnable thread eventually runs is assumed (C01/C02).",
    technique="Lean 4 inductive-invariant proof (44 clauses) over an LTS + trace-acceptance correspondence under controlled schedules",
    design="DESIGN.md section 4, C06")
CLAIMED["C07"] = dict(
    text="13 Lean 4 theorems over an LTS of myth_join_counter_wait/dec using the real packed word, any N >= 0, unbounded threads, all interleavings, no usage hypothesis: the word's two fields count decrements and announced waiters exactly; no wait returns / nothing is woken before the N-th decrement; the N-th decrementer dequeues exactly the threads announced or asleep at its CAS and each is pushed once; a wait after N decrements returns at once; N = 0; single waker; a quiescent state after N decrements has no sleeper. Arithmetic for all n (calc_bits minimal width, mask identity, field independence, BitVec-64 corollary under the decidable Representable guard). Tie: jc_prog (waiters before/between/after and concurrent with the final decrement, N in {0,1,2,3,4,7,8}) under the controller with drv_jc trace acceptor; differential unit check of calc_bits/mask/dec/wait arithmetic against the real header.",
    note="Trusted: Lean kernel; controller (SC interleavings); sleep queue atomic at its in-lock linearization point; Nat word with the 64-bit case under Representable (n < 2^62, waiters < 2^(63-b)); more than N decrements is the code's exit(1), modelled as such; liveness = safety + stuck-freedom.",
    technique="Lean 4 inductive-invariant proof over an LTS + arithmetic lemmas + trace-acceptance correspondence + differential unit check",
    design="DESIGN.md section 4, C07")
CLAIMED["C18"] = dict(
    text="12 Lean 4 theorems over all well-nested executions, time stamps, worker assignments, option settings and admissible contraction policies: every reported total (work, span, interval counts by kind, the five edge counts) is independent of the contraction policy and of collapse_max / uncollapse_min / collapse_max_count / node_count_target / prune_threshold; work = sum of interval lengths; counts equal the flat counts; bottom-up t_inf = max over intervals of est + duration under the recorder's own top-down est propagation; t_inf <= t_1; cur_node_count exact including the budget-splitting prune walk; .stat edge totals contraction-independent. 4 kernel-checked refutations of the pinned code (three genuine defects repaired). Tie: real profiler sources driven through a serial multi-worker simulator x 12 option settings; root info / .stat / est per interval equal to the model on the captured stamps; flat-interval oracle independent of the model.",
    note="The longest-path-in-the-explicit-leaf-graph formulation (C18_span_is_longest_path) is NOT proved; the est-finish formulation is. Trusted: Lean kernel; causal rdtsc stamps as unbounded naturals; serial simulator (the recorder's lock-free list insertion and real concurrency are not exercised); PAPI / cpu ids not modelled.",
    technique="Lean 4 structural induction over mutual tree types + differential execution against the profiler compiled from current sources",
    design="DESIGN.md section 4, C18")
CLAIMED["C19"] = dict(
    text="13 Lean 4 theorems: for every DAG, wellFormed (offsets and edge endpoints in range, children contiguous, edges grouped by source with edges_begin/end a partition, in-degree certificate) implies that the chronological replay, for ANY dequeue order, readies/starts/ends every leaf exactly once, touches no inner node and ends with nothing running or ready; string interning (distinct names <-> distinct indices, all indices in the table); dump and shrink preserve root totals. C19_flatten_wf: for every well-nested execution, both recorder variants and every contraction option the dumped DAG (dr_make_pi_dag of the recorded, arbitrarily contracted tree) passes ALL seven conjuncts of wellFormed (layout of dr_pi_dag_enum_nodes, edges a permutation of a tree-defined edge list going forward in preorder, Kahn elimination certificate), hence C19_flatten_replay. PARTIAL: that every shrink output is wellFormed (C19_prune_wf) is not proved in general - it is established per run by executing the verified checker on every converted DAG. Tie: model arrays compared field by field with the implementation's T/E/S; dump vs re-read identical by memcmp on the implementation (file I/O and mmap not modelled); replay counters equal.",
    note="PARTIAL only for the shrinking conversion (C19_prune_wf). Trusted: Lean kernel; event heap abstracted to an arbitrary pick; conversion exercised through dr_read_dag / dr_copy_pi_dag / dr_gen_basic_stat / dr_gen_pi_dag (the body of dag2any with --shrink), dag2any's option parsing and sqlite/text writers are not run; byte-level file round trip by correspondence only.",
    technique="Lean 4 structural induction over recorded trees (layout, edge order, elimination certificate) + counting invariant over an abstract event queue + verified executable checker + differential execution",
    design="DESIGN.md section 4, C19")

CLAIMED["C16"] = dict(
    text="18 Lean 4 theorems in four layers. (1) Forwarding: the wrapper table RE-EXTRACTED on every run from src/myth_wrap_pthread.c, src/myth_real.c and src/myth-ld.opts (both redirection builds) equals the expected table for every function of the supported subset: MassiveThreads body, argument order, attribute conversion, static-initialiser handling first, result translation (EBUSY / errno conventions), real function otherwise; every wrapper has its --wrap entry; real_f never re-enters the wrapped name; object sizes / initialiser constants compatible (decide). (2) Static initialisers: LTS with an unbounded number of threads first-using one never-initialised mutex at shared-access granularity: exactly one conversion, nobody reaches the mutex body before magic_no is published, the published object equals a fresh mutex, waiters are never disabled and are released. (3) Attribute translation: for every garbage memory and pthread attribute, creation reads no unset field; detach state and stack size are honoured. (4) Programs: for the fork-join + lock-protected-commutative fragment every complete execution of the abstract interface yields eval p (determinacy, termination, no deadlock). Tie: translator + controlled-schedule traces of the handler replayed on the model + differential execution of generated determinate programs (12 families) against the system pthreads, libmyth-ld, libmyth-dl, wrapping switched off, and the model evaluator.",
    note="Layer 4 beyond the fork-join fragment (gates, buffers, barrier phases, once, keys, detached threads, sleeps) is differential only: the system C library is the oracle, determinacy is by construction of the generator, not machine-checked. That the myth bodies refine the abstract interface is C01, C04-C08, C10, C11, C14 (not re-proved here). Four POSIX differences are open known findings (known_findings.json), each bound to one program family and one disagreement shape. pthread_cond_timedwait, rwlocks, cancellation, scheduling attributes are outside the supported subset. Trusted: Lean kernel; translate/wraptable_extract.py; harness/progs/pth_*.c; schedule controller.",
    technique="Lean 4 proof (decide over a translated table, LTS invariant, structural induction on programs) + translator + trace acceptance + differential execution against the system library",
    design="DESIGN.md section 4, C16")

NA_REASON = "not yet claimed in this revision: model/theorems/correspondence for this property are still being built (see DESIGN.md section 8 build order); no other technique is substituted"


def main():
    checks = []
    for pid in ALL:
        if pid not in CLAIMED:
            continue
        c = CLAIMED[pid]
        checks.append({
            "property_id": pid,
            "quick_cmd": "python3 check/check.py %s --tier quick" % pid,
            "thorough_cmd": "python3 check/check.py %s --tier thorough" % pid,
            "evidence_file": "/verif/evidence/%s.json" % pid,
            "replay_cmd_template": "python3 check/check.py %s --replay {path}" % pid,
            "engine": "lean4-proof+correspondence",
            "level_claimed": {"category": "proof", "text": c["text"], "design_ref": c["design"]},
            "level_note": c["note"],
            "technique": c["technique"],
        })
    hooks_commits = []
    try:
        import subprocess
        out = subprocess.run(["git", "-C", "/repo", "log", "--format=%h %s"], capture_output=True, text=True).stdout
        hooks_commits = [l.split()[0] for l in out.splitlines() if "verif hooks" in l]
    except Exception:
        pass
    m = {
        "version": 1,
        "setup_cmd": "sh /verif/setup.sh",
        "hooks": {
            "guard": "MYTH_VERIF",
            "enable": "checks compile /repo/src/*.c themselves with -DMYTH_VERIF (check/common.py build_lib); src/myth_verif.h defines MYTH_VERIF_POINT/SPIN as no-ops without the guard",
            "baseline_off_cmd": "cd /repo && make -j16 >/dev/null 2>&1 && make -j8 check",
            "source_commits": hooks_commits,
            "add_only": True,
        },
        "engines": [{
            "name": "lean4-proof+correspondence",
            "path": "/verif/check/check.py",
            "serves_properties": sorted(CLAIMED),
            "kind_free_text": "Lean 4 theorems over executable models (lean/MythVerif), tied to /repo by translators (translate/) and by differential / trace correspondence harnesses (harness/) compiled from /repo's working tree on every run",
        }],
        "checks": checks,
        "notes": "Every check: translate (constants, asm templates, wrapper table, and the statement skeletons of every modelled C function: Generated/*.lean) -> lake build + #print axioms audit of every property theorem and of the source-shape theorem Shape/<id>.lean (re-extracted function text = the text the model transcribes) -> build implementation from /repo working tree with -DMYTH_VERIF -> correspondence + property oracle -> violation search; a broken obligation or correspondence without a concrete failing input is reported as VIOLATION ... no-failing-input-found.  See DESIGN.md (section 9 = as built).",
        "not_applicable": [{"property_id": p, "reason": NA_REASON} for p in ALL if p not in CLAIMED],
    }
    with open(os.path.join(V, "MANIFEST.json"), "w") as f:
        json.dump(m, f, indent=1)


if __name__ == "__main__":
    main()
