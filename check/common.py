"""Shared machinery of the /verif checks (see DESIGN.md section 2).

One run of a property check:
  translate -> lake build + axiom audit -> build implementation from /repo's working tree ->
  correspondence (model driver vs implementation harness) + property oracle on the implementation ->
  on any break: violation search -> VIOLATION line / evidence.
"""
import fcntl
import hashlib
import json
import os
import re
import subprocess
import sys
import time

VERIF = os.path.dirname(os.path.dirname(os.path.abspath(__file__)))
REPO = os.environ.get("VERIF_REPO", "/repo")
LEAN = os.path.join(VERIF, "lean")
BUILD = os.environ.get("VERIF_BUILD", os.path.join(VERIF, ".build"))
EVID = os.path.join(VERIF, "evidence")
CORPUS = os.path.join(VERIF, "corpus")
HARNESS = os.path.join(VERIF, "harness")
BIN = os.path.join(LEAN, ".lake", "build", "bin")

ALLOWED_AXIOMS = {"propext", "Classical.choice", "Quot.sound"}
FORBIDDEN = re.compile(
    r"\b(sorry|admit|native_decide|bv_decide|implemented_by)\b|^\s*axiom\s|\bunsafe\s|maxHeartbeats\s+0\b",
    re.M)

LIB_SRCS = ["myth_log", "myth_sched", "myth_internal_barrier", "myth_bind_worker", "myth_worker",
            "myth_sync", "myth_init", "myth_misc", "myth_tls", "myth_thread", "myth_context",
            "myth_if_native", "myth_real", "myth_eco"]
WRAP_SRCS = ["myth_wrap_pthread", "myth_wrap_malloc", "myth_wrap_socket"]
BASE_CFLAGS = ["-DHAVE_CONFIG_H", "-D_GNU_SOURCE", "-D_XOPEN_SOURCE", "-D_DARWIN_C_SOURCE",
               "-I" + os.path.join(REPO, "include"), "-I" + os.path.join(REPO, "src"),
               # src/config.h is a configure product (not tracked): a pinned copy is used only when it is missing
               "-idirafter", os.path.join(HARNESS, "pinned"), "-w"]


class Splitmix:
    """the one PRNG every generator derives its choices from"""

    def __init__(self, seed):
        self.s = seed & 0xFFFFFFFFFFFFFFFF

    def next(self):
        self.s = (self.s + 0x9E3779B97F4A7C15) & 0xFFFFFFFFFFFFFFFF
        z = self.s
        z = ((z ^ (z >> 30)) * 0xBF58476D1CE4E5B9) & 0xFFFFFFFFFFFFFFFF
        z = ((z ^ (z >> 27)) * 0x94D049BB133111EB) & 0xFFFFFFFFFFFFFFFF
        return z ^ (z >> 31)

    def below(self, n):
        return self.next() % n if n > 0 else 0

    def choice(self, xs):
        return xs[self.below(len(xs))]

    def chance(self, num, den):
        return self.below(den) < num

    def shuffle(self, xs):
        for i in range(len(xs) - 1, 0, -1):
            j = self.below(i + 1)
            xs[i], xs[j] = xs[j], xs[i]


def sh(cmd, cwd=None, timeout=None, inp=None, env=None):
    """run a command, return (rc, stdout, stderr); rc = -9 on timeout"""
    try:
        p = subprocess.run(cmd, cwd=cwd, input=inp, capture_output=True, text=True, timeout=timeout,
                           env=env, errors="replace")
        return p.returncode, p.stdout, p.stderr
    except subprocess.TimeoutExpired as e:
        out = e.stdout.decode(errors="replace") if isinstance(e.stdout, bytes) else (e.stdout or "")
        err = e.stderr.decode(errors="replace") if isinstance(e.stderr, bytes) else (e.stderr or "")
        return -9, out, err


class Lock:
    def __init__(self, name):
        os.makedirs(BUILD, exist_ok=True)
        # the lake lock is global (one Lean project), the others are per build directory
        self.path = os.path.join(LEAN, ".lake.lock") if name == "lake" else os.path.join(BUILD, name + ".lock")

    def __enter__(self):
        self.f = open(self.path, "w")
        fcntl.flock(self.f, fcntl.LOCK_EX)
        return self

    def __exit__(self, *a):
        fcntl.flock(self.f, fcntl.LOCK_UN)
        self.f.close()


def write_if_changed(path, content):
    os.makedirs(os.path.dirname(path), exist_ok=True)
    try:
        if open(path).read() == content:
            return False
    except OSError:
        pass
    tmp = path + ".tmp%d" % os.getpid()
    with open(tmp, "w") as f:
        f.write(content)
    os.replace(tmp, path)
    return True


# --------------------------------------------------------------------------------------------
# Lean side
# --------------------------------------------------------------------------------------------

def lean_build(targets):
    """lake build (serialised).  Returns (ok, log)."""
    with Lock("lake"):
        rc, out, err = sh(["lake", "build"] + targets, cwd=LEAN, timeout=3000)
    return rc == 0, out + err


def property_theorems(pid):
    """names of the theorems stated in Properties/<pid>.lean (the property theorems only)"""
    path = os.path.join(LEAN, "MythVerif", "Properties", pid + ".lean")
    src = open(path).read()
    # strip comments
    src_nc = re.sub(r"/-.*?-/", "", src, flags=re.S)
    src_nc = re.sub(r"--.*", "", src_nc)
    out, stack = [], []
    for line in src_nc.splitlines():
        m = re.match(r"^namespace\s+([A-Za-z0-9_.]+)", line)
        if m:
            stack.append(m.group(1))
            continue
        m = re.match(r"^end\s+([A-Za-z0-9_.]+)", line)
        if m and stack and stack[-1] == m.group(1):
            stack.pop()
            continue
        m = re.match(r"^theorem\s+([A-Za-z0-9_.']+)", line)
        if m:
            out.append(".".join(stack + [m.group(1)]))
    return out


def forbidden_tokens():
    """grep of the whole Lean library for forbidden tokens (comments discarded)"""
    hits = []
    for root, _, files in os.walk(LEAN):
        if ".lake" in root:
            continue
        for fn in files:
            if not fn.endswith(".lean"):
                continue
            p = os.path.join(root, fn)
            src = open(p).read()
            src = re.sub(r"/-.*?-/", lambda m: "\n" * m.group(0).count("\n"), src, flags=re.S)
            src = re.sub(r"--.*", "", src)
            for m in FORBIDDEN.finditer(src):
                line = src.count("\n", 0, m.start()) + 1
                hits.append("%s:%d:%s" % (os.path.relpath(p, LEAN), line, m.group(0).strip()))
    return hits


def axiom_audit(pid, theorems, with_shape=False):
    """#print axioms on every property theorem.  Returns (discharged_names, problems, axioms_by_thm)"""
    os.makedirs(BUILD, exist_ok=True)
    f = os.path.join(BUILD, "audit_%s.lean" % pid)
    with open(f, "w") as fh:
        fh.write("import MythVerif.Properties.%s\n" % pid)
        if with_shape:
            fh.write("import MythVerif.Shape.%s\n" % pid)
        for t in theorems:
            fh.write("#print axioms %s\n" % t)
    rc, out, err = sh(["lake", "env", "lean", f], cwd=LEAN, timeout=600)
    txt = out + err
    ok, problems, axs = [], [], {}
    # output: "'name' depends on axioms: [a, b]" or "'name' does not depend on any axioms"
    for t in theorems:
        m = re.search(r"'%s' depends on axioms: \[(.*?)\]" % re.escape(t), txt, flags=re.S)
        if m:
            a = [x.strip() for x in m.group(1).replace("\n", " ").split(",") if x.strip()]
            axs[t] = a
            bad = [x for x in a if x not in ALLOWED_AXIOMS]
            if bad:
                problems.append("%s depends on non-standard axioms %s" % (t, bad))
            else:
                ok.append(t)
        elif re.search(r"'%s' does not depend on any axioms" % re.escape(t), txt):
            axs[t] = []
            ok.append(t)
        else:
            problems.append("%s: no axiom report (does it elaborate?)" % t)
    if rc != 0 and not problems:
        problems.append("axiom audit file failed: " + txt[-400:])
    return ok, problems, axs


def driver(component, lines, timeout=600, args=None):
    """pipe lines to `drv_<component>`; returns list of output lines"""
    rc, out, err = sh([os.path.join(BIN, "drv_" + component)] + (args or []), inp="\n".join(lines) + "\n", timeout=timeout)
    if rc != 0:
        raise RuntimeError("drv_%s failed rc=%s: %s" % (component, rc, err[-400:]))
    return out.splitlines()


# --------------------------------------------------------------------------------------------
# Implementation side
# --------------------------------------------------------------------------------------------

def src_digest(paths):
    h = hashlib.sha256()
    for p in sorted(paths):
        try:
            h.update(p.encode())
            h.update(open(p, "rb").read())
        except OSError:
            h.update(b"<missing>")
    return h.hexdigest()[:16]


def repo_sources():
    out = []
    for d in ("src", "include", "include/myth", "src/mtbb", "src/profiler", "src/profiler/dag2any"):
        dd = os.path.join(REPO, d)
        if os.path.isdir(dd):
            for fn in os.listdir(dd):
                if fn.endswith((".c", ".h", ".cc", ".opts")):
                    out.append(os.path.join(dd, fn))
    return out


def build_lib(variant="vanilla", verif=True, opt="-O0", extra=()):
    """compile the library from /repo's current sources into .build/lib/<key>/libmyth.a
    variant: vanilla | ld | dl.  Returns (path_to_archive_or_so, None) or (None, error_text)."""
    wrap = {"vanilla": "MYTH_WRAP_VANILLA", "ld": "MYTH_WRAP_LD", "dl": "MYTH_WRAP_DL"}[variant]
    flags = BASE_CFLAGS + ["-DMYTH_WRAP=" + wrap, opt, "-g", "-fPIC"] + list(extra)
    if verif:
        flags.append("-DMYTH_VERIF")
    srcs = LIB_SRCS + (WRAP_SRCS if variant != "vanilla" else [])
    key = "%s-%s-%s-%s" % (variant, "v" if verif else "nv", opt.strip("-"),
                            hashlib.sha256(" ".join(extra).encode()).hexdigest()[:6])
    d = os.path.join(BUILD, "lib", key)
    dig = src_digest(repo_sources()) + key
    with Lock("lib-" + key):
        stamp = os.path.join(d, "stamp")
        target = os.path.join(d, "libmyth.so" if variant == "dl" else "libmyth.a")
        if os.path.exists(stamp) and open(stamp).read() == dig and os.path.exists(target):
            return target, None
        os.makedirs(d, exist_ok=True)
        procs = []
        for s in srcs:
            cmd = ["gcc", "-c"] + flags + [os.path.join(REPO, "src", s + ".c"), "-o", os.path.join(d, s + ".o")]
            procs.append((s, subprocess.Popen(cmd, stdout=subprocess.PIPE, stderr=subprocess.STDOUT, text=True)))
        errs = []
        for s, p in procs:
            o, _ = p.communicate()
            if p.returncode != 0:
                errs.append("%s.c: %s" % (s, o[-1500:]))
        if errs:
            return None, "\n".join(errs)
        objs = [os.path.join(d, s + ".o") for s in srcs]
        if variant == "dl":
            rc, o, e = sh(["gcc", "-shared", "-o", target] + objs + ["-lpthread", "-ldl"])
        else:
            if os.path.exists(target):
                os.remove(target)
            rc, o, e = sh(["ar", "rcs", target] + objs)
        if rc != 0:
            return None, o + e
        with open(stamp, "w") as f:
            f.write(dig)
        return target, None


def cc(src, out, flags=(), cxx=False, libs=(), timeout=300):
    """compile one harness (serialised per output file, atomic replace, skipped when nothing it
    depends on changed); returns None or error text"""
    os.makedirs(os.path.dirname(out), exist_ok=True)
    cmd = (["g++", "-std=gnu++11"] if cxx else ["gcc"]) + BASE_CFLAGS + ["-DMYTH_VERIF", "-g"] + list(flags) + \
          ["-I" + HARNESS, src]
    deps = [src] + [l for l in libs if os.path.isfile(l)] + repo_sources() + \
           [os.path.join(HARNESS, f) for f in os.listdir(HARNESS) if f.endswith(".h")]
    dig = src_digest(deps) + hashlib.sha256(" ".join(cmd + list(libs)).encode()).hexdigest()[:12]
    with Lock("cc-" + hashlib.sha256(out.encode()).hexdigest()[:12]):
        stamp = out + ".stamp"
        if os.path.exists(out) and os.path.exists(stamp) and open(stamp).read() == dig:
            return None
        tmp = "%s.tmp%d" % (out, os.getpid())
        rc, o, e = sh(cmd + ["-o", tmp] + list(libs), timeout=timeout)
        if rc != 0:
            return (o + e)[-3000:]
        os.replace(tmp, out)
        with open(stamp, "w") as f:
            f.write(dig)
    return None


# --------------------------------------------------------------------------------------------
# Reporting
# --------------------------------------------------------------------------------------------

TRUSTED_BASE = [
    "Lean 4.33.0 kernel (thorough tier: re-checked with leanchecker)",
    "axioms: subset of {propext, Classical.choice, Quot.sound} (audited by #print axioms on every property theorem each run); no native_decide / bv_decide / sorry / admit / user axioms",
    "the correspondence check (harness, canonicalisation, generators) ties the hand-written model to /repo's current sources on the sampled inputs only",
    "translate/shape_extract.py (comment / white-space / MYTH_VERIF_* removal and function lookup by name) pins the text of every modelled function to the text the model transcribes (Shape/<id>.lean, rfl)",
]


class Result:
    """collects what one check run covered"""

    def __init__(self, pid, tier, seed):
        self.pid, self.tier, self.seed = pid, tier, seed
        self.t0 = time.time()
        self.cov = {"obligations": 0, "discharged": 0, "checker_cmd": "", "trusted_base": list(TRUSTED_BASE),
                    "evaluations": 0, "distinct_nontrivial": 0, "rule": "", "samples": [],
                    "traces_validated_against_impl": 0, "disagreements_checked": 0}
        self.assumptions = []
        self.breaks = []          # (kind, text)  kind in translator|proof|audit|correspondence|build
        self.violations = []      # (replay_path, found_input: bool, text)
        self.known = []           # KNOWN-FINDING lines
        self.notes = {}

    def brk(self, kind, text):
        self.breaks.append((kind, text))

    def add_cases(self, cases, nontrivial, samples, rule=None):
        self.cov["evaluations"] += cases
        self.cov["distinct_nontrivial"] += nontrivial
        for s in samples:
            if len(self.cov["samples"]) < 8:
                self.cov["samples"].append(s)
        if rule:
            self.cov["rule"] = (self.cov["rule"] + " | " if self.cov["rule"] else "") + rule


def write_replay(pid, name, obj):
    d = os.path.join(BUILD, "replay", pid)
    os.makedirs(d, exist_ok=True)
    p = os.path.join(d, name)
    with open(p, "w") as f:
        if isinstance(obj, str):
            f.write(obj)
        else:
            json.dump(obj, f, indent=1)
    return p


def load_known():
    p = os.path.join(VERIF, "known_findings.json")
    try:
        return json.load(open(p))
    except OSError:
        return {"open": [], "fixed": []}


def finish(res):
    """write evidence, print the verdict lines, return the exit code"""
    os.makedirs(EVID, exist_ok=True)
    # a break with no concrete failing input found is still a violation (property no longer shown)
    if res.breaks and not res.violations:
        txt = "\n".join("%s: %s" % b for b in res.breaks)
        p = write_replay(res.pid, "unproved.txt",
                         "property %s is no longer shown to hold.\nThe following obligation / correspondence no longer checks:\n%s\n" % (res.pid, txt))
        res.violations.append((p, False, txt.splitlines()[0][:200]))
    ev = {
        "property_id": res.pid, "tier": res.tier, "seed": res.seed, "level": "proof",
        "coverage": res.cov, "assumptions": res.assumptions,
        "wall_s": round(time.time() - res.t0, 2), "violations": len(res.violations),
    }
    ev["coverage"].update(res.notes)
    with open(os.path.join(EVID, res.pid + ".json"), "w") as f:
        json.dump(ev, f, indent=1)
    for k in res.known:
        print("KNOWN-FINDING: property=%s %s" % (res.pid, k))
    for (p, found, text) in res.violations:
        print("  detail: " + text)
        print("VIOLATION property=%s replay=%s%s" % (res.pid, p, "" if found else " no-failing-input-found"))
    if res.violations:
        return 1
    print("OK property=%s tier=%s obligations=%d discharged=%d cases=%d nontrivial=%d wall=%.1fs" % (
        res.pid, res.tier, res.cov["obligations"], res.cov["discharged"], res.cov["evaluations"],
        res.cov["distinct_nontrivial"], time.time() - res.t0))
    return 0


def shape_tie(res):
    """source-shape translator + its proof obligation `Shape/<pid>.lean` (its own module, so that a
    changed function breaks this obligation and not every theorem of the property).
    Returns (theorem_names, module_ok)."""
    pid = res.pid
    sys.path.insert(0, os.path.join(VERIF, "translate"))
    import shape_extract
    shapes, err = shape_extract.run()
    name = "MythVerif.Shapes.%s_source_shape" % pid
    if err:
        res.brk("translator", err)
        return [name], False
    nfun = len(shapes.get(pid, []))
    res.notes["source_shape_functions"] = nfun
    changed = shape_extract.diff_against_spec(shapes, pid)
    ok, log = lean_build(["MythVerif.Shape." + pid])
    if changed or not ok:
        what = "; ".join(changed) if changed else " ;; ".join([l for l in log.splitlines() if "error" in l.lower()][:4])
        res.brk("source-shape", "theorem %s no longer checks: the code of a modelled function differs from the text the model "
                "transcribes (- = statement the model was written against, + = current source): %s" % (name, what[:1500]))
        return [name], False
    return [name], True


def prove(res, drivers=(), extra_modules=()):
    """step 2 of a run: build Properties/<pid> and the drivers it uses (drv_<name>), audit axioms"""
    pid = res.pid
    shape_thms, shape_ok = shape_tie(res)
    ok, log = lean_build(["MythVerif.Properties." + pid] + ["drv_" + d for d in drivers] + list(extra_modules))
    thms = property_theorems(pid) + shape_thms
    res.cov["obligations"] = len(thms)
    res.cov["checker_cmd"] = "cd lean && lake build MythVerif.Properties.%s && lake env lean <#print axioms for %d theorems>" % (pid, len(thms))
    if not ok:
        errs = [l for l in log.splitlines() if "error" in l.lower()][:12]
        res.brk("proof", "lake build failed: " + " ;; ".join(errs))
        res.notes["lake_log_tail"] = log[-1500:]
        # which theorems still elaborate? none can be trusted from a failed module: discharged stays 0
        return False
    hits = forbidden_tokens()
    if hits:
        res.brk("audit", "forbidden tokens in Lean sources: " + ", ".join(hits[:10]))
    good, problems, axs = axiom_audit(pid, [t for t in thms if shape_ok or t not in shape_thms], with_shape=shape_ok)
    res.cov["discharged"] = len(good) if not hits else 0
    res.notes["theorems"] = thms
    res.notes["axioms_used"] = sorted({a for v in axs.values() for a in v})
    for p in problems:
        res.brk("audit", p)
    if res.tier == "thorough":
        with Lock("lake"):
            rc, o, e = sh(["lake", "env", "leanchecker", "MythVerif.Properties." + pid], cwd=LEAN, timeout=1800)
        res.notes["leanchecker_rc"] = rc
        if rc != 0:
            res.brk("audit", "leanchecker rejected MythVerif.Properties.%s: %s" % (pid, (o + e)[-300:]))
    return ok and not problems and not hits and shape_ok


def hashcase(x):
    return hashlib.sha256(json.dumps(x, sort_keys=True).encode()).hexdigest()[:16]


def ddmin(items, fails, budget=400):
    """delta debugging: smallest sublist (order kept) on which fails(sub) is still True"""
    n = 2
    cur = list(items)
    calls = 0
    while len(cur) >= 2 and calls < budget:
        chunk = max(1, len(cur) // n)
        reduced = False
        for i in range(0, len(cur), chunk):
            cand = cur[:i] + cur[i + chunk:]
            calls += 1
            if cand and fails(cand):
                cur = cand
                n = max(n - 1, 2)
                reduced = True
                break
            if calls >= budget:
                break
        if not reduced:
            if chunk == 1:
                break
            n = min(len(cur), n * 2)
    return cur
