#!/usr/bin/env python3
"""Confirm a seeded mutation and run our checks against it.
usage: seed_eval.py <scratch_copy> <mdir(relative: seeded/m1)> <PROP> <name> [--runs N] [--env K=V ...] [--also C12,C01]
1. in the scratch copy (a full copy of /repo): pristine build -> demo must pass; apply patch, rebuild,
   pinned test-suite must pass, demo must fail; revert + rebuild.
2. apply the patch to /repo, run check.py PROP (quick, then thorough if missed) [+ --also], undo.
3. store /verif/seeded/<PROP>-<name>/ (patch.diff, demo, build.sh, meta.json).
"""
import json, os, re, shutil, subprocess, sys, time
V = os.path.dirname(os.path.dirname(os.path.abspath(__file__)))


def sh(cmd, cwd=None, timeout=1800, env=None):
    try:
        p = subprocess.run(cmd, shell=True, cwd=cwd, capture_output=True, text=True, timeout=timeout, env=env, errors="replace")
        return p.returncode, p.stdout + p.stderr
    except subprocess.TimeoutExpired as e:
        return -9, "TIMEOUT"


def main():
    a = sys.argv[1:]
    copy, mdir, prop, name = a[0], a[1], a[2], a[3]
    runs = int(a[a.index("--runs") + 1]) if "--runs" in a else 5
    also = a[a.index("--also") + 1].split(",") if "--also" in a else []
    extra_env = dict(x.split("=", 1) for x in a[a.index("--env") + 1:]) if "--env" in a else {}
    if "--also" in a and "--env" in a and a.index("--also") > a.index("--env"):
        extra_env = {k: v for k, v in extra_env.items() if k != "--also"}
    md = os.path.join(copy, mdir)
    patch = os.path.join(md, "patch.diff")
    env = dict(os.environ, **extra_env)
    meta = {"property": prop, "name": name, "source": md, "ran": []}

    def demo(tag):
        rc, o = sh("sh build.sh", cwd=md)
        if rc != 0:
            return None, "demo build failed: " + o[-300:]
        exe = os.path.join(md, "demo")
        fails = 0
        for i in range(runs):
            rc, o = sh("timeout 120 " + exe, cwd=md, env=env, timeout=150)
            if rc != 0:
                fails += 1
        meta["ran"].append("demo %s: %d/%d runs failed" % (tag, fails, runs))
        return fails, None

    # 1. confirmation in the scratch copy
    sh("git checkout -- src include", cwd=copy)
    rc, o = sh("make -j16", cwd=copy)
    f0, err = demo("without the change")
    if err:
        print(err); return 2
    rc, o = sh("git apply " + patch, cwd=copy)
    if rc != 0:
        print("patch does not apply:", o); return 2
    rc, o = sh("make -j16", cwd=copy)
    if rc != 0:
        print("mutated tree does not build:", o[-500:]); return 2
    rc, o = sh("make -j8 check", cwd=copy)
    m = re.search(r"# PASS:\s+(\d+)", o); mf = re.search(r"# FAIL:\s+(\d+)", o)
    suite = "pinned suite with the change: PASS %s FAIL %s" % (m.group(1) if m else "?", mf.group(1) if mf else "?")
    meta["ran"].append(suite)
    f1, err = demo("with the change")
    sh("git checkout -- src include", cwd=copy)
    sh("make -j16", cwd=copy)
    confirmed = (f0 == 0 and f1 and f1 > 0 and m and m.group(1) == "257" and mf and mf.group(1) == "0")
    meta["confirmed"] = bool(confirmed)
    print("confirm:", suite, "| demo fails without:", f0, "with:", f1, "=> confirmed" if confirmed else "=> NOT confirmed")
    # 2. detection
    rc, o = sh("git -C /repo apply " + patch)
    if rc != 0:
        print("patch does not apply to /repo:", o); return 2
    det = {}
    try:
        for p in [prop] + also:
            for tier in ("quick", "thorough"):
                t0 = time.time()
                rc, o = sh("python3 check/check.py %s --tier %s" % (p, tier), cwd=V, timeout=3000)
                line = [l for l in o.splitlines() if l.startswith(("VIOLATION", "OK", "HARNESS"))]
                detail = [l for l in o.splitlines() if l.strip().startswith("detail:")]
                det["%s/%s" % (p, tier)] = {"rc": rc, "verdict": (line[-1] if line else o[-200:])[:300],
                                           "detail": (detail[0].strip()[:300] if detail else ""), "wall_s": round(time.time() - t0, 1)}
                print("  %s %s: rc=%s %s %s" % (p, tier, rc, (line[-1] if line else "")[:140], (detail[0].strip()[:160] if detail else "")))
                if rc == 1:
                    break
    finally:
        sh("git -C /repo checkout -- .")
    meta["detection"] = det
    meta["caught_by"] = [k for k, v in det.items() if v["rc"] == 1]
    # 3. store
    out = os.path.join(V, "seeded", "%s-%s" % (prop, name))
    os.makedirs(out, exist_ok=True)
    for fn in os.listdir(md):
        if fn in ("demo",) or fn.endswith(".o"):
            continue
        src = os.path.join(md, fn)
        if os.path.isfile(src):
            shutil.copy(src, os.path.join(out, fn))
    mt = os.path.join(md, "meta.txt")
    meta["breaks"] = prop
    meta["needs_to_manifest"] = open(mt).read()[:1500] if os.path.exists(mt) else ""
    json.dump(meta, open(os.path.join(out, "meta.json"), "w"), indent=1)
    return 0


if __name__ == "__main__":
    sys.exit(main())
