#!/usr/bin/env python3
"""Entry point:  check.py Cxx [--tier quick|thorough] [--replay FILE]"""
import argparse
import importlib
import os
import sys
import traceback

sys.path.insert(0, os.path.dirname(os.path.abspath(__file__)))
import common  # noqa: E402


def main():
    ap = argparse.ArgumentParser()
    ap.add_argument("pid")
    ap.add_argument("--tier", default=os.environ.get("VERIF_TIER", "quick"))
    ap.add_argument("--replay", default=None)
    a = ap.parse_args()
    tier = a.tier if a.tier in ("quick", "thorough") else "quick"
    try:
        seed = int(os.environ.get("VERIF_SEED", "1"))
    except ValueError:
        seed = 1
    mod = importlib.import_module("props." + a.pid.lower())
    if a.replay:
        return mod.replay(a.replay)
    res = common.Result(a.pid, tier, seed)
    try:
        mod.run(res)
    except Exception:  # a harness error is not a verdict about the property
        traceback.print_exc()
        print("HARNESS-ERROR property=%s" % a.pid)
        return 2
    return common.finish(res)


if __name__ == "__main__":
    sys.exit(main())
