#!/usr/bin/env python3
"""Confirm seeded mutations (in their scratch worktree, may run in parallel) and run our checks
against them (serially, patch applied to /repo and undone straight afterwards).

  seed_eval2.py confirm <worktree> <mdir-relative, e.g. seeded/m1> [--runs N]
      pristine build -> demo must pass; apply patch, rebuild, pinned suite must pass, demo must
      fail; revert + rebuild.  Writes <worktree>/<mdir>/confirm.json.
  seed_eval2.py detect <worktree> <mdir-relative> <PROP> <name> [--also C12,C01] [--thorough]
      apply the patch to /repo, run check.py PROP quick (thorough if missed and --thorough)
      [+ --also], undo; store /verif/seeded/<PROP>-<name>/ (patch.diff, demo, build.sh, meta.json).
"""
import json, os, re, shutil, subprocess, sys, time
V = os.path.dirname(os.path.dirname(os.path.abspath(__file__)))


def sh(cmd, cwd=None, timeout=1800, env=None):
    try:
        p = subprocess.run(cmd, shell=True, cwd=cwd, capture_output=True, text=True, timeout=timeout, env=env, errors="replace")
        return p.returncode, p.stdout + p.stderr
    except subprocess.TimeoutExpired:
        return -9, "TIMEOUT"


def confirm(wt, mdir, runs):
    md = os.path.join(wt, mdir)
    patch = os.path.join(md, "patch.diff")
    ran = []

    def demo(tag):
        rc, o = sh("sh build.sh", cwd=md)
        if rc != 0:
            return None, "demo build failed: " + o[-400:]
        fails = 0
        for _ in range(runs):
            rc, o = sh("timeout 150 ./demo", cwd=md, timeout=200)
            if rc != 0:
                fails += 1
        ran.append("demo %s: %d/%d runs failed" % (tag, fails, runs))
        return fails, None

    sh("git checkout -- src include", cwd=wt)
    rc, o = sh("make -j8", cwd=wt)
    f0, err = demo("without the change")
    res = {"ran": ran, "confirmed": False}
    if err:
        res["error"] = err
    else:
        rc, o = sh("git apply " + patch, cwd=wt)
        if rc != 0:
            res["error"] = "patch does not apply: " + o[-300:]
        else:
            rc, o = sh("make -j8", cwd=wt)
            if rc != 0:
                res["error"] = "mutated tree does not build: " + o[-400:]
            else:
                rc, o = sh("make -j8 check", cwd=wt)
                m = re.search(r"# PASS:\s+(\d+)", o)
                mf = re.search(r"# FAIL:\s+(\d+)", o)
                ran.append("pinned suite with the change: PASS %s FAIL %s" % (m.group(1) if m else "?", mf.group(1) if mf else "?"))
                f1, err = demo("with the change")
                if err:
                    res["error"] = err
                else:
                    res["confirmed"] = bool(f0 == 0 and f1 and f1 > 0 and m and m.group(1) == "257" and mf and mf.group(1) == "0")
    sh("git checkout -- src include", cwd=wt)
    sh("make -j8", cwd=wt)
    json.dump(res, open(os.path.join(md, "confirm.json"), "w"), indent=1)
    print(mdir, "confirmed" if res["confirmed"] else "NOT confirmed", res.get("error", ""), "; ".join(ran))
    return 0


def detect(wt, mdir, prop, name, also, thorough):
    md = os.path.join(wt, mdir)
    patch = os.path.join(md, "patch.diff")
    cj = os.path.join(md, "confirm.json")
    meta = {"property": prop, "name": name, "source": md}
    if os.path.exists(cj):
        meta.update(json.load(open(cj)))
    rc, o = sh("git -C /repo status --porcelain --untracked-files=no")
    if o.strip():
        print("/repo is not clean:", o)
        return 2
    rc, o = sh("git -C /repo apply " + patch)
    if rc != 0:
        print("patch does not apply to /repo:", o)
        return 2
    det = {}
    try:
        for p in [prop] + also:
            for tier in (("quick", "thorough") if thorough else ("quick",)):
                t0 = time.time()
                rc, o = sh("python3 check/check.py %s --tier %s" % (p, tier), cwd=V, timeout=3000)
                line = [l for l in o.splitlines() if l.startswith(("VIOLATION", "OK", "HARNESS"))]
                detail = [l for l in o.splitlines() if l.strip().startswith("detail:")]
                det["%s/%s" % (p, tier)] = {"rc": rc, "verdict": (line[-1] if line else o[-200:])[:300],
                                           "detail": (detail[0].strip()[:400] if detail else ""), "wall_s": round(time.time() - t0, 1)}
                print("  %s %s: rc=%s %s %s" % (p, tier, rc, (line[-1] if line else "")[:140], (detail[0].strip()[:200] if detail else "")))
                if rc == 1 and "no-failing-input-found" not in (line[-1] if line else ""):
                    break          # a concrete failing input was reported; otherwise try the deeper tier too
    finally:
        sh("git -C /repo checkout -- .")
        sh("git -C %s checkout -- evidence" % V)      # evidence files written by runs on the changed tree are not evidence
        for t in ("consts_extract", "asm_extract", "wraptable_extract", "shape_extract"):   # Generated/*.lean back to the clean tree
            sh("python3 translate/%s.py" % t, cwd=V)
    meta["detection"] = det
    meta["caught_by"] = [k + (" (no-failing-input-found)" if "no-failing-input-found" in v["verdict"] else "") for k, v in det.items() if v["rc"] == 1]
    out = os.path.join(V, "seeded", "%s-%s" % (prop, name))
    os.makedirs(out, exist_ok=True)
    for fn in os.listdir(md):
        if fn in ("demo", "confirm.json") or fn.endswith(".o"):
            continue
        src = os.path.join(md, fn)
        if os.path.isfile(src) and os.path.getsize(src) < 200000:
            shutil.copy(src, os.path.join(out, fn))
    mt = os.path.join(md, "meta.txt")
    meta["breaks"] = prop
    meta["needs_to_manifest"] = open(mt, errors="replace").read()[:1500] if os.path.exists(mt) else ""
    json.dump(meta, open(os.path.join(out, "meta.json"), "w"), indent=1)
    return 0


def main():
    a = sys.argv[1:]
    if a[0] == "confirm":
        runs = int(a[a.index("--runs") + 1]) if "--runs" in a else 5
        return confirm(a[1], a[2], runs)
    if a[0] == "detect":
        also = a[a.index("--also") + 1].split(",") if "--also" in a else []
        return detect(a[1], a[2], a[3], a[4], also, "--thorough" in a)
    print(__doc__)
    return 2


if __name__ == "__main__":
    sys.exit(main())
