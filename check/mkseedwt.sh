#!/bin/sh
# usage: mkseedwt.sh NAME  -> scratch worktree /tmp/seed_NAME of /repo HEAD, configured and built
set -e
d=/tmp/seed_$1
git -C /repo worktree add --detach "$d" >/dev/null 2>&1
cd "$d"
./configure >/dev/null 2>&1
make -j8 >/dev/null 2>&1
mkdir -p seeded
echo "$d"
