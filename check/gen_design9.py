#!/usr/bin/env python3
"""Regenerates section 9.2-9.5 data blocks of DESIGN.md (theorem lists, fixed/open findings, seeded table)
between the markers <!-- GEN:name --> ... <!-- /GEN:name -->."""
import glob, json, os, re
V = os.path.dirname(os.path.dirname(os.path.abspath(__file__)))


def block_theorems():
    out = []
    for i in range(1, 21):
        pid = "C%02d" % i
        src = open(os.path.join(V, "lean/MythVerif/Properties/%s.lean" % pid)).read()
        t = re.findall(r"^theorem ([A-Za-z0-9_]+)", src, re.M)
        out.append("* **%s** (%d): %s" % (pid, len(t), ", ".join("`%s`" % x for x in t)))
    return "\n".join(out)


def block_fixed():
    k = json.load(open(os.path.join(V, "known_findings.json")))
    return "\n".join("* " + e[len("fixed: "):] for e in k["fixed"])


def block_open():
    k = json.load(open(os.path.join(V, "known_findings.json")))
    return "\n".join("* " + e[len("open: "):] for e in k["open"]) or "(none)"


def block_seeded_summary():
    tot = conf = quick = thor = nofail = missed = 0
    for d in sorted(glob.glob(os.path.join(V, "seeded", "*"))):
        mj = os.path.join(d, "meta.json")
        if not os.path.exists(mj):
            continue
        m = json.load(open(mj))
        tot += 1
        conf += 1 if m.get("confirmed") else 0
        det = m.get("detection", {})
        cb = [k for k, v in det.items() if v.get("rc") == 1] or m.get("caught_by", [])
        concrete = [k for k in cb if "no-failing-input-found" not in (det.get(k, {}).get("verdict", "") + k)]
        if not cb:
            missed += 1
        elif not concrete:
            nofail += 1
        elif any("/quick" in c for c in concrete):
            quick += 1
        else:
            thor += 1
    return ("**Summary:** %d seeded changes (%d confirmed as specified: suite passes, demonstration fails only with the change); "
            "%d are reported by the quick tier with a concrete replayable failing input, %d only by the thorough tier, "
            "%d only as a broken obligation / correspondence (`no-failing-input-found`: the source-shape tie or a rejected trace, "
            "no schedule or input of the harness exhibits the failure — these need sub-point preemption, a page fault at one "
            "instruction, or are harmless once another repair is in place), %d missed." % (tot, conf, quick, thor, nofail, missed))


def block_seeded():
    rows = ["| seeded change | breaks | what it changes / needs | confirmed (suite passes, demo fails) | caught by |", "|---|---|---|---|---|"]
    for d in sorted(glob.glob(os.path.join(V, "seeded", "*"))):
        mj = os.path.join(d, "meta.json")
        if not os.path.exists(mj):
            continue
        m = json.load(open(mj))
        need = (m.get("summary") or m.get("needs_to_manifest", "")).strip().splitlines()
        need = [re.sub(r"[=\-_*#]{4,}", "", l).strip() for l in need]
        need = " ".join(l for l in need if l)[:260].replace("|", "/")
        det = m.get("detection", {})
        caught = ", ".join(k.split(" ")[0] + (" (no-failing-input-found)" if "no-failing-input-found" in v.get("verdict", "") else "")
                           for k, v in det.items() if v.get("rc") == 1) or ", ".join(m.get("caught_by", [])) or "**missed**"
        first = next((v.get("detail", "") for k, v in det.items() if v.get("rc") == 1), "")
        first = first.replace("detail:", "").strip()[:160].replace("|", "/")
        rows.append("| `%s` | %s | %s | %s | %s%s |" % (os.path.basename(d), m.get("breaks", ""), need, "yes" if m.get("confirmed") else "no",
                                                       caught, (" — " + first) if first else ""))
    return "\n".join(rows)


def main():
    p = os.path.join(V, "DESIGN.md")
    s = open(p).read()
    for name, fn in (("theorems", block_theorems), ("fixed", block_fixed), ("open", block_open), ("seeded", block_seeded), ("seeded_summary", block_seeded_summary)):
        a, b = "<!-- GEN:%s -->" % name, "<!-- /GEN:%s -->" % name
        if a in s and b in s:
            i, j = s.index(a) + len(a), s.index(b)
            s = s[:i] + "\n" + fn() + "\n" + s[j:]
    open(p, "w").write(s)


if __name__ == "__main__":
    main()
