#!/usr/bin/env python3
"""Regenerates section 9.2-9.5 data blocks of DESIGN.md (theorem lists, fixed/open findings, seeded table)
between the markers <!-- GEN:name --> ... <!-- /GEN:name -->."""
import glob, json, os, re
V = os.path.dirname(os.path.dirname(os.path.abspath(__file__)))


def block_theorems():
    out = []
    for i in range(1, 21):
        pid = "C%02d" % i
        src = open(os.path.join(V, "lean/MythVerif/Properties/%s.lean" % pid)).read()
        t = re.findall(r"^theorem ([A-Za-z0-9_]+)", src, re.M)
        out.append("* **%s** (%d): %s" % (pid, len(t), ", ".join("`%s`" % x for x in t)))
    return "\n".join(out)


def block_fixed():
    k = json.load(open(os.path.join(V, "known_findings.json")))
    return "\n".join("* " + e[len("fixed: "):] for e in k["fixed"])


def block_open():
    k = json.load(open(os.path.join(V, "known_findings.json")))
    return "\n".join("* " + e[len("open: "):] for e in k["open"]) or "(none)"


def block_seeded():
    rows = ["| seeded change | breaks | what it changes / needs | confirmed (suite passes, demo fails) | caught by |", "|---|---|---|---|---|"]
    for d in sorted(glob.glob(os.path.join(V, "seeded", "*"))):
        mj = os.path.join(d, "meta.json")
        if not os.path.exists(mj):
            continue
        m = json.load(open(mj))
        need = (m.get("summary") or m.get("needs_to_manifest", "")).strip().splitlines()
        need = [re.sub(r"[=\-_*#]{4,}", "", l).strip() for l in need]
        need = " ".join(l for l in need if l)[:260].replace("|", "/")
        caught = ", ".join(m.get("caught_by", [])) or "**missed**"
        det = m.get("detection", {})
        first = next((v.get("detail", "") for k, v in det.items() if v.get("rc") == 1), "")
        first = first.replace("detail:", "").strip()[:160].replace("|", "/")
        rows.append("| `%s` | %s | %s | %s | %s%s |" % (os.path.basename(d), m.get("breaks", ""), need, "yes" if m.get("confirmed") else "no",
                                                       caught, (" — " + first) if first else ""))
    return "\n".join(rows)


def main():
    p = os.path.join(V, "DESIGN.md")
    s = open(p).read()
    for name, fn in (("theorems", block_theorems), ("fixed", block_fixed), ("open", block_open), ("seeded", block_seeded)):
        a, b = "<!-- GEN:%s -->" % name, "<!-- /GEN:%s -->" % name
        if a in s and b in s:
            i, j = s.index(a) + len(a), s.index(b)
            s = s[:i] + "\n" + fn() + "\n" + s[j:]
    open(p, "w").write(s)


if __name__ == "__main__":
    main()
