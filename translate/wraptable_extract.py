#!/usr/bin/env python3
"""Translator for C16: re-derive the pthread -> MassiveThreads forwarding table from /repo's current
src/myth_wrap_pthread.c and src/myth-ld.opts and write Generated/WrapTable.lean.

What is extracted (nothing is guessed: any construct the small parser below does not know makes
the translator FAIL, which the check reports as a broken tie):

* every `__wrap(f)` function of myth_wrap_pthread.c after the C preprocessor resolved the
  configuration conditionals (`gcc -E` on the file with its #include lines removed and
  src/config.h's macros pre-loaded, once with MYTH_WRAP = MYTH_WRAP_LD and once with MYTH_WRAP_DL;
  both must give the same table):
    - parameters, the `myth_*_body` function called under `myth_should_wrap_pthread()`, its
      arguments as parameter positions (or attribute conversions `pthread_*_to_myth(param)`),
      calls made before it (`myth_handle_PTHREAD_MUTEX_INITIALIZER(param)`), how the result is
      translated, the `real_*` function called otherwise with its argument positions;
    - functions that always call the real function (attribute objects);
    - functions that only warn ("non-conforming") and return a constant;
* the statement skeleton of `myth_handle_PTHREAD_MUTEX_INITIALIZER`, `pthread_attr_to_myth` and
  `myth_should_wrap_pthread` (whitespace-normalised, MYTH_VERIF_* statements dropped);
* the `-Wl,--wrap=` list of myth-ld.opts;
* numeric facts from a probe compiled against the real headers (magic numbers, object sizes,
  static initialisers, error numbers, what a default pthread_attr_t reports).
"""
import os
import re
import sys

sys.path.insert(0, os.path.join(os.path.dirname(os.path.abspath(__file__)), "..", "check"))
import common  # noqa: E402


class ParseError(Exception):
    pass


# --------------------------------------------------------------------------------------------
# preprocessing
# --------------------------------------------------------------------------------------------

def config_h():
    p = os.path.join(common.REPO, "src", "config.h")
    if os.path.exists(p):
        return p
    p = os.path.join(common.HARNESS, "pinned", "config.h")
    if os.path.exists(p):
        return p
    raise ParseError("no config.h (neither src/config.h nor the pinned copy)")


def wrap_values():
    src = open(os.path.join(common.REPO, "src", "myth_config.h")).read()
    vals = {}
    for n in ("MYTH_WRAP_VANILLA", "MYTH_WRAP_DL", "MYTH_WRAP_LD"):
        m = re.findall(r"^#define\s+%s\s+(\d+)\s*$" % n, src, flags=re.M)
        if len(m) != 1:
            raise ParseError("myth_config.h: #define %s found %d times" % (n, len(m)))
        vals[n] = int(m[0])
    return vals


def preprocess(variant):
    """myth_wrap_pthread.c with conditionals resolved for `variant` (MYTH_WRAP_LD | MYTH_WRAP_DL)"""
    path = os.path.join(common.REPO, "src", "myth_wrap_pthread.c")
    src = open(path).read()
    n_inc = len(re.findall(r"^\s*#\s*include\b.*$", src, flags=re.M))
    stripped = re.sub(r"^\s*#\s*include\b.*$", "", src, flags=re.M)
    if n_inc == 0:
        raise ParseError("myth_wrap_pthread.c has no #include lines (unexpected)")
    d = os.path.join(common.BUILD, "translate")
    os.makedirs(d, exist_ok=True)
    tmp = os.path.join(d, "wrap_%s_%d.c" % (variant, os.getpid()))
    with open(tmp, "w") as f:
        f.write(stripped)
    wv = wrap_values()
    cmd = ["gcc", "-E", "-P", "-imacros", config_h()] + ["-D%s=%d" % kv for kv in wv.items()] + \
          ["-DMYTH_WRAP=%d" % wv[variant], tmp]
    rc, out, err = common.sh(cmd)
    os.remove(tmp)
    if rc != 0:
        raise ParseError("gcc -E on myth_wrap_pthread.c failed: " + err[-400:])
    return out


# --------------------------------------------------------------------------------------------
# a very small C statement parser
# --------------------------------------------------------------------------------------------

def norm(s):
    s = re.sub(r"\s+", " ", s).strip()
    s = re.sub(r"\s*([(),;*&=<>!+\-\[\]?:])\s*", r"\1", s)
    return s


def match_close(s, i, op, cl):
    """s[i] == op; index of the matching close"""
    assert s[i] == op
    depth = 0
    j = i
    instr = None
    while j < len(s):
        c = s[j]
        if instr:
            if c == "\\":
                j += 1
            elif c == instr:
                instr = None
        elif c in "\"'":
            instr = c
        elif c == op:
            depth += 1
        elif c == cl:
            depth -= 1
            if depth == 0:
                return j
        j += 1
    raise ParseError("unbalanced %s%s" % (op, cl))


def parse_block(s):
    """statements of a brace-less text (the inside of a {...}); returns a list of
    ('stmt', text) | ('if', cond, then, else_or_None) | ('while', cond, body)"""
    out = []
    i = 0
    n = len(s)
    while True:
        while i < n and s[i].isspace():
            i += 1
        if i >= n:
            return out
        m = re.match(r"(if|while)\s*\(", s[i:])
        if m:
            kw = m.group(1)
            p0 = i + m.end() - 1
            p1 = match_close(s, p0, "(", ")")
            cond = norm(s[p0 + 1:p1])
            j = p1 + 1
            while j < n and s[j].isspace():
                j += 1
            if j >= n or s[j] != "{":
                raise ParseError("`%s (%s)` without a braced body" % (kw, cond))
            b1 = match_close(s, j, "{", "}")
            body = parse_block(s[j + 1:b1])
            i = b1 + 1
            if kw == "while":
                out.append(("while", cond, body))
                continue
            els = None
            m2 = re.match(r"\s*else\b\s*", s[i:])
            if m2:
                j = i + m2.end()
                if j >= n or s[j] != "{":
                    raise ParseError("`else` without a braced body after if (%s)" % cond)
                e1 = match_close(s, j, "{", "}")
                els = parse_block(s[j + 1:e1])
                i = e1 + 1
            out.append(("if", cond, body, els))
            continue
        if s[i] == "{":
            raise ParseError("unexpected nested block")
        # plain statement: up to the ';' at depth 0
        j = i
        depth = 0
        instr = None
        while j < n:
            c = s[j]
            if instr:
                if c == "\\":
                    j += 1
                elif c == instr:
                    instr = None
            elif c in "\"'":
                instr = c
            elif c in "([{":
                depth += 1
            elif c in ")]}":
                depth -= 1
            elif c == ";" and depth == 0:
                break
            j += 1
        if j >= n:
            raise ParseError("statement without ';': " + norm(s[i:])[:80])
        out.append(("stmt", norm(s[i:j])))
        i = j + 1


def split_args(s):
    s = s.strip()
    if s == "":
        return []
    out, depth, cur = [], 0, ""
    for c in s:
        if c in "([":
            depth += 1
        elif c in ")]":
            depth -= 1
        if c == "," and depth == 0:
            out.append(cur.strip())
            cur = ""
        else:
            cur += c
    out.append(cur.strip())
    return out


def param_name(p):
    m = re.search(r"\(\s*\*\s*(\w+)\s*\)", p)          # function pointer
    if m:
        return m.group(1)
    m = re.search(r"(\w+)\s*(\[\s*\d*\s*\])?\s*$", p)
    if not m:
        raise ParseError("cannot find the parameter name in `%s`" % p)
    return m.group(1)


def flatten(stmts):
    """canonical token list of a statement tree (used for the handler / attr skeletons)"""
    out = []
    for st in stmts:
        if st[0] == "stmt":
            if st[1].startswith("MYTH_VERIF_"):
                continue
            out.append(st[1])
        elif st[0] == "while":
            out.append("while(%s){" % st[1])
            out += flatten(st[2])
            out.append("}")
        else:
            out.append("if(%s){" % st[1])
            out += flatten(st[2])
            if st[3] is not None:
                out.append("}else{")
                out += flatten(st[3])
            out.append("}")
    return out


# --------------------------------------------------------------------------------------------
# wrappers
# --------------------------------------------------------------------------------------------

IGNORED = [r"^int _=enter_wrapped_func\(.*\)$", r"^enter_wrapped_func\(.*\)$", r"^leave_wrapped_func\(.*\)$",
           r"^\(void\)_$", r"^int ret$", r"^pthread_t ret$", r"^void\*ret$"]


def ignored(t):
    return any(re.match(p, t) for p in IGNORED)


def arg_ref(a, params, convs, where):
    a = a.strip()
    m = re.match(r"^(\((?:const )?[\w ]+\*?\))?(\w+)$", a)
    if not m:
        raise ParseError("%s: argument `%s` is not (cast)identifier" % (where, a))
    ident = m.group(2)
    if ident in convs:
        if m.group(1):
            raise ParseError("%s: cast applied to converted attribute `%s`" % (where, a))
        return ("conv",) + convs[ident]
    if ident in params:
        return ("param", params.index(ident))
    raise ParseError("%s: argument `%s` is neither a parameter nor a converted attribute" % (where, a))


def parse_myth_branch(name, stmts, params):
    e = {"pre": [], "mythFn": "", "mythArgs": [], "ret": ("ident",), "warn": False, "const": None, "sizes": []}
    convs = {}
    local = None
    where = "__wrap(%s)" % name

    def do_call(fn, args):
        if e["mythFn"]:
            raise ParseError("%s: two myth body calls (%s, %s)" % (where, e["mythFn"], fn))
        e["mythFn"] = fn
        e["mythArgs"] = [arg_ref(a, params, convs, where) for a in split_args(args)]

    for st in stmts:
        if st[0] == "stmt":
            t = st[1]
            m = re.match(r"^myth_\w+_t (\w+)\[1\]$", t)
            if m:
                local = m.group(1)
                continue
            m = re.match(r"^myth_\w+_t\*(\w+)=(pthread_\w+_to_myth)\((\w+),(\w+)\)$", t)
            if m:
                if m.group(4) != local or m.group(3) not in params:
                    raise ParseError("%s: unexpected attribute conversion `%s`" % (where, t))
                convs[m.group(1)] = (m.group(2), params.index(m.group(3)))
                continue
            m = re.match(r"^assert\(sizeof\((\w+)\)<=sizeof\((\w+)\)\)$", t)
            if m:
                e["sizes"].append((m.group(1), m.group(2)))
                continue
            m = re.match(r"^(myth_handle_\w+)\((\w+)\)$", t)
            if m:
                if m.group(2) not in params:
                    raise ParseError("%s: handler on a non-parameter `%s`" % (where, t))
                if e["mythFn"]:
                    raise ParseError("%s: handler after the body call" % where)
                e["pre"].append((m.group(1), params.index(m.group(2))))
                continue
            if t == "myth_wrap_pthread_warn_non_conforming_(__func__)":
                e["warn"] = True
                continue
            m = re.match(r"^ret=(E[A-Z]+)$", t)
            if m:
                e["const"] = m.group(1)
                continue
            if t == "ret=0" and e["mythFn"] and e["ret"] == ("ident",) and e.get("discarded"):
                e["ret"] = ("zero",)
                continue
            m = re.match(r"^(ret=)?(?:\(pthread_t\))?(myth_\w+_body)\((.*)\)$", t)
            if m:
                do_call(m.group(2), m.group(3))
                e["discarded"] = m.group(1) is None
                continue
            raise ParseError("%s: unknown statement in the MassiveThreads branch: `%s`" % (where, t))
        if st[0] == "if":
            cond, th, el = st[1], st[2], st[3]
            m = re.match(r"^ret==(\w+)$", cond)
            if m and len(th) == 1 and th[0][0] == "stmt" and re.match(r"^ret=\w+$", th[0][1]) and \
                    el is not None and len(el) == 1 and el[0] == ("stmt", "assert(ret==0)") and e["mythFn"]:
                e["ret"] = ("mapElseZero", m.group(1), th[0][1][4:])
                continue
            m = re.match(r"^(myth_\w+_body)\((.*)\)$", cond)
            if m and th == [("stmt", "ret=0")] and el is not None and len(el) == 1 and el[0][0] == "stmt" and \
                    re.match(r"^ret=E[A-Z]+$", el[0][1]):
                do_call(m.group(1), m.group(2))
                e["ret"] = ("nonzeroToZeroElse", el[0][1][4:])
                continue
            if cond == "ret!=0" and th == [("stmt", "errno=ret"), ("stmt", "ret=-1")] and el is None and e["mythFn"]:
                e["ret"] = ("errnoMinusOne",)
                continue
            raise ParseError("%s: unknown conditional in the MassiveThreads branch: if (%s)" % (where, cond))
        raise ParseError("%s: loop in the MassiveThreads branch" % where)
    if e["warn"]:
        if e["mythFn"]:
            raise ParseError("%s: warns and forwards" % where)
    elif not e["mythFn"]:
        raise ParseError("%s: MassiveThreads branch calls no myth_*_body function" % where)
    if e["const"] and not e["warn"]:
        raise ParseError("%s: constant result without the non-conforming warning" % where)
    return e


def parse_real_call(name, t, params, where):
    m = re.match(r"^(?:int ret=|ret=)?(real_\w+)\((.*)\)$", t)
    if not m:
        raise ParseError("%s: `%s` is not a call of a real_* function" % (where, t))
    args = []
    for a in split_args(m.group(2)):
        if a not in params:
            raise ParseError("%s: real call argument `%s` is not a parameter" % (where, a))
        args.append(params.index(a))
    return m.group(1), args


def parse_wrappers(text):
    entries = []
    sizes = []
    for m in re.finditer(r"__wrap\s*\(\s*(\w+)\s*\)\s*\(", text):
        name = m.group(1)
        where = "__wrap(%s)" % name
        # return type: text back to the previous '}' or ';'
        k = max(text.rfind("}", 0, m.start()), text.rfind(";", 0, m.start()))
        rtype = norm(text[k + 1:m.start()])
        p0 = m.end() - 1
        p1 = match_close(text, p0, "(", ")")
        ptxt = text[p0 + 1:p1]
        plist = split_args(ptxt)
        params = [] if [norm(x) for x in plist] in ([], ["void"]) else [param_name(p) for p in plist]
        j = p1 + 1
        while text[j].isspace():
            j += 1
        if text[j] != "{":
            raise ParseError("%s: no function body" % where)
        b1 = match_close(text, j, "{", "}")
        stmts = parse_block(text[j + 1:b1])
        ent = {"name": name, "arity": len(params), "rtype": rtype, "kind": None, "pre": [], "mythFn": "",
               "mythArgs": [], "ret": ("ident",), "realFn": "", "realArgs": [], "const": ""}
        returned = False
        for st in stmts:
            if st[0] == "stmt":
                t = st[1]
                if ignored(t):
                    continue
                if t == "return ret":
                    returned = True
                    continue
                if t == "assert(0)":        # should_not_reach_here()
                    continue
                if re.match(r"^int ret=real_\w+\(", t):
                    if ent["kind"]:
                        raise ParseError("%s: two dispatch constructs" % where)
                    ent["kind"] = "passthrough"
                    ent["realFn"], ent["realArgs"] = parse_real_call(name, t, params, where)
                    continue
                raise ParseError("%s: unknown top-level statement `%s`" % (where, t))
            if st[0] == "if" and st[1] == "myth_should_wrap_pthread()":
                if ent["kind"]:
                    raise ParseError("%s: two dispatch constructs" % where)
                if st[3] is None:
                    raise ParseError("%s: no system-library branch" % where)
                b = parse_myth_branch(name, st[2], params)
                real = [x for x in st[3]]
                if len(real) != 1 or real[0][0] != "stmt":
                    raise ParseError("%s: system-library branch is not a single call" % where)
                ent["realFn"], ent["realArgs"] = parse_real_call(name, real[0][1], params, where)
                ent["pre"] = b["pre"]
                sizes += b["sizes"]
                if b["warn"]:
                    ent["kind"] = "warnOnly"
                    ent["const"] = b["const"] or ""
                else:
                    ent["kind"] = "forward"
                    ent["mythFn"], ent["mythArgs"], ent["ret"] = b["mythFn"], b["mythArgs"], b["ret"]
                    if rtype != "void" and b.get("discarded") and b["ret"] == ("ident",):
                        raise ParseError("%s: the result of %s is discarded and `ret` is never assigned" % (where, b["mythFn"]))
                continue
            raise ParseError("%s: unknown top-level construct (%s %s)" % (where, st[0], st[1]))
        if not ent["kind"]:
            raise ParseError("%s: neither forwards nor passes through" % where)
        if rtype == "void":
            if returned:
                raise ParseError("%s: void function returns a value" % where)
            if ent["kind"] == "forward":
                ent["ret"] = ("noReturn",)
        elif not returned:
            raise ParseError("%s: non-void wrapper without `return ret`" % where)
        if ent["realFn"] != "real_" + name:
            raise ParseError("%s: calls %s instead of real_%s" % (where, ent["realFn"], name))
        entries.append(ent)
    names = [e["name"] for e in entries]
    dup = {n for n in names if names.count(n) > 1}
    if dup:
        raise ParseError("wrappers defined twice: %s" % sorted(dup))
    if len(entries) < 20:
        raise ParseError("only %d __wrap functions found" % len(entries))
    return entries, sizes


def function_body(text, header_re, what):
    ms = list(re.finditer(header_re, text))
    if len(ms) != 1:
        raise ParseError("%s: definition found %d times" % (what, len(ms)))
    j = ms[0].end() - 1
    b1 = match_close(text, j, "{", "}")
    return parse_block(text[j + 1:b1])


def parse_ld_opts():
    path = os.path.join(common.REPO, "src", "myth-ld.opts")
    names = []
    for ln, line in enumerate(open(path), 1):
        line = line.strip()
        if not line:
            continue
        m = re.match(r"^-Wl,--wrap=(\w+)$", line)
        if not m:
            raise ParseError("myth-ld.opts line %d: `%s` is not -Wl,--wrap=<name>" % (ln, line))
        names.append(m.group(1))
    if len(set(names)) != len(names):
        raise ParseError("myth-ld.opts lists a name twice")
    return names


def real_targets(names):
    """src/myth_real.c: for every `real_f` definition, the function called in the MYTH_WRAP_LD branch
    and in the MYTH_WRAP_DL branch, with the argument list checked against the parameter list"""
    text = open(os.path.join(common.REPO, "src", "myth_real.c")).read()
    text = re.sub(r"/\*.*?\*/", " ", text, flags=re.S)
    out = []
    for m in re.finditer(r"^[\w \*]+?\breal_(\w+)\s*\(", text, flags=re.M):
        name = m.group(1)
        if name not in names:
            continue                      # malloc / socket families: not wrapped by myth_wrap_pthread.c
        p0 = m.end() - 1
        p1 = match_close(text, p0, "(", ")")
        j = p1 + 1
        while j < len(text) and text[j].isspace():
            j += 1
        if j >= len(text) or text[j] != "{":
            continue                      # a prototype
        b1 = match_close(text, j, "{", "}")
        body = text[j + 1:b1]
        plist = split_args(text[p0 + 1:p1])
        params = [] if [norm(x) for x in plist] in ([], ["void"]) else [param_name(p) for p in plist]
        if "..." in text[p0 + 1:p1]:
            continue                      # variadic (fcntl): not a pthread function
        br = {}
        if re.search(r"#\s*if", text[p0:p1]) or len(re.findall(r"#\s*if", body)) != 1:
            out.append((name, "?", "?"))   # nested configuration conditionals: recorded as unknown, never guessed
            continue
        for var in ("MYTH_WRAP_LD", "MYTH_WRAP_DL"):
            mm = re.findall(r"#elif MYTH_WRAP == %s\s*\n(.*?)(?=#elif|#else|#endif)" % var, body, flags=re.S)
            if len(mm) != 1:
                raise ParseError("myth_real.c: real_%s has %d %s branches" % (name, len(mm), var))
            stmts = [norm(x) for x in mm[0].split(";") if norm(x)]
            call = stmts[-1]
            cm = re.match(r"^(?:return )?([\w\.]+)\((.*)\)$", call)
            if not cm:
                raise ParseError("myth_real.c: real_%s: cannot read the %s branch `%s`" % (name, var, call))
            args = [a.strip() for a in split_args(cm.group(2))]
            if args != params:
                raise ParseError("myth_real.c: real_%s passes %s instead of its parameters %s (%s)" % (name, args, params, var))
            br[var] = cm.group(1)
        out.append((name, br["MYTH_WRAP_LD"], br["MYTH_WRAP_DL"]))
    missing = sorted(set(names) - {o[0] for o in out})
    if missing:
        raise ParseError("myth_real.c: no definition of real_* for %s" % missing)
    return out


def unimplemented_bodies():
    """myth_*_body functions whose definition calls unimplemented() (src/myth_sync_func.h,
    src/myth_sched_func.h): calling them aborts the process"""
    out = []
    ndefs = 0
    for fn in ("myth_sync_func.h", "myth_sched_func.h"):
        text = open(os.path.join(common.REPO, "src", fn)).read()
        text = re.sub(r"/\*.*?\*/", " ", text, flags=re.S)
        text = re.sub(r"//.*", "", text)
        for m in re.finditer(r"\b(myth_\w+_body)\s*\(([^;{}()]|\([^()]*\))*\)\s*\{", text):
            j = m.end() - 1
            b1 = match_close(text, j, "{", "}")
            ndefs += 1
            if re.search(r"\bunimplemented\s*\(\s*\)", text[j:b1]):
                out.append(m.group(1))
    if ndefs < 40:
        raise ParseError("only %d myth_*_body definitions found in myth_sync_func.h / myth_sched_func.h" % ndefs)
    if len(re.findall(r"static inline int unimplemented\(void\)", open(os.path.join(common.REPO, "src", "myth_sync_func.h")).read())) != 1:
        raise ParseError("myth_sync_func.h: definition of unimplemented() not found exactly once")
    return sorted(set(out))


# --------------------------------------------------------------------------------------------
# probe: numeric facts from the real headers
# --------------------------------------------------------------------------------------------

PROBE = r'''
#include <stdio.h>
#include <stddef.h>
#include <string.h>
#include <errno.h>
#include <limits.h>
#include <pthread.h>
#include "myth/myth.h"
#define P(name, v) printf("%s %lld\n", name, (long long)(v))
static int all_zero(const void * p, size_t n) { const unsigned char * c = p; for (size_t i = 0; i < n; i++) if (c[i]) return 0; return 1; }
int main(void) {
  pthread_mutex_t pm = PTHREAD_MUTEX_INITIALIZER; pthread_cond_t pc = PTHREAD_COND_INITIALIZER;
  pthread_once_t po = PTHREAD_ONCE_INIT;
  myth_mutex_t mm = MYTH_MUTEX_INITIALIZER; myth_cond_t mc; memset(&mc, 0xAA, sizeof mc); { myth_cond_t z = MYTH_COND_INITIALIZER; mc = z; }
  P("mutexMagicNo", myth_mutex_magic_no);
  P("mutexMagicInitializing", myth_mutex_magic_no_initializing);
  P("mutexMagicOffset", offsetof(myth_mutex_t, magic));
  P("pthreadMutexInitializerMagic", *(int *)&pm);
  P("pthreadMutexInitializerAllZero", all_zero(&pm, sizeof pm));
  P("mythMutexInitializerState", mm.state);
  P("mythMutexInitializerType", mm.attr.type);
  P("mythMutexDefaultType", MYTH_MUTEX_DEFAULT);
  P("mythMutexInitializerQueueZero", all_zero(mm.sleep_q, sizeof mm.sleep_q));
  P("pthreadCondInitializerAllZero", all_zero(&pc, sizeof pc));
  P("mythCondInitializerQueueZero", all_zero(mc.sleep_q, sizeof mc.sleep_q));
  P("pthreadOnceInit", po);
  P("mythOnceStateInit", myth_once_state_init);
  P("szPthreadMutex", sizeof(pthread_mutex_t)); P("szMythMutex", sizeof(myth_mutex_t));
  P("szPthreadCond", sizeof(pthread_cond_t)); P("szMythCond", sizeof(myth_cond_t));
  P("szPthreadBarrier", sizeof(pthread_barrier_t)); P("szMythBarrier", sizeof(myth_barrier_t));
  P("szPthreadSpin", sizeof(pthread_spinlock_t)); P("szMythSpin", sizeof(myth_spinlock_t));
  P("szPthreadOnce", sizeof(pthread_once_t)); P("szMythOnce", sizeof(myth_once_t));
  P("szPthreadKey", sizeof(pthread_key_t)); P("szMythKey", sizeof(myth_key_t));
  P("szPthreadT", sizeof(pthread_t)); P("szMythThreadT", sizeof(myth_thread_t));
  P("createJoinable", PTHREAD_CREATE_JOINABLE);
  P("createDetached", PTHREAD_CREATE_DETACHED);
  P("pthreadBarrierSerial", PTHREAD_BARRIER_SERIAL_THREAD);
  P("mythBarrierSerial", MYTH_BARRIER_SERIAL_THREAD);
  P("eBUSY", EBUSY); P("eAGAIN", EAGAIN); P("eINVAL", EINVAL); P("eTIMEDOUT", ETIMEDOUT);
  P("pthreadKeysMax", PTHREAD_KEYS_MAX);
  { pthread_attr_t a; void * sa = (void *)1; size_t ss = 1; int ds = -1;
    pthread_attr_init(&a); pthread_attr_getstack(&a, &sa, &ss); pthread_attr_getdetachstate(&a, &ds);
    P("defaultAttrStackAddr", (long long)(size_t)sa); P("defaultAttrStackSize", ss); P("defaultAttrDetachState", ds);
    pthread_attr_setdetachstate(&a, PTHREAD_CREATE_DETACHED); pthread_attr_getdetachstate(&a, &ds);
    P("detachedAttrDetachState", ds);
    pthread_attr_setstacksize(&a, 262144); pthread_attr_getstack(&a, &sa, &ss);
    P("sizedAttrStackSize", ss); }
  return 0;
}
'''
PROBE_WANT = ["mutexMagicNo", "mutexMagicInitializing", "mutexMagicOffset", "pthreadMutexInitializerMagic",
              "pthreadMutexInitializerAllZero", "mythMutexInitializerState", "mythMutexInitializerType",
              "mythMutexDefaultType", "mythMutexInitializerQueueZero", "pthreadCondInitializerAllZero",
              "mythCondInitializerQueueZero", "pthreadOnceInit", "mythOnceStateInit",
              "szPthreadMutex", "szMythMutex", "szPthreadCond", "szMythCond", "szPthreadBarrier", "szMythBarrier",
              "szPthreadSpin", "szMythSpin", "szPthreadOnce", "szMythOnce", "szPthreadKey", "szMythKey",
              "szPthreadT", "szMythThreadT", "createJoinable", "createDetached", "pthreadBarrierSerial",
              "mythBarrierSerial", "eBUSY", "eAGAIN", "eINVAL", "eTIMEDOUT", "pthreadKeysMax",
              "defaultAttrStackAddr", "defaultAttrStackSize", "defaultAttrDetachState", "detachedAttrDetachState",
              "sizedAttrStackSize"]


def probe():
    d = os.path.join(common.BUILD, "translate")
    os.makedirs(d, exist_ok=True)
    src = os.path.join(d, "wrap_probe.c")
    exe = os.path.join(d, "wrap_probe")
    with open(src, "w") as f:
        f.write(PROBE)
    rc, o, e = common.sh(["gcc"] + common.BASE_CFLAGS + ["-DMYTH_WRAP=MYTH_WRAP_VANILLA", src, "-o", exe, "-lpthread"])
    if rc != 0:
        raise ParseError("wrap probe does not compile against /repo headers: " + (o + e)[-800:])
    rc, o, e = common.sh([exe])
    if rc != 0:
        raise ParseError("wrap probe failed to run")
    vals = {}
    for line in o.splitlines():
        k, v = line.split()
        if k in vals:
            raise ParseError("probe constant %s printed twice" % k)
        vals[k] = int(v)
    missing = [w for w in PROBE_WANT if w not in vals]
    if missing:
        raise ParseError("probe constants not found: %s" % missing)
    return vals


# --------------------------------------------------------------------------------------------
# emit
# --------------------------------------------------------------------------------------------

def lstr(s):
    return '"' + s.replace("\\", "\\\\").replace('"', '\\"') + '"'


def lean_arg(a):
    if a[0] == "param":
        return ".param %d" % a[1]
    return ".conv %s %d" % (lstr(a[1]), a[2])


def lean_ret(r):
    if r[0] == "ident":
        return ".ident"
    if r[0] == "noReturn":
        return ".noReturn"
    if r[0] == "errnoMinusOne":
        return ".errnoMinusOne"
    if r[0] == "zero":
        return ".zero"
    if r[0] == "mapElseZero":
        return "(.mapElseZero %s %s)" % (lstr(r[1]), lstr(r[2]))
    if r[0] == "nonzeroToZeroElse":
        return "(.nonzeroToZeroElse %s)" % lstr(r[1])
    raise ParseError("unknown result translation %r" % (r,))


def lean_entry(e):
    kind = {"forward": ".forward", "passthrough": ".passthrough"}.get(e["kind"]) or "(.warnOnly %s)" % lstr(e["const"])
    return ("  { name := %s, arity := %d, kind := %s, pre := [%s], mythFn := %s, mythArgs := [%s], ret := %s, "
            "realFn := %s, realArgs := [%s] }") % (
        lstr(e["name"]), e["arity"], kind,
        ", ".join("(%s, %d)" % (lstr(f), i) for f, i in e["pre"]),
        lstr(e["mythFn"]), ", ".join(lean_arg(a) for a in e["mythArgs"]), lean_ret(e["ret"]),
        lstr(e["realFn"]), ", ".join(str(i) for i in e["realArgs"]))


HEADER = '''-- GENERATED by translate/wraptable_extract.py from /repo's current src/myth_wrap_pthread.c,
-- src/myth-ld.opts and headers; do not edit.
namespace MythVerif.Gen.Wrap

/-- how a wrapper derives one argument of the MassiveThreads function from its own parameters -/
inductive Arg where
  | param (i : Nat)               -- the i-th parameter (possibly through a pointer cast)
  | conv (f : String) (i : Nat)   -- `f(param i, local)`: attribute object translated by `pthread_*_to_myth`
  deriving DecidableEq, Repr

/-- how the result of the MassiveThreads function becomes the wrapper's result -/
inductive RetMap where
  | ident                                  -- `ret = body(...)`
  | mapElseZero (frm to : String)          -- `if (ret == frm) ret = to; else assert(ret == 0);`
  | nonzeroToZeroElse (e : String)         -- `if (body(...)) ret = 0; else ret = e;`
  | errnoMinusOne                          -- `if (ret != 0) { errno = ret; ret = -1; }`
  | zero                                   -- `body(...); ret = 0;` (the body's result is not an error number)
  | noReturn                               -- void function
  deriving DecidableEq, Repr

inductive Kind where
  | forward                  -- MassiveThreads function under myth_should_wrap_pthread(), real function otherwise
  | passthrough              -- always the real function
  | warnOnly (ret : String)  -- "non-conforming function" warning and a constant result ("" = none)
  deriving DecidableEq, Repr

structure Entry where
  name : String
  arity : Nat
  kind : Kind
  pre : List (String × Nat)   -- calls made before the body: (function, parameter index)
  mythFn : String
  mythArgs : List Arg
  ret : RetMap
  realFn : String
  realArgs : List Nat
  deriving DecidableEq, Repr

'''


def emit(entries, opts, handler, attr, should, sizes, vals, same, unimpl, reals):
    out = [HEADER]
    out.append("/-- every `__wrap(f)` function of myth_wrap_pthread.c compiled in this configuration -/")
    out.append("def table : List Entry := [")
    out.append(",\n".join(lean_entry(e) for e in entries))
    out.append("]\n")
    out.append("/-- the table extracted with MYTH_WRAP = MYTH_WRAP_DL equals the one extracted with MYTH_WRAP_LD -/")
    out.append("def dlTableEqualsLd : Bool := %s\n" % ("true" if same else "false"))
    out.append("/-- names listed as `-Wl,--wrap=<name>` in src/myth-ld.opts -/")
    out.append("def ldWrapped : List String := [")
    out.append(",\n".join("  " + ", ".join(lstr(n) for n in opts[i:i + 4]) for i in range(0, len(opts), 4)))
    out.append("]\n")
    for nm, doc, toks in (("handlerShape", "statement skeleton of `myth_handle_PTHREAD_MUTEX_INITIALIZER`", handler),
                          ("attrToMythShape", "statement skeleton of `pthread_attr_to_myth`", attr),
                          ("shouldWrapShape", "statement skeleton of `myth_should_wrap_pthread`", should)):
        out.append("/-- %s (MYTH_VERIF_* statements dropped) -/" % doc)
        out.append("def %s : List String := [" % nm)
        out.append(",\n".join("  " + lstr(t) for t in toks))
        out.append("]\n")
    out.append("/-- `myth_*_body` functions whose definition calls `unimplemented()` (abort) -/")
    out.append("def unimplementedBodies : List String := [%s]\n" % ", ".join(lstr(u) for u in unimpl))
    out.append("/-- src/myth_real.c: (f, callee of real_f in the link-time-wrapped build, callee in the preloaded build);")
    out.append("    the arguments are the parameters in order (checked by the translator) -/")
    out.append("def realTargets : List (String × String × String) := [")
    out.append(",\n".join("  (%s, %s, %s)" % (lstr(a), lstr(b), lstr(c)) for a, b, c in reals))
    out.append("]\n")
    out.append("/-- `assert(sizeof(a) <= sizeof(b))` statements found in the wrappers -/")
    out.append("def sizeAsserts : List (String × String) := [%s]\n" % ", ".join("(%s, %s)" % (lstr(a), lstr(b)) for a, b in sizes))
    out.append("-- numeric facts printed by a probe compiled against the real headers")
    for k in PROBE_WANT:
        v = vals[k]
        out.append("def %s : %s := %d" % (k, "Int" if v < 0 else "Nat", v))
    out.append("\nend MythVerif.Gen.Wrap")
    return "\n".join(out) + "\n"


def extract():
    t_ld = preprocess("MYTH_WRAP_LD")
    t_dl = preprocess("MYTH_WRAP_DL")
    e_ld, sizes = parse_wrappers(t_ld)
    e_dl, _ = parse_wrappers(t_dl)
    same = e_ld == e_dl
    handler = flatten(function_body(t_ld, r"static\s+int\s+myth_handle_PTHREAD_MUTEX_INITIALIZER\s*\(\s*pthread_mutex_t\s*\*\s*pm\s*\)\s*\{",
                                    "myth_handle_PTHREAD_MUTEX_INITIALIZER"))
    attr = flatten(function_body(t_ld, r"pthread_attr_to_myth\s*\(\s*const\s+pthread_attr_t\s*\*\s*p\s*,\s*myth_thread_attr_t\s*\*\s*m\s*\)\s*\{",
                                 "pthread_attr_to_myth"))
    should = flatten(function_body(t_ld, r"static\s+int\s+myth_should_wrap_pthread\s*\(\s*void\s*\)\s*\{", "myth_should_wrap_pthread"))
    opts = parse_ld_opts()
    vals = probe()
    return e_ld, opts, handler, attr, should, sorted(set(sizes)), vals, same, unimplemented_bodies(), real_targets([e["name"] for e in e_ld])


def run():
    try:
        with common.Lock("translate-wraptable"):
            r = extract()
    except ParseError as e:
        return None, "wraptable translator: " + str(e)
    except OSError as e:
        return None, "wraptable translator: " + str(e)
    common.write_if_changed(os.path.join(common.LEAN, "MythVerif", "Generated", "WrapTable.lean"), emit(*r))
    return r, None


if __name__ == "__main__":
    r, e = run()
    if e:
        print("TRANSLATOR-FAILED:", e)
        sys.exit(1)
    for ent in r[0]:
        print(ent["name"], ent["kind"], ent["mythFn"], ent["mythArgs"], ent["pre"], ent["ret"])
    print(len(r[0]), "wrappers;", len(r[1]), "ld names; dl==ld:", r[7])
    print(r[2]); print(r[3]); print(r[4])
