#!/usr/bin/env python3
"""Translator for C03: re-derive the Lean instruction lists of the four amd64 inline-asm
context-switch templates from /repo's CURRENT src/myth_context_func.h, and the constants of
myth_make_context_empty / myth_make_context_voidcall, and write Generated/CtxAsm.lean.

Pipeline (every step fails loudly, nothing is guessed):
  1. a small C file that includes the real header and instantiates myth_swap_context_i,
     myth_swap_context_withcall_i, myth_set_context_i, myth_set_context_withcall_i is run through
     `gcc -E -P` with the library's flags;
  2. every `asm volatile(...)` statement of the four instantiating functions is tokenised:
     concatenated template string, output / input constraint lists, clobber list;
  3. `%N` / `%[name]` operands are resolved through the constraint lists (single-register
     constraints a b c d S D and matching constraints pin a register; anything else stays the
     symbolic register `opnd N`);
  4. the AT&T instructions are parsed (only the forms the templates use: sub/add $imm,%rsp; push/pop
     reg; lea label(%rip),reg; mov %rsp,(reg); mov (reg),%rsp; call sym | call *reg; jmp *reg;
     numeric local labels) and split at the label into save half / switch half / restore half;
  5. self-check: the same file is compiled (-O0 and -O2) and `objdump -d` of every instantiating
     function must contain exactly the parsed instruction sequence (same mnemonics, same
     registers, same immediates, lea target = the label position, call relocation = the callback);
  6. a probe program calls the two make_context functions on a known buffer for 64 consecutive
     stack addresses; the results are fitted to  rsp = ((stack - sub) / align) * align, entry word
     stored at rsp + off; the raw samples are emitted too and re-checked in Lean by `decide`;
  7. $VERIF_BUILD/translate/ctx_templates.h: the four templates re-emitted as AT&T text FROM THE
     PARSED LISTS, for the hardware bench (harness/ctx_probe.c -DCTXP_BENCH) whose runs are
     compared with the Lean semantics executing the same lists (drv_x86).
"""
import os
import re
import sys

sys.path.insert(0, os.path.join(os.path.dirname(os.path.abspath(__file__)), "..", "check"))
import common  # noqa: E402


class TranslateError(Exception):
    pass


def fail(msg):
    raise TranslateError(msg)


INST = r'''
#include "myth_context_func.h"
void verif_cb(void *, void *, void *);
void verif_inst_swap(myth_context_t vfrom, myth_context_t vto)
{ myth_swap_context_i(vfrom, vto); }
void verif_inst_swapwc(myth_context_t vfrom, myth_context_t vto, void *varg1, void *varg2, void *varg3)
{ myth_swap_context_withcall_i(vfrom, vto, verif_cb, varg1, varg2, varg3); }
void verif_inst_set(myth_context_t vto)
{ myth_set_context_i(vto); }
void verif_inst_setwc(myth_context_t vto, void *varg1, void *varg2, void *varg3)
{ myth_set_context_withcall_i(vto, verif_cb, varg1, varg2, varg3); }
'''
KINDS = [("swap", "verif_inst_swap"), ("swapWc", "verif_inst_swapwc"),
         ("set", "verif_inst_set"), ("setWc", "verif_inst_setwc")]
ROLE_VARS = {"vfrom": "from", "vto": "to", "varg1": "arg1", "varg2": "arg2", "varg3": "arg3"}
CALLBACK = "verif_cb"

GPR = ["rax", "rcx", "rdx", "rbx", "rsp", "rbp", "rsi", "rdi",
       "r8", "r9", "r10", "r11", "r12", "r13", "r14", "r15"]
PIN = {"a": "rax", "b": "rbx", "c": "rcx", "d": "rdx", "S": "rsi", "D": "rdi"}
LIB_FLAGS = ["-DMYTH_WRAP=MYTH_WRAP_VANILLA", "-DMYTH_VERIF", "-fPIC"]


# ------------------------------------------------------------------------------------------
# 2. tokenising the asm statements of the preprocessed source
# ------------------------------------------------------------------------------------------

def function_body(src, name):
    m = re.search(r"\bvoid\s+%s\s*\(" % re.escape(name), src)
    if not m:
        fail("instantiating function %s not found in the preprocessed source" % name)
    i = src.index("{", m.end())
    depth, j = 0, i
    in_str = False
    while j < len(src):
        c = src[j]
        if in_str:
            if c == "\\":
                j += 1
            elif c == '"':
                in_str = False
        elif c == '"':
            in_str = True
        elif c == "{":
            depth += 1
        elif c == "}":
            depth -= 1
            if depth == 0:
                return src[i:j + 1]
        j += 1
    fail("unbalanced braces in %s" % name)


ESC = {"n": "\n", "t": "\t", "\\": "\\", '"': '"', "'": "'", "0": "\0"}


def read_string(s, i):
    """s[i] == '"'; returns (decoded, index after closing quote)"""
    assert s[i] == '"'
    out = []
    i += 1
    while True:
        if i >= len(s):
            fail("unterminated string literal in asm statement")
        c = s[i]
        if c == "\\":
            e = s[i + 1]
            if e not in ESC:
                fail("unsupported escape \\%s in asm string" % e)
            out.append(ESC[e])
            i += 2
        elif c == '"':
            return "".join(out), i + 1
        else:
            out.append(c)
            i += 1


def skip_ws(s, i):
    while i < len(s) and s[i] in " \t\r\n":
        i += 1
    return i


def parse_asm_statement(s, i):
    """s[i:] starts just after the '(' of `asm volatile (`.
    returns (template, outputs, inputs, clobbers, index after ')')
    outputs / inputs: list of (name_or_None, constraint, expr_text); clobbers: list of str"""
    def strings(i):
        parts = []
        i = skip_ws(s, i)
        while i < len(s) and s[i] == '"':
            t, i = read_string(s, i)
            parts.append(t)
            i = skip_ws(s, i)
        return "".join(parts), len(parts), i

    template, n, i = strings(i)
    if n == 0:
        fail("asm statement without a template string")
    sections = []
    while s[i] == ":":
        i = skip_ws(s, i + 1)
        items = []
        sec = len(sections)
        while s[i] not in ":)":
            if sec < 2:
                name = None
                if s[i] == "[":
                    j = s.index("]", i)
                    name = s[i + 1:j].strip()
                    i = skip_ws(s, j + 1)
                if s[i] != '"':
                    fail("operand without constraint string near: %r" % s[i:i + 30])
                cons, _, i = strings(i)
                if s[i] != "(":
                    fail("operand without (expr) near: %r" % s[i:i + 30])
                depth, j = 0, i
                while True:
                    if s[j] == "(":
                        depth += 1
                    elif s[j] == ")":
                        depth -= 1
                        if depth == 0:
                            break
                    j += 1
                items.append((name, cons, s[i + 1:j].strip()))
                i = skip_ws(s, j + 1)
            else:
                if s[i] != '"':
                    fail("clobber is not a string near: %r" % s[i:i + 30])
                c, _, i = strings(i)
                items.append(c)
            if s[i] == ",":
                i = skip_ws(s, i + 1)
            elif s[i] not in ":)":
                fail("unexpected token in asm operand list near: %r" % s[i:i + 30])
        sections.append(items)
        if len(sections) > 3:
            fail("asm goto / more than three operand sections are not supported")
    if s[i] != ")":
        fail("asm statement not closed where expected: %r" % s[i:i + 30])
    while len(sections) < 3:
        sections.append([])
    return template, sections[0], sections[1], sections[2], i + 1


def asm_statements(body):
    out = []
    for m in re.finditer(r"\b(?:asm|__asm__|__asm)\b\s*((?:\b(?:volatile|__volatile__|goto|inline)\b\s*)*)\(", body):
        quals = m.group(1)
        if "goto" in quals:
            fail("asm goto is not supported")
        t, o, i, c, _ = parse_asm_statement(body, m.end())
        out.append({"template": t, "outputs": o, "inputs": i, "clobbers": c,
                    "volatile": "volatile" in quals})
    return out


# ------------------------------------------------------------------------------------------
# 3./4. operands, instructions
# ------------------------------------------------------------------------------------------

def resolve_operands(st):
    """register (or symbolic opnd N) of every operand, by operand number"""
    ops = []
    for k, (name, cons, expr) in enumerate(st["outputs"]):
        c = cons
        if not c or c[0] not in "=+":
            fail("output constraint %r does not start with = or +" % cons)
        c = c[1:].replace("&", "").replace("%", "")
        if c in PIN:
            ops.append({"reg": PIN[c], "kind": "out", "cons": cons, "name": name, "expr": expr})
        elif c in ("r", "q", "R", "Q", "l"):
            ops.append({"reg": "opnd %d" % k, "kind": "out", "cons": cons, "name": name, "expr": expr})
        else:
            fail("output constraint %r is not a register constraint this translator understands" % cons)
    nout = len(ops)
    for k, (name, cons, expr) in enumerate(st["inputs"]):
        c = cons.replace("%", "")
        idx = nout + k
        if c.isdigit():
            j = int(c)
            if j >= nout:
                fail("matching constraint %r refers to a non-output operand" % cons)
            ops.append({"reg": ops[j]["reg"], "kind": "in", "cons": cons, "name": name, "expr": expr})
        elif c in PIN:
            ops.append({"reg": PIN[c], "kind": "in", "cons": cons, "name": name, "expr": expr})
        elif c in ("r", "q", "R", "Q", "l"):
            ops.append({"reg": "opnd %d" % idx, "kind": "in", "cons": cons, "name": name, "expr": expr})
        else:
            ops.append({"reg": None, "kind": "in", "cons": cons, "name": name, "expr": expr})
    return ops


def substitute(template, ops):
    """GCC template -> plain AT&T text: %% -> %, %N / %[name] -> %<register>"""
    out = []
    i = 0
    while i < len(template):
        c = template[i]
        if c in "{|}":
            fail("asm dialect alternatives {..|..} are not supported")
        if c != "%":
            out.append(c)
            i += 1
            continue
        n = template[i + 1] if i + 1 < len(template) else ""
        if n == "%":
            out.append("%")
            i += 2
        elif n.isdigit():
            j = i + 1
            while j < len(template) and template[j].isdigit():
                j += 1
            k = int(template[i + 1:j])
            if k >= len(ops):
                fail("template refers to operand %%%d but there are only %d operands" % (k, len(ops)))
            if ops[k]["reg"] is None:
                fail("operand %%%d (constraint %r) is used in the template but is not pinned to a register class" % (k, ops[k]["cons"]))
            out.append("%" + ops[k]["reg"].replace(" ", ""))
            i = j
        elif n == "[":
            j = template.index("]", i)
            nm = template[i + 2:j]
            hit = [o for o in ops if o["name"] == nm]
            if len(hit) != 1 or hit[0]["reg"] is None:
                fail("named operand %%[%s] cannot be resolved to a register" % nm)
            out.append("%" + hit[0]["reg"].replace(" ", ""))
            i = j + 1
        else:
            fail("operand modifier / special sequence %r in asm template is not supported" % template[i:i + 3])
    return "".join(out)


def parse_reg(tok, what):
    if not tok.startswith("%"):
        fail("expected a register in %s, got %r" % (what, tok))
    r = tok[1:]
    if r in GPR:
        return r
    m = re.fullmatch(r"opnd(\d+)", r)
    if m:
        return "opnd %s" % m.group(1)
    fail("register %r in %s is not a 64-bit general purpose register" % (tok, what))


def parse_imm(tok, what):
    if not tok.startswith("$"):
        fail("expected an immediate in %s, got %r" % (what, tok))
    try:
        v = int(tok[1:], 0)
    except ValueError:
        fail("immediate %r in %s is not a number" % (tok, what))
    if v < 0:
        fail("negative immediate in %s" % what)
    return v


def parse_instr(line):
    """one AT&T line -> tuple; unknown forms raise"""
    m = re.fullmatch(r"(\d+):", line)
    if m:
        return ("label", int(m.group(1)))
    m = re.fullmatch(r"(\w+)\s*(.*)", line)
    if not m:
        fail("cannot parse asm line %r" % line)
    mn, rest = m.group(1), m.group(2).strip()
    args = [a.strip() for a in rest.split(",")] if rest else []
    if mn in ("sub", "subq", "add", "addq") and len(args) == 2:
        if args[1] != "%rsp":
            fail("%s with destination other than %%rsp: %r" % (mn, line))
        return ("subRsp" if mn.startswith("sub") else "addRsp", parse_imm(args[0], line))
    if mn in ("push", "pushq", "pop", "popq") and len(args) == 1:
        r = parse_reg(args[0], line)
        if r == "rsp":
            fail("push/pop of %%rsp is not modelled: %r" % line)
        return ("push" if mn.startswith("push") else "pop", r)
    if mn in ("lea", "leaq") and len(args) == 2:
        mm = re.fullmatch(r"(\d+)([fb])\(%rip\)", args[0])
        if not mm:
            fail("lea source is not <local label>(%%rip): %r" % line)
        r = parse_reg(args[1], line)
        if r == "rsp":
            fail("lea into %%rsp is not modelled: %r" % line)
        return ("leaLabel", r, int(mm.group(1)), mm.group(2))
    if mn in ("mov", "movq") and len(args) == 2:
        a, b = args
        ma = re.fullmatch(r"\((%\w+)\)", a)
        mb = re.fullmatch(r"\((%\w+)\)", b)
        if a == "%rsp" and mb:
            r = parse_reg(mb.group(1), line)
            if r == "rsp":
                fail("mov %%rsp,(%%rsp) is not modelled")
            return ("storeRsp", r)
        if b == "%rsp" and ma:
            r = parse_reg(ma.group(1), line)
            if r == "rsp":
                fail("mov (%%rsp),%%rsp is not modelled")
            return ("loadRsp", r)
        fail("mov form not modelled: %r" % line)
    if mn in ("call", "callq") and len(args) == 1:
        if args[0].startswith("*"):
            r = parse_reg(args[0][1:], line)
            if r == "rsp":
                fail("call *%%rsp is not modelled")
            return ("callReg", r)
        mm = re.fullmatch(r"([A-Za-z_][A-Za-z0-9_]*)(@PLT)?", args[0])
        if not mm:
            fail("call target not understood: %r" % line)
        return ("call", mm.group(1))
    if mn in ("jmp", "jmpq") and len(args) == 1 and args[0].startswith("*"):
        r = parse_reg(args[0][1:], line)
        if r == "rsp":
            fail("jmp *%%rsp is not modelled")
        return ("jmpReg", r)
    fail("instruction form not modelled (translator refuses to guess): %r" % line)


def parse_template(text):
    out = []
    for raw in re.split(r"[\n;]", text):
        line = raw.replace("\t", " ").strip()
        if not line:
            continue
        if line.startswith("#") or line.startswith("//") or "/*" in line:
            fail("comments inside the asm template are not supported: %r" % line)
        if line.startswith("."):
            fail("assembler directive in the asm template: %r" % line)
        out.append(parse_instr(line))
    return out


def check_labels(ins):
    """every lea refers forward to a label that is defined exactly once later; returns list without
    direction letters"""
    out = []
    for k, i in enumerate(ins):
        if i[0] == "leaLabel":
            _, r, n, d = i
            later = [j for j in range(k + 1, len(ins)) if ins[j] == ("label", n)]
            earlier = [j for j in range(k) if ins[j] == ("label", n)]
            if d == "f" and len(later) < 1:
                fail("lea %df: no such label later in the template" % n)
            if d == "b":
                fail("backward label reference %db is not modelled" % n)
            if len(later) != 1 or earlier:
                fail("label %d is defined more than once in the template" % n)
            out.append(("leaLabel", r, n))
        else:
            out.append(i)
    return out


def split_swap(ins, kind):
    """save half | switch half | restore half"""
    labels = [k for k, i in enumerate(ins) if i[0] == "label"]
    if len(labels) != 1:
        fail("%s: expected exactly one label in the template, found %d" % (kind, len(labels)))
    lk = labels[0]
    pre, post = ins[:lk], ins[lk + 1:]
    lab = ins[lk][1]
    if not pre or pre[-1][0] != "jmpReg":
        fail("%s: the instruction before the resume label is not an indirect jmp (control would fall through into the restore half)" % kind)
    loads = [k for k, i in enumerate(pre) if i[0] == "loadRsp"]
    if len(loads) != 1:
        fail("%s: expected exactly one `mov (reg),%%rsp` before the label, found %d" % (kind, len(loads)))
    save, switch = pre[:loads[0]], pre[loads[0]:]
    if not any(i == ("leaLabel", i[1], lab) for i in save if i[0] == "leaLabel"):
        fail("%s: the save half never takes the address of the resume label" % kind)
    if sum(1 for i in save if i[0] == "storeRsp") != 1:
        fail("%s: the save half does not store %%rsp into the context exactly once" % kind)
    for part, nm in ((save, "save"), (post, "restore")):
        for i in part:
            if i[0] in ("call", "callReg", "jmpReg", "loadRsp"):
                fail("%s: control transfer / stack switch %r inside the %s half" % (kind, i, nm))
    for i in post:
        if i[0] in ("leaLabel", "storeRsp"):
            fail("%s: unexpected %r in the restore half" % (kind, i))
    return save, switch, post, lab


def check_jump(ins, kind):
    if any(i[0] in ("label", "leaLabel", "storeRsp") for i in ins):
        fail("%s: label / lea / context store in a set_context template" % kind)
    if not ins or ins[-1][0] != "jmpReg":
        fail("%s: template does not end with an indirect jmp" % kind)
    if sum(1 for i in ins if i[0] == "loadRsp") != 1 or ins[0][0] != "loadRsp":
        fail("%s: template does not start with exactly one `mov (reg),%%rsp`" % kind)
    return ins


def check_switch_shape(sw, kind, withcall):
    calls = [i for i in sw if i[0] in ("call", "callReg")]
    if withcall and len(calls) != 1:
        fail("%s: expected exactly one call in the switch half, found %d" % (kind, len(calls)))
    if not withcall and calls:
        fail("%s: unexpected call in the switch half" % kind)
    for c in calls:
        if c[0] == "call" and c[1] != CALLBACK:
            fail("%s: call target %r is not the callback passed to the macro" % (kind, c[1]))


def roles(ops, kind):
    out = []
    for o in ops:
        if o["kind"] != "in":
            continue
        ids = set(re.findall(r"[A-Za-z_]\w*", o["expr"]))
        hit = [ROLE_VARS[v] for v in ROLE_VARS if v in ids]
        if len(hit) != 1:
            fail("%s: cannot tell which macro argument input %r is" % (kind, o["expr"]))
        if o["reg"] is None:
            fail("%s: input %r has a non-register constraint %r" % (kind, o["expr"], o["cons"]))
        out.append((hit[0], o["reg"]))
    names = [r for r, _ in out]
    if len(set(names)) != len(names):
        fail("%s: a macro argument is bound to two operands" % kind)
    return out


def clobbers(st, kind):
    regs, cc, mem = [], False, False
    for c in st["clobbers"]:
        n = c.lstrip("%")
        if n == "cc":
            cc = True
        elif n == "memory":
            mem = True
        elif n in GPR:
            if n == "rsp":
                fail("%s: %%rsp in the clobber list" % kind)
            regs.append(n)
        else:
            fail("%s: clobber %r is not understood" % (kind, c))
    return regs, cc, mem


def extract_templates(pre):
    res = {}
    for kind, fn in KINDS:
        body = function_body(pre, fn)
        sts = asm_statements(body)
        if not sts:
            fail("%s: no asm statement in the expansion (is the amd64 inline-asm branch still selected?)" % kind)
        main, extra = sts[0], sts[1:]
        unreachable = False
        for e in extra:
            t = e["template"].strip()
            if t == "ud2" and not e["outputs"] and not e["inputs"]:
                unreachable = True
            else:
                fail("%s: additional asm statement %r in the expansion is not understood" % (kind, e["template"]))
        if kind.startswith("set") and not unreachable:
            fail("%s: the expansion is not followed by the unreachable trap (ud2)" % kind)
        if kind.startswith("swap") and extra:
            fail("%s: more than one asm statement in the expansion" % kind)
        if not main["volatile"]:
            fail("%s: the asm statement is not volatile" % kind)
        ops = resolve_operands(main)
        text = substitute(main["template"], ops)
        ins = check_labels(parse_template(text))
        withcall = kind.endswith("Wc")
        d = {"ops": ops, "text": text, "roles": roles(ops, kind),
             "outputs": [o["reg"] for o in ops if o["kind"] == "out"],
             "out_cons": [o["cons"] for o in ops if o["kind"] == "out"],
             "in_cons": [o["cons"] for o in ops if o["kind"] == "in"]}
        d["clobbers"], d["cc"], d["memory"] = clobbers(main, kind)
        if kind.startswith("swap"):
            d["save"], d["switch"], d["restore"], d["label"] = split_swap(ins, kind)
            d["flat"] = d["save"] + d["switch"] + [("label", d["label"])] + d["restore"]
        else:
            d["switch"] = check_jump(ins, kind)
            d["flat"] = list(d["switch"])
        check_switch_shape(d["switch"], kind, withcall)
        want = ["to"] + (["from"] if kind.startswith("swap") else []) + (["arg1", "arg2", "arg3"] if withcall else [])
        if sorted(r for r, _ in d["roles"]) != sorted(want):
            fail("%s: inputs %s do not match the macro arguments %s" % (kind, d["roles"], want))
        res[kind] = d
    return res


# ------------------------------------------------------------------------------------------
# 5. objdump self-check
# ------------------------------------------------------------------------------------------

def objdump_functions(obj):
    rc, o, e = common.sh(["objdump", "-d", "-r", "--no-show-raw-insn", obj])
    if rc != 0:
        fail("objdump failed: " + e[-300:])
    funcs, cur = {}, None
    for line in o.splitlines():
        m = re.match(r"^[0-9a-f]+ <(\w+)>:", line)
        if m:
            cur = funcs.setdefault(m.group(1), [])
            continue
        if cur is None:
            continue
        m = re.match(r"^\s*([0-9a-f]+):\s+(\S.*)$", line)
        if not m:
            continue
        addr, txt = int(m.group(1), 16), m.group(2).strip()
        rm = re.match(r"^(R_X86_64_\w+)\s+(\S+)", txt)
        if rm:
            if cur:
                cur[-1]["reloc"] = rm.group(2)
            continue
        cur.append({"addr": addr, "txt": txt})
    return funcs


def norm_objdump(ent):
    """objdump line -> same tuple shape as parse_instr (registers concrete)"""
    txt = re.sub(r"\s+#.*$", "", ent["txt"])
    txt = re.sub(r"\s+<[^>]*>$", "", txt).strip()
    m = re.fullmatch(r"(\w+)\s*(.*)", txt)
    mn, rest = m.group(1), m.group(2).strip()
    args = [a.strip() for a in rest.split(",")] if rest else []
    try:
        if mn in ("sub", "add") and len(args) == 2 and args[1] == "%rsp" and args[0].startswith("$"):
            return ("subRsp" if mn == "sub" else "addRsp", int(args[0][1:], 0))
        if mn in ("push", "pop") and len(args) == 1 and args[0].startswith("%"):
            return (mn, args[0][1:])
        if mn == "lea" and len(args) == 2:
            mm = re.fullmatch(r"(-?0x[0-9a-f]+|-?\d+)\(%rip\)", args[0])
            if mm:
                return ("leaRip", args[1][1:], int(mm.group(1), 0))
        if mn == "mov" and len(args) == 2:
            if args[0] == "%rsp" and re.fullmatch(r"\(%\w+\)", args[1]):
                return ("storeRsp", args[1][2:-1])
            if args[1] == "%rsp" and re.fullmatch(r"\(%\w+\)", args[0]):
                return ("loadRsp", args[0][2:-1])
        if mn == "call":
            if args and args[0].startswith("*%"):
                return ("callReg", args[0][2:])
            return ("call", ent.get("reloc", ""))
        if mn == "jmp" and args and args[0].startswith("*%"):
            return ("jmpReg", args[0][2:])
    except ValueError:
        pass
    return ("other", txt)


def match_objdump(kind, d, listing):
    """the parsed template (labels dropped) must occur exactly once, contiguously"""
    want = [i for i in d["flat"] if i[0] != "label"]
    label_pos = None  # index in `want` of the first instruction after the label
    k = 0
    for i in d["flat"]:
        if i[0] == "label":
            label_pos = k
        else:
            k += 1
    got = [norm_objdump(e) for e in listing]
    hits = []
    for s in range(len(got) - len(want) + 1):
        env = {}
        ok = True
        for idx, (w, g) in enumerate(zip(want, got[s:s + len(want)])):
            if w[0] == "leaLabel":
                if g[0] != "leaRip":
                    ok = False
                    break
                regs = [(w[1], g[1])]
                # target = address of next instruction + displacement
                nxt = listing[s + idx + 1]["addr"] if s + idx + 1 < len(listing) else None
                tgt = (nxt + g[2]) if nxt is not None else None
                if label_pos is None or s + label_pos >= len(listing) or tgt != listing[s + label_pos]["addr"]:
                    ok = False
                    break
            elif w[0] == "call":
                if g[0] != "call" or not g[1].startswith(w[1]):
                    ok = False
                    break
                regs = []
            elif w[0] in ("subRsp", "addRsp"):
                if g != w:
                    ok = False
                    break
                regs = []
            else:
                if g[0] != w[0]:
                    ok = False
                    break
                regs = [(w[1], g[1])]
            for wr, gr in regs:
                if wr.startswith("opnd"):
                    if env.setdefault(wr, gr) != gr or gr == "rsp":
                        ok = False
                else:
                    if wr != gr:
                        ok = False
            if not ok:
                break
        if ok:
            # symbolic operands must have received pairwise distinct registers
            if len(set(env.values())) == len(env):
                hits.append(s)
    if len(hits) != 1:
        fail("%s: objdump self-check failed: parsed template occurs %d times in the compiled function.\nparsed: %s\ncompiled: %s"
             % (kind, len(hits), want, [e["txt"] for e in listing]))
    # set_context: the compiled template must be followed (eventually) by ud2
    return hits[0]


# ------------------------------------------------------------------------------------------
# 6. make_context constants
# ------------------------------------------------------------------------------------------

MKPROBE = r'''
#include <stdio.h>
#include <string.h>
#include <stdint.h>
#include "myth_context_func.h"
static void entry_fn(void) {}
static unsigned char buf[4096] __attribute__((aligned(256)));
int main(void) {
  int k;
  printf("ctxsize %d\n", (int)sizeof(myth_context));
  printf("rspoff %d\n", (int)offsetof(myth_context, rsp));
  for (k = 0; k < 64; k++) {
    myth_context c; unsigned i; long hit = -1, nhit = 0;
    unsigned char *stk = buf + 2048 + k;
    memset(buf, 0xAB, sizeof buf); memset(&c, 0xCD, sizeof c);
    myth_make_context_empty(&c, stk, 1024);
    for (i = 0; i < sizeof buf; i++) if (buf[i] != 0xAB) nhit++;
    printf("empty %d %lld %ld\n", 2048 + k, (long long)((unsigned char *)c.rsp - buf), nhit);
    memset(buf, 0xAB, sizeof buf); memset(&c, 0xCD, sizeof c);
    myth_make_context_voidcall(&c, entry_fn, stk, 1024);
    nhit = 0;
    for (i = 0; i + 8 <= sizeof buf; i++) {
      uint64_t w; memcpy(&w, buf + i, 8);
      if (w == (uint64_t)(uintptr_t)entry_fn) { hit = i; }
    }
    for (i = 0; i < sizeof buf; i++) if (buf[i] != 0xAB) nhit++;
    /* nhit counts modified bytes: at most 8 (bytes of the entry address equal to 0xAB stay) */
    printf("voidcall %d %lld %ld %ld\n", 2048 + k, (long long)((unsigned char *)c.rsp - buf), hit, nhit);
  }
  return 0;
}
'''


def fit(samples, what):
    """samples: list of (s, rsp).  find (sub, align) with rsp = ((s - sub) // align) * align"""
    sols = []
    for align in (1, 2, 4, 8, 16, 32, 64, 128):
        for sub in range(0, 129):
            if all(((s - sub) // align) * align == r for s, r in samples):
                sols.append((sub, align))
    if not sols:
        fail("%s: results are not of the form ((stack - c) & ~(2^k - 1)): %s" % (what, samples[:6]))
    # 64 consecutive samples determine (sub, align) uniquely unless no rounding step falls into the
    # window (align too large): that is reported, not guessed
    if len(sols) != 1:
        fail("%s: ambiguous fit %s" % (what, sols[:6]))
    return sols[0]


def extract_mkctx(d):
    src = os.path.join(d, "mkctx_probe.c")
    exe = os.path.join(d, "mkctx_probe")
    with open(src, "w") as f:
        f.write(MKPROBE)
    rc, o, e = common.sh(["gcc"] + common.BASE_CFLAGS + LIB_FLAGS + ["-O0", src, "-o", exe])
    if rc != 0:
        fail("make_context probe does not compile against the current headers: " + (o + e)[-600:])
    rc, o, e = common.sh([exe], timeout=20)
    if rc != 0:
        fail("make_context probe crashed (rc=%s)" % rc)
    emp, vc, misc = [], [], {}
    for line in o.splitlines():
        w = line.split()
        if w[0] == "empty":
            if int(w[3]) != 0:
                fail("myth_make_context_empty wrote to the stack buffer")
            emp.append((int(w[1]), int(w[2])))
        elif w[0] == "voidcall":
            if int(w[3]) < 0 or int(w[4]) > 8:
                fail("myth_make_context_voidcall: entry word not found / more than one word written: " + line)
            vc.append((int(w[1]), int(w[2]), int(w[3])))
        else:
            misc[w[0]] = int(w[1])
    if len(emp) != 64 or len(vc) != 64:
        fail("make_context probe printed %d/%d samples" % (len(emp), len(vc)))
    if misc.get("ctxsize") != 8 or misc.get("rspoff") != 0:
        fail("struct myth_context is no longer the single saved-rsp word (size %s, offset %s)" % (misc.get("ctxsize"), misc.get("rspoff")))
    esub, ealign = fit(emp, "myth_make_context_empty")
    vsub, valign = fit([(s, r) for s, r, _ in vc], "myth_make_context_voidcall")
    offs = {h - r for _, r, h in vc}
    if len(offs) != 1:
        fail("myth_make_context_voidcall: entry word offset from rsp is not constant: %s" % sorted(offs))
    voff = offs.pop()
    if voff < 0:
        fail("myth_make_context_voidcall: entry word stored below the context rsp")
    return {"emptySub": esub, "emptyAlign": ealign, "voidSub": vsub, "voidAlign": valign, "voidEntryOff": voff,
            "emptySamples": emp, "voidSamples": [(s, r) for s, r, _ in vc]}


# ------------------------------------------------------------------------------------------
# emit
# ------------------------------------------------------------------------------------------

def lreg(r):
    return "(.opnd %s)" % r.split()[1] if r.startswith("opnd") else "." + r


def linstr(i):
    t = i[0]
    if t in ("subRsp", "addRsp"):
        return ".%s %d" % (t, i[1])
    if t in ("push", "pop", "storeRsp", "loadRsp", "callReg", "jmpReg"):
        return ".%s %s" % (t, lreg(i[1]))
    if t == "leaLabel":
        return ".leaLabel %s %d" % (lreg(i[1]), i[2])
    if t == "call":
        return ".call"
    raise AssertionError(i)


def llist(ins):
    return "[" + ", ".join(linstr(i) for i in ins) + "]"


def emit(t, mk):
    L = ["-- GENERATED by translate/asm_extract.py from /repo's current src/myth_context_func.h; do not edit.",
         "import MythVerif.Model.X86",
         "namespace MythVerif.Gen.Ctx",
         "open MythVerif.X86", ""]
    for kind, _ in KINDS:
        d = t[kind]
        L.append("/- %s, template after operand substitution:" % kind)
        for line in d["text"].strip().splitlines():
            L.append("     " + line.strip())
        L.append("   outputs %s  inputs %s  clobbers %s -/" % (d["out_cons"], d["in_cons"], d["clobbers"] + (["cc"] if d["cc"] else []) + (["memory"] if d["memory"] else [])))
        if kind.startswith("swap"):
            L.append("def %sSave : List Instr := %s" % (kind, llist(d["save"])))
            L.append("def %sSwitch : List Instr := %s" % (kind, llist(d["switch"])))
            L.append("def %sRestore : List Instr := %s" % (kind, llist(d["restore"])))
            L.append("def %sLabel : Nat := %d" % (kind, d["label"]))
        else:
            L.append("def %sSwitch : List Instr := %s" % (kind, llist(d["switch"])))
        rl = dict(d["roles"])
        for role in ("from", "to", "arg1", "arg2", "arg3"):
            if role in rl:
                L.append("def %s%s : Reg := %s" % (kind, role[0].upper() + role[1:], lreg(rl[role])))
        L.append("def %sOutputs : List Reg := [%s]" % (kind, ", ".join(lreg(r) for r in d["outputs"])))
        L.append("def %sOutputsEarlyClobber : Bool := %s" % (kind, "true" if all("&" in c for c in d["out_cons"]) else "false"))
        L.append("def %sInputs : List Reg := [%s]" % (kind, ", ".join(lreg(r) for _, r in d["roles"])))
        L.append("def %sClobbers : List Reg := [%s]" % (kind, ", ".join(lreg(r) for r in d["clobbers"])))
        L.append("def %sClobbersCC : Bool := %s" % (kind, "true" if d["cc"] else "false"))
        L.append("def %sClobbersMemory : Bool := %s" % (kind, "true" if d["memory"] else "false"))
        L.append("")
    L.append("/- myth_make_context_empty:    ctx.rsp = ((stack - emptySub) / emptyAlign) * emptyAlign, nothing stored")
    L.append("   myth_make_context_voidcall: ctx.rsp = ((stack - voidSub) / voidAlign) * voidAlign, entry stored at ctx.rsp + voidEntryOff")
    L.append("   (fitted to 64 consecutive stack addresses run through the real functions; samples below) -/")
    for k in ("emptySub", "emptyAlign", "voidSub", "voidAlign", "voidEntryOff"):
        L.append("def %s : Nat := %d" % (k, mk[k]))
    for k in ("emptySamples", "voidSamples"):
        L.append("def %s : List (Nat × Nat) := [%s]" % (k, ", ".join("(%d, %d)" % p for p in mk[k])))
    L.append("")
    L.append("end MythVerif.Gen.Ctx")
    return "\n".join(L) + "\n"


BENCH_CB = "ctxp_bench_cb"


def att(i):
    """parsed instruction -> AT&T text (used by the hardware bench: what runs on the CPU is what was parsed)"""
    t = i[0]
    if t in ("subRsp", "addRsp"):
        return "%s $%d,%%rsp" % (t[:3], i[1])
    if t in ("push", "pop"):
        return "%s %%%s" % (t, i[1])
    if t == "leaLabel":
        return "lea %df(%%rip),%%%s" % (i[2], i[1])
    if t == "storeRsp":
        return "mov %%rsp,(%%%s)" % i[1]
    if t == "loadRsp":
        return "mov (%%%s),%%rsp" % i[1]
    if t == "call":
        return "call " + BENCH_CB
    if t == "callReg":
        return "call *%%%s" % i[1]
    if t == "jmpReg":
        return "jmp *%%%s" % i[1]
    if t == "label":
        return "%d:" % i[1]
    raise AssertionError(i)


def emit_bench_header(t):
    """C header with the four templates re-emitted from the parsed lists, for harness/ctx_probe.c -DCTXP_BENCH"""
    L = ["/* GENERATED by translate/asm_extract.py: the parsed context-switch templates, re-emitted */"]
    for kind, _ in KINDS:
        d = t[kind]
        regs = [x for i in d["flat"] for x in i[1:2] if isinstance(x, str)] + [r for _, r in d["roles"]]
        if any(r.startswith("opnd") for r in regs):
            L.append("#error \"template %s has an operand that is not pinned to a register: no hardware bench\"" % kind)
            continue
        if any(i[0] == "callReg" for i in d["flat"]):
            L.append("#error \"template %s calls through a register: no hardware bench\"" % kind)
            continue
        L.append("#define CTX_TMPL_%s %s" % (kind, " ".join('"  %s\\n"' % att(i) for i in d["flat"])))
        for role, r in d["roles"]:
            L.append("#define CTX_%s_%s %d" % (role.upper(), kind, GPR.index(r)))
        L.append("#define CTX_HASCALL_%s %d" % (kind, 1 if any(i[0] == "call" for i in d["flat"]) else 0))
    return "\n".join(L) + "\n"


def extract():
    d = os.path.join(common.BUILD, "translate")
    os.makedirs(d, exist_ok=True)
    src = os.path.join(d, "ctx_inst.c")
    with open(src, "w") as f:
        f.write(INST)
    hdr = os.path.join(common.REPO, "src", "myth_context_func.h")
    if not os.path.exists(hdr):
        fail("src/myth_context_func.h does not exist")
    rc, pre, e = common.sh(["gcc", "-E", "-P"] + common.BASE_CFLAGS + LIB_FLAGS + [src])
    if rc != 0:
        fail("instantiation file does not preprocess: " + e[-600:])
    t = extract_templates(pre)
    for opt in ("-O0", "-O2"):
        obj = os.path.join(d, "ctx_inst%s.o" % opt)
        rc, o, e = common.sh(["gcc", "-c", opt] + common.BASE_CFLAGS + LIB_FLAGS + [src, "-o", obj])
        if rc != 0:
            fail("instantiation file does not compile (%s): %s" % (opt, (o + e)[-600:]))
        funcs = objdump_functions(obj)
        for kind, fn in KINDS:
            if fn not in funcs:
                fail("objdump: function %s missing" % fn)
            s = match_objdump(kind, t[kind], funcs[fn])
            if kind.startswith("set"):
                n = len([i for i in t[kind]["flat"] if i[0] != "label"])
                rest = [x["txt"].split()[0] for x in funcs[fn][s + n:]]
                if "ud2" not in rest:
                    fail("%s: compiled code has no ud2 after the final jump" % kind)
    mk = extract_mkctx(d)
    common.write_if_changed(os.path.join(d, "ctx_templates.h"), emit_bench_header(t))
    return t, mk


def run():
    """returns (info, None) or (None, error text)"""
    try:
        t, mk = extract()
    except TranslateError as ex:
        return None, str(ex)
    common.write_if_changed(os.path.join(common.LEAN, "MythVerif", "Generated", "CtxAsm.lean"), emit(t, mk))
    info = {k: {"n_instr": len([i for i in t[k]["flat"] if i[0] != "label"]), "roles": t[k]["roles"],
                "clobbers": t[k]["clobbers"]} for k, _ in KINDS}
    info["mkctx"] = {k: mk[k] for k in ("emptySub", "emptyAlign", "voidSub", "voidAlign", "voidEntryOff")}
    return info, None


if __name__ == "__main__":
    v, e = run()
    if e:
        print("TRANSLATOR-FAILED:", e)
        sys.exit(1)
    print(v)
