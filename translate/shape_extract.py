#!/usr/bin/env python3
"""Source-shape translator: re-extracts, on every run, the normalised statement skeleton of every
function body that a hand-written Lean model transcribes, from /repo's CURRENT sources, and writes
`lean/MythVerif/Generated/Shapes.lean`.  `lean/MythVerif/Model/ShapeSpec.lean` (committed; written
only by `shape_extract.py --bless`, a deliberate human action taken after the models were
re-validated against changed code) holds the skeletons the models were written against, and each
`Properties/Cxx.lean` proves `Gen.Shapes.cxx = ShapeSpec.cxx`.  So an edit of a modelled function
(anything but comments, white space and MYTH_VERIF_* instrumentation) breaks a proof obligation:
the check then searches for a concrete failing input and, if it finds none, reports the property
as no longer shown (`no-failing-input-found`), naming the function and the changed statements.

Normalisation: comments removed (string literals respected), `MYTH_VERIF_POINT(...)` /
`MYTH_VERIF_SPIN(...)` statements removed, white space collapsed (kept only between two identifier
characters), text split into entries after every `;`, `{`, `}` outside parentheses; preprocessor
lines inside a body are entries of their own (conditionals are NOT resolved: every branch is pinned).
A function is found by name as `name ( ... ) {` at brace depth 0 of its file; if a name is defined
several times in one file (under different #if branches) all definitions are extracted in order.
Nothing is guessed: a listed function that is not found makes the translator fail (= broken tie).
"""
import json
import os
import re
import sys

sys.path.insert(0, os.path.join(os.path.dirname(os.path.abspath(__file__)), "..", "check"))
import common  # noqa: E402

HERE = os.path.dirname(os.path.abspath(__file__))
SPEC_JSON = os.path.join(HERE, "shapes_spec.json")
LIST_JSON = os.path.join(HERE, "shapes_list.json")


class ParseError(Exception):
    pass


_CHAR = re.compile(r"'(\\.|[^\\'\n])'")


def lit_end(s, i):
    """s[i] is a quote: index of the closing quote of the string / char literal, or -1 if this quote opens none"""
    c = s[i]
    if c == "'":
        m = _CHAR.match(s, i)
        return m.end() - 1 if m else -1
    j = i + 1
    n = len(s)
    while j < n and s[j] != '"':
        if s[j] == "\\":
            j += 1
        elif s[j] == "\n":
            return -1
        j += 1
    return j if j < n else -1


def drop_if0(s):
    """blank out `#if 0 ... #endif` regions (free text lives there)"""
    out, depth0, stack = [], None, []
    for line in s.split("\n"):
        t = line.strip()
        if re.match(r"^#\s*if", t):
            stack.append(t)
            if depth0 is None and re.match(r"^#\s*if\s+0\s*$", t):
                depth0 = len(stack)
                out.append("")
                continue
        elif re.match(r"^#\s*endif", t):
            if depth0 is not None and len(stack) == depth0:
                depth0 = None
                stack.pop()
                out.append("")
                continue
            if stack:
                stack.pop()
        elif depth0 is not None and len(stack) == depth0 and re.match(r"^#\s*(else|elif)", t):
            depth0 = None          # the #else branch of an `#if 0` is live
            out.append(line)
            continue
        out.append("" if depth0 is not None else line)
    return "\n".join(out)


def strip_comments(s):
    out = []
    i, n = 0, len(s)
    while i < n:
        c = s[i]
        if c == '"' or c == "'":
            j = lit_end(s, i)
            if j < 0:
                out.append(c)
                i += 1
            else:
                out.append(s[i:j + 1])
                i = j + 1
        elif s.startswith("/*", i):
            j = s.find("*/", i + 2)
            if j < 0:
                raise ParseError("unterminated comment")
            out.append(" ")
            i = j + 2
        elif s.startswith("//", i):
            j = s.find("\n", i)
            if j < 0:
                j = n
            out.append(" ")
            i = j
        else:
            out.append(c)
            i += 1
    return "".join(out)


def code_chars(s, start=0):
    """yield (index, char) of every character outside string / char literals"""
    j, n = start, len(s)
    while j < n:
        c = s[j]
        if c == '"' or c == "'":
            e = lit_end(s, j)
            if e >= 0:
                j = e + 1
                continue
        yield j, c
        j += 1


def match_close(s, i, op, cl):
    depth = 0
    for j, c in code_chars(s, i):
        if c == op:
            depth += 1
        elif c == cl:
            depth -= 1
            if depth == 0:
                return j
    raise ParseError("unbalanced %s%s" % (op, cl))


def depth0_mask(s):
    """brace depth at every index (literals respected).  Alternative branches of a preprocessor
    conditional are assumed to have the same net brace effect: at #else / #elif the depth is reset to
    its value at the #if, at #endif the depth reached by the first branch is kept."""
    mask = [0] * len(s)
    d = 0
    stack = []          # (depth at #if, depth after first branch or None)
    pos = 0
    for line in s.split("\n"):
        t = line.strip()
        end = pos + len(line)
        if t.startswith("#"):
            for k in range(pos, min(end + 1, len(s))):
                mask[k] = d
            if re.match(r"^#\s*if", t):
                stack.append([d, None])
            elif re.match(r"^#\s*(else|elif)", t) and stack:
                if stack[-1][1] is None:
                    stack[-1][1] = d
                d = stack[-1][0]
            elif re.match(r"^#\s*endif", t) and stack:
                d0, d1 = stack.pop()
                if d1 is not None:
                    d = d1
        else:
            last = pos
            for j, c in code_chars(line):
                for k in range(last, pos + j):
                    mask[k] = d
                if c == "{":
                    mask[pos + j] = d
                    d += 1
                elif c == "}":
                    d -= 1
                    mask[pos + j] = d
                else:
                    mask[pos + j] = d
                last = pos + j + 1
            for k in range(last, min(end + 1, len(s))):
                mask[k] = d
        pos = end + 1
    return mask


def find_bodies(src, name, maxdepth=0):
    """all definitions `name(...) {body}` at brace depth <= maxdepth -> list of (signature, body text)"""
    res = []
    mask = depth0_mask(src)
    for m in re.finditer(r"(?<![A-Za-z0-9_])%s\s*\(" % re.escape(name), src):
        if mask[m.start()] > maxdepth:
            continue
        # not inside a preprocessor line
        ls = src.rfind("\n", 0, m.start()) + 1
        if src[ls:m.start()].lstrip().startswith("#"):
            continue
        po = src.index("(", m.start())
        pc = match_close(src, po, "(", ")")
        k = pc + 1
        while k < len(src) and src[k] in " \t\r\n":
            k += 1
        # attributes between ) and { are not used in this code base
        if k < len(src) and src[k] == "{":
            bc = match_close(src, k, "{", "}")
            res.append((src[po:pc + 1], src[k + 1:bc]))
    return res


def collapse(s):
    s = re.sub(r"\s+", " ", s).strip()
    # remove blanks unless they separate two identifier characters
    out = []
    for i, c in enumerate(s):
        if c == " ":
            a = s[i - 1] if i > 0 else ""
            b = s[i + 1] if i + 1 < len(s) else ""
            if re.match(r"[A-Za-z0-9_]", a) and re.match(r"[A-Za-z0-9_]", b):
                out.append(c)
        else:
            out.append(c)
    return "".join(out)


def entries(body):
    """split a function body into normalised entries"""
    # protect preprocessor lines (with continuations)
    lines = body.split("\n")
    chunks, cur = [], []
    i = 0
    while i < len(lines):
        l = lines[i]
        if l.lstrip().startswith("#"):
            if cur:
                chunks.append(("code", "\n".join(cur)))
                cur = []
            pp = l
            while pp.rstrip().endswith("\\") and i + 1 < len(lines):
                i += 1
                pp = pp.rstrip()[:-1] + " " + lines[i]
            chunks.append(("pp", pp))
        else:
            cur.append(l)
        i += 1
    if cur:
        chunks.append(("code", "\n".join(cur)))
    out = []
    pending = ""
    for kind, text in chunks:
        if kind == "pp":
            if pending.strip():
                out.append(collapse(pending))
                pending = ""
            out.append(collapse(text))
            continue
        depth, start = 0, 0
        for j, c in code_chars(text):
            if c in "([":
                depth += 1
            elif c in ")]":
                depth -= 1
            elif c in ";{}" and depth == 0:
                pending += text[start:j + 1]
                out.append(collapse(pending))
                pending = ""
                start = j + 1
        pending += text[start:] + " "
    if pending.strip():
        out.append(collapse(pending))
    res = []
    for e in out:
        if not e or e == ";":
            continue
        if re.match(r"^MYTH_VERIF_(POINT|SPIN)\(.*\);$", e):
            continue
        res.append(e)
    return res


def extract(items):
    """items: list of {"file":..., "fn":...}; returns list of (key, [entries])"""
    cache = {}
    out = []
    for it in items:
        path = os.path.join(common.REPO, it["file"])
        if path not in cache:
            try:
                cache[path] = drop_if0(strip_comments(open(path, errors="replace").read()))
            except OSError as e:
                raise ParseError("cannot read %s: %s" % (it["file"], e))
        if it.get("whole"):
            out.append((it["file"], entries(cache[path])))
            continue
        defs = find_bodies(cache[path], it["fn"], it.get("depth", 0))
        # a call `name(...) {`-lookalike inside another function body is excluded by the depth test; with depth > 0
        # keep only candidates that are not preceded by `=`/`return`/`(`, i.e. real definitions
        if not defs:
            raise ParseError("%s: no definition of %s found" % (it["file"], it["fn"]))
        ent = []
        for k, (sig, body) in enumerate(defs):
            if len(defs) > 1:
                ent.append("/*definition %d*/" % (k + 1))
            ent.append(collapse(sig))
            ent += entries(body)
        out.append((it["file"] + ":" + it["fn"], ent))
    return out


def lstr(s):
    return '"' + s.replace("\\", "\\\\").replace('"', '\\"') + '"'


def emit(ns, shapes, header):
    L = [header, "namespace %s" % ns, ""]
    for pid in sorted(shapes):
        L.append("def %s : List (String × List String) := [" % pid.lower())
        rows = []
        for key, ent in shapes[pid]:
            rows.append("  (%s, [\n    %s])" % (lstr(key), ",\n    ".join(lstr(e) for e in ent)))
        L.append(",\n".join(rows))
        L.append("]")
        L.append("")
    L.append("end %s" % ns)
    return "\n".join(L) + "\n"


def load_list():
    return json.load(open(LIST_JSON))


def run_all():
    lst = load_list()
    shapes = {}
    for pid, items in lst.items():
        shapes[pid] = extract(items)
    return shapes


def run():
    """translate; returns (shapes, error)"""
    try:
        with common.Lock("translate-shapes"):
            shapes = run_all()
            common.write_if_changed(os.path.join(common.LEAN, "MythVerif", "Generated", "Shapes.lean"),
                                    emit("MythVerif.Gen.Shapes", shapes,
                                         "-- GENERATED by translate/shape_extract.py from /repo's current sources; do not edit."))
    except ParseError as e:
        return None, "shape translator: " + str(e)
    return shapes, None


def diff_against_spec(shapes, pid):
    """human-readable description of how the current shapes of `pid` differ from the blessed ones"""
    try:
        spec = json.load(open(SPEC_JSON))
    except OSError:
        return ["no blessed shapes (translate/shapes_spec.json missing)"]
    cur = dict(shapes.get(pid, []))
    old = dict((k, v) for k, v in spec.get(pid, []))
    msgs = []
    for k in sorted(set(cur) | set(old)):
        if k not in old:
            msgs.append("%s: not in the blessed list" % k)
        elif k not in cur:
            msgs.append("%s: no longer extracted" % k)
        elif cur[k] != old[k]:
            import difflib
            d = [l for l in difflib.unified_diff(old[k], cur[k], lineterm="", n=0) if not l.startswith(("---", "+++", "@@"))]
            msgs.append("%s: %s" % (k, " ".join(d[:12])[:600]))
    return msgs


def main():
    if "--bless" in sys.argv:
        shapes = run_all()
        json.dump({pid: [[k, e] for k, e in v] for pid, v in shapes.items()}, open(SPEC_JSON, "w"), indent=0)
        with open(os.path.join(common.LEAN, "MythVerif", "Model", "ShapeSpec.lean"), "w") as f:
            f.write(emit("MythVerif.ShapeSpec", shapes,
                         "/-! The statement skeletons of the C functions the hand-written models transcribe, as they were when\n"
                         "    the models were last validated against the code (written by `translate/shape_extract.py --bless`;\n"
                         "    never at check time).  `Properties/Cxx.lean` proves that the skeletons re-extracted from the current\n"
                         "    source (`Generated/Shapes.lean`) equal these. -/"))
        common.write_if_changed(os.path.join(common.LEAN, "MythVerif", "Generated", "Shapes.lean"),
                                emit("MythVerif.Gen.Shapes", shapes,
                                     "-- GENERATED by translate/shape_extract.py from /repo's current sources; do not edit."))
        print("blessed", sum(len(v) for v in shapes.values()), "functions")
        return 0
    shapes, err = run()
    if err:
        print("TRANSLATOR-FAILED:", err)
        return 1
    for pid in sorted(shapes):
        d = diff_against_spec(shapes, pid)
        print(pid, len(shapes[pid]), "functions", "CHANGED: " + "; ".join(d) if d else "")
    return 0


if __name__ == "__main__":
    sys.exit(main())
