import MythVerif.Proofs.Tls
/-!
# C10 — thread-specific data is private to (thread, key) and follows the thread

Model: `MythVerif.Tls` (`myth_tls_tree_get/set`, the key allocator).  Quantification: every
geometry (in particular the compiled-in one), every key index (any `int`), every history.
-/
namespace MythVerif.Tls

/-- valid key index, as tested by `get`/`set` (`idx < 0 || idx >= myth_tls_n_keys` rejects) -/
def validKey (g : Geo) (k : Int) : Prop := 0 ≤ k ∧ k < g.nKeys

instance (g : Geo) (k : Int) : Decidable (validKey g k) := by unfold validKey; infer_instance

/-- one `set` followed by one `get`: the tree is a map on valid keys and rejects the others -/
theorem C10_get_set (g : Geo) (t : Tree) (k k' : Int) (v : Val) (ht : TreeWT g t) :
    get g (set g t k v).1 k' = if k' = k ∧ validKey g k then v else get g t k' := by
  by_cases hk : k < 0 ∨ k ≥ g.nKeys
  · have : ¬ validKey g k := by unfold validKey; omega
    simp [set, hk, this]
  · have hv : validKey g k := by unfold validKey; omega
    simp only [set, hk, if_false, hv, and_true]
    by_cases hk' : k' < 0 ∨ k' ≥ g.nKeys
    · have : k' ≠ k := by omega
      simp [get, hk', this]
    · simp only [get, hk', if_false]
      have e1 : k.toNat % g.span g.depth = k.toNat := Nat.mod_eq_of_lt (by simp [Geo.nKeys] at *; omega)
      have e2 : k'.toNat % g.span g.depth = k'.toNat := Nat.mod_eq_of_lt (by simp [Geo.nKeys] at *; omega)
      have e3 : (k'.toNat = k.toNat) ↔ (k' = k) := by omega
      cases t with
      | none =>
        simp only
        rw [getRec_setRec g _ _ _ _ _ (fresh_WT _), getRec_fresh, e1, e2]
        simp only [e3]
      | some n =>
        simp only
        rw [getRec_setRec g _ _ _ _ _ ht, e1, e2]
        simp only [e3]

/-- `set` on an invalid index returns EINVAL and changes nothing; `get` answers NULL -/
theorem C10_invalid_key_rejected (g : Geo) (t : Tree) (k : Int) (v : Val) (h : ¬ validKey g k) :
    set g t k v = (t, 22) ∧ get g t k = 0 := by
  have : k < 0 ∨ k ≥ g.nKeys := by unfold validKey at h; omega
  simp [set, get, this]

/-- a valid `set` returns 0 -/
theorem C10_valid_set_ok (g : Geo) (t : Tree) (k : Int) (v : Val) (h : validKey g k) :
    (set g t k v).2 = 0 := by
  have : ¬ (k < 0 ∨ k ≥ g.nKeys) := by unfold validKey at h; omega
  simp [set, this]

/-- abstract spec: a total map from keys to values, NULL everywhere at thread creation -/
def specMap (g : Geo) (ops : List (Int × Val)) : Int → Val :=
  ops.foldl (fun m op => if validKey g op.1 then upd m op.1 op.2 else m) (fun _ => 0)

def treeOfFrom (g : Geo) (t : Tree) (ops : List (Int × Val)) : Tree :=
  ops.foldl (fun t op => (set g t op.1 op.2).1) t

/-- **refinement**: after any sequence of stores a thread reads back exactly what the abstract
    map holds: its latest store under that key, NULL if it never stored, unaffected by stores
    under other keys -/
theorem C10_tree_refines_map (g : Geo) (ops : List (Int × Val)) (k : Int) :
    get g (treeOfFrom g none ops) k = specMap g ops k := by
  unfold specMap
  suffices h : ∀ (t : Tree) (m : Int → Val), TreeWT g t → (∀ k, get g t k = m k) →
      get g (treeOfFrom g t ops) k =
        ops.foldl (fun m op => if validKey g op.1 then upd m op.1 op.2 else m) m k by
    exact h none _ trivial (by intro k; simp [get])
  induction ops with
  | nil => intro t m _ h; exact h k
  | cons op ops ih =>
    intro t m ht h
    simp only [treeOfFrom, List.foldl_cons]
    apply ih _ _ (set_WT g t _ _ ht)
    intro k'
    rw [C10_get_set g t _ _ _ ht]
    by_cases hv : validKey g op.1
    · simp only [hv, and_true, if_true, upd_apply, h]
    · simp [hv, h]

/-- the radix decomposition used by the code is a bijection on `[0, span (d+1))`:
    equal child index and equal remainder identify the key -/
theorem C10_index_decomp (g : Geo) (d a b : Nat) (ha : a < g.span (d + 1)) (hb : b < g.span (d + 1))
    (h1 : cidx g d a = cidx g d b) (h2 : a % g.span d = b % g.span d) : a = b := by
  have := (mod_mul_eq_iff a b (g.span d) g.nC (g.span_pos d)).mpr ⟨h1, h2⟩
  rw [← Geo.span_succ, Nat.mod_eq_of_lt ha, Nat.mod_eq_of_lt hb] at this
  exact this

/-- the `/`,`%` form of the child index is the code's shift-and-mask -/
theorem C10_cidx_bits (g : Geo) (d idx : Nat) :
    cidx g d idx = (idx >>> (d * g.logC + g.logL)) &&& (g.nC - 1) := by
  unfold cidx Geo.span Geo.nC Geo.nL
  rw [Nat.and_two_pow_sub_one_eq_mod, Nat.shiftRight_eq_div_pow, ← Nat.pow_mul, ← Nat.pow_add,
    Nat.mul_comm g.logC d, Nat.add_comm]

/-! ### privacy between threads: each descriptor carries its own tree -/

/-- all threads' trees (the tree is embedded in the thread descriptor, so migrating a thread
    between workers moves it as a unit: workers do not appear in this state at all) -/
abbrev World := Nat → Tree

def wset (g : Geo) (w : World) (tid : Nat) (k : Int) (v : Val) : World := upd w tid (set g (w tid) k v).1
def wget (g : Geo) (w : World) (tid : Nat) (k : Int) : Val := get g (w tid) k

theorem C10_private_per_thread (g : Geo) (w : World) (a b : Nat) (k k' : Int) (v : Val)
    (hw : ∀ t, TreeWT g (w t)) :
    wget g (wset g w a k v) b k' = if b = a ∧ k' = k ∧ validKey g k then v else wget g w b k' := by
  unfold wget wset
  by_cases hab : b = a
  · subst hab; simp only [upd_same, true_and]; exact C10_get_set g _ _ _ _ (hw b)
  · rw [upd_other _ _ _ _ hab]; simp [hab]

theorem C10_world_WT (g : Geo) (w : World) (a : Nat) (k : Int) (v : Val) (hw : ∀ t, TreeWT g (w t)) :
    ∀ t, TreeWT g (wset g w a k v t) := by
  intro t
  unfold wset
  by_cases h : t = a
  · subst h; simp only [upd_same]; exact set_WT g _ _ _ (hw t)
  · rw [upd_other _ _ _ _ h]; exact hw t

/-! ### sequential key allocator -/

/-- allocator invariant for a table of `n` cells -/
structure KeysInv (n : Nat) (s : Keys) : Prop where
  nodup : s.free.Nodup
  range : ∀ k ∈ s.free, k < n
  dead  : ∀ k ∈ s.free, s.live k = false
  all   : ∀ k, k < n → s.live k = false → k ∈ s.free
  liveR : ∀ k, s.live k = true → k < n

theorem keys_init_inv (n : Nat) : KeysInv n (Keys.init n) := by
  constructor <;> simp [Keys.init, List.nodup_range]

theorem keys_alloc_inv (n : Nat) (s : Keys) (d : Option Nat) (h : KeysInv n s) :
    KeysInv n (s.alloc d).1 := by
  unfold Keys.alloc
  cases hf : s.free with
  | nil => simpa using h
  | cons k rest =>
    obtain ⟨h1, h2, h3, h4, h5⟩ := h
    rw [hf] at h1 h2 h3 h4
    have hnd := List.nodup_cons.mp h1
    constructor
    · exact hnd.2
    · intro j hj; exact h2 j (by simp [hj])
    · intro j hj
      have : j ≠ k := by intro e; subst e; exact hnd.1 hj
      simp only [upd_apply, this, if_false]; exact h3 j (by simp [hj])
    · intro j hj hl
      by_cases e : j = k
      · subst e; simp at hl
      · simp only [upd_apply, e, if_false] at hl
        have := h4 j hj hl
        simpa [e] using this
    · intro j hl
      by_cases e : j = k
      · subst e; exact h2 j (by simp)
      · simp only [upd_apply, e, if_false] at hl; exact h5 j hl

theorem keys_dealloc_inv (g : Geo) (s : Keys) (key : Int) (h : KeysInv g.nKeys s) :
    KeysInv g.nKeys (s.dealloc g key).1 := by
  unfold Keys.dealloc
  split
  · exact h
  · split
    · exact h
    · rename_i hr hl
      obtain ⟨h1, h2, h3, h4, h5⟩ := h
      have hlive : s.live key.toNat = true := by simpa using hl
      have hlt : key.toNat < g.nKeys := by omega
      constructor
      · refine List.nodup_cons.mpr ⟨?_, h1⟩
        intro hm; have := h3 _ hm; simp [hlive] at this
      · intro j hj
        rcases List.mem_cons.mp hj with e | e
        · subst e; exact hlt
        · exact h2 j e
      · intro j hj
        rcases List.mem_cons.mp hj with e | e
        · subst e; simp
        · have : j ≠ key.toNat := by intro e'; subst e'; have := h3 _ e; simp [hlive] at this
          simp only [upd_apply, this, if_false]; exact h3 j e
      · intro j hj hl'
        by_cases e : j = key.toNat
        · simp [e]
        · simp only [upd_apply, e, if_false] at hl'
          exact List.mem_cons_of_mem _ (h4 j hj hl')
      · intro j hl'
        by_cases e : j = key.toNat
        · subst e; exact hlt
        · simp only [upd_apply, e, if_false] at hl'; exact h5 j hl'

/-- an operation of the key API -/
inductive KOp where
  | create (d : Option Nat)
  | delete (k : Int)

def kstep (g : Geo) (s : Keys) : KOp → Keys
  | .create d => (s.alloc d).1
  | .delete k => (s.dealloc g k).1

/-- the allocator invariant holds after every history of create / delete -/
theorem keys_inv_history (g : Geo) (ops : List KOp) :
    KeysInv g.nKeys (ops.foldl (kstep g) (Keys.init g.nKeys)) := by
  suffices h : ∀ s, KeysInv g.nKeys s → KeysInv g.nKeys (ops.foldl (kstep g) s) from
    h _ (keys_init_inv _)
  induction ops with
  | nil => intro s h; exact h
  | cons op ops ih =>
    intro s h
    apply ih
    cases op with
    | create d => exact keys_alloc_inv _ s d h
    | delete k => exact keys_dealloc_inv g s k h

/-- **keys are pairwise distinct while live** (sequential histories): after any history a
    successful create returns an index inside the table that was not live, and makes it live;
    every other key keeps its status -/
theorem C10_keys_distinct_seq (g : Geo) (ops : List KOp) (d : Option Nat) (k : Int)
    (h : ((ops.foldl (kstep g) (Keys.init g.nKeys)).alloc d).2 = k) (hk : k ≠ -1) :
    let s := ops.foldl (kstep g) (Keys.init g.nKeys)
    0 ≤ k ∧ k < g.nKeys ∧ s.live k.toNat = false ∧ (s.alloc d).1.live k.toNat = true ∧
      ∀ j, j ≠ k.toNat → (s.alloc d).1.live j = s.live j := by
  intro s
  have hi : KeysInv g.nKeys s := keys_inv_history g ops
  show 0 ≤ k ∧ k < g.nKeys ∧ s.live k.toNat = false ∧ (s.alloc d).1.live k.toNat = true ∧
      ∀ j, j ≠ k.toNat → (s.alloc d).1.live j = s.live j
  have h' : (s.alloc d).2 = k := h
  unfold Keys.alloc at h' ⊢
  cases hf : s.free with
  | nil => simp [hf] at h'; omega
  | cons k0 rest =>
    simp only [hf] at h' ⊢
    subst h'
    have := hi.range k0 (by simp [hf])
    have hd := hi.dead k0 (by simp [hf])
    refine ⟨by omega, by omega, by simpa using hd, by simp, ?_⟩
    intro j hj
    simp at hj
    simp [hj]

/-- create fails exactly when all cells are live: from the empty table exactly `nKeys` creates succeed -/
theorem C10_create_fails_iff_full (g : Geo) (ops : List KOp) (d : Option Nat) :
    let s := ops.foldl (kstep g) (Keys.init g.nKeys)
    (s.alloc d).2 = -1 ↔ ∀ k, k < g.nKeys → s.live k = true := by
  intro s
  have hi : KeysInv g.nKeys s := keys_inv_history g ops
  show (s.alloc d).2 = -1 ↔ ∀ k, k < g.nKeys → s.live k = true
  unfold Keys.alloc
  cases hf : s.free with
  | nil =>
    simp only [true_iff]
    intro k hk
    cases hl : s.live k with
    | true => rfl
    | false => have := hi.all k hk hl; simp [hf] at this
  | cons k0 rest =>
    have hr := hi.range k0 (by simp [hf])
    have hd := hi.dead k0 (by simp [hf])
    constructor
    · intro h; simp at h
    · intro h; have := h k0 hr; simp [hd] at this

/-- deleting a dead or out-of-range key is rejected with EINVAL and changes nothing;
    deleting a live key succeeds and makes exactly that key dead -/
theorem C10_delete (g : Geo) (s : Keys) (k : Int) :
    (¬ (validKey g k ∧ s.live k.toNat = true) → s.dealloc g k = (s, 22)) ∧
    (validKey g k ∧ s.live k.toNat = true →
      (s.dealloc g k).2 = 0 ∧ (s.dealloc g k).1.live k.toNat = false ∧
      ∀ j, j ≠ k.toNat → (s.dealloc g k).1.live j = s.live j) := by
  unfold Keys.dealloc validKey
  constructor
  · intro h
    by_cases h1 : k < 0 ∨ k ≥ g.nKeys
    · simp [h1]
    · simp only [h1, if_false]
      have : s.live k.toNat = false := by
        cases hl : s.live k.toNat with
        | false => rfl
        | true => exact absurd ⟨⟨by omega, by omega⟩, hl⟩ h
      simp [this]
  · rintro ⟨⟨h0, h1⟩, hl⟩
    have : ¬ (k < 0 ∨ k ≥ g.nKeys) := by omega
    simp only [this, if_false, hl]
    refine ⟨by simp, by simp, ?_⟩
    intro j hj; simp [hj]

/-- **a deleted key has no destructor any more** (`myth_key_delete` clears it), and the destructors of
    all other keys are untouched: a thread that still holds a value under the deleted key does not
    have the deleted key's destructor called when it exits (the exit walk calls `dtor k` only, C11),
    and a later `create` that reuses the key installs exactly the new destructor -/
theorem C10_delete_clears_destructor (g : Geo) (s : Keys) (k : Int) (h : validKey g k ∧ s.live k.toNat = true) :
    (s.dealloc g k).1.dtor k.toNat = none ∧
    (∀ j, j ≠ k.toNat → (s.dealloc g k).1.dtor j = s.dtor j) ∧
    (∀ d, ((s.dealloc g k).1.alloc d).2 = k.toNat ∧ ((s.dealloc g k).1.alloc d).1.dtor k.toNat = d) := by
  obtain ⟨⟨h0, h1⟩, hl⟩ := h
  have hr : ¬ (k < 0 ∨ k ≥ g.nKeys) := by omega
  unfold Keys.dealloc
  simp only [hr, if_false, hl]
  refine ⟨by simp, ?_, ?_⟩
  · intro j hj; simp [hj]
  · intro d; simp [Keys.alloc]

/-! ### non-vacuity -/
example : get geo (treeOfFrom geo none [(5, 1), (1023, 2), (-1, 3), (1024, 4)]) 1023 = 2 := by decide
example : geo.nKeys = 1024 := by decide

end MythVerif.Tls

namespace MythVerif.Tls
/-- the model's geometry is the one compiled into the library (regenerated constants) -/
theorem C10_geo_matches_source : geo.nKeys = Gen.tlsNKeys ∧ geo.nC = 2 ^ Gen.tlsLogChildren ∧
    geo.nL = 2 ^ Gen.tlsLogLeaf ∧ geo.depth = Gen.tlsDepth := by decide
end MythVerif.Tls
