import MythVerif.Proofs.LifeReach
import MythVerif.Model.Attr
import MythVerif.Basic.Tso
/-!
# C01 — every created thread runs exactly once and join delivers its result

Life-cycle part: model `MythVerif.Life` (one thread record; the finishing thread and any number
of joiners, all interleavings, return and `myth_exit` both being `tFinish v`).  Attribute part:
model `MythVerif.Attr` (what `myth_thread_attr_init` sets and what `myth_create_ex` reads).
Exactly-once *dispatch* of a runnable thread by the work-stealing queues is C02; the contents of
stacks and registers across switches is C03.
-/
namespace MythVerif.Life
open MythVerif

/-- the start function is entered at most once, and exactly once before the thread finishes -/
theorem C01_start_once (arg : Val) (d : Bool) (s : St) (h : Reach arg d s) :
    s.started ≤ 1 ∧ (s.tpc ≠ .created → s.started = 1) := by
  have hi := reach_inv arg d s h
  refine ⟨hi.st1, fun hne => ?_⟩
  have := hi.st0
  have h1 := hi.st1
  have : s.started ≠ 0 := fun e => hne (this.mpr e)
  omega

/-- **join returns only after the function has returned / called exit, with exactly that value**:
    a join (or successful try/timed-join) reads its value only when the target has published
    `FREE_READY2`, and the value is the one the target returned or passed to `myth_exit` -/
theorem C01_join_after_finish (arg : Val) (d : Bool) (s s' : St) (h : Reach arg d s) (j : Tid) (v : Val)
    (hs : step s (.jReap j v) = some s') : s.fin = true ∧ s.tpc = .fDone ∧ s.retv = some v := by
  have hi := reach_inv arg d s h
  simp only [step] at hs
  split at hs
  · rename_i hc
    have hd := (hi.finD hc.2.1).1
    have hr : s.retv ≠ none := fun e => by
      have := hi.rv0.mpr e; simp [hd] at this
    refine ⟨hc.2.1, hd, ?_⟩
    rcases hi.rv1 with e | e
    · exact absurd e hr
    · rw [e, hc.2.2]
  · simp at hs

/-- the value a joiner returns is the target's return / exit value -/
theorem C01_join_value (arg : Val) (d : Bool) (s : St) (h : Reach arg d s) (j : Tid) (v : Val)
    (hj : s.pc j = .done v) : s.retv = some v :=
  (reach_inv arg d s h).jfv j v (Or.inr hj)

/-- **the result is stable**: only the finishing step writes `result`, it happens at most once,
    and from then on `result` is the returned value until the record is released -/
theorem C01_result_stable (arg : Val) (d : Bool) (s s' : St) (h : Reach arg d s) (l : Lbl)
    (hs : step s l = some s') (hr : s.retv ≠ none) : s'.result = s.result ∧ s'.retv = s.retv := by
  have hi := reach_inv arg d s h
  cases l <;> simp only [step] at hs
  case tFinish v =>
    split at hs
    · rename_i hc; have := hi.rv0.mp (Or.inr hc); exact absurd this hr
    · simp at hs
  all_goals (
    repeat' (split at hs)
    all_goals (first | (simp at hs; done) | skip)
    all_goals (try (simp at hs; subst hs))
    all_goals (first | exact ⟨rfl, rfl⟩ | simp_all))

/-- **single waiter hand-off**: a registered joiner registered itself only after its context
    was saved; while it is asleep the target has not published yet and will still resume it
    (the target is before its lock, or has read exactly this waiter) -/
theorem C01_single_waiter_handoff (arg : Val) (d : Bool) (s : St) (h : Reach arg d s) (j : Tid)
    (hj : s.pc j = .asleep) :
    s.jSaved j = true ∧ s.fin = false ∧ s.tpc ≠ .fDone ∧ s.tpc ≠ .fFreeing ∧
    ((tBeforeLock s.tpc = true ∧ s.jt = some j) ∨ s.tpc = .fRead (some j) ∨ s.tpc = .fSwitched (some j)) := by
  have hi := reach_inv arg d s h
  have hs := hi.slp j hj
  have hnd : s.tpc ≠ .fDone ∧ s.tpc ≠ .fFreeing := by
    rcases hs with ⟨hb, _⟩ | e | e
    · constructor <;> (intro e; simp [e, tBeforeLock] at hb)
    · simp [e]
    · simp [e]
  refine ⟨hi.swS j (Or.inr hj), ?_, hnd.1, hnd.2, hs⟩
  cases hf : s.fin with
  | false => rfl
  | true => exact absurd (hi.finD hf).1 hnd.1

/-- the waiter is resumed exactly by the target's publish step: no other step changes the
    program counter of a sleeping joiner, and the sleeper itself takes no step -/
theorem C01_waiter_resumed_by_publish (s s' : St) (l : Lbl) (j : Tid) (hj : s.pc j = .asleep)
    (hs : step s l = some s') : s'.pc j = .asleep ∨ (l = .tPublish false ∧ s'.pc j = .jSpin ∧ s'.fin = true) := by
  cases l <;> simp only [step] at hs
  case tPublish dd =>
    split at hs
    · rename_i w _
      split at hs
      · split at hs
        · simp at hs; subst hs; left; exact hj
        · rename_i hd hdd
          simp at hs; subst hs
          cases w with
          | none => left; exact hj
          | some k =>
            by_cases e : j = k
            · subst e; right; simp at hdd; subst hdd; simp
            · left; simp [upd_apply, e, hj]
      · simp at hs
    · simp at hs
  all_goals (
    left
    repeat' (split at hs)
    all_goals (first | (simp at hs; done) | skip)
    all_goals (try (simp at hs; subst hs))
    all_goals (first | grind [upd_apply] | simp_all))

/-! ### non-vacuity -/
example : ∃ s, runs step (init 3 false) [.tStart, .jLocked 9 false, .jSwitch 9, .jSet 9] = some s ∧
    s.pc 9 = .asleep ∧ s.jt = some 9 := by
  refine ⟨_, rfl, ?_⟩; decide

end MythVerif.Life

namespace MythVerif.Attr

/-- **attribute objects prepared with the public functions**: whatever garbage the memory held
    before `myth_thread_attr_init`, after it and any sequence of the public setters every field
    that `myth_create_ex` reads is defined, and equals the default except where a setter was used -/
theorem C01_attr_defaults (garbage : Raw) (sets : List Setter) (dflt : Defaults) :
    let a := applySetters (attrInit dflt garbage) sets
    (∀ f ∈ createReads, a.get f ≠ none) ∧
    (∀ f ∈ createReads, (∀ st ∈ sets, st.field ≠ f) → a.get f = some (defaultOf dflt f)) := by
  intro a
  have hinit : ∀ f ∈ createReads, (attrInit dflt garbage).get f = some (defaultOf dflt f) := by
    intro f hf
    simp only [createReads, List.mem_cons, List.mem_nil_iff, or_false] at hf
    rcases hf with e | e | e | e | e <;> subst e <;> rfl
  have gen : ∀ (sets : List Setter) (r : Raw), (∀ f ∈ createReads, r.get f ≠ none) →
      (∀ f ∈ createReads, (applySetters r sets).get f ≠ none) := by
    intro sets
    induction sets with
    | nil => intro r h; exact h
    | cons st rest ih =>
      intro r h
      apply ih
      intro f hf
      by_cases e : st.field = f
      · simp [applySetter, Raw.set, Raw.get, e]
      · simp only [applySetter, Raw.set, Raw.get, e, if_false]; exact h f hf
  have gen2 : ∀ (sets : List Setter) (r : Raw) (f : Field), (∀ st ∈ sets, st.field ≠ f) →
      (applySetters r sets).get f = r.get f := by
    intro sets
    induction sets with
    | nil => intro r f _; rfl
    | cons st rest ih =>
      intro r f h
      have h1 : st.field ≠ f := h st (by simp)
      rw [applySetters, List.foldl_cons]
      have := ih (applySetter r st) f (fun s hs => h s (by simp [hs]))
      simp only [applySetters] at this
      rw [this]
      simp [applySetter, Raw.set, Raw.get, h1]
  refine ⟨gen sets _ (fun f hf => by rw [hinit f hf]; simp), ?_⟩
  intro f hf hno
  show (applySetters (attrInit dflt garbage) sets).get f = _
  rw [gen2 sets _ f hno, hinit f hf]

/-- the documented NULL `id` pointer: creation succeeds and stores nothing through it -/
theorem C01_null_id (idp : Option Nat) : (createStoresId idp).isSome = idp.isSome := by
  cases idp <;> rfl

/-- **the pinned snapshot violated this**: its `attr_init` left the two custom-data fields
    unset although creation reads them -/
theorem C01_pinned_attr_init_leaves_fields_unset :
    ∃ f ∈ createReads, (attrInitPinned ⟨1, 2, 1⟩ (fun _ => none)).get f = none := by
  exact ⟨.customDataSize, by decide, rfl⟩

end MythVerif.Attr

namespace MythVerif.Tso

/-- **every write of the thread is visible to the joiner, under x86-TSO store buffering.**
    The finishing thread's worker `cw` issues, in program order, the thread's own memory writes
    `writes`, then the store of the return / exit value into `result`, then the store of
    `FREE_READY2` into `status` (`myth_entry_point_1/_2`), then anything else (the unlock, the
    scheduler) that touches none of these locations.  While the thread is live only its worker
    writes these locations.  Store buffers are unbounded FIFOs flushed at arbitrary moments, any
    number of other workers run arbitrary code.  Then ANY other worker whose load of `status`
    returns `FREE_READY2` — the join path's finished test — reads, in that state, the return value
    from `result` and, from every location the thread wrote, the last value the thread wrote there.
    (A joiner resumed directly by the finisher runs on the finisher's own worker, i.e. in program
    order; a thread that migrated while running was handed over through the run queue, whose
    hand-over is itself this message-passing pattern on `top` / `base`: C02.) -/
theorem C01_visibility_tso (m0 : Loc → Val) (cw jw : Tid) (status result : Loc) (fr2 retv : Val)
    (ls : List Lbl) (s : St) (writes post : List (Loc × Val))
    (hr : runs step (init m0) ls = some s) (hne : jw ≠ cw) (hrs : result ≠ status)
    (hok : ∀ l, (l = status ∨ l = result ∨ ∃ e ∈ writes, e.1 = l) →
             ∀ lb ∈ ls, lb.writes l = true → lb.isStoreBy cw = true)
    (hlog : s.done cw ++ s.buf cw = (writes ++ [(result, retv)]) ++ (status, fr2) :: post)
    (hw : ∀ e ∈ writes, e.1 ≠ status ∧ e.1 ≠ result)
    (hpost : ∀ e ∈ post, e.1 ≠ status ∧ e.1 ≠ result ∧ ∀ e' ∈ writes, e.1 ≠ e'.1)
    (h0 : m0 status ≠ fr2) (hsee : view s jw status = fr2) :
    view s jw result = retv ∧ ∀ e ∈ writes, view s jw e.1 = applyStores m0 writes e.1 := by
  have hdata : ∀ e ∈ writes ++ [(result, retv)], e.1 ≠ status := by
    intro e he
    simp only [List.mem_append, List.mem_singleton] at he
    rcases he with he | he
    · exact (hw e he).1
    · subst he; exact hrs
  refine ⟨?_, ?_⟩
  · have := (message_passing m0 cw jw status result fr2 ls s (writes ++ [(result, retv)]) post hr hne hrs
      (hok status (Or.inl rfl)) (hok result (Or.inr (Or.inl rfl))) hlog hdata
      (fun e he => ⟨(hpost e he).1, (hpost e he).2.1⟩) h0 hsee).1
    rw [this, applyStores_append]
    simp [applyStores, upd]
  · intro e he
    have hes : e.1 ≠ status := (hw e he).1
    have := (message_passing m0 cw jw status e.1 fr2 ls s (writes ++ [(result, retv)]) post hr hne hes
      (hok status (Or.inl rfl)) (hok e.1 (Or.inr (Or.inr ⟨e, he, rfl⟩))) hlog hdata
      (fun e' he' => ⟨(hpost e' he').1, (hpost e' he').2.2 e he⟩) h0 hsee).1
    rw [this, applyStores_append]
    simp only [applyStores]
    simp [upd, (hw e he).2]

/-- non-vacuity: worker 1 runs the thread (writes cells 20 and 21, cell 20 twice), stores the result 77
    into location 2 and FREE_READY2 (= 3) into location 1, then unlocks (location 0); the joiner's
    worker 2 first sees the old status, later the new one, and then reads 77 and the final cell values;
    worker 1's unlock store is still buffered -/
example :
    (runs step (init (fun _ => 0))
      [.store 1 20 5, .store 1 21 6, .store 1 20 9, .store 1 2 77, .store 1 1 3, .store 1 0 0,
       .flush 1, .flush 1, .load 2 1 0, .flush 1, .flush 1, .flush 1,
       .load 2 1 3, .load 2 2 77, .load 2 20 9, .load 2 21 6]).map (fun s => (s.buf 1, s.done 1 ++ s.buf 1)) =
      some ([(0, 0)], ([(20, 5), (21, 6), (20, 9)] ++ [(2, 77)]) ++ (1, 3) :: [(0, 0)]) := by
  decide

end MythVerif.Tso
