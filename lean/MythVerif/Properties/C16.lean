import MythVerif.Model.PthreadSpec
import MythVerif.Proofs.MutexStaticInit
import MythVerif.Proofs.PthProg
import MythVerif.Proofs.PthGate
import MythVerif.Proofs.PthOnce
/-!
# C16 — pthread programs behave the same on MassiveThreads as on the system pthreads

Four layers (DESIGN §4 C16):

1. **forwarding table** — `Gen.Wrap.table` / `Gen.Wrap.ldWrapped` are re-extracted from
   src/myth_wrap_pthread.c and src/myth-ld.opts on every run; `C16_forwarding` compares them with
   the hand-written expectation `PthreadSpec.spec` (`decide`);
2. **static initialisers** — `MythVerif.SInit`: any number of threads first-using one
   never-initialised mutex, one label per shared access (`C16_static_init_*`);
3. **attribute translation** — `pthread_attr_to_myth` on top of the attribute model of C01
   (`C16_attr_no_undef`, `C16_attr_detached`);
4. **programs** — `MythVerif.PthProg`: `C16_eval_determinate` for the fork-join +
   lock-protected-commutative fragment; `MythVerif.PthGate`: the same fragment extended by monotone
   condition-variable gates (`post` / `await`): `C16_eval_determinate_gates` (any two complete
   executions agree, and equal the closed formula), `C16_gates_monotone`,
   `C16_gates_stuck_is_deadlock` (no divergence: the only way not to terminate is a deadlock);
   `MythVerif.PthOnce`: that fragment extended by one-time initialisation (`once k` with a fixed
   routine of lock-protected counter updates per control): `C16_eval_determinate_once` (the
   routine of every mentioned, not yet done control is counted exactly once, whatever the number
   of callers and their order), `C16_once_runs_once`, `C16_once_stuck_is_deadlock`.
   For the other constructs of the description language
   (bounded buffers, barrier phases, keys, detached threads, sleeps)
   determinacy is by construction of the generator; what a generated program prints under the
   system library, under both redirection mechanisms and under `Flat.eval` is compared by
   differential execution (check/props/c16.py) — the system library is the oracle there, not a
   theorem.
-/

namespace MythVerif.PthreadSpec
open MythVerif.Gen.Wrap MythVerif.Attr

set_option maxRecDepth 1000000 in
/-- **forwarding**: for every function of the supported subset the wrapper extracted from the
    current source is exactly the expected one (MassiveThreads entry point, argument order,
    attribute conversion, static-initialiser handling first, result translation, real function and
    its argument order otherwise); every supported name — and every wrapper at all — has its
    `--wrap` entry in myth-ld.opts; the preloading build defines the same table; no supported
    function only warns, and none forwards to a body that calls `unimplemented()`. -/
theorem C16_forwarding :
    supported.map lookup = spec.map some ∧
    (∀ n ∈ supported, n ∈ ldWrapped) ∧
    (∀ e ∈ table, e.name ∈ ldWrapped) ∧
    dlTableEqualsLd = true ∧
    (∀ e ∈ table, e.name ∈ supported → (e.kind = .forward ∨ e.kind = .passthrough) ∧ e.mythFn ∉ unimplementedBodies) ∧
    (table.map (·.name)).Nodup := by
  decide

/-- **the system-library side** (src/myth_real.c): for every supported function `f`, `real_f` calls
    `__real_f` in the link-time-wrapped build (the linker's name for the unwrapped symbol) and the
    `dlsym`-resolved `real_function_table.f` in the preloaded build, with its parameters in order —
    in particular it never calls the wrapped name `f` again. -/
theorem C16_real_targets :
    ∀ n ∈ supported, (n, "__real_" ++ n, "real_function_table." ++ n) ∈ realTargets := by
  decide

/-- the two helper functions the models transcribe, and the switch that turns wrapping off, have
    the statement skeleton the models assume -/
theorem C16_helper_shapes :
    handlerShape = handlerShapeSpec ∧ attrToMythShape = attrToMythShapeSpec ∧
    shouldWrapShape = shouldWrapShapeSpec := by
  decide

/-- **objects are compatible**: a `PTHREAD_MUTEX_INITIALIZER` object starts with a word that is
    neither magic number (so the first use converts it) and the magic word is the first word; the
    myth objects fit into the pthread objects they overlay; a `PTHREAD_COND_INITIALIZER` object
    and `PTHREAD_ONCE_INIT` ARE a fresh myth condition variable / once-control (all-zero =
    `MYTH_COND_INITIALIZER`, `myth_once_state_init`), so they need no conversion;
    `PTHREAD_CREATE_JOINABLE` is 0 and `PTHREAD_CREATE_DETACHED` is not (myth tests the detach
    state for non-zero); the barrier's serial-thread value is translated; the key space has the
    system's size; a default attribute object asks for stack size 0 = the library default. -/
theorem C16_static_objects :
    pthreadMutexInitializerMagic ≠ mutexMagicNo ∧ pthreadMutexInitializerMagic ≠ mutexMagicInitializing ∧
    mutexMagicNo ≠ mutexMagicInitializing ∧ mutexMagicOffset = 0 ∧
    mythMutexInitializerState = 0 ∧ mythMutexInitializerType = mythMutexDefaultType ∧ mythMutexInitializerQueueZero = 1 ∧
    szMythMutex ≤ szPthreadMutex ∧ szMythCond ≤ szPthreadCond ∧ szMythBarrier ≤ szPthreadBarrier ∧
    szMythSpin ≤ szPthreadSpin ∧ szMythOnce ≤ szPthreadOnce ∧ szMythKey ≤ szPthreadKey ∧ szMythThreadT ≤ szPthreadT ∧
    pthreadCondInitializerAllZero = 1 ∧ mythCondInitializerQueueZero = 1 ∧
    pthreadOnceInit = mythOnceStateInit ∧ mythOnceStateInit = Gen.onceInit ∧
    createJoinable = 0 ∧ createDetached ≠ 0 ∧
    mythBarrierSerial ≠ 0 ∧ pthreadBarrierSerial ≠ 0 ∧
    pthreadKeysMax = Gen.tlsNKeys ∧
    defaultAttrStackSize = 0 ∧ defaultAttrDetachState = createJoinable ∧ detachedAttrDetachState = createDetached := by
  decide

/-- **attribute translation reads nothing unset**: for a non-NULL `pthread_attr_t`, whatever
    garbage the local `myth_thread_attr_t` held, after `pthread_attr_to_myth` every field that
    `myth_create_ex_body` reads is set; the detach state and the stack size are the pthread
    object's, every other field read has the library default. -/
theorem C16_attr_no_undef (garbage : Field → Option Nat) (p : PAttr) (d : Defaults) :
    let a := attrToMyth d garbage p
    (∀ f ∈ createReads, a.get f ≠ none) ∧
    a.get .detachstate = some p.detachstate ∧ a.get .stacksize = some p.stacksize ∧
    (∀ f ∈ createReads, f ≠ .detachstate → f ≠ .stacksize → a.get f = some (defaultOf d f)) := by
  intro a
  refine ⟨?_, ?_, ?_, ?_⟩
  · intro f hf
    simp only [createReads, List.mem_cons, List.not_mem_nil, or_false] at hf
    rcases hf with rfl | rfl | rfl | rfl | rfl <;> simp [a, attrToMyth, attrInit, Raw.set, Raw.get]
  · simp [a, attrToMyth, Raw.set, Raw.get]
  · simp [a, attrToMyth, Raw.set, Raw.get]
  · intro f hf h1 h2
    simp only [createReads, List.mem_cons, List.not_mem_nil, or_false] at hf
    rcases hf with rfl | rfl | rfl | rfl | rfl <;> simp_all [a, attrToMyth, attrInit, Raw.set, Raw.get, defaultOf]

/-- **detach state is honoured**: a thread created from an attribute object is created detached
    iff the pthread object's detach state is non-zero; with the constants of this C library:
    `PTHREAD_CREATE_DETACHED` ⇒ detached, `PTHREAD_CREATE_JOINABLE` and a default object ⇒ joinable,
    and a default object requests the default stack. -/
theorem C16_attr_detached (garbage : Field → Option Nat) (p : PAttr) (d : Defaults) :
    createdDetached (attrToMyth d garbage p) = some (p.detachstate != 0) ∧
    (p.detachstate = createDetached → createdDetached (attrToMyth d garbage p) = some true) ∧
    (p.detachstate = createJoinable → createdDetached (attrToMyth d garbage p) = some false) ∧
    createdDetached (attrToMyth d garbage defaultPAttr) = some false ∧
    stackRequest (attrToMyth d garbage defaultPAttr) = some 0 := by
  have h : createdDetached (attrToMyth d garbage p) = some (p.detachstate != 0) := by
    simp [createdDetached, attrToMyth, Raw.set, Raw.get]
  refine ⟨h, ?_, ?_, ?_, ?_⟩
  · intro hp; rw [h, hp]; decide
  · intro hp; rw [h, hp]; decide
  · simp [createdDetached, attrToMyth, Raw.set, Raw.get, defaultPAttr]; decide
  · simp [stackRequest, attrToMyth, Raw.set, Raw.get, defaultPAttr]; decide

/-- non-vacuity: `pthread_cond_timedwait` is wrapped, but its body is one of the unimplemented ones —
    which is why it is not in the supported subset -/
example : (lookup "pthread_cond_timedwait").map (·.mythFn) = some "myth_cond_timedwait_body" ∧
    "myth_cond_timedwait_body" ∈ unimplementedBodies ∧ "pthread_cond_timedwait" ∉ supported := by decide

/-- non-vacuity: the comparison is sensitive to the argument order -/
example : (fun (e : Entry) => { e with mythArgs := e.mythArgs.reverse }) <$> lookup "pthread_setspecific"
    ≠ lookup "pthread_setspecific" := by decide

end MythVerif.PthreadSpec

namespace MythVerif.SInit
open MythVerif

/-- the model's constants are the header's -/
theorem C16_static_init_constants :
    mNo = Gen.Wrap.mutexMagicNo ∧ mIni = Gen.Wrap.mutexMagicInitializing ∧ mNo ≠ mIni ∧
    Raw Gen.Wrap.pthreadMutexInitializerMagic ∧ dfltType = Gen.Wrap.mythMutexDefaultType := by
  refine ⟨rfl, rfl, mNo_ne_mIni, ⟨?_, ?_⟩, ?_⟩ <;> decide

/-- **exactly one conversion (states)**: whatever the memory held (first word `z` not a magic
    number) and however many threads first-use the object in whatever interleaving: the electing
    CAS succeeds at most once; at most one thread is ever converting; a thread is inside the mutex
    body only when the magic word is `magic_no`, which implies that exactly one conversion has
    happened and that at its publishing store the object was equal to a freshly initialised mutex;
    and until the first mutex-body access the object still equals a fresh mutex (default type,
    empty queue, state 0). -/
theorem C16_static_init_once (z a : Nat) (q : Bool) (st : Nat) (hz : Raw z) (s : St)
    (h : Reachable step (init z a q st) s) :
    s.convs ≤ 1 ∧
    (∀ t1 t2, converting (s.pc t1) = true → converting (s.pc t2) = true → t1 = t2) ∧
    (∀ t, s.pc t = .body → s.magic = mNo) ∧
    (s.magic = mNo → s.convs = 1 ∧ s.pubFresh = true) ∧
    (s.magic = mNo → s.bodySteps = 0 → s.fresh = true) := by
  have hi := reachable_inv hz s h
  refine ⟨hi.c1, ?_, hi.body, ?_, ?_⟩
  · intro t1 t2 h1 h2
    have a1 := hi.own t1 h1
    have a2 := hi.own t2 h2
    rw [a1] at a2; exact Option.some.inj a2
  · intro hm
    refine ⟨?_, hi.pub hm⟩
    have : s.convs ≠ 0 := fun e => hz.1 ((hi.c0.mp e).symm.trans hm)
    have := hi.c1; omega
  · intro hm hb
    exact (fresh_iff s).mpr (hi.fresh0 hm hb)

/-- **exactly one conversion (label sequences, no ghosts)**: in every executable label sequence at
    most one electing CAS succeeds and at most one publishing store is executed; if any thread's
    handler has returned then exactly one of each happened, and the publishing store precedes (or
    is) the label on which that handler returned. -/
theorem C16_static_init_once_trace (z a : Nat) (q : Bool) (st : Nat) (hz : Raw z) (ls : List Lbl) (s : St)
    (h : runs step (init z a q st) ls = some s) :
    ls.countP isWin ≤ 1 ∧ ls.countP isPublish ≤ 1 ∧
    (∀ pre l post, ls = pre ++ l :: post → entersBody l = true →
       (pre ++ [l]).countP isPublish = 1 ∧ (pre ++ [l]).countP isWin = 1) := by
  have hi0 := inv_init z a q st hz
  have hc := convs_runs ls _ s h
  have hr := C16_static_init_once z a q st hz s ⟨ls, h⟩
  have hp := publishes_runs hz ls _ s hi0 h
  have hz0 : (init z a q st).magic ≠ mNo := hz.1
  refine ⟨?_, ?_, ?_⟩
  · simp [init] at hc; omega
  · simp [hz0] at hp; split at hp <;> omega
  · intro pre l post hls he
    subst hls
    obtain ⟨s1, s2, h1, h2, _⟩ := runs_split step _ s pre l post h
    have hrun : runs step (init z a q st) (pre ++ [l]) = some s2 := by
      rw [runs_append, h1]; simp [runs, h2]
    have hi2 := reachable_inv hz s2 ⟨_, hrun⟩
    have hm : s2.magic = mNo := hi2.body _ (entersBody_pc s1 s2 l h2 he)
    have hp2 := publishes_runs hz (pre ++ [l]) _ s2 hi0 hrun
    have hc2 := convs_runs (pre ++ [l]) _ s2 hrun
    have hone := (C16_static_init_once z a q st hz s2 ⟨_, hrun⟩).2.2.2.1 hm
    refine ⟨?_, ?_⟩
    · simp [hz0, hm] at hp2; simpa using hp2
    · have h1 : s2.convs = 1 := hone.1
      rw [hc2] at h1; simpa [init] using h1

/-- **the converted object equals a freshly initialised mutex**: at the publishing store all four
    words have been written — default type, empty queue, state 0 — and the store makes the magic
    word `magic_no`, so the object is exactly what `myth_mutex_init(m, 0)` produces. -/
theorem C16_static_init_publishes_fresh (z a : Nat) (q : Bool) (st : Nat) (hz : Raw z) (s s' : St) (t : Tid)
    (h : Reachable step (init z a q st) s) (hs : step s (.publish t) = some s') :
    s'.magic = mNo ∧ s'.atype = dfltType ∧ s'.qEmpty = true ∧ s'.mstate = 0 ∧ s'.pc t = .body := by
  have hi := reachable_inv hz s h
  simp only [step] at hs
  split at hs
  · rename_i hp
    have hf := hi.fen t hp
    simp at hs; subst hs
    simp [hf]
  · simp at hs

/-- **nothing is converted twice, nothing overwrites a live mutex**: once the magic word is
    `magic_no` it stays so, no step changes the type, and the state word / queue are changed only
    by mutex-body accesses of threads whose handler has returned (never by a late converter). -/
theorem C16_static_init_stable (z a : Nat) (q : Bool) (st : Nat) (hz : Raw z) (s s' : St) (l : Lbl)
    (h : Reachable step (init z a q st) s) (hm : s.magic = mNo) (hs : step s l = some s') :
    s'.magic = mNo ∧ s'.atype = s.atype ∧
    ((s'.mstate ≠ s.mstate ∨ s'.qEmpty ≠ s.qEmpty) → ∃ t v b, l = .bodyStep t v b ∧ s.pc t = .body) := by
  have hi := reachable_inv hz s h
  have hne := mNo_ne_mIni
  have hnoconv : ∀ u, converting (s.pc u) = false := by
    intro u
    cases hcu : converting (s.pc u) with
    | false => rfl
    | true =>
      have := (hi.ini u (hi.own u hcu)).mp hcu
      rw [hm] at this; exact absurd this hne
  have hmag : s'.magic = mNo := by
    rcases magic_step hz s s' l hi hs with ⟨_, b, _⟩ | ⟨_, b⟩
    · exact absurd hm b
    · exact b.mpr hm
  refine ⟨hmag, ?_, ?_⟩
  · cases l with
    | copyWord t w =>
      simp only [step] at hs
      split at hs
      all_goals first
        | (simp at hs; done)
        | (rename_i hp; have := hnoconv t; rw [hp] at this; simp [converting] at this)
    | read t v => simp only [step] at hs; (repeat' split at hs) <;> simp at hs <;> subst hs <;> rfl
    | skipCas t => simp only [step] at hs; (repeat' split at hs) <;> simp at hs <;> subst hs <;> rfl
    | cas t ok => simp only [step] at hs; (repeat' split at hs) <;> simp at hs <;> subst hs <;> rfl
    | fence t => simp only [step] at hs; (repeat' split at hs) <;> simp at hs <;> subst hs <;> rfl
    | publish t => simp only [step] at hs; (repeat' split at hs) <;> simp at hs <;> subst hs <;> rfl
    | spinRead t v => simp only [step] at hs; (repeat' split at hs) <;> simp at hs <;> subst hs <;> rfl
    | assertRead t v => simp only [step] at hs; (repeat' split at hs) <;> simp at hs <;> subst hs <;> rfl
    | bodyStep t v b => simp only [step] at hs; (repeat' split at hs) <;> simp at hs <;> subst hs <;> rfl
    | leave t => simp only [step] at hs; (repeat' split at hs) <;> simp at hs <;> subst hs <;> rfl
  · intro hch
    cases l with
    | bodyStep t v b =>
      refine ⟨t, v, b, rfl, ?_⟩
      simp only [step] at hs
      split at hs
      · assumption
      · simp at hs
    | copyWord t w =>
      simp only [step] at hs
      split at hs
      all_goals first
        | (simp at hs; done)
        | (rename_i hp; have := hnoconv t; rw [hp] at this; simp [converting] at this)
    | read t v => simp only [step] at hs; (repeat' split at hs) <;> simp at hs <;> subst hs <;> simp at hch
    | skipCas t => simp only [step] at hs; (repeat' split at hs) <;> simp at hs <;> subst hs <;> simp at hch
    | cas t ok => simp only [step] at hs; (repeat' split at hs) <;> simp at hs <;> subst hs <;> simp at hch
    | fence t => simp only [step] at hs; (repeat' split at hs) <;> simp at hs <;> subst hs <;> simp at hch
    | publish t => simp only [step] at hs; (repeat' split at hs) <;> simp at hs <;> subst hs <;> simp at hch
    | spinRead t v => simp only [step] at hs; (repeat' split at hs) <;> simp at hs <;> subst hs <;> simp at hch
    | assertRead t v => simp only [step] at hs; (repeat' split at hs) <;> simp at hs <;> subst hs <;> simp at hch
    | leave t => simp only [step] at hs; (repeat' split at hs) <;> simp at hs <;> subst hs <;> simp at hch

/-- the assertion after the wait loop never fails: the value it reads is `magic_no` -/
theorem C16_static_init_assert_holds (z a : Nat) (q : Bool) (st : Nat) (hz : Raw z) (s s' : St) (t : Tid) (v : Nat)
    (h : Reachable step (init z a q st) s) (hs : step s (.assertRead t v) = some s') : v = mNo := by
  have hi := reachable_inv hz s h
  simp only [step] at hs
  split at hs
  · rename_i hc; rw [hc.1]; exact hi.chk t hc.2
  · simp at hs

/-- **stuck-freedom (1): nobody is ever disabled.**  In every state every thread has an enabled
    step: the waiters spin, they do not block. -/
theorem C16_static_init_never_disabled (s : St) (t : Tid) : ∃ l, l.actor = t ∧ (step s l).isSome = true := by
  cases hp : s.pc t with
  | idle => exact ⟨.read t s.magic, rfl, by simp [step, hp]; split <;> rfl⟩
  | rd v =>
    by_cases hv : v = mIni
    · exact ⟨.skipCas t, rfl, by simp [step, hp, hv]⟩
    · refine ⟨.cas t (decide (s.magic = v)), rfl, ?_⟩
      simp only [step, hp]
      by_cases hm : s.magic = v <;> simp [hv, hm]
  | won a q st m =>
    cases a with
    | false => exact ⟨.copyWord t .attr, rfl, by simp [step, hp]⟩
    | true =>
      cases q with
      | false => exact ⟨.copyWord t .queue, rfl, by simp [step, hp]⟩
      | true =>
        cases st with
        | false => exact ⟨.copyWord t .state, rfl, by simp [step, hp]⟩
        | true =>
          cases m with
          | false => exact ⟨.copyWord t .magic, rfl, by simp [step, hp]⟩
          | true => exact ⟨.fence t, rfl, by simp [step, hp]⟩
  | fenced => exact ⟨.publish t, rfl, by simp [step, hp]⟩
  | spin => exact ⟨.spinRead t s.magic, rfl, by simp [step, hp]; split <;> rfl⟩
  | chk => exact ⟨.assertRead t s.magic, rfl, by simp [step, hp]⟩
  | body => exact ⟨.leave t, rfl, by simp [step, hp]⟩

/-- a converting thread has an enabled step, each such step decreases `remaining`, and `remaining`
    reaches 0 exactly when `magic_no` is published -/
theorem conv_progress (s : St) (w : Tid) (hconv : converting (s.pc w) = true) :
    ∃ l s', l.actor = w ∧ step s l = some s' ∧ remaining (s'.pc w) < remaining (s.pc w) ∧
      (remaining (s'.pc w) = 0 → s'.magic = mNo) := by
  cases hp : s.pc w with
  | won a q st m =>
    cases a with
    | false =>
      refine ⟨.copyWord w .attr, { s with atype := dfltType, pc := upd s.pc w (.won true q st m) }, rfl, ?_, ?_, ?_⟩
      · simp [step, hp]
      · simp [remaining]
      · simp [remaining]
    | true =>
      cases q with
      | false =>
        refine ⟨.copyWord w .queue, { s with qEmpty := true, pc := upd s.pc w (.won true true st m) }, rfl, ?_, ?_, ?_⟩
        · simp [step, hp]
        · simp [remaining]
        · simp [remaining]
      | true =>
        cases st with
        | false =>
          refine ⟨.copyWord w .state, { s with mstate := 0, pc := upd s.pc w (.won true true true m) }, rfl, ?_, ?_, ?_⟩
          · simp [step, hp]
          · simp [remaining]
          · simp [remaining]
        | true =>
          cases m with
          | false =>
            refine ⟨.copyWord w .magic, { s with magic := mIni, pc := upd s.pc w (.won true true true true) }, rfl, ?_, ?_, ?_⟩
            · simp [step, hp]
            · simp [remaining]
            · simp [remaining]
          | true =>
            refine ⟨.fence w, { s with pc := upd s.pc w .fenced }, rfl, ?_, ?_, ?_⟩
            · simp [step, hp]
            · simp [remaining]
            · simp [remaining]
  | fenced =>
    refine ⟨.publish w, { s with magic := mNo, pc := upd s.pc w .body, pubFresh := s.fresh }, rfl, ?_, ?_, ?_⟩
    · simp [step, hp]
    · simp [remaining]
    · simp
  | idle => simp [hp, converting] at hconv
  | rd v => simp [hp, converting] at hconv
  | spin => simp [hp, converting] at hconv
  | chk => simp [hp, converting] at hconv
  | body => simp [hp, converting] at hconv

/-- **stuck-freedom (2): waiters have hope.**  Whenever the magic word reads `initializing` (which
    is what keeps a waiter in its loop) there is a converter that is not the waiter, it has an
    enabled step, and every one of its steps decreases `remaining`, which reaches 0 exactly when
    `magic_no` is published: at most 6 steps of one thread that depend on nobody else. -/
theorem C16_static_init_waiters_have_hope (z a : Nat) (q : Bool) (st : Nat) (hz : Raw z) (s : St)
    (h : Reachable step (init z a q st) s) (hm : s.magic = mIni) :
    ∃ w, s.converter = some w ∧ converting (s.pc w) = true ∧ remaining (s.pc w) ≤ 6 ∧
      (∀ t, s.pc t = .spin ∨ (∃ v, s.pc t = .rd v) → t ≠ w) ∧
      ∃ l s', l.actor = w ∧ step s l = some s' ∧ remaining (s'.pc w) < remaining (s.pc w) ∧
        (remaining (s'.pc w) = 0 → s'.magic = mNo) := by
  have hi := reachable_inv hz s h
  have hne := mNo_ne_mIni
  have hc : s.convs ≠ 0 := fun e => hz.2 ((hi.c0.mp e).symm.trans hm)
  cases hcv : s.converter with
  | none => exact absurd (hi.cv0.mp hcv) hc
  | some w =>
    have hconv : converting (s.pc w) = true := (hi.ini w hcv).mpr hm
    refine ⟨w, rfl, hconv, ?_, ?_, ?_⟩
    · cases hp : s.pc w <;> simp [hp, converting] at hconv <;> simp [remaining]
      rename_i a q st m
      cases a <;> cases q <;> cases st <;> cases m <;> simp
    · intro t ht heq
      subst heq
      rcases ht with ht | ⟨v, ht⟩ <;> simp [ht, converting] at hconv
    · exact conv_progress s w hconv

/-- once `magic_no` is published a waiter leaves the handler within its next two own steps -/
theorem C16_static_init_waiters_released (s : St) (t : Tid) (hm : s.magic = mNo) (hp : s.pc t = .spin) :
    ∃ s1 s2, step s (.spinRead t mNo) = some s1 ∧ step s1 (.assertRead t mNo) = some s2 ∧ s2.pc t = .body := by
  have hne := mNo_ne_mIni
  refine ⟨{ s with pc := upd s.pc t .chk }, { s with pc := upd (upd s.pc t .chk) t .body }, ?_, ?_, ?_⟩
  · simp [step, hm, hp, hne]
  · simp [step, hm]
  · simp

/-- non-vacuity: a zero-filled object; threads 1 and 2 both read 0, thread 1 wins the CAS and copies
    (state word first), thread 3 arrives and reads `initializing`, thread 2 loses its CAS; both wait … -/
example :
    ((runs step (init 0 7 false 9)
      [.read 1 0, .read 2 0, .cas 1 true, .copyWord 1 .state, .read 3 mIni, .cas 2 false, .skipCas 3,
       .spinRead 2 mIni, .copyWord 1 .attr, .copyWord 1 .magic, .copyWord 1 .queue, .spinRead 3 mIni]).map
        (fun s => (s.magic == mIni, s.convs, s.pc 2, s.pc 3, s.pc 1))) =
      some (true, 1, .spin, .spin, .won true true true true) := by decide

/-- … the converter publishes, the waiters leave, everybody works on a fresh mutex, a later caller is immediate -/
example :
    ((runs step (init 0 7 false 9)
      [.read 1 0, .read 2 0, .cas 1 true, .copyWord 1 .state, .read 3 mIni, .cas 2 false, .skipCas 3,
       .spinRead 2 mIni, .copyWord 1 .attr, .copyWord 1 .magic, .copyWord 1 .queue, .spinRead 3 mIni,
       .fence 1, .publish 1, .spinRead 2 mNo, .assertRead 2 mNo, .spinRead 3 mNo, .assertRead 3 mNo,
       .bodyStep 1 1 true, .leave 1, .read 4 mNo]).map
        (fun s => (s.magic == mNo && s.pubFresh && s.convs == 1, s.mstate, s.pc 2, s.pc 3, s.pc 4))) =
      some (true, 1, .body, .body, .body) := by decide

/-- the model refuses a second conversion and a body access before publication -/
example : (runs step (init 0 7 false 9) [.read 1 0, .read 2 0, .cas 1 true, .cas 2 true]).isNone = true ∧
    (runs step (init 0 7 false 9) [.read 1 0, .cas 1 true, .bodyStep 1 1 true]).isNone = true := by decide

end MythVerif.SInit

namespace MythVerif.PthProg

/-- **determinate fragment**: for every fork-join program over lock-protected commutative counter
    updates, every complete execution of the abstract interface — `fork` lets the child run at any
    point before its join, any thread that can move may move, a lock-protected update is one atomic
    section — from every initial store ends with the return value and the counters that the
    sequential evaluator `eval` computes. -/
theorem C16_eval_determinate (p : Prog) (σ σ' : Store) (v : Int)
    (h : Steps (p, σ) (.ret v, σ')) : (v, σ') = eval p σ := by
  have hp := steps_preserve _ _ h
  simp only [val, delta] at hp
  have hσ : σ' = fun i => σ i + delta p i := by
    funext i; have := hp.2 i; omega
  simp [eval, hp.1, hσ]

/-- complete executions exist, every execution is finite (at most `size p` steps remain, each step
    strictly decreases `size`), and an execution that cannot continue is complete: the fragment has
    no deadlock and no divergence, so "the result" is defined and is `eval p`. -/
theorem C16_fragment_terminates (p : Prog) (σ : Store) :
    (∃ v σ', Steps (p, σ) (.ret v, σ')) ∧
    (∀ p' σ', Steps (p, σ) (p', σ') → size p' ≤ size p) ∧
    (∀ x y, Step x y → size y.1 < size x.1) ∧
    (∀ p' σ', Steps (p, σ) (p', σ') → (∀ y, ¬ Step (p', σ') y) → ∃ v, p' = .ret v ∧ (v, σ') = eval p σ) := by
  refine ⟨complete_exists (size p) p σ (Nat.le_refl _), ?_, step_size, ?_⟩
  · intro p' σ' h; exact steps_length _ _ h
  · intro p' σ' h hstuck
    rcases progress p' σ' with ⟨v, rfl⟩ | ⟨p'', σ'', hs⟩
    · exact ⟨v, rfl, C16_eval_determinate p σ σ' v h⟩
    · exact absurd hs (hstuck _)

/-- non-vacuity: two children and the parent add to the same counter; two different interleavings,
    same result, equal to `eval` -/
example : eval (.fork (.seq (.add 0 2) (.ret 5)) (.fork (.add 0 3) (.add 1 4))) (fun _ => 0) =
    (5, fun i => (0 : Int) + (((if i = 0 then 2 else 0) + 0) + ((if i = 0 then 3 else 0) + (if i = 1 then 4 else 0)))) := rfl

example : ∃ σ', Steps (.fork (.add 0 2) (.add 0 3), fun _ => 0) (.ret 0, σ') ∧ σ' 0 = 5 := by
  refine ⟨_, Steps.cons _ _ _ (Step.fork _ _ _) (Steps.cons _ _ _ (Step.parR _ _ _ _ _ (Step.add 0 3 _))
    (Steps.cons _ _ _ (Step.parL _ _ _ _ _ (Step.add 0 2 _)) (Steps.cons _ _ _ (Step.join 0 0 _) (Steps.refl _)))), ?_⟩
  simp [Store.bump]

end MythVerif.PthProg

/-! ## extension of the determinate fragment: monotone gates (condition-variable pattern)

`MythVerif.PthGate.GProg` = `Prog` + `post g n` (lock; gate[g] += n; broadcast; unlock — one atomic
section) + `await g n` (lock; while (gate[g] < n) cond_wait; unlock — enabled only when
`gate[g] ≥ n`).  Unlike the gate-free fragment such a program may deadlock, so the statement is:
**whenever it terminates the result is `geval p`**, gates only grow, there is no divergence, and
the only way not to terminate is a deadlock (every remaining thread at an `await` below its
threshold). -/

namespace MythVerif.PthGate
open MythVerif.PthProg (Store Store.bump)

/-- **determinate fragment with gates**: for every fork-join program over lock-protected
    commutative counter updates and monotone gates, from every initial counters `σ` and gates `γ`,
    every complete execution of the abstract interface ends with the return value `gval p`, the
    counters `σ + gdelta p` and the gates `γ + gposts p` (`= geval p σ γ`; awaits contribute
    nothing); hence ANY two complete executions end with the same value, the same counters and the
    same gate values: the result is determinate whenever the program terminates. -/
theorem C16_eval_determinate_gates (p : GProg) (σ : Store) (γ : Gates) :
    (∀ v σ' γ', Steps (p, σ, γ) (.ret v, σ', γ') →
      (v, σ', γ') = geval p σ γ ∧
      v = gval p ∧ (∀ i, σ' i = σ i + gdelta p i) ∧ (∀ g, γ' g = γ g + gposts p g)) ∧
    (∀ v v' σ₁ σ₂ γ₁ γ₂, Steps (p, σ, γ) (.ret v, σ₁, γ₁) → Steps (p, σ, γ) (.ret v', σ₂, γ₂) →
      v = v' ∧ σ₁ = σ₂ ∧ γ₁ = γ₂) := by
  have main : ∀ v σ' γ', Steps (p, σ, γ) (.ret v, σ', γ') →
      (v, σ', γ') = geval p σ γ ∧
      v = gval p ∧ (∀ i, σ' i = σ i + gdelta p i) ∧ (∀ g, γ' g = γ g + gposts p g) := by
    intro v σ' γ' h
    have hp := steps_preserve _ _ h
    simp only [gval, gdelta, gposts] at hp
    have hσ : ∀ i, σ' i = σ i + gdelta p i := by intro i; have := hp.2.1 i; omega
    have hγ : ∀ g, γ' g = γ g + gposts p g := by intro g; have := hp.2.2 g; omega
    have hσ' : σ' = fun i => σ i + gdelta p i := funext hσ
    have hγ' : γ' = fun g => γ g + gposts p g := funext hγ
    refine ⟨?_, hp.1, hσ, hγ⟩
    simp [geval, hp.1, ← hσ', ← hγ']
  refine ⟨main, ?_⟩
  intro v v' σ₁ σ₂ γ₁ γ₂ h1 h2
  have e1 := (main v σ₁ γ₁ h1).1
  have e2 := (main v' σ₂ γ₂ h2).1
  have e : (v, σ₁, γ₁) = (v', σ₂, γ₂) := e1.trans e2.symm
  simp only [Prod.mk.injEq] at e
  exact e

/-- **gates are monotone**: along every execution no gate ever decreases — so an `await` whose
    threshold has been reached stays enabled until it is taken (a broadcast is never "lost") — and
    a gate never exceeds its initial value plus what the program posts
    (`gate + remaining posts` is invariant). -/
theorem C16_gates_monotone (p p' : GProg) (σ σ' : Store) (γ γ' : Gates)
    (h : Steps (p, σ, γ) (p', σ', γ')) :
    (∀ g, γ g ≤ γ' g) ∧
    (∀ g n, n ≤ γ g → n ≤ γ' g) ∧
    (∀ g, γ' g + gposts p' g = γ g + gposts p g) ∧
    (∀ g, γ' g ≤ γ g + gposts p g) := by
  have hm := steps_gates_mono _ _ h
  have hp := (steps_preserve _ _ h).2.2
  refine ⟨hm, ?_, hp, ?_⟩
  · intro g n hn; exact Nat.le_trans hn (hm g)
  · intro g; have := hp g; simp only at this; omega

/-- **the only way not to terminate is a deadlock**: every step strictly decreases `gsize`, so
    every execution from `p` has at most `gsize p` steps and there is no infinite execution (no
    divergence); and a reachable configuration that has no step is either complete — and then its
    result is `geval p σ γ` — or `Blocked`: it is not finished and every remaining thread is at an
    `await` whose gate is below its threshold (there is at least one such thread).  Conversely a
    `Blocked` configuration is indeed stuck and not final. -/
theorem C16_gates_stuck_is_deadlock (p : GProg) (σ : Store) (γ : Gates) :
    (∀ x y, Step x y → gsize y.1 < gsize x.1) ∧
    (∀ p' σ' γ', Steps (p, σ, γ) (p', σ', γ') → gsize p' ≤ gsize p) ∧
    (¬ ∃ f : Nat → Cfg, f 0 = (p, σ, γ) ∧ ∀ n, Step (f n) (f (n + 1))) ∧
    (∀ p' σ' γ', Steps (p, σ, γ) (p', σ', γ') → (∀ y, ¬ Step (p', σ', γ') y) →
      (∃ v, p' = .ret v ∧ (v, σ', γ') = geval p σ γ) ∨
      ((∀ v, p' ≠ .ret v) ∧ Blocked γ' p' ∧ waits p' ≠ [] ∧ ∀ gn ∈ waits p', γ' gn.1 < gn.2)) ∧
    (∀ p' σ' γ', Blocked γ' p' → (∀ y, ¬ Step (p', σ', γ') y) ∧ ∀ v, p' ≠ .ret v) := by
  refine ⟨step_size, ?_, ?_, ?_, ?_⟩
  · intro p' σ' γ' h; exact steps_length _ _ h
  · rintro ⟨f, _, hf⟩; exact no_infinite_run f hf
  · intro p' σ' γ' h hstuck
    rcases progress p' σ' γ' with ⟨v, rfl⟩ | hb | ⟨y, hs⟩
    · exact Or.inl ⟨v, rfl, ((C16_eval_determinate_gates p σ γ).1 v σ' γ' h).1⟩
    · refine Or.inr ⟨?_, hb, blocked_waits γ' p' hb⟩
      intro v hv; subst hv; exact blocked_not_ret γ' v hb
    · exact absurd hs (hstuck _)
  · intro p' σ' γ' hb
    refine ⟨fun y => blocked_no_step γ' p' hb σ' y, ?_⟩
    intro v hv; subst hv; exact blocked_not_ret γ' v hb

/-- non-vacuity: the child adds to a counter and posts, the parent awaits the gate and returns 7.
    A complete execution exists (the child's post first, then the parent's await) and its result
    is the formula. -/
example : ∃ v σ' γ',
    Steps (.fork (.seq (.add 0 2) (.post 0 1)) (.seq (.await 0 1) (.ret 7)), fun _ => 0, fun _ => 0) (.ret v, σ', γ') ∧
    v = 7 ∧ σ' 0 = 2 ∧ γ' 0 = 1 ∧ γ' 1 = 0 ∧
    (v, σ', γ') = geval (.fork (.seq (.add 0 2) (.post 0 1)) (.seq (.await 0 1) (.ret 7))) (fun _ => 0) (fun _ => 0) := by
  let σ0 : Store := fun _ => 0
  let γ0 : Gates := fun _ => 0
  have hg : 1 ≤ (γ0.bump 0 1) 0 := by simp [Gates.bump, γ0]
  have h : Steps (.fork (.seq (.add 0 2) (.post 0 1)) (.seq (.await 0 1) (.ret 7)), σ0, γ0)
      (.ret (0 + 0 + (0 + 7)), σ0.bump 0 2, γ0.bump 0 1) :=
    Steps.cons _ _ _ (Step.fork _ _ _ _)
    (Steps.cons _ _ _ (Step.parL _ _ _ _ _ _ _ (Step.seqL _ _ _ _ _ _ _ (Step.add 0 2 σ0 γ0)))
    (Steps.cons _ _ _ (Step.parL _ _ _ _ _ _ _ (Step.seqR _ _ _ _ _ _ _ (Step.post 0 1 (σ0.bump 0 2) γ0)))
    (Steps.cons _ _ _ (Step.parL _ _ _ _ _ _ _ (Step.seqDone 0 0 _ _))
    (Steps.cons _ _ _ (Step.parR _ _ _ _ _ _ _ (Step.seqL _ _ _ _ _ _ _ (Step.await 0 1 (σ0.bump 0 2) (γ0.bump 0 1) hg)))
    (Steps.cons _ _ _ (Step.parR _ _ _ _ _ _ _ (Step.seqDone 0 7 _ _))
    (Steps.cons _ _ _ (Step.join (0 + 0) (0 + 7) _ _) (Steps.refl _)))))))
  refine ⟨_, _, _, h, by decide, by simp [Store.bump, σ0], by simp [Gates.bump, γ0], by simp [Gates.bump, γ0], ?_⟩
  exact ((C16_eval_determinate_gates _ _ _).1 _ _ _ h).1

/-- non-vacuity: before the child's post the parent's await is not enabled — the parent thread
    alone cannot move (only the child can) -/
example (σ : Store) (y : Cfg) : ¬ Step (.seq (.await 0 1) (.ret 7), σ, fun _ => 0) y :=
  blocked_no_step _ _ (Blocked.seqL _ _ (Blocked.await 0 1 (by decide))) σ y

/-- non-vacuity: a deadlock — an await with no post (the post comes after the await in the same
    thread, and the child awaits a gate nobody posts): stuck, not final, every thread at an await -/
example (σ : Store) :
    let p : GProg := .par (.await 1 1) (.seq (.await 0 1) (.post 0 1))
    (∀ y, ¬ Step (p, σ, fun _ => 0) y) ∧ (∀ v, p ≠ .ret v) ∧ Blocked (fun _ => 0) p ∧
    waits p = [(1, 1), (0, 1)] ∧
    -- and it is reachable from a `fork`
    Steps (.fork (.await 1 1) (.seq (.await 0 1) (.post 0 1)), σ, fun _ => 0) (p, σ, fun _ => 0) := by
  intro p
  have hb : Blocked (fun _ => 0) p :=
    Blocked.parLR _ _ (Blocked.await 1 1 (by decide)) (Blocked.seqL _ _ (Blocked.await 0 1 (by decide)))
  refine ⟨fun y => blocked_no_step _ _ hb σ y, ?_, hb, rfl, Steps.cons _ _ _ (Step.fork _ _ _ _) (Steps.refl _)⟩
  intro v; simp [p]

/-- non-vacuity: the simplest deadlock, `await` alone -/
example (σ : Store) : (∀ y, ¬ Step (.await 0 1, σ, fun _ => 0) y) ∧ (∀ v, GProg.await 0 1 ≠ .ret v) := by
  refine ⟨?_, by intro v h; cases h⟩
  intro y h
  cases h with
  | await _ _ _ _ hle => simp at hle

end MythVerif.PthGate

/-! ## extension of the determinate fragment: one-time initialisation (`pthread_once`)

`MythVerif.PthOnce.OProg` = `GProg` + `once k` (`pthread_once(&control[k], routine[k])`): every
control `k` has one fixed routine `init k`, a list of lock-protected counter updates.  `once k`
on a control that is not done runs the whole routine in ONE atomic step and marks the control done
(no caller returns before the routine has completed); on a done control it is a no-op.  The
statement: **whenever the program terminates, the routine of every control it mentions (and that was
not done initially) has been counted exactly once**, however many callers there are and in whatever
order they run — so the result is the closed formula `oeval` and any two complete executions agree. -/

namespace MythVerif.PthOnce
open MythVerif.PthProg (Store Store.bump)
open MythVerif.PthGate (Gates Gates.bump)

/-- what `ocontrib` is: the sum, over the duplicate-free list `dedup (onces p)` of the controls `p`
    mentions — a list with exactly the elements of `onces p`, each once — of the effect of the
    routines of those that are not done; a control mentioned by many calls is counted once, a done
    control is not counted, and a program without `once` has no contribution. -/
theorem C16_once_contrib_spec (init : Nat → List (Nat × Int)) (p : OProg) (done : Nat → Bool) :
    (dedup (onces p)).Nodup ∧ (∀ k, k ∈ dedup (onces p) ↔ k ∈ onces p) ∧
    (∀ i, ocontrib init p done i = initSum init (fun k => !done k) (dedup (onces p)) i) ∧
    (∀ f i, initSum init f [] i = 0) ∧
    (∀ f k L i, initSum init f (k :: L) i = (if f k then ieff (init k) i else 0) + initSum init f L i) ∧
    ((∀ k ∈ onces p, done k = true) → ∀ i, ocontrib init p done i = 0) ∧
    (∀ l σ i, applyInit l σ i = σ i + ieff l i) :=
  ⟨nodup_dedup _, mem_dedup _, fun _ => rfl, fun _ _ => rfl, fun _ _ _ _ => rfl,
   fun h i => initSum_none _ _ (fun k hk => by simp [h k ((mem_dedup _ k).mp hk)]) i, applyInit_eq⟩

/-- **determinate fragment with one-time initialisation**: for every fork-join program over
    lock-protected commutative counter updates, monotone gates and once-controls (routines `init`),
    from every initial counters `σ`, gates `γ` and once-controls `done₀`, every complete execution of
    the abstract interface ends with the return value `oval p`, the gates `γ + oposts p`, the
    controls `done₀ ∪ onces p` and the counters
    `σ + odelta p + Σ_{k ∈ onces p, done₀ k = false} (updates of init k)` (`= oeval init p σ γ done₀`)
    — the routine of a control is counted exactly once however many callers there are and in
    whatever order they run; hence ANY two complete executions end with the same value, counters,
    gates, once-controls (and run counters). -/
theorem C16_eval_determinate_once (init : Nat → List (Nat × Int)) (p : OProg) (σ : Store) (γ : Gates)
    (done₀ : Nat → Bool) (runs₀ : Nat → Nat) :
    (∀ v s', Steps init (p, ⟨σ, γ, done₀, runs₀⟩) (.ret v, s') →
      (v, s'.cnt, s'.gates, s'.done) = oeval init p σ γ done₀ ∧
      v = oval p ∧
      (∀ i, s'.cnt i = σ i + odelta p i + ocontrib init p done₀ i) ∧
      (∀ g, s'.gates g = γ g + oposts p g) ∧
      (∀ k, s'.done k = (done₀ k || decide (k ∈ onces p))) ∧
      (∀ k, s'.runs k = runs₀ k + (if !done₀ k && decide (k ∈ onces p) then 1 else 0))) ∧
    (∀ v v' s₁ s₂, Steps init (p, ⟨σ, γ, done₀, runs₀⟩) (.ret v, s₁) →
      Steps init (p, ⟨σ, γ, done₀, runs₀⟩) (.ret v', s₂) →
      v = v' ∧ s₁.cnt = s₂.cnt ∧ s₁.gates = s₂.gates ∧ s₁.done = s₂.done ∧ s₁.runs = s₂.runs) := by
  have main : ∀ v s', Steps init (p, ⟨σ, γ, done₀, runs₀⟩) (.ret v, s') →
      (v, s'.cnt, s'.gates, s'.done) = oeval init p σ γ done₀ ∧
      v = oval p ∧
      (∀ i, s'.cnt i = σ i + odelta p i + ocontrib init p done₀ i) ∧
      (∀ g, s'.gates g = γ g + oposts p g) ∧
      (∀ k, s'.done k = (done₀ k || decide (k ∈ onces p))) ∧
      (∀ k, s'.runs k = runs₀ k + (if !done₀ k && decide (k ∈ onces p) then 1 else 0)) := by
    intro v s' h
    obtain ⟨c1, c2, _, c4, c5, _, c7⟩ := steps_char _ _ h
    simp only [oval, oposts, onces] at c1 c2 c5
    have hσ : ∀ i, s'.cnt i = σ i + odelta p i + ocontrib init p done₀ i := by
      intro i
      have := c4 (dedup (onces p)) (nodup_dedup _) (fun k hk => (mem_dedup _ k).mpr hk) i
      simp only [inv, odelta, onces] at this
      rw [initSum_none _ _ (by simp)] at this
      rw [initSum_congr (fun k => decide (k ∈ onces p) && !done₀ k) (fun k => !done₀ k) _
        (fun k hk => by simp [(mem_dedup _ k).mp hk])] at this
      simp only [ocontrib]
      omega
    have hγ : ∀ g, s'.gates g = γ g + oposts p g := by intro g; have := c2 g; omega
    have hd : ∀ k, s'.done k = (done₀ k || decide (k ∈ onces p)) := by
      intro k; have := c5 k; simpa using this
    have hr : ∀ k, s'.runs k = runs₀ k + (if !done₀ k && decide (k ∈ onces p) then 1 else 0) := by
      intro k
      have := c7 k
      simp only [hd k] at this
      rw [this]
      cases done₀ k <;> simp
    refine ⟨?_, c1, hσ, hγ, hd, hr⟩
    simp only [oeval, Prod.mk.injEq]
    exact ⟨c1, funext hσ, funext hγ, funext hd⟩
  refine ⟨main, ?_⟩
  intro v v' s₁ s₂ h1 h2
  obtain ⟨_, a2, a3, a4, a5, a6⟩ := main v s₁ h1
  obtain ⟨_, b2, b3, b4, b5, b6⟩ := main v' s₂ h2
  exact ⟨a2.trans b2.symm, funext fun i => (a3 i).trans (b3 i).symm,
    funext fun g => (a4 g).trans (b4 g).symm, funext fun k => (a5 k).trans (b5 k).symm,
    funext fun k => (a6 k).trans (b6 k).symm⟩

/-- **the routine runs at most once**: the ghost counter `runs k` is incremented by the atomic
    initialisation step of control `k` and by nothing else.  Along every execution (complete or not)
    from run counters 0: `runs k ≤ 1`; `runs k = 1` exactly when the control is done now and was
    not done initially; a control that was done initially or that the program does not mention is
    never run; `done` only grows and stays within `done₀ ∪ onces p`; and the routine's effect on
    the counters is accounted exactly `runs k` times:
    `counters + remaining adds = σ + odelta p + Σ_k runs k · init k`. -/
theorem C16_once_runs_once (init : Nat → List (Nat × Int)) (p p' : OProg) (σ : Store) (γ : Gates)
    (done₀ : Nat → Bool) (s' : St)
    (h : Steps init (p, ⟨σ, γ, done₀, fun _ => 0⟩) (p', s')) :
    (∀ k, s'.runs k ≤ 1) ∧
    (∀ k, s'.runs k = 1 ↔ (s'.done k = true ∧ done₀ k = false)) ∧
    (∀ k, done₀ k = true → s'.done k = true ∧ s'.runs k = 0) ∧
    (∀ k, k ∉ onces p → s'.done k = done₀ k ∧ s'.runs k = 0) ∧
    (∀ k, s'.done k = true → done₀ k = true ∨ k ∈ onces p) ∧
    (∀ (s : St) (k : Nat), (s.fire init k).runs k = s.runs k + 1 ∧ (s.fire init k).done k = true ∧
      ∀ j, j ≠ k → (s.fire init k).runs j = s.runs j) ∧
    (∀ i, s'.cnt i + odelta p' i =
      σ i + odelta p i + initSum init (fun k => decide (s'.runs k = 1)) (dedup (onces p)) i) := by
  obtain ⟨_, _, _, c4, c5, c6, c7⟩ := steps_char _ _ h
  simp only at c5 c6 c7
  have hr : ∀ k, s'.runs k = if s'.done k && !done₀ k then 1 else 0 := by
    intro k; have := c7 k; omega
  have hnot : ∀ k, k ∉ onces p → s'.done k = done₀ k := by
    intro k hk
    have h5 := c5 k
    have h6 := c6 k
    cases hd : done₀ k
    · cases hs : s'.done k
      · rfl
      · simp [hd, hs, hk] at h5
    · exact h6 hd
  refine ⟨?_, ?_, ?_, ?_, ?_, ?_, ?_⟩
  · intro k; rw [hr k]; split <;> omega
  · intro k; rw [hr k]; cases s'.done k <;> cases done₀ k <;> simp
  · intro k hk; refine ⟨c6 k hk, ?_⟩; rw [hr k]; simp [hk]
  · intro k hk; refine ⟨hnot k hk, ?_⟩; rw [hr k, hnot k hk]; cases done₀ k <;> simp
  · intro k hk
    have h5 := c5 k
    cases hd : done₀ k
    · right
      simp only [hk, hd, Bool.true_or, Bool.false_or] at h5
      simpa using h5.symm
    · exact Or.inl rfl
  · intro s k
    refine ⟨by simp [St.fire], by simp [St.fire], ?_⟩
    intro j hj; simp [St.fire, hj]
  · intro i
    have hn := nodup_dedup (onces p)
    have := c4 (dedup (onces p)) hn (fun k hk => (mem_dedup _ k).mpr hk) i
    simp only [inv] at this
    -- split the initial sum into (still pending) + (already run)
    have key : ∀ L : List Nat, (∀ k ∈ L, k ∈ onces p) →
        initSum init (fun k => decide (k ∈ onces p) && !done₀ k) L i =
        initSum init (fun k => decide (k ∈ onces p') && !s'.done k) L i +
        initSum init (fun k => decide (s'.runs k = 1)) L i := by
      intro L
      induction L with
      | nil => intro _; simp [initSum]
      | cons x xs ih =>
        intro hL
        have hx : x ∈ onces p := hL x (by simp)
        have ihx := ih (fun k hk => hL k (by simp [hk]))
        simp only [initSum]
        rw [ihx]
        have hrx := hr x
        have h5 := c5 x
        have h6 := c6 x
        rcases Bool.eq_false_or_eq_true (done₀ x) with hd | hd <;>
          rcases Bool.eq_false_or_eq_true (s'.done x) with hs | hs <;> simp_all <;> omega
    rw [key _ (fun k hk => (mem_dedup _ k).mp hk)] at this
    omega

/-- **the only way not to terminate is a deadlock** (as for the gate fragment; a `once` never
    blocks): every step strictly decreases `osize`, there is no infinite execution, and a reachable
    configuration that has no step is either complete — and then its result is `oeval` — or
    `Blocked`: not finished and every remaining thread at an `await` below its threshold.
    Conversely a `Blocked` configuration is stuck and not final. -/
theorem C16_once_stuck_is_deadlock (init : Nat → List (Nat × Int)) (p : OProg) (σ : Store) (γ : Gates)
    (done₀ : Nat → Bool) (runs₀ : Nat → Nat) :
    (∀ x y, Step init x y → osize y.1 < osize x.1) ∧
    (∀ p' s', Steps init (p, ⟨σ, γ, done₀, runs₀⟩) (p', s') → osize p' ≤ osize p) ∧
    (¬ ∃ f : Nat → Cfg, f 0 = (p, ⟨σ, γ, done₀, runs₀⟩) ∧ ∀ n, Step init (f n) (f (n + 1))) ∧
    (∀ p' s', Steps init (p, ⟨σ, γ, done₀, runs₀⟩) (p', s') → (∀ y, ¬ Step init (p', s') y) →
      (∃ v, p' = .ret v ∧ (v, s'.cnt, s'.gates, s'.done) = oeval init p σ γ done₀) ∨
      ((∀ v, p' ≠ .ret v) ∧ Blocked s'.gates p')) ∧
    (∀ p' s', Blocked s'.gates p' → (∀ y, ¬ Step init (p', s') y) ∧ ∀ v, p' ≠ .ret v) ∧
    (∀ k s, ∃ y, Step init (.once k, s) y) := by
  refine ⟨step_size, ?_, ?_, ?_, ?_, ?_⟩
  · intro p' s' h; exact steps_length _ _ h
  · rintro ⟨f, _, hf⟩; exact no_infinite_run f hf
  · intro p' s' h hstuck
    rcases progress (init := init) p' s' with ⟨v, rfl⟩ | hb | ⟨y, hs⟩
    · exact Or.inl ⟨v, rfl, ((C16_eval_determinate_once init p σ γ done₀ runs₀).1 v s' h).1⟩
    · refine Or.inr ⟨?_, hb⟩
      intro v hv; subst hv; exact blocked_not_ret _ v hb
    · exact absurd hs (hstuck _)
  · intro p' s' hb
    refine ⟨fun y => blocked_no_step p' s' hb y, ?_⟩
    intro v hv; subst hv; exact blocked_not_ret _ v hb
  · intro k s
    rcases progress (init := init) (.once k) s with ⟨v, hv⟩ | hb | hs
    · cases hv
    · cases hb
    · exact hs

/-! non-vacuity: two children and the parent all call `once 0`; the routine of control 0 adds 5 to
    counter 0 and 2 to counter 1 -/

/-- the routines of the examples -/
def exInit : Nat → List (Nat × Int)
  | 0 => [(0, 5), (1, 2)]
  | _ => []

/-- two children and the parent call `once 0`; the parent then adds 1 to counter 0 -/
def exProg : OProg := .fork (.once 0) (.fork (.once 0) (.seq (.once 0) (.add 0 1)))

/-- the initial state of the examples: everything zero, no control done -/
def exS0 : St := ⟨fun _ => 0, fun _ => 0, fun _ => false, fun _ => 0⟩

/-- interleaving A: the FIRST CHILD wins the race and runs the routine; the second child and the
    parent find the control done -/
theorem exRunA : ∃ s', Steps exInit (exProg, exS0) (.ret (0 + (0 + (0 + 0))), s') ∧
    s'.cnt 0 = 6 ∧ s'.cnt 1 = 2 ∧ s'.done 0 = true ∧ s'.runs 0 = 1 := by
  let s1 : St := exS0.fire exInit 0
  let s2 : St := { s1 with cnt := s1.cnt.bump 0 1 }
  have d0 : exS0.done 0 = false := rfl
  have d1 : s1.done 0 = true := by simp [s1, St.fire]
  have h : Steps exInit (exProg, exS0) (.ret (0 + (0 + (0 + 0))), s2) :=
    Steps.cons _ _ _ (Step.fork _ _ _)
    (Steps.cons _ _ _ (Step.parR _ _ _ _ _ (Step.fork _ _ _))
    (Steps.cons _ _ _ (Step.parL _ _ _ _ _ (Step.onceRun 0 exS0 d0))
    (Steps.cons _ _ _ (Step.parR _ _ _ _ _ (Step.parL _ _ _ _ _ (Step.onceSkip 0 s1 d1)))
    (Steps.cons _ _ _ (Step.parR _ _ _ _ _ (Step.parR _ _ _ _ _ (Step.seqL _ _ _ _ _ (Step.onceSkip 0 s1 d1))))
    (Steps.cons _ _ _ (Step.parR _ _ _ _ _ (Step.parR _ _ _ _ _ (Step.seqR _ _ _ _ _ (Step.add 0 1 s1))))
    (Steps.cons _ _ _ (Step.parR _ _ _ _ _ (Step.parR _ _ _ _ _ (Step.seqDone 0 0 _)))
    (Steps.cons _ _ _ (Step.parR _ _ _ _ _ (Step.join 0 (0 + 0) _))
    (Steps.cons _ _ _ (Step.join 0 (0 + (0 + 0)) _) (Steps.refl _)))))))))
  refine ⟨s2, h, ?_, ?_, ?_, ?_⟩ <;>
    simp [s2, s1, St.fire, exS0, exInit, applyInit, Store.bump]

/-- interleaving B: the PARENT wins the race and runs the routine, then adds; both children find
    the control done (the first child last) -/
theorem exRunB : ∃ s', Steps exInit (exProg, exS0) (.ret (0 + (0 + (0 + 0))), s') ∧
    s'.cnt 0 = 6 ∧ s'.cnt 1 = 2 ∧ s'.done 0 = true ∧ s'.runs 0 = 1 := by
  let s1 : St := exS0.fire exInit 0
  let s2 : St := { s1 with cnt := s1.cnt.bump 0 1 }
  have d0 : exS0.done 0 = false := rfl
  have d2 : s2.done 0 = true := by simp [s2, s1, St.fire]
  have h : Steps exInit (exProg, exS0) (.ret (0 + (0 + (0 + 0))), s2) :=
    Steps.cons _ _ _ (Step.fork _ _ _)
    (Steps.cons _ _ _ (Step.parR _ _ _ _ _ (Step.fork _ _ _))
    (Steps.cons _ _ _ (Step.parR _ _ _ _ _ (Step.parR _ _ _ _ _ (Step.seqL _ _ _ _ _ (Step.onceRun 0 exS0 d0))))
    (Steps.cons _ _ _ (Step.parR _ _ _ _ _ (Step.parR _ _ _ _ _ (Step.seqR _ _ _ _ _ (Step.add 0 1 s1))))
    (Steps.cons _ _ _ (Step.parR _ _ _ _ _ (Step.parL _ _ _ _ _ (Step.onceSkip 0 s2 d2)))
    (Steps.cons _ _ _ (Step.parR _ _ _ _ _ (Step.parR _ _ _ _ _ (Step.seqDone 0 0 _)))
    (Steps.cons _ _ _ (Step.parR _ _ _ _ _ (Step.join 0 (0 + 0) _))
    (Steps.cons _ _ _ (Step.parL _ _ _ _ _ (Step.onceSkip 0 s2 d2))
    (Steps.cons _ _ _ (Step.join 0 (0 + (0 + 0)) _) (Steps.refl _)))))))))
  refine ⟨s2, h, ?_, ?_, ?_, ?_⟩ <;>
    simp [s2, s1, St.fire, exS0, exInit, applyInit, Store.bump]

/-- the two interleavings (and every other complete execution) end in the same state, which is the
    closed formula: the routine is counted once — counter 0 = 5 + 1, counter 1 = 2 — although three
    threads called `once 0` -/
example : ∀ v s', Steps exInit (exProg, exS0) (.ret v, s') →
    v = 0 ∧ s'.cnt 0 = 6 ∧ s'.cnt 1 = 2 ∧ s'.cnt 2 = 0 ∧ s'.done 0 = true ∧ s'.done 1 = false ∧
    s'.runs 0 = 1 ∧ s'.runs 1 = 0 := by
  intro v s' h
  obtain ⟨_, h2, h3, _, h5, h6⟩ := (C16_eval_determinate_once exInit exProg _ _ _ _).1 v s' h
  refine ⟨h2, ?_, ?_, ?_, ?_, ?_, ?_, ?_⟩
  · rw [h3]; decide
  · rw [h3]; decide
  · rw [h3]; decide
  · rw [h5]; decide
  · rw [h5]; decide
  · rw [h6]; decide
  · rw [h6]; decide

example : ocontrib exInit exProg (fun _ => false) 0 = 5 ∧ dedup (onces exProg) = [0] ∧
    onces exProg = [0, 0, 0] := by decide

/-- if the control was already done initially nobody runs the routine -/
example : ∀ v s', Steps exInit (exProg, ⟨fun _ => 0, fun _ => 0, fun _ => true, fun _ => 0⟩) (.ret v, s') →
    s'.cnt 0 = 1 ∧ s'.cnt 1 = 0 ∧ s'.runs 0 = 0 := by
  intro v s' h
  obtain ⟨_, _, h3, _, _, h6⟩ := (C16_eval_determinate_once exInit exProg _ _ _ _).1 v s' h
  refine ⟨?_, ?_, ?_⟩
  · rw [h3]; decide
  · rw [h3]; decide
  · rw [h6]; decide

end MythVerif.PthOnce
