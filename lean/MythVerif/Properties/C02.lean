import MythVerif.Proofs.WsQueueSeq
import MythVerif.Proofs.WsQueueCor
import MythVerif.Proofs.WsQueueTsoBndAll
import MythVerif.Generated.Consts
/-! # C02 — runnable threads are never lost or duplicated by the work-stealing queues

Models: `Model/WsQueueSeq.lean` (sequential transcription of all operations),
`Model/WsQueue.lean` (SC machine: one owner, unboundedly many other participants, one program
counter per shared access, ghost abstract deque), `Model/WsQueueTso.lean` (x86-TSO machine).
Every theorem quantifies over every capacity `n` (the code's `INITIAL_QUEUE_SIZE`), every
history / interleaving and every number of participants. -/
namespace MythVerif.Wsq

/-- **Sequential refinement.**  For every capacity `n ≥ 2` and every sequential history of the
operations of `myth_wsqueue_func.h` (+ the two wsapi functions): the state stays well-formed
(all indices inside the storage, occupied slots hold threads) and, on the abstraction
`abs = slots [base, top)`, push = append, pop = remove last, take = remove first, put / pass =
cons at the base side, a declined take and both peeks = identity, re-centring = identity
(`OpSpec`); `abort()` is reached exactly by push / put on a full queue (`top == size ∧ base == 0`,
equivalently `|abs| = size`). -/
theorem C02_seq_refines_deque (n : Int) (hn : 2 ≤ n) (q : Q) (hq : Reachable seqStep (Q.init n) q) :
    WF q ∧ q.size = n ∧
    (∀ op, OpSpec q op (exec q op).1 (exec q op).2) ∧
    (∀ op, (exec q op).2 = .abort ↔ q.full ∧ ((∃ e, op = .push e) ∨ (∃ e, op = .put e))) ∧
    (q.full ↔ (q.abs.length : Int) = n) ∧
    (recentreDown q).abs = q.abs ∧ (recentreUp q).abs = q.abs := by
  obtain ⟨hw, hs⟩ := seq_reachable_wf n (by omega) q hq
  refine ⟨hw, hs, fun op => (exec_spec q op hw).1, abort_iff q, ?_, recentreDown_abs q, recentreUp_abs q⟩
  rw [← hs]; exact full_iff q hw

/-- **SC refinement.**  In every reachable state of the concurrent SC machine (any interleaving
of owner push/pop/put/clear with any number of concurrent take / wsapi-take / trypass / peek /
wsapi-peek, any capacity) the invariant of DESIGN A.2 holds; in particular the abstract deque
`A` – changed only at linearization points – is exactly the contents of the slots `[lb, lt)`,
inside the storage. -/
theorem C02_refines_deque_sc (n : Int) (hn : 2 ≤ n) (s : St) (h : Reachable step (init n) s) :
    Inv s ∧ (s.A.length : Int) = s.lt - s.lb ∧ (∀ k : Nat, k < s.A.length → s.ptr (s.lb + k) = s.A[k]?) ∧
    0 ≤ s.lb ∧ s.lt ≤ s.size := by
  have hi := reachable_inv n (by omega) s h
  exact ⟨hi, hi.len, hi.cont, hi.lb0, hi.lts⟩

/-- **No loss, no duplication (SC).**  If the inserted elements are pairwise distinct (a thread
descriptor is made runnable once at a time), then in every reachable state nothing was returned
twice, and the multiset of everything inserted equals deque contents + elements in flight
(removed at a linearization point, not yet returned) + everything returned. -/
theorem C02_no_loss_no_dup_sc (n : Int) (hn : 2 ≤ n) (s : St) (h : Reachable step (init n) s)
    (hd : s.ins.Nodup) :
    s.retd.Nodup ∧ (s.A ++ (s.flT.toList ++ (s.flO.toList ++ s.retd))).Perm s.ins :=
  no_loss_no_dup n (by omega) s h hd

/-- **Exactly once.**  Every inserted element is in exactly one place – still available in the
deque, in flight to exactly one worker, or already returned (once); in a quiescent state (no
operation in progress) it is either still in the slots `[base, top)` or was returned exactly
once: never forgotten, never handed to two workers. -/
theorem C02_exactly_once (n : Int) (hn : 2 ≤ n) (s : St) (h : Reachable step (init n) s)
    (hd : s.ins.Nodup) (e : Elem) (he : e ∈ s.ins) :
    s.A.count e + s.flT.toList.count e + s.flO.toList.count e + s.retd.count e = 1 ∧
    (s.opc = .idle → (∀ p, s.tpc p = .idle) →
      s.A.count e + s.retd.count e = 1 ∧ s.base = s.lb ∧ s.top = s.lt ∧ s.lock = .free) := by
  have h1 := exactly_once n (by omega) s h hd e he
  refine ⟨h1, ?_⟩
  intro ho ht
  obtain ⟨q1, q2, q3, q4, q5⟩ := quiescent_no_flight s (reachable_inv n (by omega) s h) ho ht
  rw [q1, q2] at h1
  simp at h1
  exact ⟨h1, q4, q5, q3⟩

/-- **A declined steal leaves the candidate available.**  When the decision callback of
`myth_wsapi_runqueue_take` is asked, the candidate it sees is the head of the deque; if it
declines, then after the roll-back and unlock the deque, the slots, `top`, and the returned /
inserted sets are exactly as before, `base` is back at the logical base and the lock is free. -/
theorem C02_decline_leaves_available (n : Int) (hn : 2 ≤ n) (s : St) (h : Reachable step (init n) s)
    (p : Pid) (b : Int) (r : Option Elem) (hpc : s.tpc p = .wkd b r) :
    r = s.A.head? ∧ s.A ≠ [] ∧
    ∃ s1 s2 s3, step s (.tDecide p false) = some s1 ∧ step s1 (.t p) = some s2 ∧ step s2 (.t p) = some s3 ∧
      s3.A = s.A ∧ s3.retd = s.retd ∧ s3.ins = s.ins ∧ s3.ptr = s.ptr ∧ s3.top = s.top ∧
      s3.base = s3.lb ∧ s3.lb = s.lb ∧ s3.lock = .free ∧ s3.tpc p = .idle :=
  decline_spec s (reachable_inv n (by omega) s h) p b r hpc

/-- **The owner's lock-free fast path is safe.**  While the owner is about to read slot `t`
without the lock, that slot holds the element removed from `A` at the linearization point, and
no other participant's pending claiming read (take, wsapi take, wsapi peek) or pending store
(pass) is at index `t` (they are all strictly below). -/
theorem C02_owner_fast_path_safe (n : Int) (hn : 2 ≤ n) (s : St) (h : Reachable step (init n) s)
    (t : Int) (x : Elem) (hpc : s.opc = .po3 t x) :
    s.ptr t = some x ∧ s.flO = some x ∧
    ∀ p i, slotT s p = some i → (∀ b, s.tpc p ≠ .pk3 b) → i < t :=
  fast_path_disjoint s (reachable_inv n (by omega) s h) t x hpc

/-- **Progress (owner).**  The owner's next step is always enabled (the model's ghost look-ups
never block it) unless it is idle or the process has aborted. -/
theorem C02_progress_owner (n : Int) (hn : 2 ≤ n) (s : St) (h : Reachable step (init n) s)
    (h1 : s.opc ≠ .idle) (h2 : s.opc ≠ .aborted) (h3 : s.opc ≠ .assertFail) :
    (step s .o).isSome = true :=
  progress_owner s (reachable_inv n (by omega) s h) h1 h2 h3

/-- **Progress (other participants).**  A participant inside an operation can always take its
next step; while it waits for the decision callback both verdicts can be delivered. -/
theorem C02_progress_thief (n : Int) (hn : 2 ≤ n) (s : St) (h : Reachable step (init n) s) (p : Pid)
    (h1 : s.tpc p ≠ .idle) :
    (∀ b r, s.tpc p = .wkd b r → ∀ a, (step s (.tDecide p a)).isSome = true) ∧
    ((∀ b r, s.tpc p ≠ .wkd b r) → (step s (.t p)).isSome = true) := by
  have hi := reachable_inv n (by omega) s h
  exact ⟨fun b r hpc a => progress_decide s hi p b r hpc a, fun h2 => progress_thief s hi p h1 h2⟩

/-- **The guards fire exactly at capacity.**  At push's overflow test `base == 0` holds iff the
deque holds `size` elements; at put's overflow test `top == size` holds iff it does; clear's
assertion `top == base` holds iff the deque is empty. -/
theorem C02_abort_only_when_full (n : Int) (hn : 2 ≤ n) (s : St) (h : Reachable step (init n) s) :
    (∀ e, s.opc = .pub e → (s.base = 0 ↔ (s.A.length : Int) = s.size)) ∧
    (∀ e, s.opc = .pt2 e → (s.top = s.size ↔ (s.A.length : Int) = s.size)) ∧
    (s.opc = .cl1 → (s.top = s.base ↔ s.A = [])) := by
  have hi := reachable_inv n (by omega) s h
  exact ⟨pub_abort_iff s hi, pt2_abort_iff s hi, cl1_assert_iff s hi⟩

/-- **Both storage boundaries.**  Every slot read or written by any participant's next step, and
both `memmove`s of the re-centring code, stay inside `[0, size)`. -/
theorem C02_slot_accesses_in_bounds (n : Int) (hn : 2 ≤ n) (s : St) (h : Reachable step (init n) s) :
    (∀ i, slotO s = some i → 0 ≤ i ∧ i < s.size) ∧
    (∀ p i, slotT s p = some i → 0 ≤ i ∧ i < s.size) ∧
    (∀ e off, s.opc = .pum e off → 0 ≤ s.base + off ∧ s.top + off ≤ s.size ∧ 0 ≤ s.base ∧ s.top ≤ s.size) ∧
    (∀ e off, s.opc = .pt3 e off → 0 ≤ s.base + off ∧ s.top + off ≤ s.size ∧ 0 ≤ s.base ∧ s.top ≤ s.size) := by
  have hi := reachable_inv n (by omega) s h
  exact ⟨slotO_in_bounds s hi, slotT_in_bounds s hi, (memmove_in_bounds s hi).1, (memmove_in_bounds s hi).2⟩

/-- The configuration the models encode is the configuration of the code (`Generated/Consts.lean`
is re-derived from /repo on every run): LIFO owner side, quick checks on pop and steal, Cilk-style
barriers (`myth_wbarrier` = compiler barrier, `myth_rbarrier`/`myth_rwbarrier` = `xchg`). -/
theorem C02_config_matches :
    Gen.queueLifo = 1 ∧ Gen.quickCheckOnPop = 1 ∧ Gen.quickCheckOnSteal = 1 ∧
    Gen.barrierKind = Gen.barrierCilk ∧ 2 ≤ Gen.initialQueueSize := by decide

/-! ## non-vacuity (SC machine): concrete reachable states meeting the hypotheses above -/

open Lbl in
/-- capacity 4: the owner pushes 7 and 8, thief 0 takes 7 while the owner pops 8 through the locked
    slow path (it saw the thief's transient `base+1`) -/
def exRace : List Lbl :=
  [oPush 7, o, o, o, oPush 8, o, o, o,
   tTake 0, t 0, t 0, t 0, t 0,
   oPop, o, o, o,
   t 0, t 0, t 0,
   o, o, o, o, o, o, o]

example : (runs step (init 4) exRace).map (fun s => (s.retd, s.A, s.top, s.base, s.ins)) =
    some ([8, 7], [], 3, 3, [8, 7]) := by decide
example : (runs step (init 4) exRace).map (fun s => decide s.ins.Nodup) = some true := by decide

open Lbl in
/-- capacity 4: three pushes reach `top == size` and re-centre (memmove by -1); `A` is unchanged by it -/
def exRecentre : List Lbl :=
  [oPush 1, o, o, o, oPush 2, o, o, o, tTake 0, t 0, t 0, t 0, t 0, t 0, t 0, t 0,
   oPush 3, o, o, o, o, o, o, o]

example : (runs step (init 4) exRecentre).map (fun s => (s.opc, s.A, s.lb, s.lt, s.top, s.base)) =
    some (.pu1 3 2, [2], 1, 2, 2, 1) := by decide

open Lbl in
/-- a state in which the decision callback is being asked (hypothesis of `C02_decline_leaves_available`) -/
def exDecide : List Lbl := [oPush 5, o, o, o, tWTake 1, t 1, t 1, t 1, t 1, t 1, t 1]

example : (runs step (init 4) exDecide).map (fun s => (s.tpc 1, s.A, s.tr)) =
    some (.wkd 2 (some 5), [5], true) := by decide

open Lbl in
/-- a state on the owner's lock-free fast path (hypothesis of `C02_owner_fast_path_safe`) with a thief
    holding the lock at the same time -/
def exFast : List Lbl :=
  [oPush 1, o, o, o, oPush 2, o, o, o, oPut 3, o, o, o, o, o,
   tTake 0, t 0, t 0, t 0, oPop, o, o, o]

example : (runs step (init 8) exFast).map (fun s => (s.opc, s.tpc 0, s.A)) =
    some (.po3 5 2, .tk1, [3, 1]) := by decide

end MythVerif.Wsq

namespace MythVerif.WsqTso
open MythVerif.Wsq (Elem Pid Holder)

/- Statement (DESIGN section 4, C02):

     theorem C02_no_loss_no_dup_tso : for every reachable state of the x86-TSO machine running ALL
       queue operations (push with re-centring, pop, put with re-centring, clear, take, wsapi take
       with decision callback, trypass, peek, wsapi peek) with the fences of the source:
       retd.Nodup ∧ multiset(A) + in-flight + returned = multiset(inserted).

   Proved below, for every capacity, any number of other participants and every interleaving of
   program steps and store-buffer drains: the machine of `Model/WsQueueTso.lean`, i.e.
     * owner `push` WITH re-centring (at `top == size`: lock, `abort()` iff `base == 0`, else
       `memmove` down by `(-base-1)/2`, `top += offset`, `base += offset`, unlock, then the push
       proper), `pop` – fast path, locked slow path including the invalidation of the steal cache's
       pointer word (`if (top <= base) wc->ptr = NULL`), reset path – and `put` WITH re-centring (at
       `base == 0`: `abort()` iff `top == size`, else `memmove` up by `(size-top+1)/2`,
       `top += offset`, `base += offset`, then the insertion proper in the same locked section,
       no fence in between), and `clear` (lock, `myth_assert(top == base)` – a failure is the
       terminal program counter `assertFail` –, `base = size/2`, `top = base`, unlock);
     * any number of other participants, each running any sequence of `myth_queue_take`,
       `myth_queue_trypass` (trylock – a failure returns 0; `base == 0` returns 0; slot store,
       `base--`, unlock), `myth_queue_peek` (lock-free loads of `base`, `top`, one slot; nothing
       is removed and the value read is only a hint to the caller – nothing is claimed about it),
       `myth_wsapi_runqueue_take` (trylock – a failure returns NULL; `base++`, fence, comparison,
       slot read, decision callback as a separate label with either verdict: accept = linearization
       point, then `wc->ptr = NULL`, unlock; decline = roll-back of `base`, unlock) and the caching
       `myth_wsapi_runqueue_peek` (cache test, trylock – a failure restarts; second cache test,
       `base++`, fence, comparison, slot read, `wc->ptr = th`, roll-back, unlock, return of the
       cached word as a hint).  Of the steal cache only the pointer word is modelled, as under SC.
   put and trypass linearize when their `base` store DRAINS (the slot store precedes it in the same
   FIFO buffer), for trypass possibly while the owner is inside a lock-free push or pop.
   A re-centring `memmove` is ONE buffer entry (`Sto.shift`); the header of the model file says why
   that loses nothing: slots are loaded only under the lock (excluded until the owner's unlock fence
   has drained everything), by the owner (store forwarding) or by peek (value not recorded), and
   the lock-free loads of `top` / `base` (quick checks, peek) may see the half-updated pair – their
   values are unconstrained in the invariant (`exRcHint` below exhibits such a read).  The two
   `abort()`s (`stuck`, `stuckL`) happen only on a full deque.
   That is every operation of `myth_wsqueue_func.h` plus the two queue functions of
   `myth_if_native.c`; `myth_queue_pass` is the caller's retry loop around trypass (labels
   `tPass` in sequence), `myth_queue_init` is `init`.  Not modelled: of the steal cache anything but
   its pointer word (`seq`, `size`, `data`: the advisory copy of the hint), the signal-safety flag
   `op_flag` and the optional `USE_LOCK*` / `USE_THREAD_CS` mutexes (compiled out in the verified
   configuration, `C02_config_matches`).  Modelling simplifications: the releasing store of unlock
   is performed on memory right after its fence (DESIGN A.3); a re-centring `memmove` is one buffer
   entry (justified in the header of the model file).  Granularity: one program counter per shared
   access, with the mergers of the SC model (a lock holder's `b = q->base; q->base = b±1`, the
   owner's `top = q->top - 1; q->top = top`, `q->base += offset; t = q->top`); pop's test
   `if (top <= base)` compares two locals – the model re-reads the owner's view of `base` instead,
   which is the value loaded at `po4` (the owner holds the lock and has no `base` store pending).
   The per-program-counter lemma files `Proofs/WsQueueTsoFl*.lean` (drains) and
   `Proofs/WsQueueTsoBnd[OT]*.lean` (bounds) are instances of one template each, generated by script. -/

/-- **No loss, no duplication under x86-TSO store buffering (all queue operations).**
In every reachable state of the store-buffer machine with the fences of the source, for every
capacity, the owner running any sequence of push / pop / put / clear and any number of other
participants (each running take, wsapi take, trypass, peek or wsapi peek, in any order, the decision
callback answering either way):
the TSO invariant holds (buffer shapes, memory-side window `[lb, mem.top)` = prefix of `A`,
`mem.base = lb (+1 while a thief's increment is visible)`), every value returned equals the element
removed at the linearization point, nothing is returned twice, and inserted = deque + in flight +
returned as multisets; the three fall-back branches of the model's ghost look-ups are unreachable;
in a quiescent drained state memory `[base, top)` holds exactly the threads not yet resumed; a
pending inserting `base` store (put, trypass) belongs to the lock holder just before its unlock,
targets the slot below the logical base (as the issuing participant sees it: `lb + sh`, where
`sh ≠ 0` only while the shift entry of put's own re-centring is still buffered in front), and the
buffer's view of that slot is the element it will insert when it drains; the overflow tests
`base == 0` of put and trypass read the logical base; `abort()` ("Runqueue overflow") is reached
only when the deque holds `size` elements (`lb = 0`, `lt = size`), and the tests that guard it read
the logical values; while the decision callback of wsapi take is asked the candidate is the head of
the (non-empty) deque, and if it declines, then after the roll-back store, its drain and the unlock
the deque, the slots, `top` and the returned / inserted lists are as before, `base` is the logical
base again and the lock is free; clear's assertion `top == base` reads the logical values and holds
exactly when the deque is empty. -/
theorem C02_no_loss_no_dup_tso (n : Int) (s : St) (h : Reachable step (init FenceCfg.code n) s) :
    Inv s ∧
    (s.ins.Nodup → s.retd.Nodup ∧ (s.A ++ (s.flT.toList ++ (s.flO.toList ++ s.retd))).Perm s.ins) ∧
    ((∀ t, s.opc = .po2 t → viewBase s.bufO s.base + 1 < t → s.A.getLast? ≠ none) ∧
     (∀ t, s.opc = .po4 t → viewBase s.bufO s.base ≤ t → s.A.getLast? ≠ none) ∧
     (∀ p b, s.tpc p = .tk2 b → b < viewTop (s.bufT p) s.top → s.A ≠ [])) ∧
    (s.opc = .idle → (∀ p, s.tpc p = .idle) → s.bufO = [] →
      s.flO = none ∧ s.flT = none ∧ s.lock = .free ∧ s.base = s.lb ∧ s.top = s.lt ∧
      (∀ k : Nat, k < s.A.length → s.ptr (s.base + k) = s.A[k]?) ∧ (s.A.length : Int) = s.top - s.base) ∧
    ((∀ v e, Sto.baseI v e ∈ s.bufO →
        s.opc = .pt9 ∧ s.lock = .owner ∧ v = s.lb + s.sh - 1 ∧ viewPtr s.bufO s.ptr v = some e) ∧
     (∀ p v e, Sto.baseI v e ∈ s.bufT p →
        (∃ ok, s.tpc p = .tp4 ok) ∧ s.lock = .thief p ∧ v = s.lb - 1 ∧ viewPtr (s.bufT p) s.ptr v = some e)) ∧
    ((∀ e, s.opc = .pt1 e → viewBase s.bufO s.base = s.lb) ∧
     (∀ p e, s.tpc p = .tp1 e → viewBase (s.bufT p) s.base = s.lb)) ∧
    ((s.opc = .stuck ∨ s.opc = .stuckL →
        (s.A.length : Int) = s.size ∧ s.lb = 0 ∧ s.lt = s.size ∧ s.top = s.size ∧ s.base = 0 ∧
        s.lock = .owner ∧ s.bufO = []) ∧
     (∀ e, s.opc = .pub e → viewBase s.bufO s.base = s.lb ∧ s.lt = s.size) ∧
     (∀ e, s.opc = .pt2 e → viewTop s.bufO s.top = s.lt ∧ s.lb = 0)) ∧
    (∀ p b r, s.tpc p = .wkd b r →
      r = s.A.head? ∧ s.A ≠ [] ∧
      ∃ s1 s2 s3 s4, step s (.tDecide p false) = some s1 ∧ step s1 (.t p) = some s2 ∧
        step s2 (.flushT p) = some s3 ∧ step s3 (.t p) = some s4 ∧
        s4.A = s.A ∧ s4.retd = s.retd ∧ s4.ins = s.ins ∧ s4.ptr = s.ptr ∧ s4.top = s.top ∧
        s4.base = s4.lb ∧ s4.lb = s.lb ∧ s4.lock = .free ∧ s4.tpc p = .idle ∧ s4.bufT p = []) ∧
    (s.opc = .cl1 → (viewTop s.bufO s.top = viewBase s.bufO s.base ↔ s.A = []) ∧
      viewTop s.bufO s.top = s.lt ∧ viewBase s.bufO s.base = s.lb) := by
  have hi := reachable_inv n s h
  obtain ⟨g1, g2, g3, _⟩ := ghost_branches_unreachable s hi
  exact ⟨hi, no_loss_no_dup n s h, ⟨g1, g2, g3⟩, quiescent_mem s hi,
    ⟨owner_baseI s hi, thief_baseI s hi⟩, base_tests_logical s hi,
    ⟨stuck_only_when_full s hi, (overflow_tests_logical s hi).1, (overflow_tests_logical s hi).2⟩,
    decline_spec s hi, cl1_assert_iff s hi⟩

/-- **Both storage boundaries and the overflow guards under x86-TSO** (TSO analogue of
`C02_abort_only_when_full` and of `C02_slot_accesses_in_bounds`; capacities `0 ≤ n`).  In every reachable state the bounds invariant `Bnd` holds: the logical window – and the
owner's view of it while the shift entry of a re-centring is still buffered – lies inside
`[0, size]`; the `myth_assert`s of the re-centring and insertion code hold (`offset < 0` in push,
`offset > 0` in put, `t < size`, `b > 0`); every slot store of push / put / trypass / pop goes to an
index inside `[0, size)`; push's test `base == 0` (at `top == size`) and put's test `top == size` (at
`base == 0`) fire exactly when the deque holds `size` elements; the memory values of `base` and `top`
stay inside `[0, ..)` / `(.., size]` at every moment – also in the middle of a re-centring, when
they are a half-updated pair – so that every slot LOAD, including the one of the lock-free
`myth_queue_peek` that may have read such a pair, is at an index inside `[0, size)`. -/
theorem C02_bounds_tso (n : Int) (hn : 0 ≤ n) (s : St) (h : Reachable step (init FenceCfg.code n) s) :
    Bnd s ∧
    (0 ≤ s.lb ∧ s.lt ≤ s.size ∧ 0 ≤ s.lb + s.sh ∧ s.lt + s.sh ≤ s.size) ∧
    ((∀ e off, s.opc = .pum e off → off < 0 ∧ 0 ≤ viewBase s.bufO s.base + off) ∧
     (∀ e off, s.opc = .pt3 e off → 0 < off ∧ viewTop s.bufO s.top + off ≤ s.size)) ∧
    ((∀ e t, s.opc = .pu1 e t → 0 ≤ t ∧ t < s.size) ∧
     (∀ e b, s.opc = .pt7 e b → 0 ≤ b - 1 ∧ b - 1 < s.size) ∧
     (∀ p e b, s.tpc p = .tp2 e b → 0 ≤ b - 1 ∧ b - 1 < s.size)) ∧
    ((∀ e, s.opc = .pub e → (viewBase s.bufO s.base = 0 ↔ (s.A.length : Int) = s.size)) ∧
     (∀ e, s.opc = .pt2 e → (viewTop s.bufO s.top = s.size ↔ (s.A.length : Int) = s.size))) ∧
    (0 ≤ s.base ∧ s.top ≤ s.size) ∧
    ((∀ p b, s.tpc p = .pk3 b → 0 ≤ b ∧ b < s.size) ∧
     (∀ p b x, s.tpc p = .tk3 b x → 0 ≤ b ∧ b < s.size) ∧
     (∀ p b, s.tpc p = .wk3 b → 0 ≤ b ∧ b < s.size) ∧
     (∀ p b, s.tpc p = .vk3 b → 0 ≤ b ∧ b < s.size) ∧
     (∀ t x, s.opc = .po3 t x → 0 ≤ t ∧ t < s.size) ∧
     (∀ t x, s.opc = .po5 t x → 0 ≤ t ∧ t < s.size) ∧
     (∀ t r, s.opc = .po5b t r → 0 ≤ t ∧ t < s.size)) := by
  obtain ⟨hi, hb⟩ := reachable_bnd n hn s h
  have hlen := hi.len
  have h0 := hb.lb0
  have h1 := hb.lts
  have h2 := hb.lbv
  have h3 := hb.ltv
  refine ⟨hb, ⟨h0, h1, h2, h3⟩, ⟨?_, ?_⟩, ⟨?_, ?_, ?_⟩, abort_iff_full s hi hb, ⟨hb.base0, hb.tops⟩,
    hb.pk3, ?_, ?_, ?_, ?_, hb.po5, hb.po5b⟩
  rotate_left 5
  · intro p b x hpc
    have := hi.tk3 p b x hpc
    have := hb.tk3 p b x hpc
    omega
  · intro p b hpc
    obtain ⟨e1, _, e3, _⟩ := hi.wk3 p b hpc
    have : 0 < s.A.length := List.length_pos_iff.2 e3
    omega
  · intro p b hpc
    have := hi.vk3 p b hpc
    have := hb.vk3 p b hpc
    omega
  · intro t x hpc
    have := hi.po3 t x hpc
    have := hb.po3 t x hpc
    omega
  · intro e off hpc
    obtain ⟨hv, _⟩ := (owner_views s hi).2.2.2.1 e off hpc
    have := hb.pum e off hpc
    rw [hv]; exact this
  · intro e off hpc
    obtain ⟨_, hv⟩ := (owner_views s hi).2.2.2.2 e off hpc
    have := hb.pt3 e off hpc
    rw [hv]; exact ⟨this.1, this.2.1⟩
  · intro e t hpc
    have := hi.pu1 e t hpc
    have := hb.pu1 e t hpc
    omega
  · intro e b hpc
    have := (hi.pt7 e b hpc).1
    have := hb.pt7 e b hpc
    omega
  · intro p e b hpc
    have := hi.tp2 p e b hpc
    have := hb.tp2 p e b hpc
    omega

/-- The former name of `C02_no_loss_no_dup_tso` (from the time the TSO machine covered only part of
the operations); same statement, kept so that existing references keep working. -/
theorem C02_no_loss_no_dup_tso_partial (n : Int) (s : St) (h : Reachable step (init FenceCfg.code n) s) :
    Inv s ∧
    (s.ins.Nodup → s.retd.Nodup ∧ (s.A ++ (s.flT.toList ++ (s.flO.toList ++ s.retd))).Perm s.ins) ∧
    ((∀ t, s.opc = .po2 t → viewBase s.bufO s.base + 1 < t → s.A.getLast? ≠ none) ∧
     (∀ t, s.opc = .po4 t → viewBase s.bufO s.base ≤ t → s.A.getLast? ≠ none) ∧
     (∀ p b, s.tpc p = .tk2 b → b < viewTop (s.bufT p) s.top → s.A ≠ [])) ∧
    (s.opc = .idle → (∀ p, s.tpc p = .idle) → s.bufO = [] →
      s.flO = none ∧ s.flT = none ∧ s.lock = .free ∧ s.base = s.lb ∧ s.top = s.lt ∧
      (∀ k : Nat, k < s.A.length → s.ptr (s.base + k) = s.A[k]?) ∧ (s.A.length : Int) = s.top - s.base) ∧
    ((∀ v e, Sto.baseI v e ∈ s.bufO →
        s.opc = .pt9 ∧ s.lock = .owner ∧ v = s.lb + s.sh - 1 ∧ viewPtr s.bufO s.ptr v = some e) ∧
     (∀ p v e, Sto.baseI v e ∈ s.bufT p →
        (∃ ok, s.tpc p = .tp4 ok) ∧ s.lock = .thief p ∧ v = s.lb - 1 ∧ viewPtr (s.bufT p) s.ptr v = some e)) ∧
    ((∀ e, s.opc = .pt1 e → viewBase s.bufO s.base = s.lb) ∧
     (∀ p e, s.tpc p = .tp1 e → viewBase (s.bufT p) s.base = s.lb)) ∧
    ((s.opc = .stuck ∨ s.opc = .stuckL →
        (s.A.length : Int) = s.size ∧ s.lb = 0 ∧ s.lt = s.size ∧ s.top = s.size ∧ s.base = 0 ∧
        s.lock = .owner ∧ s.bufO = []) ∧
     (∀ e, s.opc = .pub e → viewBase s.bufO s.base = s.lb ∧ s.lt = s.size) ∧
     (∀ e, s.opc = .pt2 e → viewTop s.bufO s.top = s.lt ∧ s.lb = 0)) ∧
    (∀ p b r, s.tpc p = .wkd b r →
      r = s.A.head? ∧ s.A ≠ [] ∧
      ∃ s1 s2 s3 s4, step s (.tDecide p false) = some s1 ∧ step s1 (.t p) = some s2 ∧
        step s2 (.flushT p) = some s3 ∧ step s3 (.t p) = some s4 ∧
        s4.A = s.A ∧ s4.retd = s.retd ∧ s4.ins = s.ins ∧ s4.ptr = s.ptr ∧ s4.top = s.top ∧
        s4.base = s4.lb ∧ s4.lb = s.lb ∧ s4.lock = .free ∧ s4.tpc p = .idle ∧ s4.bufT p = []) ∧
    (s.opc = .cl1 → (viewTop s.bufO s.top = viewBase s.bufO s.base ↔ s.A = []) ∧
      viewTop s.bufO s.top = s.lt ∧ viewBase s.bufO s.base = s.lb) :=
  C02_no_loss_no_dup_tso n s h

/-! non-vacuity (TSO machine): the owner pushes 1, 2, 3 (capacity 8) with the stores of the last
    push still buffered, starts a pop (its `top` store buffered behind them), and a thief takes
    element 1 meanwhile, reading the stale `top` from memory -/
open Lbl in
def exTso : List Lbl :=
  [oPush 1, o, o, o, o, flushO, flushO, oPush 2, o, o, o, o, flushO, flushO, oPush 3, o, o, o, o,
   oPop, o, o,
   tTake 0, t 0, t 0, t 0, t 0, flushT 0, t 0, t 0, t 0, t 0,
   flushO, flushO, flushO, o, o, o, o, o, o, o, flushO, o]

example : (runs step (init FenceCfg.code 8) exTso).map
    (fun s => (s.retd, s.A, s.top, s.base, s.bufO)) = some ([3, 1], [2], 6, 5, []) := by decide
example : (runs step (init FenceCfg.code 8) exTso).map (fun s => decide s.ins.Nodup) = some true := by decide

/-! a thief's take races an owner put for the slot at `base`: the owner (capacity 8, element 1 pushed
    and drained) runs `put 2` up to its unlock with the slot store and the `base` store still
    buffered; thief 0 passes its quick check on the stale `base` and spins on the lock; the two
    stores drain (the second drain is put's linearization point), the owner unlocks, the thief
    takes 2 – the element put at the base side – and 1 stays in the deque -/
open Lbl in
def exPutRacePre : List Lbl :=
  [oPush 1, o, o, o, o, flushO, flushO,
   oPut 2, o, o, o, o, o,
   tTake 0, t 0, t 0, t 0]

open Lbl in
def exPutRace : List Lbl :=
  exPutRacePre ++
  [flushO, flushO, o,
   t 0, t 0, flushT 0, t 0, t 0, t 0, t 0]

/-- the racing state: both stores buffered, nothing inserted yet, the thief at the lock -/
example : (runs step (init FenceCfg.code 8) exPutRacePre).map
    (fun s => (s.opc, s.tpc 0, s.bufO, s.base, s.lb)) =
    some (.pt9, .tkl, [.ptr 3 (some 2), .baseI 3 2], 4, 4) := by decide
example : (runs step (init FenceCfg.code 8) exPutRacePre).map (fun s => (s.A, s.ins, s.lock)) =
    some ([1], [1], .owner) := by decide
example : (runs step (init FenceCfg.code 8) exPutRace).map
    (fun s => (s.retd, s.A, s.top, s.base, s.bufO)) = some ([2], [1], 5, 4, []) := by decide
example : (runs step (init FenceCfg.code 8) exPutRace).map (fun s => (s.lock, s.ins, s.lb)) =
    some (.free, [2, 1], 4) := by decide

open Lbl in
/-- put on an empty deque, then pop returns the element through the locked slow path -/
def exPutPop : List Lbl :=
  [oPut 5, o, o, o, o, o, flushO, flushO, o,
   oPop, o, o, flushO, o, o, o, o, o, o, o, o, flushO, flushO, o]

example : (runs step (init FenceCfg.code 8) exPutPop).map
    (fun s => (s.retd, s.A, s.top, s.base, s.bufO)) = some ([5], [], 3, 3, []) := by decide
example : (runs step (init FenceCfg.code 8) exPutPop).map (fun s => (s.opc, s.ins)) =
    some (.idle, [5]) := by decide

/-! push re-centres (capacity 4): 1, 2 pushed (`top = 4 = size`), thief 0 took 1 (`base = 3`); push 3
    locks, `offset = (-3-1)/2 = -2`, and issues the memmove, `top = 2`, `base = 1` – all three still
    buffered at the unlock while thief 1 (quick check passed on the old `top`/`base`) spins at the
    lock; they drain, the owner unlocks and finishes the push, thief 1 takes 2 from the moved window -/
open Lbl in
def exRcPre : List Lbl :=
  [oPush 1, o, o, o, o, flushO, flushO, oPush 2, o, o, o, o, flushO, flushO,
   tTake 0, t 0, t 0, t 0, t 0, flushT 0, t 0, t 0, t 0, t 0,
   oPush 3, o, o, o, o, o, o, o,
   tTake 1, t 1, t 1, t 1]

open Lbl in
def exRc : List Lbl :=
  exRcPre ++
  [flushO, flushO, flushO, o, o, o,
   t 1, t 1, flushT 1, t 1, t 1, t 1, t 1, flushO, flushO]

example : (runs step (init FenceCfg.code 4) exRcPre).map
    (fun s => (s.opc, s.tpc 1, s.bufO, s.lb, s.lt)) =
    some (.pux 3 2, .tkl, [.shift 3 4 (-2), .top 2, .base 1], 3, 4) := by decide
example : (runs step (init FenceCfg.code 4) exRcPre).map (fun s => (s.sh, s.A, s.top, s.base, s.lock)) =
    some (-2, [2], 4, 3, .owner) := by decide
example : (runs step (init FenceCfg.code 4) exRc).map
    (fun s => (s.retd, s.A, s.top, s.base, s.bufO)) = some ([2, 1], [3], 3, 2, []) := by decide
example : (runs step (init FenceCfg.code 4) exRc).map (fun s => (s.ptr 2, s.lb, s.lt, s.sh, s.lock)) =
    some (some 3, 2, 3, 0, .free) := by decide

open Lbl in
/-- a lock-free quick check in the middle of that re-centring (shift and `top` drained, `base` not
    yet) reads `top = 2`, `base = 3` and reports "empty" although the deque holds 2: a hint only -/
def exRcHint : List Lbl := exRcPre ++ [flushO, flushO, tTake 2, t 2, t 2]

example : (runs step (init FenceCfg.code 4) exRcHint).map
    (fun s => (s.tpc 2, s.top, s.base, s.A, s.bufO)) = some (.idle, 2, 3, [2], [.base 1]) := by decide

/-! put re-centres (capacity 4): 1 and 2 were put (`base = 0`, `top = 2`); put 3 finds `base == 0`,
    `offset = (4-2+1)/2 = 1`; at its unlock the buffer holds all five stores – memmove, `top`, `base`,
    the slot and the inserting `base` store; a fourth put re-centres again and fills the queue; the
    fifth reaches `abort()` (`stuckL`) on the full deque -/
open Lbl in
def exPutRcPre : List Lbl :=
  [oPut 1, o, o, o, o, o, flushO, flushO, o,
   oPut 2, o, o, o, o, o, flushO, flushO, o,
   oPut 3, o, o, o, o, o, o, o, o, o]

example : (runs step (init FenceCfg.code 4) exPutRcPre).map (fun s => (s.opc, s.bufO, s.lb, s.sh)) =
    some (.pt9, [.shift 0 2 1, .top 3, .base 1, .ptr 0 (some 3), .baseI 0 3], 0, 1) := by decide

open Lbl in
def exPutRc : List Lbl := exPutRcPre ++ [flushO, flushO, flushO, flushO, flushO, o]

example : (runs step (init FenceCfg.code 4) exPutRc).map
    (fun s => (s.A, s.top, s.base, s.bufO, s.opc)) = some ([3, 2, 1], 3, 0, [], .idle) := by decide
example : (runs step (init FenceCfg.code 4) exPutRc).map (fun s => (s.ptr 0, s.ptr 1, s.ptr 2, s.lb, s.lt)) =
    some (some 3, some 2, some 1, 0, 3) := by decide

open Lbl in
def exPutFull : List Lbl :=
  exPutRc ++ [oPut 4, o, o, o, o, o, o, o, o, o, flushO, flushO, flushO, flushO, flushO, o,
              oPut 5, o, o, o]

example : (runs step (init FenceCfg.code 4) exPutFull).map (fun s => (s.opc, s.lock, s.A, s.top, s.base)) =
    some (.stuckL, .owner, [4, 3, 2, 1], 4, 0) := by decide

open Lbl in
/-- push's `abort()`: capacity 2, one push fills `[1, 2)`, a put fills slot 0, the next push finds
    `top == size` and `base == 0` -/
example : (runs step (init FenceCfg.code 2)
    [oPush 1, o, o, o, o, flushO, flushO, oPut 2, o, o, o, o, o, flushO, flushO, o, oPush 3, o, o, o, o]).map
    (fun s => (s.opc, s.lock, s.A, s.top, s.base)) = some (.stuck, .owner, [2, 1], 2, 0) := by decide


/-! trypass races the owner's lock-free pop: elements 1, 2, 3 pushed and drained (capacity 8);
    passer 0 runs `trypass 9` up to its unlock with both stores buffered while the owner pops 3 on
    the fast path reading the stale `base`; the stores drain (the second drain inserts 9), thief 1
    then takes 9 -/
open Lbl in
def exPassPre : List Lbl :=
  [oPush 1, o, o, o, o, flushO, flushO, oPush 2, o, o, o, o, flushO, flushO, oPush 3, o, o, o, o, flushO, flushO,
   tPass 0 9, t 0, t 0, t 0, t 0, t 0,
   oPop, o, o, flushO, o, o]

open Lbl in
def exPass : List Lbl :=
  exPassPre ++
  [o, flushT 0, flushT 0, t 0,
   tTake 1, t 1, t 1, t 1, t 1, flushT 1, t 1, t 1, t 1, t 1]

example : (runs step (init FenceCfg.code 8) exPassPre).map
    (fun s => (s.opc, s.tpc 0, s.bufT 0, s.base, s.A)) =
    some (.po3 6 3, .tp4 true, [.ptr 3 (some 9), .baseI 3 9], 4, [1, 2]) := by decide
example : (runs step (init FenceCfg.code 8) exPass).map
    (fun s => (s.retd, s.A, s.top, s.base, s.lock)) = some ([9, 3], [1, 2], 6, 4, .free) := by decide
example : (runs step (init FenceCfg.code 8) exPass).map (fun s => (s.ins, decide s.ins.Nodup)) =
    some ([9, 3, 2, 1], true) := by decide

open Lbl in
/-- a peek while the passer's stores are buffered sees the stale `base` and aims at slot 4 (the old
    head); it changes nothing -/
example : (runs step (init FenceCfg.code 8) (exPassPre ++ [tPeek 2, t 2, t 2, t 2, t 2])).map
    (fun s => (s.tpc 2, s.bufT 0, s.A, s.retd)) =
    some (.pk3 4, [.ptr 3 (some 9), .baseI 3 9], [1, 2], []) := by decide

open Lbl in
/-- trypass into the very slot an owner's slow-path pop is aimed at: the owner pushed 1 and started a
    pop, thief 1 took 1, the owner (its `top = 4` drained, deque empty, `base = 5 > top`) waits for
    the lock that passer 0 holds; the pass stores slot 4 and `base = 4`; after its unlock the owner
    finds `base <= top` and pops 9 -/
def exPassSlow : List Lbl :=
  [oPush 1, o, o, o, o, flushO, flushO,
   oPop, o,
   tTake 1, t 1, t 1, t 1, t 1, flushT 1, t 1, t 1, t 1, t 1,
   o, flushO, o, o,
   tPass 0 9, t 0, t 0, t 0, t 0, t 0,
   o, flushT 0, flushT 0, t 0,
   o, o, o, o, o, o, flushO, flushO, o]

example : (runs step (init FenceCfg.code 8) exPassSlow).map
    (fun s => (s.retd, s.A, s.top, s.base, s.opc)) = some ([9, 1], [], 4, 4, .idle) := by decide

open Lbl in
/-- a failed trylock (the owner holds the lock inside put) returns without inserting; at
    `base == 0` trypass returns 0 under the lock -/
example : (runs step (init FenceCfg.code 8) [oPut 2, o, tPass 0 9, t 0]).map
    (fun s => (s.tpc 0, s.lock, s.A, s.ins)) = some (.idle, .owner, [], []) := by decide
open Lbl in
example : (runs step (init FenceCfg.code 1) [tPass 0 9, t 0, t 0]).map
    (fun s => (s.tpc 0, s.bufT 0, s.A)) = some (.tp4 false, [], []) := by decide


/-! wsapi take with a declining callback (capacity 8, element 5 pushed and drained): participant 1
    trylocks, increments `base` (drained by its fence), reads slot 4 and asks the callback; on a
    decline the roll-back store is buffered, drains, and the unlock leaves everything as it was; on
    an accept 5 is returned and the cache word is cleared -/
open Lbl in
def exDecidePre : List Lbl :=
  [oPush 5, o, o, o, o, flushO, flushO,
   tWTake 1, t 1, t 1, t 1, t 1, flushT 1, t 1, t 1, t 1]

example : (runs step (init FenceCfg.code 8) exDecidePre).map (fun s => (s.tpc 1, s.A, s.tr, s.base, s.lock)) =
    some (.wkd 4 (some 5), [5], true, 5, .thief 1) := by decide

open Lbl in
example : (runs step (init FenceCfg.code 8) (exDecidePre ++ [tDecide 1 false, t 1])).map
    (fun s => (s.tpc 1, s.bufT 1, s.base, s.tr)) = some (.wk6, [.base 4], 5, true) := by decide
open Lbl in
example : (runs step (init FenceCfg.code 8) (exDecidePre ++ [tDecide 1 false, t 1, flushT 1, t 1])).map
    (fun s => (s.tpc 1, s.A, s.retd, s.base, s.lock)) = some (.idle, [5], [], 4, .free) := by decide
open Lbl in
example : (runs step (init FenceCfg.code 8) (exDecidePre ++ [tDecide 1 true, t 1, flushT 1, t 1])).map
    (fun s => (s.tpc 1, s.A, s.retd, s.base, s.lock)) = some (.idle, [], [5], 5, .free) := by decide

/-! wsapi peek fills the cache word (stores of the cache word and of the roll-back buffered together),
    the owner's slow-path pop of the last element clears it again -/
open Lbl in
def exWPeekPre : List Lbl :=
  [oPush 5, o, o, o, o, flushO, flushO,
   tWPeek 2, t 2, t 2, t 2, t 2, t 2, t 2, flushT 2, t 2, t 2, t 2, t 2, t 2]

example : (runs step (init FenceCfg.code 8) exWPeekPre).map (fun s => (s.tpc 2, s.bufT 2, s.cache, s.A)) =
    some (.vu, [.cache (some 5), .base 4], none, [5]) := by decide

open Lbl in
def exWPeek : List Lbl :=
  exWPeekPre ++ [flushT 2, flushT 2, t 2, t 2]

example : (runs step (init FenceCfg.code 8) exWPeek).map (fun s => (s.tpc 2, s.cache, s.A, s.base, s.lock)) =
    some (.idle, some 5, [5], 4, .free) := by decide

open Lbl in
example : (runs step (init FenceCfg.code 8)
    (exWPeek ++ [oPop, o, o, flushO, o, o, o, o, o, o, o, o, flushO, flushO, o])).map
    (fun s => (s.opc, s.retd, s.cache, s.A, s.bufO)) = some (.idle, [5], none, [], []) := by decide


/-! clear: 1 was pushed and taken (`top = base = 5`); clear re-centres the empty queue to `size/2`
    – both stores buffered at its unlock –; on a non-empty queue its assertion fails -/
open Lbl in
def exClearPre : List Lbl :=
  [oPush 1, o, o, o, o, flushO, flushO,
   tTake 0, t 0, t 0, t 0, t 0, flushT 0, t 0, t 0, t 0, t 0,
   oClear, o, o, o]

example : (runs step (init FenceCfg.code 8) exClearPre).map
    (fun s => (s.opc, s.bufO, s.top, s.base, s.lb)) = some (.cl3, [.base 4, .top 4], 5, 5, 4) := by decide
open Lbl in
example : (runs step (init FenceCfg.code 8) (exClearPre ++ [flushO, flushO, o])).map
    (fun s => (s.opc, s.top, s.base, s.lock, s.retd)) = some (.idle, 4, 4, .free, [1]) := by decide
open Lbl in
example : (runs step (init FenceCfg.code 8) [oPush 1, o, o, o, o, flushO, flushO, oClear, o, o]).map
    (fun s => (s.opc, s.lock, s.A)) = some (.assertFail, .owner, [1]) := by decide

end MythVerif.WsqTso
