import MythVerif.Proofs.Uncond
/-!
# C08 — uncondition variable: signal always hands over the one waiter, early or late

Model `MythVerif.Uncond`: `myth_uncond_wait` / `myth_uncond_signal` of `myth_sync_func.h` on one
variable, one label per shared access, **any number of threads** (`Tid := Nat`; waiter and signaler
identities are arbitrary and may change from rendezvous to rendezvous), **any number of
rendezvous**, any interleaving.  The documented protocol is the explicit hypothesis
`WellUsed ls` (the monitor `proto` accepts the label sequence): an announcement only when no
rendezvous is in flight, a claim (followed by the signal) only after an announcement and by one
thread only.  "`ls` executable and well used" is `runs step init ls = some s ∧ runs proto .free ls =
some p`, equivalently `Reachable pstep pinit (s, p)` (`runs_pstep`).
-/
namespace MythVerif.Uncond
open MythVerif

/-- **exactly one resume (label sequences)**: along every executable, well-used label sequence the
    threads resumed are, in order, a prefix of the threads pushed, which are, in order, a prefix of
    the threads that announced (so nobody is resumed twice for one announcement, nobody else is
    resumed, and hand-overs happen in order); at most one announcement is unanswered; there are never
    more pushes than claims, nor more claims than announcements -/
theorem C08_exactly_one_resume (ls : List Lbl) (s : St) (p : Phase)
    (h : runs step init ls = some s) (hw : runs proto .free ls = some p) :
    resumed ls <+: pushed ls ∧ pushed ls <+: anns ls ∧
    (anns ls).length ≤ (resumed ls).length + 1 ∧
    (pushed ls).length ≤ (claims ls).length ∧ (claims ls).length ≤ (anns ls).length := by
  have ht := trinv ls s p h hw
  cases p with
  | free =>
    obtain ⟨a, b, c⟩ := ht.fr rfl
    rw [a, b, c]; simp
  | announced w =>
    obtain ⟨a, b, c⟩ := ht.an w rfl
    rw [a, b, c]; simp
  | claimed w q =>
    obtain ⟨a, c, d, e⟩ := ht.cl w q rfl
    by_cases hq : s.pc q = .sd ∨ s.pc q = .idle
    · rw [a, d hq, c]; simp
    · rw [a, e hq, c]; simp

/-- **exactly one resume (states)**: a resume of `t` happens only for the announced waiter of the
    current rendezvous after its signaler has pushed it; it ends the rendezvous, takes `t` out of
    the run queue and leaves `u->th` empty — so it cannot happen a second time without a new
    announcement, claim and push -/
theorem C08_resume_consumes_the_signal (s s' : St) (p p' : Phase) (t : Tid)
    (h : Reachable pstep pinit (s, p)) (hs : pstep (s, p) (.resume t) = some (s', p')) :
    (∃ q, p = .claimed t q ∧ q ≠ t ∧ (s.pc q = .sd ∨ s.pc q = .idle)) ∧
    p' = .free ∧ s'.runq = [] ∧ s'.th = none ∧ s'.pc t = .idle ∧ s'.ctxSaved t = false ∧
    step s' (.resume t) = none := by
  have hi := reachable_inv s p h
  obtain ⟨hs, hp⟩ := (pstep_iff s s' p p' _).mp hs
  have hi' := inv_step s s' p p' _ hi hs hp
  simp only [step] at hs
  split at hs
  · rename_i hc
    simp at hs; subst hs
    cases p with
    | free => have := hi.frR rfl; simp_all
    | announced w => have := hi.anR w rfl; simp_all
    | claimed w q =>
      have hq : s.pc q = .sd ∨ s.pc q = .idle := by
        rcases hi.clS w q rfl with h1 | h1 | h1 | h1 | h1
        · have := (hi.clG w q rfl h1).2.1; simp_all
        · have := (hi.clC w q rfl h1).2; simp_all
        · have := (hi.clP w q rfl h1).2.2; simp_all
        · exact Or.inl h1
        · exact Or.inr h1
      have hrq := (hi.clD w q rfl hq).2.1
      have htw : t = w := by have := hc.2; rw [hrq] at this; simpa using this
      subst htw
      simp only [proto] at hp
      simp at hp; subst hp
      have hd := hi.clD t q rfl hq
      refine ⟨⟨q, rfl, hi.clN t q rfl, hq⟩, rfl, ?_, ?_, ?_, ?_, ?_⟩
      · simp [hrq]
      · exact hd.2.2
      · simp
      · simp
      · simp [step]
  · simp at hs

/-- **signal returns after the hand-off (label sequences; holds with or without the protocol)**:
    for every thread `q` and every executable label sequence, `q` has returned from
    `myth_uncond_signal` at most as often as it has pushed a thread to the run queue, and pushed at
    most as often as it entered signal — so (every prefix being executable too) its k-th return
    comes after its k-th push -/
theorem C08_signal_returns_after_handoff (ls : List Lbl) (s : St) (h : runs step init ls = some s)
    (q : Tid) :
    ls.countP (isRetBy q) ≤ ls.countP (isPushBy q) ∧ ls.countP (isPushBy q) ≤ ls.countP (isClaimBy q) ∧
    (s.pc q = .sd → ls.countP (isRetBy q) + 1 = ls.countP (isPushBy q)) := by
  have hi := siginv ls s h
  have a := hi.ret q
  have b := hi.push q
  refine ⟨by omega, by omega, ?_⟩
  intro hq; simp [hq] at a; omega

/-- **signal returns after the hand-off (states)**: `myth_uncond_signal` can return only from the
    program point after the push, and at that moment the waiter it served is in the run queue with
    its context saved and `u->th` cleared — or has already been resumed from there -/
theorem C08_signal_return_state (s s' : St) (p : Phase) (q : Tid) (h : Reachable pstep pinit (s, p))
    (hs : step s (.sigRet q) = some s') :
    s.pc q = .sd ∧ (∀ w, p = .claimed w q → s.pc w = .runnable ∧ s.runq = [w] ∧ s.ctxSaved w = true ∧ s.th = none) := by
  have hi := reachable_inv s p h
  simp only [step] at hs
  split at hs
  · rename_i hc
    refine ⟨hc, ?_⟩
    intro w hp
    have := hi.clD w q hp (Or.inl hc)
    exact ⟨this.1, this.2.1, (hi.sv w).mpr (Or.inr (Or.inr this.1)), this.2.2⟩
  · simp at hs

/-- **no resume without a signal**: in every executable, well-used state a resume is impossible
    unless a signaler has claimed this very waiter and has pushed it: while nobody announced, or
    the announcement is unclaimed, or the signaler has not pushed yet, no thread can resume from
    `myth_uncond_wait` -/
theorem C08_no_resume_without_signal (s : St) (p : Phase) (t : Tid) (h : Reachable pstep pinit (s, p))
    (hn : ¬ ∃ q, p = .claimed t q ∧ (s.pc q = .sd ∨ s.pc q = .idle)) : step s (.resume t) = none := by
  have hi := reachable_inv s p h
  cases hr : step s (.resume t) with
  | none => rfl
  | some s' =>
    exfalso
    simp only [step] at hr
    split at hr
    · rename_i hc
      cases p with
      | free => have := hi.frR rfl; simp_all
      | announced w => have := hi.anR w rfl; simp_all
      | claimed w q =>
        rcases hi.clS w q rfl with h1 | h1 | h1 | h1 | h1
        · have := (hi.clG w q rfl h1).2.1; simp_all
        · have := (hi.clC w q rfl h1).2; simp_all
        · have := (hi.clP w q rfl h1).2.2; simp_all
        · have hrq := (hi.clD w q rfl (Or.inl h1)).2.1
          have : t = w := by have := hc.2; rw [hrq] at this; simpa using this
          subst this; exact hn ⟨q, rfl, Or.inl h1⟩
        · have hrq := (hi.clD w q rfl (Or.inr h1)).2.1
          have : t = w := by have := hc.2; rw [hrq] at this; simpa using this
          subst this; exact hn ⟨q, rfl, Or.inr h1⟩
    · simp at hr

/-- **publish after save**: `u->th = me` is stored only by the callback, i.e. after the waiter's
    context was saved; consequently whatever a signaler can read from `u->th`, carries between its
    read and its push, or has put into the run queue is a thread whose context is saved and which is
    asleep / runnable (never one still running on a worker) -/
theorem C08_publish_after_save (s : St) (p : Phase) (h : Reachable pstep pinit (s, p)) :
    (∀ t s', step s (.cbPublish t) = some s' → s.ctxSaved t = true) ∧
    (∀ x, s.th = some x → s.ctxSaved x = true ∧ s.pc x = .asleep) ∧
    (∀ t x, (s.pc t = .sc x ∨ s.pc t = .sp x) → s.ctxSaved x = true ∧ s.pc x = .asleep) ∧
    (∀ x, x ∈ s.runq → s.ctxSaved x = true ∧ s.pc x = .runnable) ∧
    (∀ t, (s.pc t = .ann ∨ s.pc t = .sw) → s.ctxSaved t = false ∧ s.th ≠ some t ∧ t ∉ s.runq) := by
  have hi := reachable_inv s p h
  refine ⟨?_, ?_, ?_, ?_, ?_⟩
  · intro t s' hs
    simp only [step] at hs
    split at hs
    · rename_i hc; exact (hi.sv t).mpr (Or.inl hc)
    · simp at hs
  · intro x hx
    have := hi.thA x hx
    exact ⟨(hi.sv x).mpr (Or.inr (Or.inl this)), this⟩
  · intro t x hx
    have hx' : s.pc x = .asleep := by
      cases p with
      | free => rcases hi.frQ t rfl with e | e <;> simp_all
      | announced w =>
        by_cases htw : t = w
        · subst htw; rcases hi.anW t rfl with e | e | e | e <;> simp_all
        · rcases hi.anQ w t rfl htw with e | e <;> simp_all
      | claimed w q =>
        by_cases htw : t = w
        · subst htw; rcases hi.clW t q rfl with e | e | e | e | e <;> simp_all
        · by_cases htq : t = q
          · subst htq
            rcases hi.clS w t rfl with e | e | e | e | e
            · simp_all
            · have := hi.thA w (hi.clC w t rfl e).1
              rcases hx with hx | hx <;> simp_all
            · have := (hi.clP w t rfl e).1
              rcases hx with hx | hx <;> simp_all
            · simp_all
            · simp_all
          · rcases hi.clQ w q t rfl htw htq with e | e <;> simp_all
    exact ⟨(hi.sv x).mpr (Or.inr (Or.inl hx')), hx'⟩
  · intro x hx
    have := hi.rqR x hx
    exact ⟨(hi.sv x).mpr (Or.inr (Or.inr this)), this⟩
  · intro t ht
    refine ⟨?_, ?_, ?_⟩
    · cases hc : s.ctxSaved t with
      | false => rfl
      | true => have := (hi.sv t).mp hc; rcases ht with e | e <;> simp_all
    · intro e; have := hi.thA t e; rcases ht with e | e <;> simp_all
    · intro e; have := hi.rqR t e; rcases ht with e | e <;> simp_all

/-- **repeated rendezvous**: whenever a rendezvous is complete (the waiter has resumed: the monitor
    is back in `free`) the variable is exactly as initialised — `u->th` empty, nothing of this
    variable in a run queue, nobody announced, switching, asleep or runnable on it, no signal in
    flight before its push (at most signalers about to return) — so the next rendezvous, with any
    waiter and any signaler, starts from the same invariant; and a resume always completes the
    rendezvous -/
theorem C08_repeated_rendezvous (s : St) (p : Phase) (h : Reachable pstep pinit (s, p)) :
    (p = .free → s.th = none ∧ s.runq = [] ∧
      ∀ t, quiet (s.pc t) = true ∧ inWait (s.pc t) = false ∧ inSignal (s.pc t) = false ∧ s.ctxSaved t = false) ∧
    (∀ w q s' p', p = .claimed w q → pstep (s, p) (.resume w) = some (s', p') → p' = .free) := by
  have hi := reachable_inv s p h
  constructor
  · intro hp
    refine ⟨hi.frT hp, hi.frR hp, ?_⟩
    intro t
    have hq := hi.frQ t hp
    have hc : s.ctxSaved t = false := by
      cases hc : s.ctxSaved t with
      | false => rfl
      | true => have := (hi.sv t).mp hc; rcases hq with e | e <;> simp_all
    rcases hq with e | e <;> simp [e, quiet, inWait, inSignal, hc]
  · intro w q s' p' hp hs
    subst hp
    have := ((pstep_iff s s' _ p' _).mp hs).2
    simp [proto] at this
    exact this.symm

/-- **stuck-freedom / the signal always hands over, early or late**: in every executable, well-used
    state in which a signal has been issued for waiter `w` by `q` and `w` has not yet resumed, a
    non-spinning step of `w` or `q` is enabled (in particular the model's `sigPush` precondition is
    never what blocks), and it either completes the rendezvous or strictly decreases `rank ≤ 7`:
    *early* signal (`w` still at `ann`/`sw`/`cb`, `q` spinning) — the waiter's own step is enabled;
    *late* signal (`w` asleep) — the signaler's read / clear / push is enabled; after the push —
    `resume w` is enabled. -/
theorem C08_progress (s : St) (w q : Tid) (h : Reachable pstep pinit (s, .claimed w q)) :
    ∃ l s' p', l.isSpin = false ∧ (l.actor = w ∨ l.actor = q) ∧
      pstep (s, .claimed w q) l = some (s', p') ∧
      (p' = .free ∨ (p' = .claimed w q ∧ rank s' w q < rank s w q)) ∧ rank s w q ≤ 7 := by
  have hi := reachable_inv s _ h
  have hne := hi.clN w q rfl
  have hwq : w ≠ q := fun e => hne e.symm
  have hbound : rank s w q ≤ 7 := by
    unfold rank
    have a : wrank (s.pc w) ≤ 3 := by cases s.pc w <;> simp [wrank]
    have b : qrank (s.pc q) ≤ 3 := by cases s.pc q <;> simp [qrank]
    omega
  rcases hi.clW w q rfl with e | e | e | e | e
  · refine ⟨.blockBegin w, { s with pc := upd s.pc w .sw }, _, rfl, Or.inl rfl, ?_, Or.inr ⟨rfl, ?_⟩, hbound⟩
    · simp [pstep, step, proto, e]
    · simp [rank, e, wrank, hne]
  · refine ⟨.cbBegin w, { s with pc := upd s.pc w .cb, ctxSaved := upd s.ctxSaved w true }, _, rfl, Or.inl rfl, ?_, Or.inr ⟨rfl, ?_⟩, hbound⟩
    · simp [pstep, step, proto, e]
    · simp [rank, e, wrank, hne]
  · refine ⟨.cbPublish w, { s with th := some w, pc := upd s.pc w .asleep }, _, rfl, Or.inl rfl, ?_, Or.inr ⟨rfl, ?_⟩, hbound⟩
    · simp [pstep, step, proto, e]
    · simp [rank, e, wrank, hne]
  · -- the waiter is asleep: the signaler moves
    rcases hi.clS w q rfl with g | g | g | g | g
    · have hth := (hi.clG w q rfl g).2.2 e
      refine ⟨.sigRead q w, { s with pc := upd s.pc q (.sc w) }, _, rfl, Or.inr rfl, ?_, Or.inr ⟨rfl, ?_⟩, hbound⟩
      · simp [pstep, step, proto, g, hth]
      · simp [rank, g, qrank, hwq]
    · refine ⟨.sigClear q, { s with th := none, pc := upd s.pc q (.sp w) }, _, rfl, Or.inr rfl, ?_, Or.inr ⟨rfl, ?_⟩, hbound⟩
      · simp [pstep, step, proto, g]
      · simp [rank, g, qrank, hwq]
    · have hsv := (hi.sv w).mpr (Or.inr (Or.inl e))
      refine ⟨.sigPush q w, { s with runq := s.runq ++ [w], pc := upd (upd s.pc w .runnable) q .sd }, _, rfl, Or.inr rfl, ?_, Or.inr ⟨rfl, ?_⟩, hbound⟩
      · simp [pstep, step, proto, g, e, hsv]
      · simp [rank, g, e, qrank, wrank, hwq]
    · have := (hi.clD w q rfl (Or.inl g)).1; simp_all
    · have := (hi.clD w q rfl (Or.inr g)).1; simp_all
  · -- pushed: the waiter resumes
    have hq : s.pc q = .sd ∨ s.pc q = .idle := by
      rcases hi.clS w q rfl with g | g | g | g | g
      · have := (hi.clG w q rfl g).1; simp_all
      · have := hi.thA w (hi.clC w q rfl g).1; simp_all
      · have := (hi.clP w q rfl g).1; simp_all
      · exact Or.inl g
      · exact Or.inr g
    have hrq := (hi.clD w q rfl hq).2.1
    refine ⟨.resume w, { s with runq := s.runq.erase w, pc := upd s.pc w .idle, ctxSaved := upd s.ctxSaved w false },
      .free, rfl, Or.inl rfl, ?_, Or.inl rfl, hbound⟩
    simp [pstep, step, proto, e, hrq]

/-- the rank never increases while the rendezvous is in flight: whatever any thread does (spinning
    included), the phase stays `claimed w q` with `rank` not larger, or the rendezvous completes -/
theorem C08_rank_never_increases (s s' : St) (p' : Phase) (w q : Tid) (l : Lbl)
    (h : Reachable pstep pinit (s, .claimed w q)) (hs : pstep (s, .claimed w q) l = some (s', p')) :
    p' = .free ∨ (p' = .claimed w q ∧ rank s' w q ≤ rank s w q) := by
  have hi := reachable_inv s _ h
  obtain ⟨hsv, hthA, hrqR, hrqN, hfrT, hfrR, hfrQ, hanW, hanR, hanT, hanQ, hclN, hclW, hclQ, hclS, hclG, hclC, hclP, hclD⟩ := hi
  obtain ⟨hs, hp⟩ := (pstep_iff s s' _ p' l).mp hs
  have hne := hclN w q rfl
  have hcw := hclW w q rfl
  have hcs := hclS w q rfl
  have hcq := fun t => hclQ w q t rfl
  have hcp := hclP w q rfl
  clear hfrT hfrR hfrQ hanW hanR hanT hanQ hclN hclW hclQ hclS hclG hclC hclP hclD hsv hrqN
  cases l <;> simp only [step] at hs <;> (first | (split at hs) | skip) <;> (try simp at hs) <;> (try subst hs) <;>
    simp only [proto] at hp <;> (first | (split at hp) | skip) <;> (try simp at hp) <;> (try subst hp) <;>
    simp only [rank, upd_apply] <;> grind [wrank, qrank]

/-- the protocol is needed: without it the library executes label sequences in which a second
    waiter overwrites `u->th` and the first one is lost (asleep, referenced by nobody) -/
theorem C08_protocol_is_needed : ∃ ls s, runs step init ls = some s ∧ ¬ WellUsed ls ∧
    s.pc 1 = .asleep ∧ s.th = some 2 ∧ s.runq = [] := by
  refine ⟨[.announce 1, .announce 2, .blockBegin 1, .cbBegin 1, .cbPublish 1, .blockBegin 2, .cbBegin 2, .cbPublish 2],
    _, rfl, ?_, ?_⟩
  · rintro ⟨p, hp⟩; simp [runs, proto] at hp
  · decide

/-! ### non-vacuity: `WellUsed` is satisfiable, with late and early signals and changing roles -/

/-- late signal: the waiter is fully asleep before the signaler arrives -/
def lateTrace : List Lbl :=
  [.announce 1, .blockBegin 1, .cbBegin 1, .cbPublish 1, .claim 2, .sigRead 2 1, .sigClear 2,
   .sigPush 2 1, .resume 1, .sigRet 2]

/-- early signal: the signaler claims and spins while the waiter is still switching; then a second
    rendezvous on the same variable with the roles swapped (2 waits, 1 signals) -/
def earlyTrace : List Lbl :=
  [.announce 1, .blockBegin 1, .claim 2, .sigSpin 2, .sigSpin 2, .cbBegin 1, .sigSpin 2, .cbPublish 1,
   .sigRead 2 1, .sigClear 2, .sigPush 2 1, .sigRet 2, .resume 1,
   .announce 2, .claim 1, .sigSpin 1, .blockBegin 2, .cbBegin 2, .cbPublish 2, .sigRead 1 2, .sigClear 1,
   .sigPush 1 2, .resume 2]

example : ∃ s, runs step init lateTrace = some s ∧ runs proto .free lateTrace = some .free ∧
    s.th = none ∧ s.runq = [] ∧ s.pc 1 = .idle ∧ s.pc 2 = .idle := by
  refine ⟨_, rfl, rfl, ?_⟩; decide

example : WellUsed lateTrace ∧ WellUsed earlyTrace := ⟨⟨_, rfl⟩, ⟨_, rfl⟩⟩

example : ∃ s, runs step init earlyTrace = some s ∧ runs proto .free earlyTrace = some .free ∧
    s.th = none ∧ s.runq = [] ∧ s.pc 1 = .sd ∧ s.pc 2 = .idle ∧
    anns earlyTrace = [1, 2] ∧ pushed earlyTrace = [1, 2] ∧ resumed earlyTrace = [1, 2] ∧ claims earlyTrace = [2, 1] := by
  refine ⟨_, rfl, rfl, ?_⟩; decide

/-- mid-rendezvous state with an early signal in flight: hypotheses of `C08_progress` are met -/
example : ∃ s, runs pstep pinit (earlyTrace.take 5) = some (s, .claimed 1 2) ∧ s.pc 1 = .sw ∧ s.pc 2 = .sg ∧
    s.th = none ∧ rank s 1 2 = 6 := by
  refine ⟨_, rfl, ?_⟩; decide

/-- the model refuses a push of a thread that has not published itself, and a resume before the push -/
example : ∃ s, runs step init (earlyTrace.take 5) = some s ∧ step s (.sigRead 2 1) = none ∧
    step s (.resume 1) = none := by
  refine ⟨_, rfl, ?_⟩; decide

end MythVerif.Uncond
