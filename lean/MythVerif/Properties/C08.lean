import MythVerif.Proofs.Uncond
/-!
# C08 — uncondition variable: signal always hands over the one waiter, early or late

Model `MythVerif.Uncond`: `myth_uncond_wait` / `myth_uncond_signal` of `myth_sync_func.h` on one
variable, one label per shared access, **any number of threads** (`Tid := Nat`; waiter and signaler
identities are arbitrary and may change from rendezvous to rendezvous), **any number of
rendezvous**, any interleaving.  The documented protocol is the explicit hypothesis
`WellUsed ls` (the monitor `proto` accepts the label sequence): an announcement only when no
rendezvous is in flight, a claim (followed by the signal) only after an announcement and by one
thread only.  "`ls` executable and well used" is `runs step init ls = some s ∧ runs proto .free ls =
some p`, equivalently `Reachable pstep pinit (s, p)` (`runs_pstep`).
-/
namespace MythVerif.Uncond
open MythVerif

/-- **exactly one resume (label sequences)**: along every executable, well-used label sequence
    (hence along every prefix of it)
    * the threads pushed to the run queue are, in order, a prefix of the threads that announced — every
      signal hands over exactly the waiter of its rendezvous, rendezvous by rendezvous; at most one
      announcement is unanswered; never more pushes than claims, nor more claims than announcements;
    * for every thread `t`: #resumes of `t` ≤ #pushes of `t` ≤ #announcements of `t` ≤ #resumes of `t` + 1 —
      `t` is resumed at most once per push and pushed at most once per announcement (and it can
      announce again only after it was resumed) -/
theorem C08_exactly_one_resume (ls : List Lbl) (s : St) (p : Phase)
    (h : runs step init ls = some s) (hw : runs proto .free ls = some p) :
    pushed ls <+: anns ls ∧ (anns ls).length ≤ (pushed ls).length + 1 ∧
    (pushed ls).length ≤ (claims ls).length ∧ (claims ls).length ≤ (anns ls).length ∧
    (∀ t, ls.countP (isResumeOf t) ≤ ls.countP (isPushOf t) ∧ ls.countP (isPushOf t) ≤ ls.countP (isAnnOf t) ∧
          ls.countP (isAnnOf t) ≤ ls.countP (isResumeOf t) + 1) := by
  have ht := trinv ls s p h hw
  have hsig := siginv ls s h
  have hper : ∀ t, ls.countP (isResumeOf t) ≤ ls.countP (isPushOf t) ∧ ls.countP (isPushOf t) ≤ ls.countP (isAnnOf t) ∧
          ls.countP (isAnnOf t) ≤ ls.countP (isResumeOf t) + 1 := by
    intro t
    have a := hsig.res t
    have b := hsig.ann t
    cases hpc : s.pc t <;> simp [hpc, blocking] at a b <;> omega
  cases p with
  | free =>
    obtain ⟨a, c⟩ := ht.fr rfl
    rw [a, c]; simp [hper]
  | announced w =>
    obtain ⟨a, c⟩ := ht.an w rfl
    rw [a, c]; simp [hper]
  | claimed w q =>
    obtain ⟨c, d, e⟩ := ht.cl w q rfl
    by_cases hq : s.pc q = .sd
    · rw [c, d hq]; simp [hper]
    · rw [c, e hq]; simp [hper]

/-- **exactly one resume (states)**: a resume of `t` is possible only while `t` sits in the run
    queue, pushed there by a signaler, with its context saved; it takes `t` out of the run queue and
    back to running, so it cannot be repeated without a new announcement, claim and push -/
theorem C08_resume_consumes_the_signal (s s' : St) (p : Phase) (t : Tid)
    (h : Reachable pstep pinit (s, p)) (hs : step s (.resume t) = some s') :
    s.pc t = .runnable ∧ t ∈ s.runq ∧ s.ctxSaved t = true ∧ s.th ≠ some t ∧
    t ∉ s'.runq ∧ s'.pc t = .idle ∧ s'.ctxSaved t = false ∧ s'.th = s.th ∧ step s' (.resume t) = none := by
  have hi := reachable_inv s p h
  simp only [step] at hs
  split at hs
  · rename_i hc
    simp at hs; subst hs
    refine ⟨hc.1, hc.2, (hi.sv t).mpr (Or.inr (Or.inr hc.1)), ?_, ?_, ?_, ?_, rfl, ?_⟩
    · intro e; have := hi.thA t e; simp_all
    · simp only; intro hm; exact ((List.Nodup.mem_erase_iff hi.rqN).mp hm).1 rfl
    · simp
    · simp
    · simp [step]
  · simp at hs

/-- **signal returns after the hand-off (label sequences; holds with or without the protocol)**:
    for every thread `q` and every executable label sequence, `q` has returned from
    `myth_uncond_signal` at most as often as it has pushed a thread to the run queue, and pushed at
    most as often as it entered signal — so (every prefix being executable too) its k-th return
    comes after its k-th push -/
theorem C08_signal_returns_after_handoff (ls : List Lbl) (s : St) (h : runs step init ls = some s)
    (q : Tid) :
    ls.countP (isRetBy q) ≤ ls.countP (isPushBy q) ∧ ls.countP (isPushBy q) ≤ ls.countP (isClaimBy q) ∧
    (s.pc q = .sd → ls.countP (isRetBy q) + 1 = ls.countP (isPushBy q)) := by
  have hi := siginv ls s h
  have a := hi.ret q
  have b := hi.push q
  refine ⟨by omega, by omega, ?_⟩
  intro hq; simp [hq] at a; omega

/-- **signal returns after the hand-off (states)**: `myth_uncond_signal` can return only from the
    program point after the push, and at that moment the waiter it served is in the run queue with
    its context saved and `u->th` cleared — or has already been resumed from there -/
theorem C08_signal_return_state (s s' : St) (p : Phase) (q : Tid) (h : Reachable pstep pinit (s, p))
    (hs : step s (.sigRet q) = some s') :
    s.pc q = .sd ∧ (∀ w, p = .claimed w q → s.pc w = .runnable ∧ w ∈ s.runq ∧ s.ctxSaved w = true ∧ s.th = none) := by
  have hi := reachable_inv s p h
  simp only [step] at hs
  split at hs
  · rename_i hc
    refine ⟨hc, ?_⟩
    intro w hp
    have := hi.clD w q hp hc
    exact ⟨this.1, (hi.rqR w).mpr this.1, (hi.sv w).mpr (Or.inr (Or.inr this.1)), this.2⟩
  · simp at hs

/-- **no resume without a signal (states)**: a thread becomes runnable again only by a signaler's
    push, a push of `x` is possible only for the signaler `q` that claimed the announcement of this very
    `x` and after it cleared `u->th`; while the announcement of `w` is unclaimed, or its signaler has
    not pushed yet, `w` cannot resume -/
theorem C08_no_resume_without_signal (s : St) (p : Phase) (h : Reachable pstep pinit (s, p)) :
    (∀ l s' t, step s l = some s' → s'.pc t = .runnable → s.pc t = .runnable ∨ ∃ q, l = .sigPush q t) ∧
    (∀ q x s', step s (.sigPush q x) = some s' → p = .claimed x q ∧ s.th = none ∧ s.pc x = .asleep) ∧
    (∀ w, p = .announced w → step s (.resume w) = none) ∧
    (∀ w q, p = .claimed w q → s.pc q ≠ .sd → step s (.resume w) = none) := by
  have hi := reachable_inv s p h
  refine ⟨?_, ?_, ?_, ?_⟩
  · intro l s' t hs ht
    cases l <;> simp only [step] at hs <;> (first | (split at hs) | skip) <;> (try simp at hs) <;> (try subst hs) <;>
      (try simp only [upd_apply] at ht) <;> (try (split at ht <;> simp_all; done)) <;> (try (exact Or.inl ht))
    rename_i q x hc
    by_cases e1 : t = q
    · simp [e1] at ht
    · by_cases e2 : t = x
      · right; exact ⟨q, by rw [e2]⟩
      · left; simpa [e1, e2] using ht
  · intro q x s' hs
    simp only [step] at hs
    split at hs
    · rename_i hc
      cases p with
      | free => rcases hi.frQ q rfl with e | e | e <;> simp_all
      | announced w =>
        by_cases hqw : q = w
        · subst hqw; rcases hi.anW q rfl with e | e | e | e <;> simp_all
        · rcases hi.anQ w q rfl hqw with e | e | e <;> simp_all
      | claimed w q' =>
        by_cases hqw : q = w
        · subst hqw
          rcases hi.clS q q' rfl with g | g | g | g
          · have := (hi.clG q q' rfl g).1; simp_all
          · have := hi.thA q (hi.clC q q' rfl g); simp_all
          · have := (hi.clP q q' rfl g).1; simp_all
          · have := (hi.clD q q' rfl g).1; simp_all
        · by_cases hqq : q = q'
          · subst hqq
            rcases hi.clS w q rfl with g | g | g | g
            · simp_all
            · simp_all
            · have hx : x = w := by have := hc.1; rw [g] at this; cases this; rfl
              subst hx
              exact ⟨rfl, (hi.clP x q rfl g).2, hc.2.1⟩
            · simp_all
          · rcases hi.clQ w q' q rfl hqw hqq with e | e | e <;> simp_all
    · simp at hs
  · intro w hp
    rcases hi.anW w hp with e | e | e | e <;> simp [step, e]
  · intro w q hp hq
    rcases hi.clS w q hp with g | g | g | g
    · rcases (hi.clG w q hp g).1 with e | e | e | e <;> simp [step, e]
    · have := hi.thA w (hi.clC w q hp g); simp [step, this]
    · have := (hi.clP w q hp g).1; simp [step, this]
    · exact absurd g hq

/-- **no resume without a signal (label sequences)**: whenever `resume t` is executed at the end
    of an executable label sequence, a push of `t` that no earlier resume of `t` has consumed
    precedes it (and every push is preceded by its own claim: `C08_exactly_one_resume`) -/
theorem C08_resume_needs_push (ls : List Lbl) (t : Tid) (s' : St)
    (h : runs step init (ls ++ [.resume t]) = some s') :
    ls.countP (isPushOf t) = ls.countP (isResumeOf t) + 1 := by
  rw [runs_append] at h
  cases hm : runs step init ls with
  | none => simp [hm] at h
  | some s =>
    simp only [hm, Option.bind, runs] at h
    split at h
    · rename_i s1 hs
      have hsig := siginv ls s hm
      have a := hsig.res t
      simp only [step] at hs
      split at hs
      · rename_i hc; simp [hc.1] at a; omega
      · simp at hs
    · simp at h

/-- **publish after save**: `u->th = me` is stored only by the callback, i.e. after the waiter's
    context was saved; consequently whatever a signaler can read from `u->th`, carries between its
    read and its push, or has put into the run queue is a thread whose context is saved and which is
    asleep / runnable (never one still running on a worker); a thread that has announced but whose
    context is not saved yet is invisible to every signaler -/
theorem C08_publish_after_save (s : St) (p : Phase) (h : Reachable pstep pinit (s, p)) :
    (∀ t s', step s (.cbPublish t) = some s' → s.ctxSaved t = true) ∧
    (∀ x, s.th = some x → s.ctxSaved x = true ∧ s.pc x = .asleep) ∧
    (∀ t x, (s.pc t = .sc x ∨ s.pc t = .sp x) → s.ctxSaved x = true ∧ s.pc x = .asleep) ∧
    (∀ x, x ∈ s.runq → s.ctxSaved x = true ∧ s.pc x = .runnable) ∧
    (∀ t, (s.pc t = .ann ∨ s.pc t = .sw) → s.ctxSaved t = false ∧ s.th ≠ some t ∧ t ∉ s.runq) := by
  have hi := reachable_inv s p h
  refine ⟨?_, ?_, ?_, ?_, ?_⟩
  · intro t s' hs
    simp only [step] at hs
    split at hs
    · rename_i hc; exact (hi.sv t).mpr (Or.inl hc)
    · simp at hs
  · intro x hx
    have := hi.thA x hx
    exact ⟨(hi.sv x).mpr (Or.inr (Or.inl this)), this⟩
  · intro t x hx
    have hx' : s.pc x = .asleep := by
      cases p with
      | free => rcases hi.frQ t rfl with e | e | e <;> simp_all
      | announced w =>
        by_cases htw : t = w
        · subst htw; rcases hi.anW t rfl with e | e | e | e <;> simp_all
        · rcases hi.anQ w t rfl htw with e | e | e <;> simp_all
      | claimed w q =>
        by_cases htw : t = w
        · subst htw
          rcases hi.clS t q rfl with g | g | g | g
          · rcases (hi.clG t q rfl g).1 with e | e | e | e <;> simp_all
          · have := hi.thA t (hi.clC t q rfl g); simp_all
          · have := (hi.clP t q rfl g).1; simp_all
          · have := (hi.clD t q rfl g).1; simp_all
        · by_cases htq : t = q
          · subst htq
            rcases hi.clS w t rfl with e | e | e | e
            · simp_all
            · have := hi.thA w (hi.clC w t rfl e)
              rcases hx with hx | hx <;> simp_all
            · have := (hi.clP w t rfl e).1
              rcases hx with hx | hx <;> simp_all
            · simp_all
          · rcases hi.clQ w q t rfl htw htq with e | e | e <;> simp_all
    exact ⟨(hi.sv x).mpr (Or.inr (Or.inl hx')), hx'⟩
  · intro x hx
    have := (hi.rqR x).mp hx
    exact ⟨(hi.sv x).mpr (Or.inr (Or.inr this)), this⟩
  · intro t ht
    refine ⟨?_, ?_, ?_⟩
    · cases hc : s.ctxSaved t with
      | false => rfl
      | true => have := (hi.sv t).mp hc; rcases ht with e | e <;> simp_all
    · intro e; have := hi.thA t e; rcases ht with e | e <;> simp_all
    · intro e; have := (hi.rqR t).mp e; rcases ht with e | e <;> simp_all

/-- **repeated rendezvous**: whenever a rendezvous is over as far as its users can tell (the waiter
    returned from wait or the signaler returned from signal: the monitor is back in `free`) the
    variable is as initialised — `u->th` empty, nobody announced, switching or asleep on it, no signal
    in flight before its push; what may remain are signalers about to return and earlier waiters
    already handed to the run queue (context saved, resumable at any time, never pushed again) — so
    the next rendezvous, with any waiter and any signaler, starts from the same invariant.  Both
    user-visible returns end the rendezvous. -/
theorem C08_repeated_rendezvous (s : St) (p : Phase) (h : Reachable pstep pinit (s, p)) :
    (p = .free → s.th = none ∧ s.runq.Nodup ∧
      ∀ t, quiet (s.pc t) = true ∧ blocking (s.pc t) = false ∧ inSignal (s.pc t) = false ∧
           (t ∈ s.runq ↔ s.pc t = .runnable) ∧ (s.ctxSaved t = true ↔ s.pc t = .runnable)) ∧
    (∀ w q s' p', p = .claimed w q → pstep (s, p) (.resume w) = some (s', p') → p' = .free) ∧
    (∀ w q s' p', p = .claimed w q → pstep (s, p) (.sigRet q) = some (s', p') → p' = .free) := by
  have hi := reachable_inv s p h
  refine ⟨?_, ?_, ?_⟩
  · intro hp
    refine ⟨hi.frT hp, hi.rqN, ?_⟩
    intro t
    have hq := hi.frQ t hp
    have hsv := hi.sv t
    have hrq := hi.rqR t
    rcases hq with e | e | e <;> simp_all [quiet, blocking, inSignal]
  · intro w q s' p' hp hs
    subst hp
    have := ((pstep_iff s s' _ p' _).mp hs).2
    simp [proto] at this
    exact this.symm
  · intro w q s' p' hp hs
    subst hp
    have := ((pstep_iff s s' _ p' _).mp hs).2
    simp [proto] at this
    exact this.symm

/-- **stuck-freedom / the signal always hands over, early or late**: in every executable, well-used
    state in which a signal has been issued for waiter `w` by `q` and neither has `w` returned from
    wait nor `q` from signal, a non-spinning step of `w` or `q` is enabled (in particular the model's
    `sigPush` precondition is never what blocks), and it either ends the rendezvous or strictly
    decreases `rank ≤ 7`:
    *early* signal (`w` still at `ann`/`sw`/`cb`, `q` spinning) — the waiter's own step is enabled;
    *late* signal (`w` asleep) — the signaler's read / clear / push is enabled; after the push —
    `resume w` is enabled. -/
theorem C08_progress (s : St) (w q : Tid) (h : Reachable pstep pinit (s, .claimed w q)) :
    ∃ l s' p', l.isSpin = false ∧ (l.actor = w ∨ l.actor = q) ∧
      pstep (s, .claimed w q) l = some (s', p') ∧
      (p' = .free ∨ (p' = .claimed w q ∧ rank s' w q < rank s w q)) ∧ rank s w q ≤ 7 := by
  have hi := reachable_inv s _ h
  have hne := hi.clN w q rfl
  have hwq : w ≠ q := fun e => hne e.symm
  have hbound : rank s w q ≤ 7 := by
    unfold rank
    have a : wrank (s.pc w) ≤ 3 := by cases s.pc w <;> simp [wrank]
    have b : qrank (s.pc q) ≤ 3 := by cases s.pc q <;> simp [qrank]
    omega
  have hwait : (s.pc w = .ann ∨ s.pc w = .sw ∨ s.pc w = .cb) →
      ∃ l s' p', l.isSpin = false ∧ (l.actor = w ∨ l.actor = q) ∧
      pstep (s, .claimed w q) l = some (s', p') ∧
      (p' = .free ∨ (p' = .claimed w q ∧ rank s' w q < rank s w q)) ∧ rank s w q ≤ 7 := by
    rintro (e | e | e)
    · refine ⟨.blockBegin w, { s with pc := upd s.pc w .sw }, _, rfl, Or.inl rfl, ?_, Or.inr ⟨rfl, ?_⟩, hbound⟩
      · simp [pstep, step, proto, e]
      · simp [rank, e, wrank, hne]
    · refine ⟨.cbBegin w, { s with pc := upd s.pc w .cb, ctxSaved := upd s.ctxSaved w true }, _, rfl, Or.inl rfl, ?_, Or.inr ⟨rfl, ?_⟩, hbound⟩
      · simp [pstep, step, proto, e]
      · simp [rank, e, wrank, hne]
    · refine ⟨.cbPublish w, { s with th := some w, pc := upd s.pc w .asleep }, _, rfl, Or.inl rfl, ?_, Or.inr ⟨rfl, ?_⟩, hbound⟩
      · simp [pstep, step, proto, e]
      · simp [rank, e, wrank, hne]
  rcases hi.clS w q rfl with g | g | g | g
  · obtain ⟨hw4, hth⟩ := hi.clG w q rfl g
    rcases hw4 with e | e | e | e
    · exact hwait (Or.inl e)
    · exact hwait (Or.inr (Or.inl e))
    · exact hwait (Or.inr (Or.inr e))
    · have hth := hth e
      refine ⟨.sigRead q w, { s with pc := upd s.pc q (.sc w) }, _, rfl, Or.inr rfl, ?_, Or.inr ⟨rfl, ?_⟩, hbound⟩
      · simp [pstep, step, proto, g, hth]
      · simp [rank, g, qrank, hwq]
  · refine ⟨.sigClear q, { s with th := none, pc := upd s.pc q (.sp w) }, _, rfl, Or.inr rfl, ?_, Or.inr ⟨rfl, ?_⟩, hbound⟩
    · simp [pstep, step, proto, g]
    · simp [rank, g, qrank, hwq]
  · have e := (hi.clP w q rfl g).1
    have hsv := (hi.sv w).mpr (Or.inr (Or.inl e))
    refine ⟨.sigPush q w, { s with runq := s.runq ++ [w], pc := upd (upd s.pc w .runnable) q .sd }, _, rfl, Or.inr rfl, ?_, Or.inr ⟨rfl, ?_⟩, hbound⟩
    · simp [pstep, step, proto, g, e, hsv]
    · simp [rank, g, e, qrank, wrank, hwq]
  · -- pushed: the waiter resumes
    have e := (hi.clD w q rfl g).1
    have hrq := (hi.rqR w).mpr e
    refine ⟨.resume w, { s with runq := s.runq.erase w, pc := upd s.pc w .idle, ctxSaved := upd s.ctxSaved w false },
      .free, rfl, Or.inl rfl, ?_, Or.inl rfl, hbound⟩
    simp [pstep, step, proto, e, hrq]

/-- a pushed waiter can always be resumed, whatever else is going on on the variable (also after
    its signaler has returned and further rendezvous have started) -/
theorem C08_pushed_can_resume (s : St) (p : Phase) (t : Tid) (h : Reachable pstep pinit (s, p))
    (ht : s.pc t = .runnable) : ∃ s' p', pstep (s, p) (.resume t) = some (s', p') := by
  have hi := reachable_inv s p h
  have hrq := (hi.rqR t).mpr ht
  cases hp : proto p (.resume t) with
  | none => cases p <;> simp [proto] at hp <;> (split at hp <;> simp at hp)
  | some p' =>
    exact ⟨{ s with runq := s.runq.erase t, pc := upd s.pc t .idle, ctxSaved := upd s.ctxSaved t false }, p',
      by simp [pstep, step, ht, hrq, hp]⟩

/-- the rank never increases while the rendezvous is in flight: whatever any thread does (spinning
    included), the phase stays `claimed w q` with `rank` not larger, or the rendezvous ends -/
theorem C08_rank_never_increases (s s' : St) (p' : Phase) (w q : Tid) (l : Lbl)
    (h : Reachable pstep pinit (s, .claimed w q)) (hs : pstep (s, .claimed w q) l = some (s', p')) :
    p' = .free ∨ (p' = .claimed w q ∧ rank s' w q ≤ rank s w q) := by
  have hi := reachable_inv s _ h
  obtain ⟨hsv, hthA, hrqR, hrqN, hfrT, hfrQ, hanW, hanT, hanQ, hclN, hclQ, hclS, hclG, hclC, hclP, hclD⟩ := hi
  obtain ⟨hs, hp⟩ := (pstep_iff s s' _ p' l).mp hs
  have hne := hclN w q rfl
  have hcs := hclS w q rfl
  have hcg := hclG w q rfl
  have hcq := fun t => hclQ w q t rfl
  have hcp := hclP w q rfl
  clear hfrT hfrQ hanW hanT hanQ hclN hclQ hclS hclG hclC hclP hclD hsv hrqN hrqR
  cases l <;> simp only [step] at hs <;> (first | (split at hs) | skip) <;> (try simp at hs) <;> (try subst hs) <;>
    simp only [proto] at hp <;> (first | (split at hp) | skip) <;> (try simp at hp) <;> (try subst hp) <;>
    simp only [rank, upd_apply] <;> grind [wrank, qrank]

/-- the protocol is needed: without it the library executes label sequences in which a second
    waiter overwrites `u->th` and the first one is lost (asleep, referenced by nobody) -/
theorem C08_protocol_is_needed : ∃ ls s, runs step init ls = some s ∧ ¬ WellUsed ls ∧
    s.pc 1 = .asleep ∧ s.th = some 2 ∧ s.runq = [] := by
  refine ⟨[.announce 1, .announce 2, .blockBegin 1, .cbBegin 1, .cbPublish 1, .blockBegin 2, .cbBegin 2, .cbPublish 2],
    _, rfl, ?_, ?_⟩
  · rintro ⟨p, hp⟩; simp [runs, proto] at hp
  · decide

/-! ### non-vacuity: `WellUsed` is satisfiable, with late and early signals and changing roles -/

/-- late signal: the waiter is fully asleep before the signaler arrives -/
def lateTrace : List Lbl :=
  [.announce 1, .blockBegin 1, .cbBegin 1, .cbPublish 1, .claim 2, .sigRead 2 1, .sigClear 2,
   .sigPush 2 1, .resume 1, .sigRet 2]

/-- early signal: the signaler claims and spins while the waiter is still switching; then a second
    rendezvous on the same variable with the roles swapped (2 waits, 1 signals) -/
def earlyTrace : List Lbl :=
  [.announce 1, .blockBegin 1, .claim 2, .sigSpin 2, .sigSpin 2, .cbBegin 1, .sigSpin 2, .cbPublish 1,
   .sigRead 2 1, .sigClear 2, .sigPush 2 1, .sigRet 2, .resume 1,
   .announce 2, .claim 1, .sigSpin 1, .blockBegin 2, .cbBegin 2, .cbPublish 2, .sigRead 1 2, .sigClear 1,
   .sigPush 1 2, .resume 2]

example : ∃ s, runs step init lateTrace = some s ∧ runs proto .free lateTrace = some .free ∧
    s.th = none ∧ s.runq = [] ∧ s.pc 1 = .idle ∧ s.pc 2 = .idle := by
  refine ⟨_, rfl, rfl, ?_⟩; decide

example : WellUsed lateTrace ∧ WellUsed earlyTrace := ⟨⟨_, rfl⟩, ⟨_, rfl⟩⟩

example : ∃ s, runs step init earlyTrace = some s ∧ runs proto .free earlyTrace = some .free ∧
    s.th = none ∧ s.runq = [] ∧ s.pc 1 = .sd ∧ s.pc 2 = .idle ∧
    anns earlyTrace = [1, 2] ∧ pushed earlyTrace = [1, 2] ∧ resumed earlyTrace = [1, 2] ∧ claims earlyTrace = [2, 1] := by
  refine ⟨_, rfl, rfl, ?_⟩; decide

/-- mid-rendezvous state with an early signal in flight: hypotheses of `C08_progress` are met -/
example : ∃ s, runs pstep pinit (earlyTrace.take 5) = some (s, .claimed 1 2) ∧ s.pc 1 = .sw ∧ s.pc 2 = .sg ∧
    s.th = none ∧ rank s 1 2 = 6 := by
  refine ⟨_, rfl, ?_⟩; decide

/-- the model refuses a push of a thread that has not published itself, and a resume before the push -/
example : ∃ s, runs step init (earlyTrace.take 5) = some s ∧ step s (.sigRead 2 1) = none ∧
    step s (.resume 1) = none := by
  refine ⟨_, rfl, ?_⟩; decide

end MythVerif.Uncond
