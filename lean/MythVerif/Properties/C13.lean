import MythVerif.Proofs.LifeReach
import MythVerif.Proofs.Ledger
/-!
# C13 — each thread is reaped exactly once and reaping recycles its resources

Model `MythVerif.Life`: one thread record, the finishing thread and any number of threads
running join / tryjoin (timedjoin = tryjoin in a loop, deadline logic in C20) / detach against
it, all interleavings, both creation modes (`init arg d`, `d` = detach-state attribute).
"Exactly one reaping operation" is the `claimed` discipline of the model (WellUsed).
-/
namespace MythVerif.Life
open MythVerif

/-- the record and the stack are never released twice, whatever the order of finish and reap -/
theorem C13_release_at_most_once (arg : Val) (d : Bool) (s : St) (h : Reach arg d s) :
    s.descFrees ≤ 1 ∧ s.stackFrees ≤ 1 := by
  have hi := reach_inv arg d s h
  refine ⟨?_, ?_⟩
  · rw [hi.dfc]
    by_cases h1 : s.tpc = .fDone ∧ s.det = true
    · by_cases h2 : s.rfreed = true
      · have := hi.rfF h2
        have := (hi.finD this).2
        simp [h1.2] at this
      · simp [h1, h2]
    · by_cases h2 : s.rfreed = true <;> simp [h1, h2]
  · rw [hi.stk]; split <;> omega

/-- no reaper is still inside an operation -/
def reapersDone (s : St) : Prop :=
  ∀ j, s.pc j = .idle ∨ (∃ v, s.pc j = .done v) ∨ s.pc j = .ddone ∨ s.pc j = .ddoneSet

/-- **reaped exactly once**: when the thread has finished completely and its (one) reaping
    operation — join, successful tryjoin/timedjoin, detach before or after the finish, or the
    detach-state attribute at creation — has completed, the record and the stack have each been
    released exactly once -/
theorem C13_reap_exactly_once (arg : Val) (d : Bool) (s : St) (h : Reach arg d s)
    (hfin : s.tpc = .fDone) (hcl : s.claimed = true) (hdone : reapersDone s) :
    s.descFrees = 1 ∧ s.stackFrees = 1 := by
  have hi := reach_inv arg d s h
  refine ⟨?_, by rw [hi.stk]; simp [hfin, tStackGone]⟩
  rw [hi.dfc]
  rcases hi.cl.mp hcl with hid | hr
  · -- created detached: nobody else may reap, the finisher released the record
    have := hi.idt hid
    have hnf : s.rfreed = false := by
      cases hrf : s.rfreed with
      | false => rfl
      | true => exact absurd this.2 (hi.rf0 hrf)
    simp [hfin, this.1, hnf]
  · cases hrp : s.reaper with
    | none => exact absurd hrp hr
    | some j =>
      have hne : s.pc j ≠ .idle := (hi.rp j).mpr hrp
      rcases hdone j with e | ⟨v, e⟩ | e | e
      · exact absurd e hne
      · have hrf := (hi.rf1 j hrp).mpr (Or.inl ⟨v, e⟩)
        have := (hi.finD (hi.rfF hrf)).2
        simp [hrf, this]
      · have hrf := (hi.rf1 j hrp).mpr (Or.inr e)
        have := (hi.finD (hi.rfF hrf)).2
        simp [hrf, this]
      · have hdet := hi.dSet j e
        have hnf : s.rfreed = false := by
          cases hrf : s.rfreed with
          | false => rfl
          | true =>
            rcases (hi.rf1 j hrp).mp hrf with ⟨v, e'⟩ | e' <;> simp [e] at e'
        simp [hfin, hdet, hnf]

/-- **try-join reports busy exactly when the target has not finished** (at its locked check),
    then changes nothing but the EBUSY counter; otherwise it proceeds exactly like join -/
theorem C13_tryjoin_busy_iff (s s' : St) (j : Tid) (f : Bool) (hs : step s (.tjLocked j f) = some s') :
    f = s.fin ∧
    (f = false → s' = { s with busy := s.busy + 1 }) ∧
    (f = true → s'.pc j = .jSpin ∧ s'.claimed = true ∧ s.claimed = false) := by
  simp only [step] at hs
  split at hs
  · rename_i hc
    refine ⟨hc.2.2, ?_, ?_⟩
    · intro hf; subst hf; simp at hs; exact hs.symm
    · intro hf; subst hf
      simp at hs
      obtain ⟨hcl, hs⟩ := hs
      subst hs; simp [hcl]
  · simp at hs

/-- **detaching never disturbs the target**: detach touches only the `detached` flag, the
    record's lock and the detacher's own state — never the result, the status, the join
    registration or anything the running target reads -/
theorem C13_detach_undisturbed (s s' : St) (j : Tid) (f : Bool)
    (hs : step s (.dFast j f) = some s' ∨ step s (.dLocked j f) = some s') :
    s'.result = s.result ∧ s'.fin = s.fin ∧ s'.tpc = s.tpc ∧ s'.jt = s.jt ∧ s'.retv = s.retv ∧
    s'.stackFrees = s.stackFrees ∧ s'.started = s.started ∧ s'.tlock = s.tlock ∧
    (∀ k, k ≠ j → s'.pc k = s.pc k) := by
  rcases hs with hs | hs <;> simp only [step] at hs <;> split at hs
  · split at hs <;> (simp at hs; subst hs; simp; intro k hk; simp [hk])
  · simp at hs
  · split at hs <;> (simp at hs; subst hs; simp; intro k hk; simp [hk])
  · simp at hs

/-- detach on an unfinished thread makes the finisher itself release the record -/
theorem C13_detached_finisher_frees (arg : Val) (d : Bool) (s s' : St) (h : Reach arg d s)
    (hs : step s (.tPublish true) = some s') : s.det = true ∧ s'.tpc = .fFreeing ∧ s'.fin = false := by
  have hi := reach_inv arg d s h
  simp only [step] at hs
  split at hs
  · split at hs
    · rename_i hd
      simp at hs; subst hs
      have hf : s.fin = false := by
        cases hfin : s.fin with
        | false => rfl
        | true => have := (hi.finD hfin).1; simp_all
      exact ⟨hd.symm, rfl, hf⟩
    · simp at hs
  · simp at hs

/-! ### non-vacuity: the four reaping modes reach the terminal state -/
def finishSteps (v : Val) (w : Option Tid) (d : Bool) : List Lbl :=
  [.tStart, .tFinish v, .tLockRead w, .tStackFree, .tPublish d]

/-- join issued first, target finishes later -/
example : ∃ s, runs step (init 7 false) ([.jLocked 1 false, .jSwitch 1, .jSet 1] ++ finishSteps 42 (some 1) false ++
    [.jReap 1 42, .descFree 1]) = some s ∧ s.tpc = .fDone ∧ s.pc 1 = .done 42 ∧ s.descFrees = 1 ∧ s.stackFrees = 1 := by
  refine ⟨_, rfl, ?_⟩; decide
/-- target finishes first, try-join busy once then succeeds -/
example : ∃ s, runs step (init 7 false) ([.tStart, .tjLocked 1 false, .tFinish 5, .tLockRead none, .tStackFree,
    .tPublish false, .tjLocked 1 true, .jReap 1 5, .descFree 1]) = some s ∧ s.busy = 1 ∧ s.pc 1 = .done 5 ∧ s.descFrees = 1 := by
  refine ⟨_, rfl, ?_⟩; decide
/-- detach before the finish -/
example : ∃ s, runs step (init 7 false) ([.tStart, .dFast 2 false, .dLocked 2 false, .tFinish 5, .tLockRead none,
    .tStackFree, .tPublish true, .tDescFree]) = some s ∧ s.tpc = .fDone ∧ s.pc 2 = .ddoneSet ∧ s.descFrees = 1 := by
  refine ⟨_, rfl, ?_⟩; decide
/-- created detached -/
example : ∃ s, runs step (init 7 true) (finishSteps 1 none true ++ [.tDescFree]) = some s ∧ s.tpc = .fDone ∧
    s.descFrees = 1 ∧ s.stackFrees = 1 := by
  refine ⟨_, rfl, ?_⟩; decide

end MythVerif.Life

namespace MythVerif.Ledger
/-- **bounded memory with one worker**: over any create/reap history on one worker the number
    of blocks ever obtained from the OS never exceeds the peak number of blocks simultaneously
    in use — every release makes the block available to the next request -/
theorem C13_bounded_memory (ops : List Op)
    (hw : ∀ op ∈ ops, (∀ w a, op = .free w a → w = 0) ∧ (∀ w, op = .get w → w = 0)) (s : St)
    (h : runOps init ops = some s) :
    s.fresh ≤ s.peak ∧ s.fresh = s.owned.length + (s.fl 0).length := by
  have hi := runOps_inv1 ops hw init s inv1_init h
  exact ⟨hi.fp, hi.cnt⟩

example : ∃ s, runOps init [.get 0, .get 0, .free 0 0, .get 0, .free 0 1, .free 0 0, .get 0] = some s ∧
    s.fresh = 2 ∧ s.peak = 2 := by
  refine ⟨_, rfl, ?_⟩; decide
end MythVerif.Ledger
