import MythVerif.Proofs.Mutex
/-!
# C04 — mutex: mutual exclusion, no lost wake-up, non-blocking trylock

Model `MythVerif.Mutex`: `lock / trylock / timedlock / unlock` of `myth_sync_func.h` with the
blocking discipline, one label per shared access, **any number of threads** (`Tid := Nat`),
any interleaving (`Reachable` = any finite label sequence from `init`; workers do not appear
because a label is enabled whichever worker executes it).
-/
namespace MythVerif.Mutex
open MythVerif

theorem inv_step (s s' : St) (l : Lbl) (h : Inv s) (hs : step s l = some s') : Inv s' := by
  cases l with
  | lockRead t v => exact p_lockRead s s' t v h hs
  | lockCas1 t ok => exact p_lockCas1 s s' t ok h hs
  | lockCas2 t ok => exact p_lockCas2 s s' t ok h hs
  | blockBegin t => exact p_blockBegin s s' t h hs
  | cbEnq t => exact p_cbEnq s s' t h hs
  | tryRead t v => exact p_tryRead s s' t v h hs
  | tryCas t ok => exact p_tryCas s s' t ok h hs
  | unlockRead t v => exact p_unlockRead s s' t v h hs
  | unlockCas2 t ok => exact p_unlockCas2 s s' t ok h hs
  | unlockCas0 t ok => exact p_unlockCas0 s s' t ok h hs
  | wakeSpin t => exact p_wakeSpin s s' t h hs
  | wakeDeq t x => exact p_wakeDeq s s' t x h hs
  | clearBit t => exact p_clearBit s s' t h hs
  | wakePush x => exact p_wakePush s s' x h hs

/-- the invariant holds in every reachable state (any threads, any schedule, any length) -/
theorem reachable_inv (s : St) (h : Reachable step init s) : Inv s :=
  inv_reachable step init Inv inv_init (fun s l s' => inv_step s s' l) s h

/-- **mutual exclusion**: at most one thread owns the lock bit (is between a successful
    lock/trylock/timedlock and the end of its unlock), and the bit is set exactly then -/
theorem C04_mutual_exclusion (s : St) (h : Reachable step init s) (t1 t2 : Tid)
    (h1 : ownsBit (s.pc t1) = true) (h2 : ownsBit (s.pc t2) = true) : t1 = t2 := by
  have hi := reachable_inv s h
  have a := (hi.own t1).mp h1
  have b := (hi.own t2).mp h2
  rw [a] at b; exact Option.some.inj b

theorem C04_bit_iff_owner (s : St) (h : Reachable step init s) :
    s.word % 2 = 1 ↔ ∃ t, ownsBit (s.pc t) = true := by
  have hi := reachable_inv s h
  rw [hi.bit]
  constructor
  · intro hn
    cases ho : s.owner with
    | none => exact absurd ho hn
    | some t => exact ⟨t, (hi.own t).mpr ho⟩
  · rintro ⟨t, ht⟩ hn
    have := (hi.own t).mp ht
    rw [hn] at this; cases this

/-- an acquisition (by lock, trylock or timedlock) succeeds only in a state where nobody owns the bit -/
theorem C04_acquire_only_when_free (s s' : St) (h : Reachable step init s) (t : Tid)
    (hs : step s (.lockCas1 t true) = some s' ∨ step s (.tryCas t true) = some s') :
    ∀ u, ownsBit (s.pc u) = false := by
  intro u
  have hi := reachable_inv s h
  have hev : s.word % 2 = 0 := by
    rcases hs with hs | hs
    · simp only [step] at hs
      split at hs
      · split at hs
        · rename_i hc; simp at hc; omega
        · simp at hs
      · simp at hs
    · simp only [step] at hs
      split at hs
      · rename_i v hpc
        split at hs
        · rename_i hc; simp at hc; have := hi.trEven t v hpc; omega
        · simp at hs
      · simp at hs
  cases hb : ownsBit (s.pc u) with
  | false => rfl
  | true =>
    have := (C04_bit_iff_owner s h).mpr ⟨u, hb⟩
    omega

/-- **waiter accounting**: the count in the word equals announced-but-not-enqueued plus asleep
    threads, minus the one an unlocker has already subtracted and is about to dequeue -/
theorem C04_waiter_accounting (s : St) (h : Reachable step init s) :
    s.word / 2 + (if s.uwf = true then 1 else 0) = s.anns.length + s.q.length ∧
    (∀ t, t ∈ s.anns ↔ (s.pc t = .ann ∨ s.pc t = .annSw)) ∧
    (∀ t, s.pc t = .asleep ↔ (t ∈ s.q ∨ t ∈ s.woken ∨ t ∈ s.ready)) ∧ s.q.Nodup ∧ s.woken.Nodup ∧
    s.ready.Nodup ∧ (∀ t, t ∈ s.q → (t ∉ s.woken ∧ t ∉ s.ready)) ∧ (∀ t, t ∈ s.woken → t ∉ s.ready) := by
  have hi := reachable_inv s h
  refine ⟨hi.acct, hi.annM, ?_, hi.qN, hi.wkN, hi.rdN, hi.qw, hi.wr⟩
  intro t
  constructor
  · exact hi.asl t
  · rintro (h | h | h)
    · exact hi.qA t h
    · exact hi.wkA t h
    · exact hi.rdA t h

/-- **no lost wake-up (invariant form)**: whenever threads are blocked or about to block on the
    mutex, either somebody owns the bit (and its unlock will see the waiters), or a dequeued
    thread is about to be pushed to a run queue, or a thread is active in its lock loop -/
theorem C04_waiters_have_hope (s : St) (h : Reachable step init s)
    (hw : (∃ t, s.pc t = .asleep ∧ t ∈ s.q) ∨ (∃ t, s.pc t = .ann ∨ s.pc t = .annSw)) :
    (∃ t, ownsBit (s.pc t) = true) ∨ s.ready ≠ [] ∨ (∃ t, active (s.pc t) = true) := by
  have hi := reachable_inv s h
  have : s.q ≠ [] ∨ s.anns ≠ [] := by
    rcases hw with ⟨t, _, ht⟩ | ⟨t, ht⟩
    · exact Or.inl (List.ne_nil_of_mem ht)
    · exact Or.inr (List.ne_nil_of_mem ((hi.annM t).mpr ht))
  rcases hi.hope this with ho | hr | ha
  · left
    cases hown : s.owner with
    | none => exact absurd hown ho
    | some t => exact ⟨t, (hi.own t).mpr hown⟩
  · exact Or.inr (Or.inl hr)
  · exact Or.inr (Or.inr ha)

/-- **no lost wake-up (stuck-freedom)**: in a reachable state where no operation is in flight,
    no push of a dequeued thread is pending and nobody holds the mutex (every thread is idle or
    asleep), nobody is asleep.  Hence in a workload whose holders eventually unlock, a sleeper can
    never be left behind. -/
theorem C04_no_lost_wakeup (s : St) (h : Reachable step init s)
    (hq : ∀ t, s.pc t = .idle ∨ s.pc t = .asleep) (hr : s.ready = []) : ∀ t, s.pc t = .idle := by
  have hi := reachable_inv s h
  have hno : ∀ t, ownsBit (s.pc t) = false ∧ active (s.pc t) = false := by
    intro t; rcases hq t with e | e <;> simp [e, ownsBit, active]
  have hq0 : s.q = [] := by
    cases hql : s.q with
    | nil => rfl
    | cons x r =>
      have hx : x ∈ s.q := by simp [hql]
      rcases C04_waiters_have_hope s h (Or.inl ⟨x, hi.qA x hx, hx⟩) with ⟨t, ht⟩ | hrd | ⟨t, ht⟩
      · simp [(hno t).1] at ht
      · exact absurd hr hrd
      · simp [(hno t).2] at ht
  have hw0 : s.woken = [] := by
    cases hwl : s.woken with
    | nil => rfl
    | cons x r =>
      obtain ⟨u, hu⟩ := hi.wkC x (by simp [hwl])
      rcases hq u with e | e <;> simp [e] at hu
  intro t
  rcases hq t with e | e
  · exact e
  · rcases hi.asl t e with h1 | h1 | h1
    · simp [hq0] at h1
    · simp [hw0] at h1
    · simp [hr] at h1

/-- **trylock never blocks**: a trylock/timedlock access never announces, enqueues or puts the caller to sleep -/
theorem C04_trylock_nonblocking (s s' : St) (t : Tid) (v : Nat) (ok : Bool)
    (hs : step s (.tryRead t v) = some s' ∨ step s (.tryCas t ok) = some s') :
    s'.q = s.q ∧ s'.anns = s.anns ∧
    (s'.pc t = .idle ∨ s'.pc t = .tr v ∨ s'.pc t = .tretry ∨ s'.pc t = .hold) := by
  rcases hs with hs | hs
  · simp only [step] at hs
    split at hs
    · split at hs <;> (simp at hs; subst hs; simp)
    · simp at hs
  · simp only [step] at hs
    split at hs
    · split at hs
      · split at hs <;> (simp at hs; subst hs; simp)
      · simp at hs
    · simp at hs

/-- **trylock fails only if the mutex is held**: EBUSY is returned only on reading a word whose
    lock bit is set, and then some thread owns the bit at that instant -/
theorem C04_trylock_fails_only_if_held (s s' : St) (h : Reachable step init s) (t : Tid) (v : Nat)
    (hs : step s (.tryRead t v) = some s') (hb : v % 2 = 1) : ∃ u, ownsBit (s.pc u) = true := by
  simp only [step] at hs
  split at hs
  · rename_i hc
    apply (C04_bit_iff_owner s h).mp
    rw [← hc.1]; exact hb
  · simp at hs

/-- **sleepers do not occupy a worker**: a thread asleep on the mutex performs no access at all;
    the only label that concerns it is its being pushed back to a run queue by a worker -/
theorem C04_sleepers_off_worker (s : St) (t : Tid) (l : Lbl) (ha : s.pc t = .asleep)
    (hl : l.actor = t) (hp : ∀ x, l ≠ .wakePush x) : step s l = none := by
  cases l <;> simp only [Lbl.actor] at hl <;> subst hl <;> first | (exact absurd rfl (hp _)) | (simp [step, ha])

/-- a woken thread is handed to the scheduler exactly once: it is pushed only from the set of
    dequeued threads whose unlocker has cleared the lock bit (never before), leaves that set, is
    in no queue afterwards, and re-enters its lock loop -/
theorem C04_wake_exactly_once (s s' : St) (h : Reachable step init s) (x : Tid)
    (hs : step s (.wakePush x) = some s') :
    s.pc x = .asleep ∧ x ∉ s.q ∧ x ∉ s.woken ∧ x ∈ s.ready ∧ x ∉ s'.ready ∧ x ∉ s'.q ∧ s'.pc x = .lretry := by
  have hi := reachable_inv s h
  simp only [step] at hs
  split at hs
  · rename_i hx
    simp at hs; subst hs
    refine ⟨hi.rdA x hx, fun hq => (hi.qw x hq).2 hx, fun hw => hi.wr x hw hx, hx, ?_, fun hq => (hi.qw x hq).2 hx, by simp⟩
    simp only; intro hm; exact ((List.Nodup.mem_erase_iff hi.rdN).mp hm).1 rfl
  · simp at hs

/-- the lock bit is cleared after the dequeue and before the push (helper about this
    implementation's order): a thread is pushed only after the unlocker that dequeued it cleared the bit -/
theorem C04_push_after_clear (s : St) (h : Reachable step init s) (u x : Tid) (hu : s.pc u = .uc x) :
    x ∈ s.woken ∧ x ∉ s.ready ∧ step s (.wakePush x) = none := by
  have hi := reachable_inv s h
  have hw := hi.car u x hu
  have hnr := hi.wr x hw
  exact ⟨hw, hnr, by simp [step, hnr]⟩

/-! ### non-vacuity: a reachable state with an owner, a sleeper and an announced thread -/
def demoTrace : List Lbl :=
  [.lockRead 1 0, .lockCas1 1 true, .lockRead 2 1, .lockCas2 2 true, .blockBegin 2, .cbEnq 2,
   .lockRead 3 3, .lockCas2 3 true, .tryRead 4 5]

example : ∃ s, runs step init demoTrace = some s ∧ s.word = 5 ∧ s.q = [2] ∧ s.pc 1 = .hold ∧ s.pc 3 = .ann := by
  refine ⟨_, rfl, ?_⟩; decide

/-- the full hand-over: unlock with a sleeper wakes it and it acquires the mutex -/
example : ∃ s, runs step init (demoTrace ++ [.blockBegin 3, .cbEnq 3, .unlockRead 1 5, .unlockCas2 1 true,
    .wakeDeq 1 2, .clearBit 1, .wakePush 2, .lockRead 2 2, .lockCas1 2 true]) = some s ∧
    s.word = 3 ∧ s.q = [3] ∧ s.pc 2 = .hold ∧ s.pc 1 = .idle := by
  refine ⟨_, rfl, ?_⟩; decide

end MythVerif.Mutex
