import MythVerif.Proofs.BarrierReach
/-!
# C06 — barrier: nobody passes round k before all N arrived; one serial thread per round

Model `MythVerif.Barrier` (`myth_barrier_wait_body`, `myth_block_on_stack`,
`myth_wake_many_from_stack`, `myth_sleep_stack_push/pop` at single-CAS granularity).

Quantifiers.  `P` is the list of participants, **any** duplicate-free non-empty list of thread ids;
`N = P.length ≥ 1` is the value the barrier was initialised with.  `Reach P s` = `s` is reached from
`init` by **any** finite sequence of shared accesses all made by members of `P` (`WellUsed`; a
participant calls `wait` again only after its previous `wait` returned because `read` is enabled
only from `idle`/`retry`).  Any number of rounds, any interleaving; workers do not appear because
a label is enabled whichever worker executes it (a blocked thread is resumed by whoever takes it
from a run queue: `woken` threads just continue).

Round bookkeeping is ghost state: `rnd t` = number of waits `t` has returned from (so a thread
inside `wait` is in its round `rnd t`), `gen` = number of rounds whose last arrival happened,
`arr k`/`retd k`/`serial k`/`pushed k` = arrivals / returns / SERIAL returns / run-queue pushes of round k.
-/
namespace MythVerif.Barrier
open MythVerif

/-- **nobody passes round k before all N arrived.**  When a participant returns from its wait
    number `k = rnd t`, round `k` has had exactly `N` arrivals, and every participant has performed
    the arrival (successful CAS +1) of its own k-th wait: it is either still inside that wait after
    its arrival, or has already returned from it. -/
theorem C06_no_early_pass (P : List Tid) (hn : P.Nodup) (h0 : P ≠ []) (s s' : St) (h : Reach P s)
    (t : Tid) (v : Nat) (hs : step P.length s (.ret t v) = some s') :
    s.arr (s.rnd t) = P.length ∧
    ∀ p, p ∈ P → s.rnd t < s.rnd p ∨ (s.rnd p = s.rnd t ∧ prePc (s.pc p) = false) := by
  have hi := reach_inv P hn h0 s h
  have hto := (ret_old P s s' t v hi hs).1
  have hr := hi.oldR t hto
  refine ⟨hi.arrLt _ (by omega), ?_⟩
  intro p hp
  by_cases hpa : p ∈ s.arrd
  · left; have := hi.arrR p hpa; omega
  · by_cases hpo : p ∈ s.old
    · right
      refine ⟨by have := hi.oldR p hpo; omega, ?_⟩
      rcases hi.oldPc p hpo with hb | hb | hb
      · revert hb; cases s.pc p <;> simp [blkPc, prePc]
      · simp [hb, prePc]
      · have := (hi.ldrI p).mpr hb
        revert this; cases s.pc p <;> simp [ldrPc, prePc]
    · left; have := (hi.preC p hp hpa hpo).1; omega

/-- arrivals never exceed N, and `state` never exceeds N: in particular no participant ever reads
    `state ≥ N`, i.e. the "excess threads" `exit(1)` of the code is unreachable in a well-used run -/
theorem C06_no_excess (P : List Tid) (hn : P.Nodup) (h0 : P ≠ []) (s : St) (h : Reach P s) :
    (∀ t, s.pc t ≠ .exited) ∧ s.count ≤ P.length ∧ ∀ k, s.arr k ≤ P.length := by
  have hi := reach_inv P hn h0 s h
  refine ⟨hi.noEx, ?_, ?_⟩
  · have := hi.cnt; have := hi.arrL
    by_cases hr : s.rst = true
    · have ha : s.arrd = [] := by
        cases hl : s.ldr with
        | none => have := hi.rstN hl; simp [hr] at this
        | some l =>
          have := (hi.rstL l hl).mp hr
          exact (hi.popA l (by simp [this, popPc])).1
      simp [hr, ha] at *; omega
    · simp [hr] at *; omega
  · intro k
    rcases Nat.lt_trichotomy k s.gen with hk | hk | hk
    · rw [hi.arrLt k hk]; exact Nat.le_refl _
    · subst hk; rw [hi.arrEq]; have := hi.arrL; omega
    · rw [hi.arrGt k hk]; omega

/-- **one serial thread per round.**  In every reachable state and for every round `k`: at most `N`
    returns, at most one of them with SERIAL; and once every participant has returned from its
    k-th wait there were exactly `N` returns of which exactly one carried SERIAL (so the other
    `N-1` carried 0, see `C06_return_values`). -/
theorem C06_one_serial_per_round (P : List Tid) (hn : P.Nodup) (h0 : P ≠ []) (s : St) (h : Reach P s)
    (k : Nat) :
    s.serial k ≤ 1 ∧ s.retd k ≤ P.length ∧ (s.retd k = P.length → s.serial k = 1) ∧
    ((∀ p, p ∈ P → k < s.rnd p) → s.retd k = P.length ∧ s.serial k = 1) := by
  have hi := reach_inv P hn h0 s h
  have hold0 : s.old = [] → s.ldr = none := by
    intro ho
    cases hl : s.ldr with
    | none => rfl
    | some l => have := hi.ldrO l hl; rw [ho] at this; cases this
  rcases Nat.lt_trichotomy (k + 1) s.gen with hk | hk | hk
  · obtain ⟨a, b, _⟩ := hi.retLt k hk
    simp [a, b]
  · obtain ⟨a, b, _⟩ := hi.retEq k hk
    refine ⟨by rw [b]; split <;> omega, by omega, ?_, ?_⟩
    · intro hr
      have : s.old = [] := List.eq_nil_of_length_eq_zero (by omega)
      rw [b, hold0 this]; simp
    · intro hall
      have : s.old = [] := by
        cases ho : s.old with
        | nil => rfl
        | cons o r =>
          have hoo : o ∈ s.old := by rw [ho]; simp
          have := hi.oldR o hoo
          have := hall o (hi.oldP o hoo)
          omega
      rw [this] at a
      refine ⟨by simpa using a, ?_⟩
      rw [b, hold0 this]; simp
  · obtain ⟨a, b, _⟩ := hi.retGe k (by omega)
    refine ⟨by omega, by omega, ?_, ?_⟩
    · intro hr; have := hi.nP; omega
    · intro hall
      exfalso
      cases P with
      | nil => exact h0 rfl
      | cons p r =>
        have hp : p ∈ p :: r := by simp
        have hkp := hall p hp
        by_cases hpa : p ∈ s.arrd
        · have := hi.arrR p hpa; omega
        · by_cases hpo : p ∈ s.old
          · have := hi.oldR p hpo; omega
          · have := (hi.preC p hp hpa hpo).1; omega

/-- a return carries SERIAL exactly when the returning thread is the (unique) last arriver of its
    round, and 0 otherwise -/
theorem C06_return_values (P : List Tid) (hn : P.Nodup) (h0 : P ≠ []) (s s' : St) (h : Reach P s)
    (t : Tid) (v : Nat) (hs : step P.length s (.ret t v) = some s') :
    (v = SERIAL ∧ s.ldr = some t ∧ s'.serial (s.rnd t) = s.serial (s.rnd t) + 1) ∨
    (v = 0 ∧ s.ldr ≠ some t ∧ s'.serial (s.rnd t) = s.serial (s.rnd t)) := by
  have hi := reach_inv P hn h0 s h
  rcases (ret_old P s s' t v hi hs).2 with ⟨hpc, hv, hl⟩ | ⟨hpc, hv, hl⟩
  · left
    refine ⟨hv, hl, ?_⟩
    simp only [step] at hs
    simp [hpc, hv] at hs
    subst hs; simp
  · right
    refine ⟨hv, hl, ?_⟩
    simp only [step] at hs
    simp [hpc, hv, SERIAL] at hs
    subst hs; simp

/-- **all return (safety half).**  When the last arriver `t` of round `k` has finished its release
    (it is about to return SERIAL), exactly `N-1` sleepers of round `k` have been handed to a run
    queue, nothing popped is left unpushed, every other participant still in round `k` is runnable
    (`woken`: it only has to return 0) and the stack holds no thread of round `k`. -/
theorem C06_all_return (P : List Tid) (hn : P.Nodup) (h0 : P ≠ []) (s : St) (h : Reach P s) (t : Tid)
    (ht : s.pc t = .lret) :
    s.pushed (s.rnd t) + 1 = P.length ∧ s.wk = [] ∧
    (∀ p, p ∈ P → p ≠ t → s.rnd p = s.rnd t → s.pc p = .woken) ∧
    (∀ x, x ∈ s.stack → s.rnd x = s.rnd t + 1) := by
  have hi := reach_inv P hn h0 s h
  obtain ⟨hwk, hpu⟩ := hi.lreA t ht
  have hl := (hi.ldrI t).mp (by simp [ht, ldrPc])
  have hto := hi.ldrO t hl
  have hrt := hi.oldR t hto
  have hothers : ∀ p, p ∈ P → p ≠ t → s.rnd p = s.rnd t → s.pc p = .woken := by
    intro p hp hpt hr
    by_cases hpa : p ∈ s.arrd
    · have := hi.arrR p hpa; omega
    · by_cases hpo : p ∈ s.old
      · rcases hi.pshC t (Or.inl ht) p hpo hpt with h | h
        · exact h
        · rw [hwk] at h; cases h
      · have := (hi.preC p hp hpa hpo).1; omega
  refine ⟨hpu, hwk, hothers, ?_⟩
  intro x hx
  have hxa := hi.stA x hx
  have hxP : x ∈ P := by
    apply Classical.byContradiction; intro hnp; have := hi.np x hnp; rw [hxa] at this; cases this
  by_cases hpa : x ∈ s.arrd
  · have := hi.arrR x hpa; omega
  · by_cases hpo : x ∈ s.old
    · have hxt : x ≠ t := by intro e; subst e; rw [ht] at hxa; cases hxa
      rcases hi.pshC t (Or.inl ht) x hpo hxt with h | h
      · rw [hxa] at h; cases h
      · rw [hwk] at h; cases h
    · have := (hi.preC x hxP hpa hpo).2
      simp [hxa, prePc] at this

/-- **all return, after the release.**  Once the last arriver of the previous round has returned
    (no release in progress), every participant that has not yet returned from that round is
    runnable with return value 0, nothing is popped-but-unpushed, and every thread on the stack or
    asleep belongs to the *current* round. -/
theorem C06_all_return_after (P : List Tid) (hn : P.Nodup) (h0 : P ≠ []) (s : St) (h : Reach P s)
    (hl : ∀ t, ldrPc (s.pc t) = false) :
    s.wk = [] ∧ (∀ p, p ∈ P → s.rnd p + 1 = s.gen → s.pc p = .woken) ∧
    (∀ x, s.pc x = .asleep → x ∈ s.stack ∧ s.rnd x = s.gen) := by
  have hi := reach_inv P hn h0 s h
  have hld : s.ldr = none := by
    cases hld : s.ldr with
    | none => rfl
    | some l => have := (hi.ldrI l).mpr hld; rw [hl l] at this; cases this
  have hwk := hi.wkL hld
  have hold : ∀ p, p ∈ P → s.rnd p + 1 = s.gen → s.pc p = .woken := by
    intro p hp hr
    by_cases hpa : p ∈ s.arrd
    · have := hi.arrR p hpa; omega
    · by_cases hpo : p ∈ s.old
      · exact hi.oldW hld p hpo
      · have := (hi.preC p hp hpa hpo).1; omega
  refine ⟨hwk, hold, ?_⟩
  intro x hxa
  have hxP : x ∈ P := by
    apply Classical.byContradiction; intro hnp; have := hi.np x hnp; rw [hxa] at this; cases this
  have hst : x ∈ s.stack := by
    rcases hi.asl x hxa with h | h
    · exact h
    · rw [hwk] at h; cases h
  refine ⟨hst, ?_⟩
  by_cases hpa : x ∈ s.arrd
  · exact hi.arrR x hpa
  · by_cases hpo : x ∈ s.old
    · have := hi.oldW hld x hpo; rw [hxa] at this; cases this
    · exact (hi.preC x hxP hpa hpo).1

/-- **no sleeper is left behind (stuck-freedom).**  In a reachable state in which no operation is
    in flight and nobody is runnable (every thread is outside `wait` or asleep), every sleeper
    belongs to the current, still incomplete round: fewer than `N` participants have arrived in
    it.  So a sleeper can only be waiting for participants that have not called `wait` yet. -/
theorem C06_no_stuck_sleeper (P : List Tid) (hn : P.Nodup) (h0 : P ≠ []) (s : St) (h : Reach P s)
    (hq : ∀ t, s.pc t = .idle ∨ s.pc t = .asleep) :
    ∀ x, s.pc x = .asleep → s.rnd x = s.gen ∧ s.arr s.gen < P.length ∧ s.arr s.gen = s.count := by
  have hi := reach_inv P hn h0 s h
  have hl : ∀ t, ldrPc (s.pc t) = false := by
    intro t; rcases hq t with e | e <;> simp [e, ldrPc]
  intro x hx
  have := (C06_all_return_after P hn h0 s h hl).2.2 x hx
  refine ⟨this.2, ?_, ?_⟩
  · rw [hi.arrEq]; have := hi.arrL; omega
  · have hld : s.ldr = none := by
      cases hld : s.ldr with
      | none => rfl
      | some l => have := (hi.ldrI l).mpr hld; rw [hl l] at this; cases this
    rw [hi.arrEq, hi.cnt, hi.rstN hld]; simp

/-- a sleeper is handed to a run queue exactly once per round: the push takes it out of the set of
    popped-not-yet-pushed threads (it was there, asleep, and not on the stack) and makes it
    runnable; only a new arrival and a new pop can put it there again -/
theorem C06_wake_exactly_once (P : List Tid) (hn : P.Nodup) (h0 : P ≠ []) (s s' : St) (h : Reach P s)
    (t x : Tid) (hs : step P.length s (.wakePush t x) = some s') :
    s.pc x = .asleep ∧ x ∈ s.wk ∧ x ∉ s.stack ∧ s.rnd x = s.rnd t ∧
    x ∉ s'.wk ∧ x ∉ s'.stack ∧ s'.pc x = .woken ∧ s'.pushed (s.rnd t) = s.pushed (s.rnd t) + 1 := by
  have hi := reach_inv P hn h0 s h
  simp only [step] at hs
  split at hs
  · rename_i y rem hpc
    split at hs
    · rename_i hxy
      subst hxy
      simp at hs
      obtain ⟨hwk, _, _⟩ := hi.lpuA t _ hpc
      have hxw : x ∈ s.wk := by rw [hwk]; simp
      have hxa := hi.wkA x hxw
      have hxt : x ≠ t := by intro e; subst e; rw [hpc] at hxa; cases hxa
      have hns : x ∉ s.stack := fun hm => hi.stW x hm hxw
      have hto := hi.ldrO t ((hi.ldrI t).mp (by simp [hpc, ldrPc]))
      have := hi.oldR t hto; have := hi.oldR x (hi.wkO x hxw)
      subst hs
      refine ⟨hxa, hxw, hns, by omega, ?_, hns, ?_, ?_⟩
      · simp only; intro hm; exact ((List.Nodup.mem_erase_iff hi.wkN).mp hm).1 rfl
      · simp [hxt]
      · simp
    · simp at hs
  · simp at hs

/-- **reuse.**  While a last arriver may still touch the stack (from its CAS to its last pop) every
    participant is still in the same round as it — nobody has re-entered — and the others have all
    arrived and are not runnable; hence whatever it pops is a sleeper of its own round: a
    participant that is already in round k+1 is never popped as a round-k sleeper.  This is why
    resetting `state` to 0 *before* the pops is safe: sleepers are handed to the run queue only
    after the last pop. -/
theorem C06_reuse (P : List Tid) (hn : P.Nodup) (h0 : P ≠ []) (s : St) (h : Reach P s) (t : Tid)
    (ht : popPc (s.pc t) = true) :
    (∀ p, p ∈ P → s.rnd p = s.rnd t ∧ (p ≠ t → blkPc (s.pc p) = true)) ∧
    (∀ x, x ∈ s.stack ∨ x ∈ s.wk → s.rnd x = s.rnd t) := by
  have hi := reach_inv P hn h0 s h
  obtain ⟨_, hlen, _⟩ := hi.popA t ht
  have hall := all_old_of_len hi.oldP hi.oldN hlen
  have htl : ldrPc (s.pc t) = true := by revert ht; cases s.pc t <;> simp [popPc, ldrPc]
  have hto := hi.ldrO t ((hi.ldrI t).mp htl)
  have hrt := hi.oldR t hto
  have hP : ∀ p, p ∈ P → s.rnd p = s.rnd t ∧ (p ≠ t → blkPc (s.pc p) = true) := by
    intro p hp
    have hpo := hall p hp
    have := hi.oldR p hpo
    exact ⟨by omega, fun hpt => hi.popC t ht p hpo hpt⟩
  refine ⟨hP, ?_⟩
  intro x hx
  have hxa : s.pc x = .asleep := by
    rcases hx with h | h
    · exact hi.stA x h
    · exact hi.wkA x h
  have hxP : x ∈ P := by
    apply Classical.byContradiction; intro hnp; have := hi.np x hnp; rw [hxa] at this; cases this
  exact (hP x hxP).1

/-- the thread taken off the stack by a successful pop CAS is a sleeper of the popper's own round -/
theorem C06_pop_same_round (P : List Tid) (hn : P.Nodup) (h0 : P ≠ []) (s s' : St) (h : Reach P s)
    (t x : Tid) (nx acc : List Tid) (ht : s.pc t = .lpopc x nx acc)
    (hs : step P.length s (.popCas t true) = some s') :
    s.rnd x = s.rnd t ∧ s.pc x = .asleep ∧ x ∈ P := by
  have hi := reach_inv P hn h0 s h
  simp only [step, ht] at hs
  split at hs
  · rename_i hc
    simp at hc
    have hxs : x ∈ s.stack := by
      obtain ⟨ys, hys⟩ := List.head?_eq_some_iff.mp hc
      rw [hys]; simp
    have hxa := hi.stA x hxs
    have hxP : x ∈ P := by
      apply Classical.byContradiction; intro hnp; have := hi.np x hnp; rw [hxa] at this; cases this
    exact ⟨(C06_reuse P hn h0 s h t (by simp [ht, popPc])).2 x (Or.inl hxs), hxa, hxP⟩
  · simp at hs

/-- **single popper, no ABA.**  At most one thread is between its N-th-arrival CAS and its SERIAL
    return, so at most one thread pops at any time; and whenever a pop CAS succeeds, the
    `x->next` it installs (read before the CAS) is still the current rest of the stack: the stack
    after the pop is exactly the stack before it without its top. -/
theorem C06_single_popper (P : List Tid) (hn : P.Nodup) (h0 : P ≠ []) (s : St) (h : Reach P s) :
    (∀ t1 t2, ldrPc (s.pc t1) = true → ldrPc (s.pc t2) = true → t1 = t2) ∧
    (∀ t x nx acc s', s.pc t = .lpopc x nx acc → step P.length s (.popCas t true) = some s' →
        s.stack = x :: nx ∧ s'.stack = s.stack.tail) := by
  have hi := reach_inv P hn h0 s h
  constructor
  · intro t1 t2 h1 h2
    have a := (hi.ldrI t1).mp h1
    have b := (hi.ldrI t2).mp h2
    rw [a] at b; exact Option.some.inj b
  · intro t x nx acc s' ht hs
    simp only [step, ht] at hs
    split at hs
    · rename_i hc
      simp at hc
      have hst := suffix_head_eq hi.stN (hi.lpcA t x nx acc ht).2.2 hc
      simp at hs; subst hs
      simp [hst]
    · simp at hs

/-! ### N = 1 -/

/-- **N = 1.**  With a single participant `p` no wait ever blocks: no thread is ever asleep,
    announced, popping or pushing, the stack stays empty, and every return carries SERIAL.
    (A wait is `read 0; CAS 0→1; reset; return SERIAL`, see the example below.) -/
theorem C06_N1 (p : Tid) (s : St) (h : Reach [p] s) :
    (∀ t, n1Pc (s.pc t) = true) ∧ s.stack = [] ∧
    (∀ t v s', step 1 s (.ret t v) = some s' → v = SERIAL) := by
  have hn : [p].Nodup := by simp
  have h0 : [p] ≠ [] := by simp
  have hpcs : ∀ t, n1Pc (s.pc t) = true := by
    obtain ⟨ls, hw, hr⟩ := h
    have key : ∀ (ls : List Lbl) (s0 s1 : St), Inv [p] s0 → (∀ t, n1Pc (s0.pc t) = true) → WellUsed [p] ls →
        runs (step [p].length) s0 ls = some s1 → ∀ t, n1Pc (s1.pc t) = true := by
      intro ls
      induction ls with
      | nil => intro s0 s1 _ h1 _ hr; simp [runs] at hr; subst hr; exact h1
      | cons l ls ih =>
        intro s0 s1 hi h1 hw hr
        simp only [runs] at hr
        split at hr
        · rename_i s2 h2
          have hP : l.actor ∈ [p] := hw l (by simp)
          exact ih s2 s1 (inv_step [p] s0 s2 l hi hP h2) (n1_step [p] rfl s0 s2 l hi h1 h2)
            (fun l' hl' => hw l' (by simp [hl'])) hr
        · simp at hr
    exact key ls init s (inv_init [p] (by simp) hn) (by intro t; simp [init, n1Pc]) hw hr
  have hi := reach_inv [p] hn h0 s h
  refine ⟨hpcs, ?_, ?_⟩
  · cases hst : s.stack with
    | nil => rfl
    | cons x r =>
      have := hi.stA x (by rw [hst]; simp)
      have h1 := hpcs x
      rw [this] at h1; simp [n1Pc] at h1
  · intro t v s' hs
    simp only [step] at hs
    split at hs
    · rename_i hc; exact hc.2
    · split at hs
      · rename_i hc; have := hpcs t; simp [hc.1, n1Pc] at this
      · simp at hs

/-! ### the well-usedness hypothesis is satisfiable; non-vacuity -/

/-- three participants 0,1,2, two rounds.  Round 0: 0 and 1 arrive and push themselves (1's first
    push CAS fails because 0 pushed in between), 2 is the last arriver: resets, pops 1 then 0,
    pushes them to the run queue.  Thread 1 **races ahead**: it returns and arrives in round 1 and
    pushes itself while 2 is still pushing 0. -/
def demoTrace : List Lbl :=
  [.read 0 0, .cas 0 true, .read 1 1, .read 2 1, .cas 1 true, .cas 2 false, .read 2 2, .cas 2 true,
   .blockBegin 0, .blockBegin 1, .pushRead 1 none, .pushRead 0 none, .pushCas 0 true, .pushCas 1 false,
   .reset 2, .popRead 2 (some 0), .pushRead 1 (some 0), .pushCas 1 true, .popCas 2 false,
   .popRead 2 (some 1), .popCas 2 true, .popRead 2 (some 0), .popCas 2 true,
   .wakePush 2 1, .ret 1 0, .read 1 0, .cas 1 true, .blockBegin 1, .pushRead 1 none, .pushCas 1 true,
   .wakePush 2 0]

/-- the hypothesis "the same N participants use the barrier" is satisfiable (N = 3) … -/
theorem C06_wellused_satisfiable : WellUsed [0, 1, 2] demoTrace ∧
    ∃ s, runs (step 3) init demoTrace = some s := by
  constructor
  · intro l hl
    simp [demoTrace] at hl
    rcases hl with h | h | h | h | h | h | h | h | h | h | h | h | h | h | h | h | h | h | h | h | h | h | h | h | h | h | h | h | h | h | h <;>
      (subst h; simp [Lbl.actor])
  · exact ⟨_, rfl⟩

/-- … and it reaches a state with the racer asleep in round 1 while round 0 is still being
    released: the last arriver about to return SERIAL, thread 0 runnable, the stack holding only
    the round-1 thread. -/
example : ∃ s, runs (step 3) init demoTrace = some s ∧ s.count = 1 ∧ s.stack = [1] ∧ s.pc 2 = .lret ∧
    s.pc 0 = .woken ∧ s.pc 1 = .asleep ∧ s.rnd 1 = 1 ∧ s.rnd 0 = 0 ∧ s.gen = 1 ∧ s.arr 0 = 3 ∧ s.arr 1 = 1 := by
  refine ⟨_, rfl, ?_⟩; decide

/-- round 0 completes: all three return, exactly one with SERIAL -/
example : ∃ s, runs (step 3) init (demoTrace ++ [.ret 2 1, .ret 0 0]) = some s ∧
    s.retd 0 = 3 ∧ s.serial 0 = 1 ∧ s.pushed 0 = 2 ∧ s.old = [] ∧ s.ldr = none := by
  refine ⟨_, rfl, ?_⟩; decide

/-- N = 1: two rounds, each `read 0; CAS; reset; return SERIAL` -/
example : ∃ s, runs (step 1) init [.read 7 0, .cas 7 true, .reset 7, .ret 7 1, .read 7 0, .cas 7 true, .reset 7, .ret 7 1] = some s ∧
    s.serial 0 = 1 ∧ s.serial 1 = 1 ∧ s.rnd 7 = 2 ∧ s.stack = [] := by
  refine ⟨_, rfl, ?_⟩; decide

/-- the hypothesis is needed: with *three* threads using a barrier initialised for N = 2 the model
    reaches the code's "excess threads" `exit(1)` (thread 2 reads `state = 2`) -/
example : ∃ s, runs (step 2) init [.read 0 0, .cas 0 true, .read 1 1, .cas 1 true, .read 2 2] = some s ∧
    s.pc 2 = .exited := by
  refine ⟨_, rfl, ?_⟩; decide

end MythVerif.Barrier
