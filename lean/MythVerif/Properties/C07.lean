import MythVerif.Proofs.JoinCounterReach
import MythVerif.Proofs.JcArith
/-!
# C07 — join counter: waiters released exactly when the N-th decrement happens

Model `MythVerif.JoinCounter` (`myth_join_counter_wait_body`, `myth_join_counter_dec_body`,
`myth_block_on_queue`, `myth_wake_many_from_queue`), one label per shared access, the packed state
word and its field extraction exactly as in the code (`MythVerif.JcArith`).

Quantifiers: **any** `N ≥ 0` (the word is a `Nat`; `JcArith.Representable` is the explicit
condition under which the 64-bit `long` computes the same, `C07_bv64`), any number of threads
(`Tid := Nat`), each waiting and/or decrementing any number of times, any interleaving
(`Reachable` = any finite label sequence from `init`; workers do not appear because a label is
enabled whichever worker executes it).  No well-usedness hypothesis: a decrement beyond the N-th
is the code's "excess threads" `exit(1)` (`dexit`) and does not touch the counter.

`s.ndec` counts the decrements performed (successful CAS +1); it equals the decrement field of
the word (`C07_word_counts`).
-/
namespace MythVerif.JoinCounter
open MythVerif MythVerif.JcArith

/-- the fields of the word count what happened: decrements performed, and – once the N-th
    decrement happened – every announced waiter is accounted for -/
theorem C07_word_counts (N : Nat) (s : St) (h : Reachable (step N) init s) :
    decsOf N s.state = s.ndec ∧ s.ndec ≤ N ∧
    (s.ndec < N → waitersOf N s.state = s.anns.length + s.q.length) ∧
    (s.ndec = N → waitersOf N s.state = s.pushes + s.wk.length + s.anns.length + s.q.length) := by
  have hi := reach_inv N s h
  have he := hi.ndE
  refine ⟨he.symm, by rw [he]; exact hi.dN, ?_, ?_⟩
  · intro hlt; rw [he] at hlt; exact (hi.pre hlt).1
  · intro heq; rw [he] at heq; exact (hi.acct heq).symm

/-- **no early release.**  A wait returns only in a state in which `N` decrements have been
    performed; a thread is resumed (in a run queue), dequeued or pushed only then; until then
    nothing was ever pushed and no wait ever returned; and the `assert` after the block never
    fires. -/
theorem C07_no_early_release (N : Nat) (s : St) (h : Reachable (step N) init s) :
    (∀ t v s', step N s (.waitRead t v) = some s' → s'.pc t = .idle → s.ndec = N) ∧
    (∀ t, s.pc t = .woken → s.ndec = N) ∧
    (∀ t, ldrPc (s.pc t) = true → s.ndec = N) ∧
    (s.ndec < N → s.pushes = 0 ∧ s.rets = 0 ∧ s.wk = []) ∧
    (∀ t, s.pc t ≠ .afail) := by
  have hi := reach_inv N s h
  have he := hi.ndE
  refine ⟨?_, ?_, ?_, ?_, hi.noAf⟩
  · intro t v s' hs hidle
    simp only [step] at hs
    split at hs
    · rename_i hv
      split at hs
      · split at hs
        · rename_i hd; rw [he, ← hv]; exact hd
        · simp at hs; subst hs; simp at hidle
      · split at hs
        · split at hs
          · rename_i hd; rw [he, ← hv]; exact hd
          · simp at hs; subst hs; simp at hidle
        · simp at hs
    · simp at hs
  · intro t ht; rw [he]; exact hi.wok t ht
  · intro t ht
    have hl := (hi.ldrI t).mp ht
    have hle := hi.dN
    rw [he]
    apply Classical.byContradiction
    intro hne
    have := (hi.pre (by omega)).2.2.1
    rw [hl] at this; cases this
  · intro hlt
    rw [he] at hlt
    obtain ⟨_, a, _, b, c⟩ := hi.pre hlt
    exact ⟨b, c, a⟩

/-- **all released: the count.**  The decrementer whose CAS performs the N-th decrement takes from
    the word it replaced exactly the number of threads that are asleep or have announced
    themselves at that instant (`q` and `anns`), and that is the number it will dequeue; with none
    it is done at once. -/
theorem C07_last_dec_count (N : Nat) (s s' : St) (h : Reachable (step N) init s) (t : Tid)
    (hs : step N s (.decCas t true) = some s') (hlast : s.ndec + 1 = N) :
    s'.ndec = N ∧
    ((s.anns.length + s.q.length = 0 ∧ s'.pc t = .idle) ∨
     (0 < s.anns.length + s.q.length ∧ s'.pc t = .ddeq (s.anns.length + s.q.length) [])) ∧
    s'.q = s.q ∧ s'.anns = s.anns := by
  have hi := reach_inv N s h
  have he := hi.ndE
  simp only [step] at hs
  split at hs
  · rename_i v hpc
    split at hs
    · rename_i hc
      simp at hc
      rw [← hc] at hs
      have hlt : decsOf N s.state < N := by rw [← he]; omega
      have hW := (hi.pre hlt).1
      simp only [if_true] at hs
      rw [if_pos (by rw [← he]; exact hlast)] at hs
      split at hs
      · rename_i hw0
        simp at hs; subst hs
        refine ⟨by simp; omega, Or.inl ⟨by omega, by simp⟩, rfl, rfl⟩
      · rename_i hw0
        simp at hs; subst hs
        refine ⟨by simp; omega, Or.inr ⟨by omega, by simp [hW]⟩, rfl, rfl⟩
    · simp at hs
  · simp at hs

/-- **all released: during and after the release.**  While the last decrementer still dequeues,
    the number it has yet to take equals the number of threads asleep in the queue or announced
    and on their way into it (so its spin on an empty queue always waits for a thread that will
    come); it pushes only after the last dequeue; and once it is done (`N` decrements, no release
    in progress) no thread is asleep, announced or dequeued-but-unpushed, and the number of threads
    pushed to a run queue equals the waiter field of the word: every announced waiter was handed
    to the scheduler. -/
theorem C07_all_released (N : Nat) (s : St) (h : Reachable (step N) init s) :
    (∀ t k acc, s.pc t = .ddeq k acc → k = s.anns.length + s.q.length ∧ 1 ≤ k ∧ s.wk = acc) ∧
    (∀ t rem, s.pc t = .dpush rem → s.q = [] ∧ s.anns = [] ∧ s.wk = rem) ∧
    (s.ndec = N → (∀ t, ldrPc (s.pc t) = false) →
       (∀ t, s.pc t ≠ .asleep ∧ annPc (s.pc t) = false) ∧ s.q = [] ∧ s.wk = [] ∧
       s.pushes = waitersOf N s.state) := by
  have hi := reach_inv N s h
  refine ⟨?_, ?_, ?_⟩
  · intro t k acc ht
    obtain ⟨a, b, c⟩ := hi.ddq t k acc ht
    exact ⟨b, c, a⟩
  · intro t rem ht
    obtain ⟨a, _, b, c⟩ := hi.dpu t rem ht
    exact ⟨c, b, a⟩
  · intro hN hl
    have hd : decsOf N s.state = N := by rw [← hi.ndE]; exact hN
    obtain ⟨ha, hq, hw⟩ := hi.fin hd (ldr_none_of N s hi hl)
    refine ⟨?_, hq, hw, ?_⟩
    · intro t
      constructor
      · intro hpc
        rcases hi.asl t hpc with h | h
        · rw [hq] at h; cases h
        · rw [hw] at h; cases h
      · cases hb : annPc (s.pc t) with
        | false => rfl
        | true => have := (hi.annM t).mpr hb; rw [ha] at this; cases this
    · have := hi.acct hd
      rw [ha, hq, hw] at this
      simpa using this

/-- a dequeued thread is handed to the scheduler exactly once: the push finds it asleep, dequeued
    and no longer in the queue, and takes it out of the dequeued set; it can never get back into
    the queue (it only re-reads and returns, `C07_no_early_release`) -/
theorem C07_wake_exactly_once (N : Nat) (s s' : St) (h : Reachable (step N) init s) (t x : Tid)
    (hs : step N s (.wakePush t x) = some s') :
    s.pc x = .asleep ∧ x ∈ s.wk ∧ x ∉ s.q ∧ x ∉ s'.wk ∧ x ∉ s'.q ∧ s'.pc x = .woken ∧ s'.pushes = s.pushes + 1 := by
  have hi := reach_inv N s h
  simp only [step] at hs
  split at hs
  · rename_i y rem hpc
    split at hs
    · rename_i hxy
      subst hxy
      simp at hs
      have hwk := (hi.dpu t _ hpc).1
      have hxw : x ∈ s.wk := by rw [hwk]; simp
      have hxa := hi.wkA x hxw
      have hxt : x ≠ t := by intro e; subst e; rw [hpc] at hxa; cases hxa
      have hnq : x ∉ s.q := fun hq => hi.qw x hq hxw
      subst hs
      refine ⟨hxa, hxw, hnq, ?_, hnq, ?_, rfl⟩
      · simp only; intro hm; exact ((List.Nodup.mem_erase_iff hi.wkN).mp hm).1 rfl
      · simp [hxt]
    · simp at hs
  · simp at hs

/-- at most one thread releases (dequeues / pushes): the one whose CAS made the N-th decrement -/
theorem C07_single_waker (N : Nat) (s : St) (h : Reachable (step N) init s) (t1 t2 : Tid)
    (h1 : ldrPc (s.pc t1) = true) (h2 : ldrPc (s.pc t2) = true) : t1 = t2 := by
  have hi := reach_inv N s h
  have a := (hi.ldrI t1).mp h1
  have b := (hi.ldrI t2).mp h2
  rw [a] at b; exact Option.some.inj b

/-- **a late wait returns immediately.**  Once `N` decrements have been performed, a wait reads the
    word, returns at once, and neither announces itself, enqueues nor changes the counter – also
    while the last decrementer is still releasing the earlier waiters; and the word never changes
    again (a wait CAS can no longer succeed). -/
theorem C07_late_wait_immediate (N : Nat) (s : St) (h : Reachable (step N) init s) (hN : s.ndec = N)
    (t : Tid) (ht : s.pc t = .idle) :
    (∃ s', step N s (.waitRead t s.state) = some s') ∧
    (∀ v s', step N s (.waitRead t v) = some s' →
       s'.pc t = .idle ∧ s'.state = s.state ∧ s'.q = s.q ∧ s'.anns = s.anns ∧ s'.rets = s.rets + 1) ∧
    (∀ u s', step N s (.waitCas u true) = some s' → False) := by
  have hi := reach_inv N s h
  have hd : decsOf N s.state = N := by rw [← hi.ndE]; exact hN
  refine ⟨?_, ?_, ?_⟩
  · simp [step, ht, hd]
  · intro v s' hs
    simp only [step, ht] at hs
    split at hs
    · rename_i hv
      subst hv
      simp [hd] at hs
      subst hs; simp
    · simp at hs
  · intro u s' hs
    simp only [step] at hs
    split at hs
    · rename_i v hpc
      split at hs
      · rename_i hc
        simp at hc
        have := hi.wrC u v hpc
        rw [← hc] at this
        exact this hd
      · simp at hs
    · simp at hs

/-- **N = 0** (`calc_bits(0) = 0`, mask 0, every word reads "0 of 0 decrements"): the word stays 0,
    nobody ever announces, sleeps or is woken, every wait returns at once, and every decrement is
    the "excess threads" exit – exactly what the code does for `n_threads = 0`. -/
theorem C07_n0 (s : St) (h : Reachable (step 0) init s) :
    s.state = 0 ∧ s.q = [] ∧ (∀ t, s.pc t = .idle ∨ s.pc t = .dexit) ∧
    (∀ t v s', step 0 s (.waitRead t v) = some s' → s'.pc t = .idle ∨ s'.pc t = .dexit) ∧
    (∀ t v s', step 0 s (.decRead t v) = some s' → s'.pc t = .dexit) := by
  obtain ⟨hp, hst, hq⟩ := n0_reach s h
  have pcs : ∀ (s : St), (∀ t, n0Pc (s.pc t) = true) → ∀ t, s.pc t = .idle ∨ s.pc t = .dexit := by
    intro s hp t
    have := hp t
    revert this
    cases s.pc t <;> simp [n0Pc]
  refine ⟨hst, hq, pcs s hp, ?_, ?_⟩
  · intro t v s' hs
    have h' := reachable_step (step 0) init s s' _ h hs
    exact pcs s' (n0_reach s' h').1 t
  · intro t v s' hs
    have hd : ∀ v, decsOf 0 v = 0 := n0_case.2.2.1
    simp only [step, hd] at hs
    split at hs
    · simp at hs; subst hs; simp
    · simp at hs

/-- **no waiter is left sleeping (stuck-freedom).**  In a reachable state in which no operation is
    in flight and nobody is runnable (every thread is outside the counter's operations, asleep, or
    has exited), if `N` decrements have been performed nobody is asleep; and if fewer have been,
    every sleeper is in the queue and counted in the word, waiting for a decrement that has not
    been made yet. -/
theorem C07_no_stuck_sleeper (N : Nat) (s : St) (h : Reachable (step N) init s)
    (hq : ∀ t, s.pc t = .idle ∨ s.pc t = .asleep ∨ s.pc t = .dexit) :
    (s.ndec = N → ∀ t, s.pc t ≠ .asleep) ∧
    (s.ndec < N → (∀ t, s.pc t = .asleep ↔ t ∈ s.q) ∧ waitersOf N s.state = s.q.length) := by
  have hi := reach_inv N s h
  have hl : ∀ t, ldrPc (s.pc t) = false := by
    intro t; rcases hq t with e | e | e <;> simp [e, ldrPc]
  constructor
  · intro hN t
    exact ((C07_all_released N s h).2.2 hN hl).1 t |>.1
  · intro hlt
    have hd : decsOf N s.state < N := by rw [← hi.ndE]; exact hlt
    obtain ⟨hW, hwk, _, _, _⟩ := hi.pre hd
    have ha : s.anns = [] := by
      cases hal : s.anns with
      | nil => rfl
      | cons a r =>
        have := (hi.annM a).mp (by rw [hal]; simp)
        rcases hq a with e | e | e <;> simp [e, annPc] at this
    refine ⟨?_, by rw [hW, ha]; simp⟩
    intro t
    constructor
    · intro hpc
      rcases hi.asl t hpc with h | h
      · exact h
      · rw [hwk] at h; cases h
    · exact hi.qA t

/-! ### arithmetic of the packed word (proved in `Proofs/JcArith.lean`), re-exported -/

/-- `calc_bits`: `n < 2^b`, and `b` is minimal -/
theorem C07_calc_bits (n : Nat) :
    n < 2 ^ calcBits n ∧ (calcBits n = 0 ∨ 2 ^ (calcBits n - 1) ≤ n) := calcBits_spec n

/-- the `assert` of init: `n & mask = n`; `& mask` is `% 2^b`, `>> b` is `/ 2^b` -/
theorem C07_mask (n : Nat) :
    n &&& mask n = n ∧ (∀ s, s &&& mask n = s % 2 ^ calcBits n) ∧ (∀ s, s >>> calcBits n = s / 2 ^ calcBits n) :=
  mask_identity n

/-- field independence: a waiter's `+2^b` leaves the decrement field alone and adds one waiter; a
    decrement's `+1` (while fewer than `n` were made) leaves the waiter field alone -/
theorem C07_fields_independent (n s : Nat) :
    (decsOf n (s + 2 ^ calcBits n) = decsOf n s ∧ waitersOf n (s + 2 ^ calcBits n) = waitersOf n s + 1) ∧
    (decsOf n s < n → waitersOf n (s + 1) = waitersOf n s ∧ decsOf n (s + 1) = decsOf n s + 1) :=
  ⟨wait_step_fields n s, dec_step_fields n s⟩

/-- the 64-bit machine word computes the same fields for every representable `(n, waiters)` -/
theorem C07_bv64 (n w d : Nat) (h : Representable n w) (hd : d ≤ n) :
    let b := calcBits n
    let s : BitVec 64 := BitVec.ofNat 64 (pack b d w)
    let m : BitVec 64 := ((1#64) <<< b) - 1#64
    m.toNat = mask n ∧
    (s &&& m).toNat = d ∧ (s >>> b).toNat = w ∧ s.msb = false ∧
    (BitVec.ofNat 64 n &&& m).toNat = n ∧
    (Representable n (w + 1) → ((s + ((1#64) <<< b)) &&& m).toNat = d ∧ ((s + ((1#64) <<< b)) >>> b).toNat = w + 1) ∧
    (d < n → ((s + 1#64) &&& m).toNat = d + 1 ∧ ((s + 1#64) >>> b).toNat = w) :=
  bv64_fields n w d h hd

/-! ### non-vacuity -/

/-- N = 2, b = 2.  Waiter 10 sleeps before the first decrement; waiter 11 announces itself (word 9)
    **concurrently with the final decrement**: decrementer 2 replaces word 9 by 10 and must wake
    2 threads while 11 has not enqueued yet; waiter 12 read the word before the final decrement,
    loses its CAS, re-reads and returns. -/
def demoTrace : List Lbl :=
  [.waitRead 10 0, .waitCas 10 true, .blockBegin 10, .cbEnq 10, .decRead 1 4, .decCas 1 true,
   .waitRead 11 5, .waitRead 12 5, .waitCas 11 true, .decRead 2 9, .decCas 2 true, .waitCas 12 false,
   .wakeDeq 2 10, .wakeSpin 2, .blockBegin 11, .waitRead 12 10]

example : calcBits 2 = 2 := calcBits_examples.2.2.1

example : ∃ s, runs (step 2) init demoTrace = some s ∧ s.state = 10 ∧ s.q = [] ∧ s.anns = [11] ∧
    s.pc 2 = .ddeq 1 [10] ∧ s.pc 11 = .annSw ∧ s.pc 12 = .idle ∧ s.ndec = 2 ∧ s.rets = 1 := by
  have hb : calcBits 2 = 2 := calcBits_examples.2.2.1
  simp [demoTrace, runs, step, init, upd, decsOf, waitersOf, mask, hb]

/-- … and the release completes: 11 enqueues, is dequeued, both are pushed, both return -/
example : ∃ s, runs (step 2) init (demoTrace ++ [.cbEnq 11, .wakeDeq 2 11, .wakePush 2 10, .wakePush 2 11,
    .waitRead 11 10, .waitRead 10 10, .waitRead 13 10]) = some s ∧
    s.pushes = 2 ∧ s.rets = 4 ∧ s.q = [] ∧ s.wk = [] ∧ s.pc 2 = .idle ∧ s.pc 10 = .idle ∧ s.pc 11 = .idle := by
  have hb : calcBits 2 = 2 := calcBits_examples.2.2.1
  simp [demoTrace, runs, step, init, upd, decsOf, waitersOf, mask, hb]

/-- N = 0: wait returns at once, dec is "excess" -/
example : ∃ s, runs (step 0) init [.waitRead 1 0, .decRead 2 0, .waitRead 1 0] = some s ∧
    s.pc 1 = .idle ∧ s.pc 2 = .dexit ∧ s.rets = 2 := by
  have hb : calcBits 0 = 0 := calcBits_examples.1
  simp [runs, step, init, upd, decsOf, mask, hb]

end MythVerif.JoinCounter
