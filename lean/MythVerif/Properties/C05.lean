import MythVerif.Proofs.Cond
/-!
# C05 — condition variables: atomic release-and-wait, signal and broadcast reach waiters

Model `MythVerif.Cond` (condition queue at shared-access granularity over the abstract mutex
that C04 establishes), any number of waiters / signalers / broadcasters, any interleaving.
`myth_cond_timedwait` is `unimplemented()` in the code and outside the property.
-/
namespace MythVerif.Cond
open MythVerif

theorem inv_step (s s' : St) (l : Lbl) (h : Inv s) (hs : step s l = some s') : Inv s' := by
  cases l with
  | acquire t => exact p_acquire s s' t h hs
  | release t => exact p_release s s' t h hs
  | waitStart t => exact p_waitStart s s' t h hs
  | blockBegin t => exact p_blockBegin s s' t h hs
  | cbEnq t => exact p_cbEnq s s' t h hs
  | cbRelease t => exact p_cbRelease s s' t h hs
  | sigStart t => exact p_sigStart s s' t h hs
  | sigDeq t x => exact p_sigDeq s s' t x h hs
  | bcStart t => exact p_bcStart s s' t h hs
  | bcDeq t x => exact p_bcDeq s s' t x h hs
  | push t x => exact p_push s s' t x h hs

theorem reachable_inv (s : St) (h : Reachable step init s) : Inv s :=
  inv_reachable step init Inv inv_init (fun s l s' => inv_step s s' l) s h

/-- **atomic release-and-wait**: a thread inside `wait` that has not been dequeued yet either
    still holds the mutex or is already on the condition queue — there is no instant at which
    it has released the mutex without being visible to signalers -/
theorem C05_atomic_release_wait (s : St) (h : Reachable step init s) (w : Tid)
    (hw : inWait (s.pc w) = true) : s.holder = some w ∨ w ∈ s.cq ∨ w ∈ s.deqd := by
  have hi := reachable_inv s h
  cases hp : s.pc w <;> simp [hp, inWait] at hw
  · exact Or.inl (hi.hold w (Or.inl hp))
  · exact Or.inl (hi.hold w (Or.inr (Or.inl hp)))
  · exact Or.inr (hi.rel w hp)

/-- hence a signal (or broadcast) by a thread that holds the mutex is never missed: if it finds
    the queue empty, every thread inside `wait` has already been dequeued by an earlier signal -/
theorem C05_signal_under_mutex_not_missed (s s' : St) (h : Reachable step init s) (t : Tid)
    (hs : step s (.sigDeq t none) = some s' ∨ step s (.bcDeq t none) = some s')
    (hm : s.holder = some t) (w : Tid) (hw : inWait (s.pc w) = true) : w ∈ s.deqd := by
  have hemp : s.cq = [] ∧ (s.pc t = .sg ∨ s.pc t = .bc) := by
    rcases hs with hs | hs <;> simp only [step] at hs <;> split at hs
    · rename_i hp; split at hs <;> simp_all
    · simp at hs
    · rename_i hp; split at hs <;> simp_all
    · simp at hs
  rcases C05_atomic_release_wait s h w hw with h1 | h1 | h1
  · rw [hm] at h1
    have : w = t := (Option.some.inj h1).symm
    subst this
    rcases hemp.2 with e | e <;> simp [e, inWait] at hw
  · simp [hemp.1] at h1
  · exact h1

/-- **signal**: with a non-empty queue it dequeues exactly the head (one blocked thread is
    resumed); with an empty queue it has no effect at all -/
theorem C05_signal_wakes_one (s s' : St) (t : Tid) (x : Option Tid)
    (hs : step s (.sigDeq t x) = some s') :
    (s.cq = [] ∧ x = none ∧ s'.cq = [] ∧ s'.deqd = s.deqd ∧ s'.holder = s.holder ∧
        (∀ u, u ≠ t → s'.pc u = s.pc u) ∧ s'.pc t = .idle) ∨
    (∃ y rest, s.cq = y :: rest ∧ x = some y ∧ s'.cq = rest ∧ s'.pc t = .sgP y ∧ y ∈ s'.deqd) := by
  simp only [step] at hs
  split at hs
  · split at hs
    · simp at hs; subst hs
      exact Or.inl ⟨by assumption, rfl, by assumption, rfl, rfl, fun u hu => by simp [hu], by simp⟩
    · split at hs
      · rename_i y rest x' _ _ hxy
        simp at hs; subst hs; subst hxy
        exact Or.inr ⟨_, _, by assumption, rfl, rfl, by simp, by simp⟩
      · simp at hs
    · simp at hs
  · simp at hs

/-- **broadcast resumes all**: when a broadcast returns, every thread that was on the queue when
    it started has been dequeued (at least once) since then -/
theorem C05_broadcast_wakes_all (s s' : St) (h : Reachable step init s) (b : Tid)
    (hs : step s (.bcDeq b none) = some s') (x : Tid) (hx : x ∈ s.bsnap b) :
    s.wakes x > s.bcnt b x := by
  have hi := reachable_inv s h
  simp only [step] at hs
  split at hs
  · rename_i hp
    have hemp : s.cq = [] := by split at hs <;> simp_all
    rcases hi.bc b x (Or.inl hp) hx with h1 | h1
    · exact h1
    · simp [hemp] at h1
  · simp at hs

/-- a dequeued thread is carried by exactly one signaler/broadcaster, and that one's next step
    pushes it: it is handed to the scheduler exactly once per dequeue -/
theorem C05_no_spurious_loss (s : St) (h : Reachable step init s) (x : Tid) (hx : x ∈ s.deqd) :
    s.pc x = .wQ ∧ x ∉ s.cq ∧
    (∃ u, (s.pc u = .sgP x ∨ s.pc u = .bcP x) ∧ (step s (.push u x)).isSome ∧
      ∀ u', (s.pc u' = .sgP x ∨ s.pc u' = .bcP x) → u' = u) := by
  have hi := reachable_inv s h
  obtain ⟨u, hu⟩ := hi.dqC x hx
  refine ⟨hi.dqA x hx, fun hc => hi.dis x hc hx, u, hu, ?_, fun u' hu' => hi.carU u' u x hu' hu⟩
  rcases hu with e | e <;> simp [step, e]

theorem C05_push_once (s s' : St) (h : Reachable step init s) (t x : Tid)
    (hs : step s (.push t x) = some s') :
    x ∈ s.deqd ∧ x ∉ s'.deqd ∧ x ∉ s'.cq ∧ s'.pc x = .wWoken := by
  have hi := reachable_inv s h
  have hcar : s.pc t = .sgP x ∨ s.pc t = .bcP x := by
    simp only [step] at hs
    split at hs
    · left; assumption
    · split at hs
      · right; assumption
      · simp at hs
  have hxd := hi.car t x hcar
  have hxq := hi.dqA x hxd
  have hxt : x ≠ t := by intro e; subst e; rcases hcar with e | e <;> simp [e] at hxq
  have hnq : x ∉ s.cq := fun hc => hi.dis x hc hxd
  simp only [step] at hs
  split at hs
  · simp at hs; subst hs
    exact ⟨hxd, fun hm => ((List.Nodup.mem_erase_iff hi.dqN).mp hm).1 rfl, hnq, by simp [hxt]⟩
  · split at hs
    · simp at hs; subst hs
      exact ⟨hxd, fun hm => ((List.Nodup.mem_erase_iff hi.dqN).mp hm).1 rfl, hnq, by simp [hxt]⟩
    · simp at hs

/-- a waiter does not resume without a signal: while it is asleep (`wQ`) only a `push` by a
    signaler that dequeued it changes its program counter, and it performs no step itself -/
theorem C05_no_resume_without_signal (s s' : St) (l : Lbl) (w : Tid) (hw : s.pc w = .wQ)
    (hs : step s l = some s') : s'.pc w = .wQ ∨ (∃ u, l = .push u w ∧ s'.pc w = .wWoken) := by
  cases l <;> simp only [step] at hs
  case push u x =>
    by_cases hx : x = w
    · subst hx
      right
      refine ⟨u, rfl, ?_⟩
      split at hs
      · rename_i hp; simp at hs; subst hs
        have : x ≠ u := by intro e; subst e; simp [hw] at hp
        simp [this]
      · split at hs
        · rename_i hp; simp at hs; subst hs
          have : x ≠ u := by intro e; subst e; simp [hw] at hp
          simp [this]
        · simp at hs
    · left
      split at hs
      · rename_i hp; simp at hs; subst hs
        have : w ≠ u := by intro e; subst e; simp [hw] at hp
        simp [this, Ne.symm hx, hw]
      · split at hs
        · rename_i hp; simp at hs; subst hs
          have : w ≠ u := by intro e; subst e; simp [hw] at hp
          simp [this, Ne.symm hx, hw]
        · simp at hs
  all_goals (
    left
    repeat' (split at hs)
    all_goals (first | (simp at hs; done) | skip)
    all_goals (try (simp at hs; subst hs))
    all_goals (first | grind [upd_apply] | simp_all))

/-- **wait returns holding the mutex**: the only step that takes a woken waiter out of `wait` is
    its own acquisition of the mutex -/
theorem C05_wait_returns_locked (s s' : St) (l : Lbl) (w : Tid) (hw : s.pc w = .wWoken)
    (hs : step s l = some s') (hret : s'.pc w = .idle) : s'.holder = some w ∧ s.holder = none := by
  cases l <;> simp only [step] at hs
  case acquire t =>
    split at hs
    · rename_i hc; simp at hs; subst hs; simp [hw] at hret
    · split at hs
      · rename_i hc; simp at hs; subst hs
        by_cases e : w = t
        · subst e; exact ⟨rfl, hc.1⟩
        · simp [upd_apply, e, hw] at hret
      · simp at hs
  case push u x =>
    split at hs
    · rename_i hp; simp at hs; subst hs
      have : w ≠ u := by intro e; subst e; simp [hw] at hp
      grind [upd_apply]
    · split at hs
      · rename_i hp; simp at hs; subst hs
        have : w ≠ u := by intro e; subst e; simp [hw] at hp
        grind [upd_apply]
      · simp at hs
  all_goals (
    exfalso
    repeat' (split at hs)
    all_goals (first | (simp at hs; done) | skip)
    all_goals (try (simp at hs; subst hs))
    all_goals (first | grind [upd_apply] | simp_all))

/-! ### non-vacuity -/
def demo : List Lbl :=
  [.acquire 1, .waitStart 1, .blockBegin 1, .cbEnq 1, .cbRelease 1,
   .acquire 2, .waitStart 2, .blockBegin 2, .cbEnq 2, .cbRelease 2,
   .acquire 3, .bcStart 3, .bcDeq 3 (some 1), .push 3 1, .bcDeq 3 (some 2), .push 3 2, .bcDeq 3 none,
   .release 3, .acquire 1]

example : ∃ s, runs step init demo = some s ∧ s.holder = some 1 ∧ s.pc 1 = .idle ∧ s.pc 2 = .wWoken ∧
    s.cq = [] ∧ s.wakes 1 = 1 ∧ s.wakes 2 = 1 := by
  refine ⟨_, rfl, ?_⟩; decide

/-- a signaler without the mutex may dequeue a waiter whose callback has not released yet: allowed, and handled -/
example : ∃ s, runs step init [.acquire 1, .waitStart 1, .blockBegin 1, .cbEnq 1, .sigStart 2,
    .sigDeq 2 (some 1), .push 2 1, .cbRelease 1, .acquire 1] = some s ∧ s.holder = some 1 ∧ s.pc 1 = .idle := by
  refine ⟨_, rfl, ?_⟩; decide

end MythVerif.Cond
